(* Proofs/Cli.v -- lemmas for property C18 (CLI == Python API).
   Part 1: facts about the regenerated finite tables, decided by vm_compute and
           lifted to Prop with forallb_forall (bound: the tables themselves).
   Part 2: statements about the table-interpreting model, for ALL tables,
           configurations and terminal dictionaries. *)
From Coq Require Import String Ascii List ZArith Bool Lia.
From V Require Import Model.CliTypes Gen.CliTable Model.Cli.
Import ListNotations.
Local Open Scope string_scope.
Local Open Scope list_scope.

(* ------------------------------------------------------------ utilities *)
Lemma str_mem_In s l : str_mem s l = true <-> In s l.
Proof.
  unfold str_mem. rewrite existsb_exists. split.
  - intros [x [Hin Heq]]. apply String.eqb_eq in Heq. subst. exact Hin.
  - intros Hin. exists s. split; [exact Hin | apply String.eqb_refl].
Qed.

Lemma ty_eqb_eq a b : ty_eqb a b = true -> a = b.
Proof. destruct a, b; simpl; intros H; try reflexivity; discriminate H. Qed.

(* ================================================= Part 1: table facts *)

(* every documented key is read by the parser with the documented type *)
Definition doc_entry_parsed (d : string * string * ty) : bool :=
  let '(s, k, t) := d in
  if String.eqb s "files"
  then (str_mem k ("path" :: files_keys) && ty_eqb t TStr)%bool
  else existsb (fun e => (String.eqb (p_sec e) s && String.eqb (p_key e) k
                          && ty_eqb (p_ty e) t)%bool) parser_table.

Lemma doc_keys_parsed_b : forallb doc_entry_parsed doc_table = true.
Proof. vm_compute. reflexivity. Qed.

Lemma doc_keys_parsed_P : forall s k t, In (s, k, t) doc_table ->
  (s = "files" /\ In k ("path" :: files_keys) /\ t = TStr) \/
  (exists e, In e parser_table /\ p_sec e = s /\ p_key e = k /\ p_ty e = t).
Proof.
  intros s k t Hin.
  pose proof (proj1 (forallb_forall _ _) doc_keys_parsed_b _ Hin) as H.
  unfold doc_entry_parsed in H.
  destruct (String.eqb s "files") eqn:Hs.
  - left. apply String.eqb_eq in Hs. apply andb_true_iff in H. destruct H as [H1 H2].
    split; [exact Hs|]. split; [apply str_mem_In; exact H1 | apply ty_eqb_eq; exact H2].
  - right. apply existsb_exists in H. destruct H as [e [He H]].
    apply andb_true_iff in H. destruct H as [H H3].
    apply andb_true_iff in H. destruct H as [H1 H2].
    exists e. split; [exact He|].
    split; [apply String.eqb_eq; exact H1|].
    split; [apply String.eqb_eq; exact H2|]. symmetry. apply ty_eqb_eq.
    destruct (p_ty e), t; simpl in *; try reflexivity; discriminate H3.
Qed.

(* the key under which run.py hands an option to the API *)
Definition translate_key (path key : string) : string :=
  match filter (fun tr => (String.eqb (fst (fst tr)) path
                           && String.eqb (snd (fst tr)) key)%bool) key_translation with
  | tr :: _ => snd tr
  | [] => key
  end.

Definition accepted (path key : string) : bool :=
  match assoc path api_accepts with
  | Some ks => str_mem key ks
  | None => false
  end.

(* parents of a dotted path accept the child dictionaries:
   "a.b.c" -> accepted "a.b" "c" && accepted "a" "b" *)
Fixpoint nesting_ok_rev (rparts : list string) : bool :=
  match rparts with
  | [] => true
  | [_] => true
  | c :: ((_ :: _) as r) =>
      (accepted (String.concat "." (rev r)) c && nesting_ok_rev r)%bool
  end.
Definition nesting_ok (path : string) : bool :=
  nesting_ok_rev (rev (split "."%char path)).

Definition entry_accepted (e : pentry) : bool :=
  (accepted (p_path e) (translate_key (p_path e) (p_key e)) && nesting_ok (p_path e))%bool.

Lemma translate_opt_key o :
  translate_opt key_translation o =
  (fst (fst o), translate_key (fst (fst o)) (snd (fst o)), snd o).
Proof.
  unfold translate_opt, translate_key.
  destruct (filter _ key_translation); [destruct o as [[p k] v]|]; reflexivity.
Qed.

(* every section that can occur rejects unknown keys *)
Definition sections_reject_b : bool :=
  (forallb (fun d => str_mem (fst (fst d)) rejecting_sections) doc_table
   && forallb (fun s => str_mem s rejecting_sections) ("files" :: section_order)
   && forallb (fun e => str_mem (p_sec e) section_order) parser_table)%bool.

(* documented terminal flags exist, are consumed by the parser and override
   the documented option *)
Definition flag_ok (d : string * string * string) : bool :=
  let '(s, k, f) := d in
  existsb (fun a => (String.eqb (fst a) f && str_mem (snd a) term_consumed
                     && existsb (fun o => (String.eqb (o_dest o) (snd a) && String.eqb (o_sec o) s
                                           && String.eqb (o_key o) k)%bool) term_overrides)%bool)
          term_args.

(* argparse destinations and the keys the parser pops agree, so that neither
   "Unexpected parameter in **args_dict" nor a KeyError can arise *)
Definition term_args_consumed_b : bool :=
  (forallb (fun a => (str_mem (snd a) term_consumed || str_mem (snd a) term_popped_in_main)%bool)
           term_args
   && forallb (fun d => existsb (fun a => String.eqb (snd a) d) term_args) term_consumed)%bool.

Definition routes_b : bool :=
  (existsb (fun r => (String.eqb (fst r) "simulation_options" && String.eqb (snd r) "Simulation")%bool)
           routes
   && existsb (fun r => (String.eqb (fst r) "noise_kwargs" && String.eqb (snd r) "compute")%bool)
              routes)%bool.

Definition files_read_b : bool :=
  forallb (fun k => accepted "files" k) files_emitted.

(* ============================== Part 2: the model, for all tables/inputs *)
Section Generic.
  Variable tbl : list pentry.
  Variable defs : list pdefault.
  Variable tovs : list toverride.
  Variable rej : list string.
  Variable order : list string.
  Variable fkeys : list string.
  Variable fdefs : list (string * option string).
  Variable abspath : string -> string.

  Notation parse_w := (parse_with tbl defs tovs rej order fkeys fdefs abspath).
  Notation psec := (parse_section tbl defs tovs rej).
  Notation psecs := (parse_sections tbl defs tovs rej).

  Lemma parse_sections_ok c t fn secs os :
    psecs c t fn secs = Ok os ->
    forall s, In s secs -> exists os', psec c t fn s = Ok os' /\ incl os' os.
  Proof.
    revert os. induction secs as [|a r IH]; intros os H s Hin; [destruct Hin|].
    simpl in H.
    destruct (psec c t fn a) as [osa|] eqn:Ha; [|discriminate H].
    destruct (psecs c t fn r) as [osr|] eqn:Hr; [|discriminate H].
    injection H as <-.
    destruct Hin as [<-|Hin].
    - exists osa. split; [exact Ha | apply incl_appl, incl_refl].
    - destruct (IH osr eq_refl s Hin) as [os' [H1 H2]].
      exists os'. split; [exact H1 | apply incl_appr; exact H2].
  Qed.

  Lemma parse_ok_inv c t o :
    parse_w c t = Ok o ->
    t_extra t = false /\
    exists fs, parse_files rej fkeys fdefs abspath c t = Ok fs /\
               psecs c t (term_function t) order = Ok (o_opts o) /\
               o_files o = fs /\ o_function o = term_function t /\
               o_dry_run o = t_dry_run t /\ o_clean o = t_clean t.
  Proof.
    unfold parse_with. intros H.
    destruct (t_extra t); [discriminate H|]. split; [reflexivity|].
    destruct (parse_files rej fkeys fdefs abspath c t) as [fs|]; [|discriminate H].
    destruct (psecs c t (term_function t) order) as [os|]; [|discriminate H].
    injection H as <-. exists fs. simpl. repeat split; reflexivity.
  Qed.

  (* ---- unknown keys are rejected, per section *)
  Lemma unknown_key_rejected_g c t sec k v :
    In sec order -> str_mem sec rej = true ->
    In (k, v) (cfg_section c sec) -> known_key tbl sec k = false ->
    forall o, parse_w c t <> Ok o.
  Proof.
    intros Hsec Hrej Hkv Hunk o H.
    apply parse_ok_inv in H. destruct H as [_ [fs [_ [Hs _]]]].
    destruct (parse_sections_ok _ _ _ _ _ Hs sec Hsec) as [os' [Hp _]].
    unfold parse_section in Hp.
    destruct (read_entries defs tovs t (term_function t) (cfg_section c sec)
                           (sec_entries tbl sec)); [|discriminate Hp].
    rewrite Hrej, andb_true_r in Hp.
    destruct (section_unknown tbl sec (cfg_section c sec)) eqn:Hu; [discriminate Hp|].
    unfold section_unknown in Hu. apply negb_false_iff in Hu.
    pose proof (proj1 (forallb_forall _ _) Hu _ Hkv) as Hk. simpl in Hk.
    rewrite Hk in Hunk. discriminate Hunk.
  Qed.

  Lemma unknown_file_key_rejected_g c t k v :
    str_mem "files" rej = true ->
    In (k, v) (cfg_section c "files") -> k <> "path" -> ~ In k fkeys ->
    forall o, parse_w c t <> Ok o.
  Proof.
    intros Hrej Hkv Hp Hk o H.
    apply parse_ok_inv in H. destruct H as [_ [fs [Hf _]]].
    unfold parse_files in Hf.
    assert (Hu : files_unknown fkeys c = true).
    { unfold files_unknown. apply negb_true_iff.
      destruct (forallb _ (cfg_section c "files")) eqn:Hall; [|reflexivity].
      pose proof (proj1 (forallb_forall _ _) Hall _ Hkv) as Hx. simpl in Hx.
      apply orb_true_iff in Hx. destruct Hx as [Hx|Hx].
      - apply String.eqb_eq in Hx. contradiction.
      - apply str_mem_In in Hx. contradiction. }
    rewrite Hu, Hrej in Hf. simpl in Hf.
    destruct (file_choice fdefs c t "output") as [[|a s]|]; discriminate Hf.
  Qed.

  (* ---- what a successful parse stores for a table entry *)
  Lemma read_entries_In t fn kvs es os :
    read_entries defs tovs t fn kvs es = Ok os ->
    forall e, In e es ->
    exists ov, entry_value defs tovs t fn kvs e = Ok ov /\
               forall v, ov = Some v -> In (p_path e, p_key e, v) os.
  Proof.
    revert os. induction es as [|a r IH]; intros os H e Hin; [destruct Hin|].
    simpl in H.
    destruct (entry_value defs tovs t fn kvs a) as [ova|] eqn:Ha; [|discriminate H].
    destruct (read_entries defs tovs t fn kvs r) as [osr|] eqn:Hr; [|discriminate H].
    injection H as <-.
    destruct Hin as [<-|Hin].
    - exists ova. split; [exact Ha|]. intros v ->. left. reflexivity.
    - destruct (IH osr eq_refl e Hin) as [ov [H1 H2]].
      exists ov. split; [exact H1|]. intros v Hv. specialize (H2 v Hv).
      destruct ova; [right|]; exact H2.
  Qed.

  Lemma entry_stored c t o e :
    parse_w c t = Ok o -> In e tbl -> In (p_sec e) order ->
    exists ov, entry_value defs tovs t (term_function t) (cfg_section c (p_sec e)) e = Ok ov /\
               forall v, ov = Some v -> In (p_path e, p_key e, v) (o_opts o).
  Proof.
    intros H He Hsec.
    apply parse_ok_inv in H. destruct H as [_ [fs [_ [Hs _]]]].
    destruct (parse_sections_ok _ _ _ _ _ Hs _ Hsec) as [os' [Hp Hincl]].
    unfold parse_section in Hp.
    destruct (read_entries defs tovs t (term_function t) (cfg_section c (p_sec e))
                           (sec_entries tbl (p_sec e))) as [os1|] eqn:Hr; [|discriminate Hp].
    assert (Hos : os1 = os').
    { destruct (section_unknown tbl (p_sec e) (cfg_section c (p_sec e)) && str_mem (p_sec e) rej)%bool;
        [discriminate Hp | injection Hp as ->; reflexivity]. }
    subst os1.
    assert (Hin : In e (sec_entries tbl (p_sec e))).
    { unfold sec_entries. apply filter_In. split; [exact He | apply String.eqb_refl]. }
    destruct (read_entries_In _ _ _ _ _ Hr e Hin) as [ov [H1 H2]].
    exists ov. split; [exact H1|]. intros v Hv. apply Hincl. exact (H2 v Hv).
  Qed.

  (* the value handed on is the typed reading of the text *)
  Lemma typed_value_roundtrip_g c t o e s :
    parse_w c t = Ok o -> In e tbl -> In (p_sec e) order ->
    (forall dest, override_dest tovs e = Some dest -> term_value t dest = None) ->
    cfg_get c (p_sec e) (p_key e) = Some s ->
    exists ov, read_value (p_ty e) s = Ok ov /\
               forall v, ov = Some v -> In (p_path e, p_key e, v) (o_opts o).
  Proof.
    intros H He Hsec Hov Hget.
    destruct (entry_stored _ _ _ _ H He Hsec) as [ov [H1 H2]].
    exists ov. split; [|exact H2].
    unfold entry_value in H1. unfold cfg_get in Hget.
    destruct (override_dest tovs e) as [dest|] eqn:Hd.
    - rewrite (Hov dest eq_refl) in H1. unfold from_cfg in H1. rewrite Hget in H1. exact H1.
    - unfold from_cfg in H1. rewrite Hget in H1. exact H1.
  Qed.

  (* a terminal argument wins over whatever the file says *)
  Lemma terminal_overrides_file_g c t o e dest v :
    parse_w c t = Ok o -> In e tbl -> In (p_sec e) order ->
    override_dest tovs e = Some dest -> term_value t dest = Some v ->
    In (p_path e, p_key e, v) (o_opts o).
  Proof.
    intros H He Hsec Hd Hv.
    destruct (entry_stored _ _ _ _ H He Hsec) as [ov [H1 H2]].
    unfold entry_value in H1. rewrite Hd, Hv in H1. injection H1 as <-.
    apply H2. reflexivity.
  Qed.

  Lemma terminal_path_overrides_g c t p :
    t_path t = Some p -> files_path abspath c t = abspath p.
  Proof. intros H. unfold files_path. rewrite H. reflexivity. Qed.

  Lemma file_choice_terminal c t key f :
    term_file t key = Some f -> file_choice fdefs c t key = Some f.
  Proof. intros H. unfold file_choice. rewrite H. reflexivity. Qed.

  (* files: shape of a successful result *)
  Lemma parse_files_ok_inv c t fs :
    parse_files rej fkeys fdefs abspath c t = Ok fs ->
    let raw := map (fun k => (k, file_entry fdefs abspath c t k)) fkeys in
    let cache := match assoc "cache" raw with Some (Some f) => Some f | _ => None end in
    let no_cache := filter (fun kv => negb (String.eqb (fst kv) "cache")) raw in
    exists log,
      fs = match cache with
           | Some f => map (fun kv => if (String.eqb (fst kv) "load"
                                          || String.eqb (fst kv) "save")%bool
                                      then (fst kv, Some f) else kv) no_cache
           | None => no_cache
           end ++ [("log", log)].
  Proof.
    unfold parse_files. intros H.
    destruct (file_choice fdefs c t "output") as [[|a s]|]; try discriminate H.
    destruct (files_unknown fkeys c && str_mem "files" rej)%bool; [discriminate H|].
    injection H as <-. eexists. reflexivity.
  Qed.

  (* survey / model / output given on the terminal are used, whatever the file says *)
  Lemma terminal_file_overrides_g c t fs key f :
    parse_files rej fkeys fdefs abspath c t = Ok fs ->
    In key fkeys -> key <> "cache" -> key <> "load" -> key <> "save" ->
    term_file t key = Some f -> f <> "" ->
    In (key, Some (fix_suffix (join (files_path abspath c t) f))) fs.
  Proof.
    intros H Hk Hc Hl Hs Ht Hf.
    destruct (parse_files_ok_inv _ _ _ H) as [log ->].
    apply in_or_app. left.
    assert (He : file_entry fdefs abspath c t key
                 = Some (fix_suffix (join (files_path abspath c t) f))).
    { unfold file_entry. rewrite (file_choice_terminal c t key f Ht).
      destruct f; [contradiction Hf; reflexivity | reflexivity]. }
    assert (Hraw : In (key, Some (fix_suffix (join (files_path abspath c t) f)))
                      (filter (fun kv : string * option string => negb (String.eqb (fst kv) "cache"))
                              (map (fun k => (k, file_entry fdefs abspath c t k)) fkeys))).
    { apply filter_In. split.
      - rewrite <- He. apply (in_map (fun k => (k, file_entry fdefs abspath c t k))). exact Hk.
      - simpl. apply negb_true_iff. apply String.eqb_neq. exact Hc. }
    destruct (match assoc "cache" _ with Some (Some f0) => Some f0 | _ => None end) as [cf|].
    - apply in_map_iff. eexists. split; [|exact Hraw]. simpl.
      apply String.eqb_neq in Hl. apply String.eqb_neq in Hs. rewrite Hl, Hs. reflexivity.
    - exact Hraw.
  Qed.

  (* ------------------------------------------------------------- run *)
  Variable trans : list (string * string * string).
  Variable cmode : string.
  Notation run_w := (run_with trans cmode).

  Definition is_compute (cl : call) : bool :=
    match cl with
    | CCompute _ _ | CGetObserved | CGetSynthetic | CGetMisfit | CGetGradient => true
    | _ => false
    end.

  (* the reference: what a user of the Python API calls for each function *)
  Definition api_script (fn : string) (noise : list opt) : list call :=
    if String.eqb fn "forward" then [CCompute true noise; CGetObserved]
    else if String.eqb fn "misfit" then [CCompute false []; CGetSynthetic; CGetMisfit]
    else [CCompute false []; CGetSynthetic; CGetMisfit; CGetGradient].

  Lemma setup_no_compute o sl : filter is_compute (setup_calls trans cmode o sl) = [].
  Proof.
    unfold setup_calls.
    destruct (file_of o "load").
    - rewrite !filter_app. simpl.
      destruct (o_clean o); simpl.
      + destruct (gopt o "expand"); simpl;
          destruct (Bool.eqb sl (wants_layered o)); reflexivity.
      + destruct (Bool.eqb sl (wants_layered o)); reflexivity.
    - simpl. rewrite filter_app. simpl.
      destruct (data_opts o); reflexivity.
  Qed.

  Lemma save_no_compute o : filter is_compute (save_calls o) = [].
  Proof. unfold save_calls. destruct (file_of o "save"); reflexivity. Qed.

  Lemma run_equiv_g o sl :
    o_dry_run o = false ->
    In (o_function o) ["forward"; "misfit"; "gradient"] ->
    filter is_compute (run_w o true sl) = api_script (o_function o) (noise_opts o).
  Proof.
    intros Hd Hfn. unfold run_with.
    rewrite !filter_app, setup_no_compute, save_no_compute, app_nil_r. simpl.
    unfold compute_calls, api_script, is_misfit_fn. rewrite Hd.
    destruct Hfn as [<-|[<-|[<-|[]]]]; reflexivity.
  Qed.

  Lemma dry_run_computes_nothing_g o sl :
    o_dry_run o = true -> filter is_compute (run_w o true sl) = [].
  Proof.
    intros Hd. unfold run_with.
    rewrite !filter_app, setup_no_compute, save_no_compute, app_nil_r. simpl.
    unfold compute_calls. rewrite Hd.
    destruct (is_misfit_fn (o_function o)), (String.eqb (o_function o) "gradient"); reflexivity.
  Qed.

  Lemma output_written_last_g o sl :
    exists pre, run_w o true sl
                = pre ++ [CSaveOut (file_str o "output") (out_keys (o_function o))].
  Proof.
    unfold run_with, save_calls.
    exists (setup_calls trans cmode o sl ++ compute_calls o
            ++ match file_of o "save" with Some f => [CSaveSim f] | None => [] end).
    rewrite <- !app_assoc. reflexivity.
  Qed.

  (* without `load`, the Simulation is built from ALL parsed simulation options *)
  Lemma new_sim_gets_all_options_g o sl :
    file_of o "load" = None ->
    In (CNewSim (sim_opts trans o) (Z.ltb (o_verbosity o) 1)) (run_w o true sl) /\
    forall op, In op (opt_dedup (o_opts o)) -> under "simulation_options" op = true ->
               In (translate_opt trans op) (sim_opts trans o).
  Proof.
    intros Hl. split.
    - unfold run_with, setup_calls. rewrite Hl.
      apply in_or_app. left. apply in_or_app. right. apply in_or_app. right. left. reflexivity.
    - intros op Hin Hu. unfold sim_opts. apply in_map. apply filter_In. split; assumption.
  Qed.

  (* --load + --clean: the loaded simulation is cleaned with [cmode] and gets
     the new model BEFORE anything is computed or read from it *)
  Lemma clean_branch_g o sl f :
    file_of o "load" = Some f -> o_clean o = true ->
    exists rest, run_w o true sl
                 = [CLoadSim f; CClean cmode; CLoadModel (file_str o "model"); CSetModel] ++ rest
                 /\ filter is_compute rest = filter is_compute (compute_calls o).
  Proof.
    intros Hl Hc. unfold run_with, setup_calls. rewrite Hl, Hc.
    eexists. split.
    - simpl. reflexivity.
    - rewrite !filter_app, save_no_compute, app_nil_r.
      destruct (gopt o "expand"); simpl;
        destruct (Bool.eqb sl (wants_layered o)); reflexivity.
  Qed.

  Definition is_build (cl : call) : bool :=
    match cl with
    | CNewSim _ _ | CLoadSurvey _ | CSelect _ => true
    | _ => false
    end.

  (* with `load`, survey and simulation options of the file are not used *)
  Lemma load_ignores_config_g o sl f :
    file_of o "load" = Some f ->
    filter is_build (run_w o true sl) = [] /\ In (CLoadSim f) (run_w o true sl).
  Proof.
    intros Hl. unfold run_with, setup_calls. rewrite Hl. split.
    - rewrite !filter_app. simpl.
      assert (Hc : filter is_build (compute_calls o) = []).
      { unfold compute_calls.
        destruct (o_dry_run o), (String.eqb (o_function o) "forward"),
          (is_misfit_fn (o_function o)), (String.eqb (o_function o) "gradient"); reflexivity. }
      assert (Hs : filter is_build (save_calls o) = []).
      { unfold save_calls. destruct (file_of o "save"); reflexivity. }
      rewrite Hc, Hs.
      destruct (o_clean o); simpl.
      + destruct (gopt o "expand"); simpl;
          destruct (Bool.eqb sl (wants_layered o)); reflexivity.
      + destruct (Bool.eqb sl (wants_layered o)); reflexivity.
    - left. reflexivity.
  Qed.
End Generic.

(* clean(mode) leaves nothing of [wanted] behind when mode resets all of it *)
Lemma clean_removes resets mode wanted :
  forallb (fun n => str_mem n (resets_of resets mode)) wanted = true ->
  forall st n, In n wanted -> ~ In n (apply_clean resets mode st).
Proof.
  intros H st n Hn Hin. unfold apply_clean in Hin. apply filter_In in Hin.
  destruct Hin as [_ Hf]. apply negb_true_iff in Hf.
  pose proof (proj1 (forallb_forall _ _) H n Hn) as Hm. cbv beta in Hm.
  rewrite Hm in Hf. discriminate Hf.
Qed.

(* ---- [data] lists: order as written, no de-duplication ------------------- *)
(* the string does not contain the character c *)
Fixpoint lacks (c : ascii) (s : string) : bool :=
  match s with
  | EmptyString => true
  | String d r => (negb (Ascii.eqb d c) && lacks c r)%bool
  end.

Lemma split_lacks c s : lacks c s = true -> split c s = [s].
Proof.
  induction s as [|d r IH]; intros H; [reflexivity|].
  simpl in H. apply andb_true_iff in H. destruct H as [Hd Hr].
  apply negb_true_iff in Hd. simpl. rewrite Hd, (IH Hr). reflexivity.
Qed.

Lemma split_app c a t :
  lacks c a = true -> split c (String.append a (String c t)) = a :: split c t.
Proof.
  induction a as [|d r IH]; intros H.
  - simpl. rewrite Ascii.eqb_refl. reflexivity.
  - simpl in H. apply andb_true_iff in H. destruct H as [Hd Hr].
    apply negb_true_iff in Hd. simpl. rewrite Hd, (IH Hr). reflexivity.
Qed.

Lemma split_concat c names :
  names <> [] -> Forall (fun n => lacks c n = true) names ->
  split c (String.concat (String c EmptyString) names) = names.
Proof.
  induction names as [|a r IH]; intros Hne Hall; [contradiction Hne; reflexivity|].
  inversion Hall as [|x l Ha Hr]; subst.
  destruct r as [|b r'].
  - simpl. apply split_lacks. exact Ha.
  - change (String.concat (String c EmptyString) (a :: b :: r'))
      with (String.append a (String.append (String c EmptyString)
                                           (String.concat (String c EmptyString) (b :: r')))).
    change (String.append (String c EmptyString) (String.concat (String c EmptyString) (b :: r')))
      with (String c (String.concat (String c EmptyString) (b :: r'))).
    rewrite (split_app c a _ Ha). f_equal. apply IH; [discriminate | exact Hr].
Qed.

(* Whatever list of names is written (comma separated, names without commas
   and without surrounding blanks), the parser hands on exactly that list:
   same order, repeated names kept. *)
Lemma strlist_as_written names :
  names <> [] ->
  Forall (fun n => lacks ","%char n = true /\ trim n = n) names ->
  String.concat "," names <> EmptyString ->
  read_value TStrList (String.concat "," names) = Ok (Some (VStrs names)).
Proof.
  intros Hne Hall Hs. unfold read_value.
  destruct (String.concat "," names) eqn:E; [contradiction Hs; reflexivity|].
  rewrite <- E.
  rewrite (split_concat ","%char names Hne).
  - f_equal. f_equal. f_equal.
    rewrite <- (map_id names) at 2. apply map_ext_in.
    intros n Hn. rewrite Forall_forall in Hall. exact (proj2 (Hall n Hn)).
  - rewrite Forall_forall in *. intros n Hn. exact (proj1 (Hall n Hn)).
Qed.
