(* Proofs/Layered.v -- C19: lemmas about Model/Layered.v.
   Part 1: sums and index scans.  Part 2: the interpolation matrix (weights
   non-negative, sum one).  Part 3: lateral invariance of the extraction.
   Part 4: the receiver loop (responses, finite mask).  Part 5: the
   finite-difference gradient summed over a layer.  Part 6: merge. *)
From Coq Require Import ZArith Bool List String Reals Lra Lia Psatz.
From V Require Import Base.FieldSig Model.Layered.
Import ListNotations.
Local Open Scope Z_scope.

Ltac rsimp := cbn [F0 F1 Fadd Fmul Fsub Fopp Fdiv Finv LROps] in *.

(* ------------------------------------------------------------ 1. sums -- *)
Section RSums.
  Local Open Scope R_scope.
  Notation nsumR := (@nsum R LROps).
  Notation zsumR := (@zsum R LROps).
  Notation zsum2R := (@zsum2 R LROps).

  Lemma nsum_ext n : forall lo f h,
    (forall i, (lo <= i < lo + Z.of_nat n)%Z -> f i = h i) -> nsumR n lo f = nsumR n lo h.
  Proof.
    induction n as [|n IH]; intros lo f h H; [reflexivity|].
    cbn [nsum]. rsimp. rewrite (H lo) by lia. f_equal. apply IH. intros i Hi. apply H. lia.
  Qed.
  Lemma zsum_ext lo hi f h :
    (forall i, (lo <= i < hi)%Z -> f i = h i) -> zsumR lo hi f = zsumR lo hi h.
  Proof. intros H. unfold zsum. apply nsum_ext. intros i Hi. apply H. lia. Qed.

  Lemma zsum_empty lo hi f : (hi <= lo)%Z -> zsumR lo hi f = 0.
  Proof. intros H. unfold zsum. replace (Z.to_nat (hi - lo)) with 0%nat by lia. reflexivity. Qed.
  Lemma zsum_first lo hi f : (lo < hi)%Z -> zsumR lo hi f = f lo + zsumR (lo + 1) hi f.
  Proof.
    intros H. unfold zsum.
    replace (Z.to_nat (hi - lo)) with (Datatypes.S (Z.to_nat (hi - (lo + 1)))) by lia.
    reflexivity.
  Qed.
  Lemma nsum_app n : forall m lo f,
    nsumR (n + m) lo f = nsumR n lo f + nsumR m (lo + Z.of_nat n) f.
  Proof.
    induction n as [|n IH]; intros m lo f.
    - cbn [nsum plus]. rsimp. replace (lo + Z.of_nat 0)%Z with lo by lia. lra.
    - cbn [nsum plus]. rsimp. rewrite IH.
      replace (lo + 1 + Z.of_nat n)%Z with (lo + Z.of_nat (Datatypes.S n))%Z by lia. lra.
  Qed.
  Lemma zsum_split lo mid hi f : (lo <= mid <= hi)%Z ->
    zsumR lo hi f = zsumR lo mid f + zsumR mid hi f.
  Proof.
    intros H. unfold zsum.
    replace (Z.to_nat (hi - lo)) with (Z.to_nat (mid - lo) + Z.to_nat (hi - mid))%nat by lia.
    rewrite nsum_app. do 2 f_equal. lia.
  Qed.
  Lemma zsum_zero lo hi f : (forall i, (lo <= i < hi)%Z -> f i = 0) -> zsumR lo hi f = 0.
  Proof.
    intros H. destruct (Z_le_gt_dec hi lo) as [Hle|Hgt]; [now apply zsum_empty|].
    unfold zsum. rewrite (nsum_ext _ lo f (fun _ => 0)) by (intros; apply H; lia).
    generalize (Z.to_nat (hi - lo)) as n. generalize lo as l.
    intros l n; revert l. induction n as [|n IH]; intros l; cbn [nsum]; rsimp;
      [reflexivity | rewrite IH; lra].
  Qed.
  Lemma nsum_scal n : forall lo f c, nsumR n lo (fun i => f i * c) = nsumR n lo f * c.
  Proof.
    induction n as [|n IH]; intros lo f c; cbn [nsum]; rsimp; [lra | rewrite IH; lra].
  Qed.
  Lemma zsum_scal lo hi f c : zsumR lo hi (fun i => f i * c) = zsumR lo hi f * c.
  Proof. unfold zsum. apply nsum_scal. Qed.
  Lemma nsum_add n : forall lo f h,
    nsumR n lo (fun i => f i + h i) = nsumR n lo f + nsumR n lo h.
  Proof.
    induction n as [|n IH]; intros lo f h; cbn [nsum]; rsimp; [lra | rewrite IH; lra].
  Qed.
  Lemma zsum_add lo hi f h : zsumR lo hi (fun i => f i + h i) = zsumR lo hi f + zsumR lo hi h.
  Proof. unfold zsum. apply nsum_add. Qed.
  Lemma zsum_nonneg lo hi f : (forall i, (lo <= i < hi)%Z -> 0 <= f i) -> 0 <= zsumR lo hi f.
  Proof.
    intros H. unfold zsum.
    assert (G : forall n l, (lo <= l)%Z -> (l + Z.of_nat n <= Z.max lo hi)%Z -> 0 <= nsumR n l f).
    { induction n as [|n IH]; intros l Hl Hn; cbn [nsum]; rsimp; [lra|].
      assert (0 <= f l) by (apply H; lia).
      assert (0 <= nsumR n (l + 1)%Z f) by (apply IH; lia). lra. }
    apply G; lia.
  Qed.
  Lemma zsum_pos lo hi f t :
    (forall i, (lo <= i < hi)%Z -> 0 <= f i) -> (lo <= t < hi)%Z -> 0 < f t ->
    0 < zsumR lo hi f.
  Proof.
    intros Hnn Ht Hp.
    rewrite (zsum_split lo t hi) by lia. rewrite (zsum_first t hi) by lia.
    assert (0 <= zsumR lo t f) by (apply zsum_nonneg; intros; apply Hnn; lia).
    assert (0 <= zsumR (t + 1) hi f) by (apply zsum_nonneg; intros; apply Hnn; lia).
    lra.
  Qed.
  (* a sum of terms that vanish outside [a, b] *)
  Lemma zsum_restrict n a b f :
    (0 <= a)%Z -> (a <= b + 1)%Z -> (b < n)%Z ->
    zsumR 0 n (fun i => if ((a <=? i) && (i <=? b))%Z then f i else 0) = zsumR a (b + 1) f.
  Proof.
    intros Ha Hab Hb.
    rewrite (zsum_split 0 a n) by lia. rewrite (zsum_split a (b + 1) n) by lia.
    rewrite (zsum_zero 0 a), (zsum_zero (b + 1) n).
    - rewrite (zsum_ext a (b + 1) _ f); [lra|].
      intros i Hi. replace (a <=? i)%Z with true by (symmetry; lia).
      replace (i <=? b)%Z with true by (symmetry; lia). reflexivity.
    - intros i Hi. replace (i <=? b)%Z with false by (symmetry; lia).
      now rewrite andb_false_r.
    - intros i Hi. replace (a <=? i)%Z with false by (symmetry; lia). reflexivity.
  Qed.

  Lemma zsum2_box nx ny six eix siy eiy (f : Z -> Z -> R) :
    (0 <= six <= eix)%Z -> (eix < nx)%Z -> (0 <= siy <= eiy)%Z -> (eiy < ny)%Z ->
    zsum2R nx ny (fun i j => if in_box (six, eix, siy, eiy) i j then f i j else 0)
    = zsumR six (eix + 1) (fun i => zsumR siy (eiy + 1) (fun j => f i j)).
  Proof.
    intros Hx Hx' Hy Hy'. unfold zsum2, in_box.
    rewrite <- (zsum_restrict nx six eix) by lia.
    apply zsum_ext. intros i Hi.
    destruct ((six <=? i) && (i <=? eix))%Z eqn:E.
    - rewrite <- (zsum_restrict ny siy eiy) by lia.
      apply zsum_ext. intros j Hj. reflexivity.
    - apply zsum_zero. intros j Hj. reflexivity.
  Qed.
  Lemma zsum2_ext nx ny (f h : Z -> Z -> R) :
    (forall i j, (0 <= i < nx)%Z -> (0 <= j < ny)%Z -> f i j = h i j) ->
    zsum2R nx ny f = zsum2R nx ny h.
  Proof.
    intros H. unfold zsum2. apply zsum_ext. intros i Hi. apply zsum_ext. intros j Hj.
    now apply H.
  Qed.
  Lemma zsum2_scal nx ny (f : Z -> Z -> R) c :
    zsum2R nx ny (fun i j => f i j * c) = zsum2R nx ny f * c.
  Proof.
    unfold zsum2. rewrite <- zsum_scal. apply zsum_ext. intros i _. apply zsum_scal.
  Qed.
  Lemma zsum2_add nx ny (f h : Z -> Z -> R) :
    zsum2R nx ny (fun i j => f i j + h i j) = zsum2R nx ny f + zsum2R nx ny h.
  Proof.
    unfold zsum2. rewrite <- zsum_add. apply zsum_ext. intros i _. apply zsum_add.
  Qed.
  Lemma zsum2_zero nx ny : zsum2R nx ny (fun _ _ => 0) = 0.
  Proof. unfold zsum2. apply zsum_zero. intros i _. now apply zsum_zero. Qed.
End RSums.

(* ----------------------------------------------------------- 1b. scans -- *)
Lemma first_from_some n : forall i p r, first_from n i p = Some r ->
  i <= r < i + Z.of_nat n /\ p r = true /\ forall t, i <= t < r -> p t = false.
Proof.
  induction n as [|n IH]; intros i p r H; [discriminate|].
  cbn [first_from] in H. destruct (p i) eqn:E.
  - inversion H; subst. repeat split; try lia; auto; try (intros; lia).
  - apply IH in H. destruct H as (H1 & H2 & H3). repeat split; try lia; auto.
    intros t Ht. destruct (Z.eq_dec t i) as [->|]; auto. apply H3. lia.
Qed.
Lemma first_from_none n : forall i p, first_from n i p = None ->
  forall t, i <= t < i + Z.of_nat n -> p t = false.
Proof.
  induction n as [|n IH]; intros i p H t Ht; [lia|].
  cbn [first_from] in H. destruct (p i) eqn:E; [discriminate|].
  destruct (Z.eq_dec t i) as [->|]; auto. apply (IH _ _ H). lia.
Qed.
Lemma last_from_some n : forall i p r, last_from n i p = Some r ->
  i - Z.of_nat n < r <= i /\ p r = true /\ forall t, r < t <= i -> p t = false.
Proof.
  induction n as [|n IH]; intros i p r H; [discriminate|].
  cbn [last_from] in H. destruct (p i) eqn:E.
  - inversion H; subst. repeat split; try lia; auto; try (intros; lia).
  - apply IH in H. destruct H as (H1 & H2 & H3). repeat split; try lia; auto.
    intros t Ht. destruct (Z.eq_dec t i) as [->|]; auto. apply H3. lia.
Qed.
Lemma last_from_none n : forall i p, last_from n i p = None ->
  forall t, i - Z.of_nat n < t <= i -> p t = false.
Proof.
  induction n as [|n IH]; intros i p H t Ht; [lia|].
  cbn [last_from] in H. destruct (p i) eqn:E; [discriminate|].
  destruct (Z.eq_dec t i) as [->|]; auto. apply (IH _ _ H). lia.
Qed.

Lemma zfirst_some lo hi p r : zfirst lo hi p = Some r ->
  lo <= r < hi /\ p r = true /\ forall t, lo <= t < r -> p t = false.
Proof. unfold zfirst. intros H. apply first_from_some in H. intuition lia. Qed.
Lemma zfirst_none lo hi p : zfirst lo hi p = None -> forall t, lo <= t < hi -> p t = false.
Proof. unfold zfirst. intros H t Ht. apply (first_from_none _ _ _ H). lia. Qed.
Lemma zlast_some lo hi p r : zlast lo hi p = Some r ->
  lo <= r < hi /\ p r = true /\ forall t, r < t < hi -> p t = false.
Proof.
  unfold zlast. intros H. apply last_from_some in H. destruct H as (H1 & H2 & H3).
  repeat split; try lia; auto. intros t Ht. apply H3. lia.
Qed.
Lemma zlast_none lo hi p : zlast lo hi p = None -> forall t, lo <= t < hi -> p t = false.
Proof. unfold zlast. intros H t Ht. apply (last_from_none _ _ _ H). lia. Qed.
Lemma zany_true lo hi p : zany lo hi p = true <-> exists t, lo <= t < hi /\ p t = true.
Proof.
  unfold zany. destruct (zfirst lo hi p) eqn:E; split; intros H; try discriminate; auto.
  - apply zfirst_some in E. exists z. tauto.
  - destruct H as (t & Ht & Hp). rewrite (zfirst_none _ _ _ E t Ht) in Hp. discriminate.
Qed.

(* the bounding box of a mask: inside the grid, ordered, contains every used
   cell and at least one *)
Lemma bbox_some nx ny use six eix siy eiy :
  bbox nx ny use = Some (six, eix, siy, eiy) ->
  0 <= six <= eix /\ eix < nx /\ 0 <= siy <= eiy /\ eiy < ny /\
  (forall i j, 0 <= i < nx -> 0 <= j < ny -> use i j = true ->
               in_box (six, eix, siy, eiy) i j = true) /\
  (exists i j, in_box (six, eix, siy, eiy) i j = true /\ use i j = true).
Proof.
  unfold bbox. intros H.
  destruct (zfirst 0 nx _) as [a|] eqn:E1; [|discriminate].
  destruct (zlast 0 nx _) as [b|] eqn:E2; [|discriminate].
  destruct (zfirst 0 ny _) as [c|] eqn:E3; [|discriminate].
  destruct (zlast 0 ny _) as [d|] eqn:E4; [|discriminate].
  inversion H; subst a b c d; clear H.
  apply zfirst_some in E1. apply zlast_some in E2.
  apply zfirst_some in E3. apply zlast_some in E4.
  destruct E1 as (R1 & P1 & N1), E2 as (R2 & P2 & N2), E3 as (R3 & P3 & N3), E4 as (R4 & P4 & N4).
  assert (Hx : six <= eix).
  { destruct (Z_le_gt_dec six eix); auto. rewrite N2 in P1 by lia. discriminate. }
  assert (Hy : siy <= eiy).
  { destruct (Z_le_gt_dec siy eiy); auto. rewrite N4 in P3 by lia. discriminate. }
  assert (Hin : forall i j, 0 <= i < nx -> 0 <= j < ny -> use i j = true ->
                            in_box (six, eix, siy, eiy) i j = true).
  { intros i j Hi Hj U. unfold in_box.
    assert (A1 : zany 0 ny (fun j0 => use i j0) = true) by (apply zany_true; eauto).
    assert (A2 : zany 0 nx (fun i0 => use i0 j) = true) by (apply zany_true; eauto).
    assert (six <= i) by (destruct (Z_le_gt_dec six i); auto; rewrite N1 in A1 by lia; discriminate).
    assert (i <= eix) by (destruct (Z_le_gt_dec i eix); auto; rewrite N2 in A1 by lia; discriminate).
    assert (siy <= j) by (destruct (Z_le_gt_dec siy j); auto; rewrite N3 in A2 by lia; discriminate).
    assert (j <= eiy) by (destruct (Z_le_gt_dec j eiy); auto; rewrite N4 in A2 by lia; discriminate).
    repeat (apply andb_true_intro; split); lia. }
  repeat split; try lia; auto.
  apply zany_true in P1. destruct P1 as (j & Hj & U).
  exists six, j. split; [|exact U]. apply Hin; [lia|lia|exact U].
Qed.
Lemma bbox_none nx ny use : bbox nx ny use = None ->
  forall i j, 0 <= i < nx -> 0 <= j < ny -> use i j = false.
Proof.
  unfold bbox. intros H i j Hi Hj. destruct (use i j) eqn:U; auto. exfalso.
  assert (A1 : zany 0 ny (fun j0 => use i j0) = true) by (apply zany_true; eauto).
  assert (A2 : zany 0 nx (fun i0 => use i0 j) = true) by (apply zany_true; eauto).
  destruct (zfirst 0 nx _) as [a|] eqn:E1.
  2:{ rewrite (zfirst_none _ _ _ E1 i Hi) in A1. discriminate. }
  destruct (zlast 0 nx _) as [b|] eqn:E2.
  2:{ rewrite (zlast_none _ _ _ E2 i Hi) in A1. discriminate. }
  destruct (zfirst 0 ny _) as [c|] eqn:E3.
  2:{ rewrite (zfirst_none _ _ _ E3 j Hj) in A2. discriminate. }
  destruct (zlast 0 ny _) as [d|] eqn:E4.
  2:{ rewrite (zlast_none _ _ _ E4 j Hj) in A2. discriminate. }
  discriminate.
Qed.

Lemma in_zrange lo hi t : In t (zrange lo hi) <-> lo <= t < hi.
Proof.
  unfold zrange. rewrite in_map_iff. split.
  - intros (x & <- & Hx). apply in_seq in Hx. lia.
  - intros H. exists (Z.to_nat (t - lo)). split; [lia|]. apply in_seq. lia.
Qed.
Lemma zrange_length lo hi : List.length (zrange lo hi) = Z.to_nat (hi - lo).
Proof. unfold zrange. now rewrite map_length, seq_length. Qed.
Lemma zrange_nth lo hi n d : (n < Z.to_nat (hi - lo))%nat ->
  nth n (zrange lo hi) d = lo + Z.of_nat n.
Proof.
  intros H. unfold zrange.
  rewrite (nth_indep _ d (lo + Z.of_nat 0)) by (now rewrite map_length, seq_length).
  rewrite (map_nth (fun t => lo + Z.of_nat t)). now rewrite seq_nth.
Qed.

(* ------------------------------------------- 2. the interpolation matrix -- *)
Lemma in_box_true a b c d i j :
  in_box (a, b, c, d) i j = true <-> (a <= i <= b /\ c <= j <= d).
Proof.
  unfold in_box. rewrite !andb_true_iff, !Z.leb_le. tauto.
Qed.

Section Imat.
  Local Open Scope R_scope.
  Variable leb : R -> R -> bool.          (* any comparison: the results do not depend on it *)
  Variable g : @grid R.
  Hypothesis nx_pos : (1 <= g_nx g)%Z.
  Hypothesis ny_pos : (1 <= g_ny g)%Z.
  Hypothesis hx_pos : forall i, (0 <= i < g_nx g)%Z -> 0 < g_hx g i.
  Hypothesis hy_pos : forall j, (0 <= j < g_ny g)%Z -> 0 < g_hy g j.

  Lemma cell_index_range x0 h n coo : (1 <= n)%Z -> (0 <= cell_index leb x0 h n coo < n)%Z.
  Proof. intros H. unfold cell_index. destruct (zfirst _ _ _); lia. Qed.

  (* the selection is either one cell of the grid (midpoint, or the fallback
     for an empty mask) or the bounding box of a non-empty mask *)
  Lemma sel_cases m use p0 p1 :
    (exists ix iy, sel leb g m use p0 p1 = (true, (ix, ix, iy, iy)) /\
                   (0 <= ix < g_nx g)%Z /\ (0 <= iy < g_ny g)%Z /\
                   (m = XMid \/ bbox (g_nx g) (g_ny g) use = None)) \/
    (exists b, sel leb g m use p0 p1 = (false, b) /\ m <> XMid /\
               bbox (g_nx g) (g_ny g) use = Some b).
  Proof.
    unfold sel.
    set (ix := cell_index leb (g_x0 g) (g_hx g) (g_nx g) _).
    set (iy := cell_index leb (g_y0 g) (g_hy g) (g_ny g) _).
    assert (Hx : (0 <= ix < g_nx g)%Z) by (apply cell_index_range; lia).
    assert (Hy : (0 <= iy < g_ny g)%Z) by (apply cell_index_range; lia).
    destruct m.
    - left. exists ix, iy. auto.
    - destruct (bbox _ _ use) as [b|] eqn:E.
      + right. exists b. repeat split; auto. discriminate.
      + left. exists ix, iy. auto.
    - destruct (bbox _ _ use) as [b|] eqn:E.
      + right. exists b. repeat split; auto. discriminate.
      + left. exists ix, iy. auto.
  Qed.

  Lemma pp_nonneg m use i j : (0 <= i < g_nx g)%Z -> (0 <= j < g_ny g)%Z -> 0 <= pp g m use i j.
  Proof.
    intros Hi Hj. pose proof (hx_pos i Hi). pose proof (hy_pos j Hj).
    unfold pp, b2f. destruct m; rsimp; try (apply Rlt_le; apply Rmult_lt_0_compat; lra).
    destruct (use i j); rsimp; nra.
  Qed.
  Lemma pp_pos m use i j : (0 <= i < g_nx g)%Z -> (0 <= j < g_ny g)%Z ->
    (m = XCyl -> use i j = true) -> 0 < pp g m use i j.
  Proof.
    intros Hi Hj Hu. pose proof (hx_pos i Hi). pose proof (hy_pos j Hj).
    unfold pp, b2f. destruct m; rsimp; try (apply Rmult_lt_0_compat; lra).
    rewrite Hu by reflexivity. rsimp. nra.
  Qed.

  Lemma pp_total_pos m use b : m <> XMid -> bbox (g_nx g) (g_ny g) use = Some b ->
    0 < pp_total g m use b.
  Proof.
    intros Hm Hb. destruct b as [[[six eix] siy] eiy].
    destruct (bbox_some _ _ _ _ _ _ _ Hb) as (Hx & Hx' & Hy & Hy' & _ & (i0 & j0 & Hin & Hu)).
    apply in_box_true in Hin. unfold pp_total.
    apply (zsum_pos _ _ _ i0); try lia.
    - intros i Hi. apply zsum_nonneg. intros j Hj. apply pp_nonneg; lia.
    - apply (zsum_pos _ _ _ j0); try lia.
      + intros j Hj. apply pp_nonneg; lia.
      + apply pp_pos; try lia. auto.
  Qed.

  (* imat_nonneg_sum_one *)
  Lemma imat_props m use p0 p1 :
    let im := imat_of g m use (sel leb g m use p0 p1) in
    (forall i j, 0 <= im i j) /\
    @zsum2 R LROps (g_nx g) (g_ny g) im = 1 /\
    (forall i j, ~ ((0 <= i < g_nx g)%Z /\ (0 <= j < g_ny g)%Z) -> im i j = 0).
  Proof.
    intros im. subst im.
    destruct (sel_cases m use p0 p1) as [(ix & iy & -> & Hx & Hy & _) | (b & -> & Hm & Hb)].
    - cbn [imat_of]. rsimp. repeat split.
      + intros i j. destruct (in_box _ i j); lra.
      + rewrite (zsum2_box (g_nx g) (g_ny g) ix ix iy iy (fun _ _ => 1)) by lia.
        rewrite zsum_first by lia. rewrite (zsum_empty (ix + 1)) by lia.
        rewrite zsum_first by lia. rewrite (zsum_empty (iy + 1)) by lia. rsimp. lra.
      + intros i j Hn. destruct (in_box _ i j) eqn:E; [|reflexivity].
        apply in_box_true in E. exfalso. apply Hn. lia.
    - cbn [imat_of]. pose proof (pp_total_pos m use b Hm Hb) as Ht.
      destruct b as [[[six eix] siy] eiy].
      destruct (bbox_some _ _ _ _ _ _ _ Hb) as (Hx & Hx' & Hy & Hy' & _ & _).
      set (tot := pp_total g m use (six, eix, siy, eiy)) in *.
      repeat split.
      + intros i j. destruct (in_box _ i j) eqn:E; rsimp; [|lra].
        apply in_box_true in E.
        assert (0 <= pp g m use i j) by (apply pp_nonneg; lia).
        unfold Rdiv. apply Rmult_le_pos; auto. apply Rlt_le. now apply Rinv_0_lt_compat.
      + rewrite (zsum2_box (g_nx g) (g_ny g) six eix siy eiy
                           (fun i j => (pp g m use i j / tot)%F)) by lia.
        rsimp. unfold Rdiv.
        rewrite (zsum_ext _ _ _ (fun i => zsum siy (eiy + 1) (fun j => pp g m use i j) * / tot))
          by (intros i _; apply zsum_scal).
        rewrite zsum_scal. fold tot. unfold tot, pp_total. fold tot.
        change (zsum six (eix + 1) (fun i => zsum siy (eiy + 1) (fun j => pp g m use i j)))
          with tot.
        field. lra.
      + intros i j Hn. destruct (in_box _ i j) eqn:E; [|reflexivity].
        apply in_box_true in E. exfalso. apply Hn. lia.
  Qed.
End Imat.

(* ------------------------------------------------ 3. lateral invariance -- *)
Lemma ln10_pos : (0 < ln 10)%R.
Proof. rewrite <- ln_1. apply ln_increasing; lra. Qed.
Lemma pow10_log10 x : (0 < x)%R -> pow10R (log10R x) = x.
Proof.
  intros H. unfold pow10R, log10R. pose proof ln10_pos.
  replace (ln x / ln 10 * ln 10)%R with (ln x) by (field; lra). now apply exp_ln.
Qed.

Section Lateral.
  Local Open Scope R_scope.
  Variable leb : R -> R -> bool.
  Variable g : @grid R.
  Hypothesis nx_pos : (1 <= g_nx g)%Z.
  Hypothesis ny_pos : (1 <= g_ny g)%Z.
  Hypothesis hx_pos : forall i, (0 <= i < g_nx g)%Z -> 0 < g_hx g i.
  Hypothesis hy_pos : forall j, (0 <= j < g_ny g)%Z -> 0 < g_hy g j.

  (* p is laterally invariant on layer k with value v k (positive when logs are taken) *)
  Definition lat_inv (lname : bool) (p : Z -> Z -> Z -> R) (v : Z -> R) (k : Z) : Prop :=
    (forall i j, (0 <= i < g_nx g)%Z -> (0 <= j < g_ny g)%Z -> p i j k = v k) /\
    (lname = false -> 0 < v k).

  Lemma layer_val_invariant lname m use p0 p1 p v k :
    lat_inv lname p v k ->
    let s := sel leb g m use p0 p1 in
    layer_val log10R pow10R g lname s (imat_of g m use s) p k = v k.
  Proof.
    intros [Hp Hv] s.
    pose proof (imat_props leb g nx_pos ny_pos hx_pos hy_pos m use p0 p1) as Him.
    cbv zeta in Him. fold s in Him. destruct Him as (_ & Hsum & _).
    destruct (sel_cases leb g nx_pos ny_pos m use p0 p1)
      as [(ix & iy & E & Hx & Hy & _) | (b & E & Hm & Hb)]; fold s in E.
    - rewrite E. cbn [layer_val]. now apply Hp.
    - rewrite E in *. destruct b as [[[six eix] siy] eiy]. cbn [layer_val].
      set (im := imat_of g m use (false, (six, eix, siy, eiy))) in *.
      destruct lname.
      + rewrite (zsum2_ext _ _ _ (fun i j => im i j * v k)).
        * rewrite zsum2_scal. rewrite Hsum. lra.
        * intros i j Hi Hj. rsimp. now rewrite Hp.
      + rewrite (zsum2_ext _ _ _ (fun i j => im i j * log10R (v k))).
        * rewrite zsum2_scal. rewrite Hsum. rewrite Rmult_1_l. apply pow10_log10. auto.
        * intros i j Hi Hj. rsimp. now rewrite Hp.
  Qed.

  (* all layers of all properties *)
  Definition lat_inv_all (lname : bool) (props : list (Z -> Z -> Z -> R)) (vs : list (Z -> R)) : Prop :=
    Forall2 (fun p v => forall k, (0 <= k < g_nz g)%Z -> lat_inv lname p v k) props vs.
  Definition profile (vs : list (Z -> R)) : list (list R) :=
    map (fun v => map v (zrange 0 (g_nz g))) vs.

  Lemma layer_vals_invariant lname m use p0 p1 props vs :
    lat_inv_all lname props vs ->
    let s := sel leb g m use p0 p1 in
    map (layer_vals log10R pow10R g lname s (imat_of g m use s)) props = profile vs.
  Proof.
    intros H s. unfold profile. induction H as [|p v props vs Hpv _ IH]; [reflexivity|].
    cbn [map]. f_equal; [|exact IH].
    unfold layer_vals. apply map_ext_in. intros k Hk. apply in_zrange in Hk.
    apply layer_val_invariant. now apply Hpv.
  Qed.

  (* extract_1d on a laterally invariant model: the layer values, the layer
     thicknesses and the vertical origin are functions of the profile (and
     of [merge]) alone -- not of method, ellipse mask, p0, p1 *)
  Definition layers_of (merge : bool) (vs : list (Z -> R)) : list (list R) :=
    if merge then map (take_ind (merge_ind leb (Z.to_nat (g_nz g)) (profile vs))) (profile vs)
    else profile vs.
  Definition hz_of (merge : bool) (vs : list (Z -> R)) : list R :=
    if merge then merge_hz g (merge_ind leb (Z.to_nat (g_nz g)) (profile vs))
    else map (g_hz g) (zrange 0 (g_nz g)).

  Lemma extract_core_invariant lname merge m use p0 p1 props vs :
    lat_inv_all lname props vs ->
    let e := extract_core leb log10R pow10R g lname merge m use p0 p1 props in
    e_props e = layers_of merge vs /\ e_hz e = hz_of merge vs /\ e_oz e = g_z0 g.
  Proof.
    intros H e. subst e. unfold extract_core.
    rewrite (layer_vals_invariant lname m use p0 p1 props vs H).
    destruct (snd (sel leb g m use p0 p1)) as [[[six eix] siy] eiy].
    cbn [e_props e_hz e_oz]. unfold layers_of, hz_of. auto.
  Qed.

  Lemma extract_1d_invariant lname props vs ellipse method has_radius p0 p1 merge e :
    lat_inv_all lname props vs ->
    extract_1d leb log10R pow10R g lname props ellipse method has_radius p0 p1 merge = inr e ->
    e_props e = layers_of merge vs /\ e_hz e = hz_of merge vs /\ e_oz e = g_z0 g.
  Proof.
    intros H. unfold extract_1d. destruct (xmethod_of method) as [m|]; [|discriminate].
    destruct m, has_radius; try discriminate; intros E; inversion E; subst e;
      now apply extract_core_invariant.
  Qed.

  (* weights of whatever extract_1d returns *)
  Lemma extract_1d_imat lname props ellipse method has_radius p0 p1 merge e :
    extract_1d leb log10R pow10R g lname props ellipse method has_radius p0 p1 merge = inr e ->
    (forall i j, 0 <= e_imat e i j) /\ @zsum2 R LROps (g_nx g) (g_ny g) (e_imat e) = 1 /\
    (forall i j, ~ ((0 <= i < g_nx g)%Z /\ (0 <= j < g_ny g)%Z) -> e_imat e i j = 0).
  Proof.
    unfold extract_1d. destruct (xmethod_of method) as [m|]; [|discriminate].
    set (q := match p1 with Some q => q | None => p0 end).
    assert (G : forall e', e' = extract_core leb log10R pow10R g lname merge m (ellipse p0 q) p0 q props ->
              (forall i j, 0 <= e_imat e' i j) /\ @zsum2 R LROps (g_nx g) (g_ny g) (e_imat e') = 1 /\
              (forall i j, ~ ((0 <= i < g_nx g)%Z /\ (0 <= j < g_ny g)%Z) -> e_imat e' i j = 0)).
    { intros e' ->. unfold extract_core.
      pose proof (imat_props leb g nx_pos ny_pos hx_pos hy_pos m (ellipse p0 q) p0 q) as Him.
      cbv zeta in Him.
      destruct (snd (sel leb g m (ellipse p0 q) p0 q)) as [[[six eix] siy] eiy].
      cbn [e_imat]. exact Him. }
    destruct m, has_radius; try discriminate; intros E; inversion E; apply G; reflexivity.
  Qed.
End Lateral.

(* ------------------------------------------------- 4. the receiver loop -- *)
Section MaskLemmas.
  Context {A B : Type}.
  Lemma count_true_0 fi j : count_true fi = 0%nat -> nth j fi false = false.
  Proof.
    revert j. induction fi as [|b t IH]; intros j H; [now destruct j|].
    unfold count_true in *. cbn [filter] in H. destruct b; [discriminate|].
    destruct j; [reflexivity|]. now apply IH.
  Qed.
  Lemma count_true_all (l : list A) : l <> [] -> count_true (map (fun _ => true) l) <> 0%nat.
  Proof. destruct l; [congruence|]. intros _. unfold count_true. cbn. discriminate. Qed.

  (* out[i, fi] = f(freqs[fi]) computed pointwise, on a row of NaN *)
  Lemma scatter_map_select (f : A -> B) : forall fi l j d,
    List.length fi = List.length l -> (j < List.length l)%nat ->
    nth j (scatter fi (map f (select fi l))) None =
    if nth j fi false then Some (f (nth j l d)) else None.
  Proof.
    induction fi as [|b t IH]; intros l j d Hl Hj.
    - destruct l; cbn in *; lia.
    - destruct l as [|x r]; [cbn in Hl; lia|].
      cbn [List.length] in *. destruct b; cbn [select map scatter].
      + destruct j; [reflexivity|]. cbn [nth]. apply IH; lia.
      + destruct j; [reflexivity|]. cbn [nth]. apply IH; lia.
  Qed.
  Lemma nth_map_const (l : list A) (c : B) j : nth j (map (fun _ => c) l) c = c.
  Proof. revert j. induction l; intros [|j]; cbn; auto. Qed.
  Lemma nth_error_combine_seq : forall (l : list A) s n x,
    nth_error l n = Some x -> nth_error (combine l (seq s (List.length l))) n = Some (x, (s + n)%nat).
  Proof.
    induction l as [|a t IH]; intros s n x H; [destruct n; discriminate|].
    destruct n; cbn in *.
    - inversion H. now rewrite Nat.add_0_r.
    - rewrite (IH (Datatypes.S s) n x H). f_equal. f_equal. lia.
  Qed.
End MaskLemmas.

Section Fwd.
  Context {F : Type} {O : FOps F}.
  Variable leb : F -> F -> bool.
  Variable lg pw : F -> F.
  Variable D : Type.
  Variable g : @grid F.
  Variable lname : bool.
  Variable backward : F -> F.
  Variable props : list (Z -> Z -> Z -> F).
  Variables (vti has_mu has_eps : bool).
  Variable ellipse : F * F -> F * F -> Z -> Z -> bool.
  Variable method : string.
  Variable has_radius merge : bool.
  Variable srcc : @pt3 F.
  Variable freqs : list F.
  Variable bipole : nat -> @pt3 F -> list F -> list F -> option (list F) ->
                    option (list F) -> option (list F) -> list F -> list D.

  Notation fwd_row' := (fwd_row leb lg pw D g lname backward props vti has_mu has_eps ellipse
                                method has_radius merge srcc freqs bipole).
  Notation fwd_rows' := (fwd_rows leb lg pw D g lname backward props vti has_mu has_eps ellipse
                                  method has_radius merge srcc freqs bipole).
  Notation extract_for' := (extract_for leb lg pw g lname props ellipse method has_radius merge srcc).

  Lemma fwd_rows_nth : forall recs i0 rows, fwd_rows' i0 recs = inr rows ->
    List.length rows = List.length recs /\
    forall n rc ofin, nth_error recs n = Some (rc, ofin) ->
                      fwd_row' (i0 + n)%nat rc ofin = inr (nth n rows []).
  Proof.
    induction recs as [|[rc0 of0] t IH]; intros i0 rows H.
    - cbn in H. inversion H. split; auto. intros [|n]; discriminate.
    - cbn [fwd_rows] in H.
      destruct (fwd_row' i0 rc0 of0) as [er|row] eqn:E; [discriminate|].
      destruct (fwd_rows' (Datatypes.S i0) t) as [er|rows'] eqn:E2; [discriminate|].
      inversion H; subst rows. destruct (IH _ _ E2) as [L N]. split; [cbn; lia|].
      intros [|n] rc ofin Hn; cbn in Hn.
      + inversion Hn; subst. now rewrite Nat.add_0_r.
      + cbn [nth]. rewrite <- (N n rc ofin Hn). f_equal. lia.
  Qed.

  (* one row: what each frequency slot holds *)
  Lemma fwd_row_spec i rc ofin row
        (bipole1 : nat -> @pt3 F -> list F -> list F -> option (list F) -> option (list F) ->
                   option (list F) -> F -> D) :
    (forall i q d ch cv ep mp fs, bipole i q d ch cv ep mp fs = map (bipole1 i q d ch cv ep mp) fs) ->
    List.length (mask_of freqs ofin) = List.length freqs ->
    fwd_row' i rc ofin = inr row ->
    forall j dflt, (j < List.length freqs)%nat ->
      (nth j (mask_of freqs ofin) false = false -> nth j row None = None) /\
      (nth j (mask_of freqs ofin) false = true ->
       exists e, extract_for' rc = inr e /\
         nth j row None =
         Some (bipole1 i (rec_abs srcc rc) (depth_of e) (cond_h_of backward e) (cond_v_of backward vti e)
                       (eperm_of vti has_mu has_eps e) (mperm_of vti has_mu e)
                       (nth j freqs dflt))).
  Proof.
    intros Hpw Hlen H j dflt Hj. unfold fwd_row in H.
    set (fi := mask_of freqs ofin) in *.
    destruct (Nat.eqb (count_true fi) 0) eqn:C.
    - apply Nat.eqb_eq in C. inversion H; subst row. split.
      + intros _. apply nth_map_const.
      + intros T. rewrite (count_true_0 fi j C) in T. discriminate.
    - destruct (extract_for' rc) as [er|e] eqn:E; [discriminate|].
      inversion H; subst row. rewrite Hpw.
      rewrite (scatter_map_select _ fi freqs j dflt Hlen Hj). split.
      + intros ->. reflexivity.
      + intros ->. exists e. split; reflexivity.
  Qed.

  Lemma layered_fwd_spec rcs observed rows
        (bipole1 : nat -> @pt3 F -> list F -> list F -> option (list F) -> option (list F) ->
                   option (list F) -> F -> D) :
    (forall i q d ch cv ep mp fs, bipole i q d ch cv ep mp fs = map (bipole1 i q d ch cv ep mp) fs) ->
    (forall o i, observed = Some o -> (i < List.length rcs)%nat ->
                 List.length (nth i o []) = List.length freqs) ->
    layered_fwd leb lg pw D g lname backward props vti has_mu has_eps ellipse method has_radius
                merge srcc freqs bipole rcs observed = inr rows ->
    List.length rows = List.length rcs /\
    forall i j rc dflt, nth_error rcs i = Some rc -> (j < List.length freqs)%nat ->
      let fin := match observed with None => true | Some o => nth j (nth i o []) false end in
      (fin = false -> nth j (nth i rows []) None = None) /\
      (fin = true ->
       exists e, extract_for' rc = inr e /\
         nth j (nth i rows []) None =
         Some (bipole1 i (rec_abs srcc rc) (depth_of e) (cond_h_of backward e) (cond_v_of backward vti e)
                       (eperm_of vti has_mu has_eps e) (mperm_of vti has_mu e)
                       (nth j freqs dflt))).
  Proof.
    intros Hpw Hshape H. unfold layered_fwd in H.
    destruct (fwd_rows_nth _ _ _ H) as [L N]. split.
    { rewrite L, map_length, combine_length, seq_length. lia. }
    intros i j rc dflt Hi Hj fin.
    assert (Hil : (i < List.length rcs)%nat) by (apply nth_error_Some; congruence).
    pose proof (nth_error_combine_seq rcs 0 i rc Hi) as Hc.
    set (ofin := match observed with Some o => Some (nth i o []) | None => None end).
    specialize (N i rc ofin).
    rewrite (map_nth_error _ _ _ Hc) in N. cbn [fst snd plus] in N.
    specialize (N eq_refl).
    assert (Hlen : List.length (mask_of freqs ofin) = List.length freqs).
    { subst ofin. destruct observed as [o|]; cbn [mask_of].
      - now apply Hshape.
      - now rewrite map_length. }
    assert (Hfin : nth j (mask_of freqs ofin) false = fin).
    { subst ofin fin. destruct observed as [o|]; cbn [mask_of]; [reflexivity|].
      rewrite (nth_indep _ false true) by (now rewrite map_length).
      apply nth_map_const. }
    destruct (fwd_row_spec i rc ofin (nth i rows []) bipole1 Hpw Hlen N j dflt Hj) as [P Q].
    rewrite Hfin in P, Q. split; assumption.
  Qed.
End Fwd.

(* ------------------------------- 5. finite-difference gradient, per layer -- *)
Section FdGrad.
  Context {F : Type} {O : FOps F}.
  (* grad[iz] is the finite-difference quotient of the misfit for layer iz *)
  Lemma fd_grad_nth (cond_h : list F) cond_v data weight misfit call vertical iz :
    (iz < List.length cond_h)%nat ->
    nth iz (fd_grad cond_h cond_v data weight misfit call vertical) 0%F =
    (let base := if vertical then match cond_v with Some v => v | None => [] end else cond_h in
     let delta := nth iz base 0 * rel_diff in
     let response := if vertical then call cond_h (Some (bump base iz delta))
                     else call (bump base iz delta) cond_v in
     (wmisfit weight (csubL response data) - misfit) / delta)%F.
  Proof.
    intros H. unfold fd_grad.
    set (f := fun iz0 : nat => _).
    rewrite (nth_indep _ 0%F (f 0%nat)) by (now rewrite map_length, seq_length).
    rewrite map_nth. rewrite seq_nth by assumption. reflexivity.
  Qed.
  Lemma fd_grad_length (cond_h : list F) cond_v data weight misfit call vertical :
    List.length (fd_grad cond_h cond_v data weight misfit call vertical) = List.length cond_h.
  Proof. unfold fd_grad. now rewrite map_length, seq_length. Qed.
End FdGrad.

Section Grad.
  Local Open Scope R_scope.
  Variable leb : R -> R -> bool.
  Variable g : @grid R.
  Hypothesis nx_pos : (1 <= g_nx g)%Z.
  Hypothesis ny_pos : (1 <= g_ny g)%Z.
  Hypothesis hx_pos : forall i, (0 <= i < g_nx g)%Z -> 0 < g_hx g i.
  Hypothesis hy_pos : forall j, (0 <= j < g_ny g)%Z -> 0 < g_hy g j.
  Variable lname : bool.
  Variable backward : R -> R.
  Variable props : list (Z -> Z -> Z -> R).
  Variables (vti has_mu has_eps : bool).
  Variable ellipse : R * R -> R * R -> Z -> Z -> bool.
  Variable method : string.
  Variable has_radius merge : bool.
  Variable srcc : @pt3 R.
  Variable freqs : list R.
  Variable bipole : nat -> @pt3 R -> list R -> list R -> option (list R) ->
                    option (list R) -> option (list R) -> list R -> list (R * R).
  Variable gmerge : bool.          (* the merge flag handed to extract_1d *)

  Notation grad_rec' := (grad_rec leb log10R pow10R g lname backward props vti has_mu has_eps
                                  ellipse method has_radius srcc freqs bipole gmerge).
  Notation grad_loop' := (grad_loop leb log10R pow10R g lname backward props vti has_mu has_eps
                                    ellipse method has_radius srcc freqs bipole gmerge).
  Notation S2 := (@zsum2 R LROps (g_nx g) (g_ny g)).

  Definition gterm : Type := option ((Z -> Z -> R) * list R * option (list R)).
  (* the layer-k finite-difference quotient a receiver contributes *)
  Definition term_h (k : Z) (t : gterm) : R :=
    match t with Some (_, gh, _) => nth (Z.to_nat k) gh 0 | None => 0 end.
  Definition term_v (k : Z) (t : gterm) : R :=
    match t with Some (_, _, Some gv) => nth (Z.to_nat k) gv 0 | _ => 0 end.

  Lemma grad_rec_imat i rd im gh gv :
    grad_rec' i rd = inr (Some (im, gh, gv)) -> S2 im = 1.
  Proof.
    unfold grad_rec. destruct rd as [[[[rc fi] obsd] wgtd] resd].
    destruct (Nat.eqb (count_true fi) 0); [discriminate|].
    destruct (extract_for _ _ _ _ _ _ _ _ _ _ _ rc) as [er|e] eqn:E; [discriminate|].
    intros H. inversion H; subst im. unfold extract_for in E.
    destruct (get_points method (xy srcc) (xy (rec_abs srcc rc))) as [[mth p0] p1].
    exact (proj1 (proj2 (extract_1d_imat leb g nx_pos ny_pos hx_pos hy_pos _ _ _ _ _ _ _ _ _ E))).
  Qed.

  Lemma sumL_cons (x : R) l : @sumL R LROps (x :: l) = x + sumL l.
  Proof. reflexivity. Qed.
  Lemma spread_sum im gr k : (0 <= k)%Z -> S2 im = 1 ->
    S2 (fun i j => spread im gr i j k) = nth (Z.to_nat k) gr 0.
  Proof.
    intros Hk H1. unfold spread. replace (k <? 0)%Z with false by (symmetry; lia).
    rsimp. rewrite zsum2_scal, H1. lra.
  Qed.

  Lemma grad_loop_sum : forall rds i0 out res, grad_loop' i0 rds out = inr res ->
    exists terms : list gterm,
      List.length terms = List.length rds /\
      (forall n rd, nth_error rds n = Some rd -> grad_rec' (i0 + n)%nat rd = inr (nth n terms None)) /\
      forall k, (0 <= k)%Z ->
        S2 (fun i j => fst res i j k) = S2 (fun i j => fst out i j k) + sumL (map (term_h k) terms) /\
        S2 (fun i j => snd res i j k) = S2 (fun i j => snd out i j k) + sumL (map (term_v k) terms).
  Proof.
    induction rds as [|rd t IH]; intros i0 out res H.
    - cbn in H. inversion H; subst res. exists []. repeat split; auto.
      + intros [|n]; discriminate.
      + cbn. rsimp. lra.
      + cbn. rsimp. lra.
    - cbn [grad_loop] in H. destruct (grad_rec' i0 rd) as [er|[[[im gh] gv]|]] eqn:E; [discriminate| |].
      + destruct (IH _ _ _ H) as (terms & L & N & Hs).
        exists (Some (im, gh, gv) :: terms). split; [cbn; lia|]. split.
        * intros [|n] rd' Hn; cbn in Hn.
          -- inversion Hn; subst rd'. rewrite Nat.add_0_r. exact E.
          -- cbn [nth]. rewrite <- (N n rd' Hn). f_equal. lia.
        * intros k Hk. destruct (Hs k Hk) as [A B]. pose proof (grad_rec_imat _ _ _ _ _ E) as H1.
          cbn [fst snd] in A, B. split.
          -- rewrite A. unfold add3. rsimp. rewrite zsum2_add, spread_sum by auto.
             cbn [map term_h]. rewrite sumL_cons. lra.
          -- rewrite B. destruct gv as [v|].
             ++ unfold add3. rsimp. rewrite zsum2_add, spread_sum by auto.
                cbn [map term_v]. rewrite sumL_cons. lra.
             ++ cbn [map term_v]. rewrite sumL_cons. lra.
      + destruct (IH _ _ _ H) as (terms & L & N & Hs).
        exists (None :: terms). split; [cbn; lia|]. split.
        * intros [|n] rd' Hn; cbn in Hn.
          -- inversion Hn; subst rd'. rewrite Nat.add_0_r. exact E.
          -- cbn [nth]. rewrite <- (N n rd' Hn). f_equal. lia.
        * intros k Hk. destruct (Hs k Hk) as [A B]. split.
          -- rewrite A. cbn [map term_h]. rewrite sumL_cons. lra.
          -- rewrite B. cbn [map term_v]. rewrite sumL_cons. lra.
  Qed.

  (* fd_gradient_layer_sum *)
  Lemma layered_grad_sum rds o0 o2 :
    grad_loop' 0%nat rds (zero3, zero3) = inr (o0, o2) ->
    exists terms : list gterm,
      List.length terms = List.length rds /\
      (forall n rd, nth_error rds n = Some rd -> grad_rec' n rd = inr (nth n terms None)) /\
      forall k, (0 <= k)%Z ->
        S2 (fun i j => o0 i j k) = sumL (map (term_h k) terms) /\
        S2 (fun i j => o2 i j k) = sumL (map (term_v k) terms).
  Proof.
    intros H.
    destruct (grad_loop_sum _ _ _ _ H) as (terms & L & N & Hs).
    exists terms. split; auto. split; [exact N|].
    intros k Hk. destruct (Hs k Hk) as [A B]. cbn [fst snd] in A, B.
    unfold zero3 in A, B. rsimp. rewrite zsum2_zero in A, B. split; lra.
  Qed.

  (* missing weights / residual / observed: zero gradient *)
  Lemma layered_grad_none :
    layered_grad leb log10R pow10R g lname backward props vti has_mu has_eps ellipse method
                 has_radius srcc freqs bipole None = inr (zero3, zero3).
  Proof. reflexivity. Qed.
End Grad.

(* ---- the gradient branch extracts WITHOUT merge: one value per model layer -- *)
Section GradLen.
  Context {F : Type} {O : FOps F}.
  Variable leb : F -> F -> bool.
  Variable lg pw : F -> F.
  Variable g : @grid F.
  Variable lname : bool.
  Variable backward : F -> F.
  Variable props : list (Z -> Z -> Z -> F).
  Variables (vti has_mu has_eps : bool).
  Variable ellipse : F * F -> F * F -> Z -> Z -> bool.
  Variable method : string.
  Variable has_radius : bool.
  Variable srcc : @pt3 F.
  Variable freqs : list F.
  Variable bipole : nat -> @pt3 F -> list F -> list F -> option (list F) ->
                    option (list F) -> option (list F) -> list F -> list (F * F).

  Lemma extract_1d_nomerge_len mth p0 p1 e n :
    extract_1d leb lg pw g lname props ellipse mth has_radius p0 p1 false = inr e ->
    (n < List.length props)%nat ->
    List.length (nth n (e_props e) []) = Z.to_nat (g_nz g).
  Proof.
    unfold extract_1d. destruct (xmethod_of mth) as [m|]; [|discriminate].
    set (q := match p1 with Some q => q | None => p0 end).
    assert (G : forall e', e' = extract_core leb lg pw g lname false m (ellipse p0 q) p0 q props ->
                (n < List.length props)%nat ->
                List.length (nth n (e_props e') []) = Z.to_nat (g_nz g)).
    { intros e' -> Hn. unfold extract_core.
      destruct (snd (sel leb g m (ellipse p0 q) p0 q)) as [[[six eix] siy] eiy].
      cbn [e_props].
      set (f := layer_vals lg pw g lname _ _).
      rewrite (nth_indep _ [] (f (fun _ _ _ => 0%F))) by (now rewrite map_length).
      rewrite (map_nth f). unfold f, layer_vals. rewrite map_length, zrange_length.
      f_equal. lia. }
    destruct m, has_radius; try discriminate; intros E Hn; inversion E; apply G; auto.
  Qed.

  Lemma grad_rec_len i rd im gh gv :
    props <> [] ->
    grad_rec leb lg pw g lname backward props vti has_mu has_eps ellipse method has_radius
             srcc freqs bipole false i rd = inr (Some (im, gh, gv)) ->
    List.length gh = Z.to_nat (g_nz g) /\
    (forall v, gv = Some v -> List.length v = Z.to_nat (g_nz g)).
  Proof.
    intros Hp. unfold grad_rec. destruct rd as [[[[rc fi] obsd] wgtd] resd].
    destruct (Nat.eqb (count_true fi) 0); [discriminate|].
    destruct (extract_for _ _ _ _ _ _ _ _ _ _ _ rc) as [er|e] eqn:E; [discriminate|].
    intros H. inversion H; subst im gh gv. unfold extract_for in E.
    destruct (get_points method (xy srcc) (xy (rec_abs srcc rc))) as [[mth p0] p1].
    assert (L : List.length (cond_h_of backward e) = Z.to_nat (g_nz g)).
    { unfold cond_h_of. rewrite map_length.
      apply (extract_1d_nomerge_len _ _ _ _ _ E). destruct props; [congruence|cbn; lia]. }
    split.
    - now rewrite fd_grad_length.
    - destruct vti; intros v Hv; inversion Hv. now rewrite fd_grad_length.
  Qed.
End GradLen.

(* ---- histories: every extract_1d answer is the extraction of the arrays as
   they are at that moment (whatever was extracted or edited before) -------- *)
Section Histories.
  Context {F : Type} {O : FOps F}.
  Variable ex : list (Z -> Z -> Z -> F) -> xerr + @ext F.
  Lemma run_hist_fresh : forall (ops1 : list (@hop F)) props ops2,
    nth_error (run_hist ex props (ops1 ++ HExtract :: ops2))
              (List.length (filter is_extract ops1))
    = Some (ex (fold_left edit_props ops1 props)).
  Proof.
    induction ops1 as [|o t IH]; intros props ops2.
    - reflexivity.
    - destruct o as [p i j k v|].
      + cbn [app run_hist filter is_extract fold_left]. apply IH.
      + cbn [app run_hist filter is_extract fold_left List.length nth_error edit_props]. apply IH.
  Qed.
End Histories.
