(* Proofs/Hierarchy.v -- theorems about the multigrid control model
   (Model/Hierarchy.v over Gen/SolverHelpers.v), for ALL shapes >= 2. *)
From Coq Require Import ZArith List Bool Lia.
From V Require Import Gen.SolverHelpers Model.Hierarchy.
Import ListNotations.
Local Open Scope Z_scope.

(* ------------------------------------------------------------------------ *)
(* 1. the halving rule and the per-direction level count                     *)

Lemma halvable_spec n : halvable n = true <-> (n mod 2 = 0 /\ 2 < n).
Proof.
  unfold halvable. cbv zeta. rewrite andb_true_iff, Z.eqb_eq, Z.ltb_lt. tauto.
Qed.

Lemma halvable_half n : halvable n = true -> 2 <= n / 2 /\ 2 * (n / 2) = n.
Proof.
  rewrite halvable_spec. intros [Hm Hn].
  pose proof (Z.div_mod n 2 ltac:(lia)). lia.
Qed.

Lemma halv_count_fuel f1 : forall f2 n, 0 < n ->
  Z.log2 n < Z.of_nat f1 -> Z.log2 n < Z.of_nat f2 ->
  halv_count f1 n = halv_count f2 n.
Proof.
  induction f1 as [|f1 IH]; intros f2 n Hn H1 H2.
  - pose proof (Z.log2_nonneg n). lia.
  - destruct f2 as [|f2]; [pose proof (Z.log2_nonneg n); lia|].
    cbn [halv_count]. destruct (halvable n) eqn:E; [|reflexivity].
    f_equal. apply halvable_half in E as E'. destruct E' as [E1 E2].
    assert (L : Z.log2 n = Z.log2 (n / 2) + 1).
    { rewrite <- E2 at 1. rewrite Z.log2_double by lia. lia. }
    apply IH; lia.
Qed.

Lemma count1_step n : 0 < n -> halvable n = true -> count1 n = 1 + count1 (n / 2).
Proof.
  intros Hn E. unfold count1. set (f2 := fuel_of (n / 2)).
  unfold fuel_of. cbn [halv_count]. rewrite E. f_equal.
  apply halvable_half in E as E'. destruct E' as [E1 E2].
  assert (L : Z.log2 n = Z.log2 (n / 2) + 1).
  { rewrite <- E2 at 1. rewrite Z.log2_double by lia. lia. }
  pose proof (Z.log2_nonneg (n/2)).
  apply halv_count_fuel; subst f2; unfold fuel_of; lia.
Qed.

Lemma count1_stop n : halvable n = false -> count1 n = 0.
Proof. intros E. unfold count1, fuel_of. cbn [halv_count]. now rewrite E. Qed.

Lemma count1_nonneg n : 0 < n -> 0 <= count1 n.
Proof.
  intros Hn. unfold count1. generalize (fuel_of n). intros f. revert n Hn.
  induction f as [|f IH]; intros n Hn; cbn [halv_count]; [lia|].
  destruct (halvable n) eqn:E; [|lia].
  apply halvable_half in E. specialize (IH (n/2)). lia.
Qed.

Lemma count1_pos_iff n : 0 < n -> (0 < count1 n <-> halvable n = true).
Proof.
  intros Hn. split.
  - intros H. destruct (halvable n) eqn:E; [reflexivity|].
    rewrite count1_stop in H by assumption. lia.
  - intros E. rewrite count1_step by assumption.
    apply halvable_half in E. pose proof (count1_nonneg (n/2)). lia.
Qed.

(* closed form: n = m * 2^(count1 n) with m >= 2 and m not halvable *)
Lemma count1_closed_form n : 2 <= n ->
  exists m, n = m * 2 ^ count1 n /\ 2 <= m /\ halvable m = false.
Proof.
  intros Hn.
  assert (G : forall k, 0 <= k -> forall n, 2 <= n -> count1 n = k ->
              exists m, n = m * 2 ^ k /\ 2 <= m /\ halvable m = false).
  { intros k Hk. pattern k. apply natlike_ind; [| |assumption]; clear k Hk.
    - intros n0 H0 Hc. exists n0. rewrite Z.pow_0_r. repeat split; try lia.
      destruct (halvable n0) eqn:E; [|reflexivity].
      apply (count1_pos_iff n0 ltac:(lia)) in E. lia.
    - intros k Hk IH n0 H0 Hc.
      assert (E : halvable n0 = true) by (apply (count1_pos_iff n0); lia).
      rewrite count1_step in Hc by (assumption || lia).
      apply halvable_half in E as E'. destruct E' as [E1 E2].
      destruct (IH (n0/2) E1 ltac:(lia)) as [m [Hm [Hm2 Hm3]]].
      exists m. repeat split; try assumption.
      rewrite Z.pow_succ_r by lia. rewrite <- E2 at 1. rewrite Hm at 1. ring. }
  apply (G (count1 n)); [apply count1_nonneg; lia|assumption|reflexivity].
Qed.

(* ------------------------------------------------------------------------ *)
(* 2. line relaxation never runs along a two-cell direction                  *)

(* current_lr_dir looks at the shape only through the tests n = 2 *)
Definition rep2 (n : Z) : Z := if n =? 2 then 2 else 3.

Lemma current_lr_dir_rep lr0 n0 n1 n2 :
  current_lr_dir lr0 n0 n1 n2 = current_lr_dir lr0 (rep2 n0) (rep2 n1) (rep2 n2).
Proof.
  unfold current_lr_dir, rep2. cbv zeta.
  destruct (n0 =? 2), (n1 =? 2), (n2 =? 2); reflexivity.
Qed.

Definition lr_cases : list (Z * Z * Z * Z) :=
  flat_map (fun l => flat_map (fun a => flat_map (fun b => map (fun c => (l, a, b, c))
    [2; 3]) [2; 3]) [2; 3]) [0; 1; 2; 3; 4; 5; 6; 7].

Definition lr_ok (t : Z * Z * Z * Z) : bool :=
  let '(l, a, b, c) := t in
  let k := lines_along (current_lr_dir l a b c) in
  let k0 := lines_along l in
  (Bool.eqb (fst (fst k)) (fst (fst k0) && negb (a =? 2)) &&
   Bool.eqb (snd (fst k)) (snd (fst k0) && negb (b =? 2)) &&
   Bool.eqb (snd k) (snd k0 && negb (c =? 2)))%bool.

Lemma lr_cases_ok : forallb lr_ok lr_cases = true.
Proof. vm_compute. reflexivity. Qed.

(* the smoother relaxes lines exactly along the requested directions that have
   more than two cells (finite case analysis: 8 codes x 2^3 tests, lifted) *)
Lemma lr_subset lr0 n0 n1 n2 : 0 <= lr0 <= 7 ->
  let k := lines_along (current_lr_dir lr0 n0 n1 n2) in
  let k0 := lines_along lr0 in
  (fst (fst k) = (fst (fst k0) && negb (n0 =? 2))%bool) /\
  (snd (fst k) = (snd (fst k0) && negb (n1 =? 2))%bool) /\
  (snd k = (snd k0 && negb (n2 =? 2))%bool).
Proof.
  intros H. cbv zeta. rewrite current_lr_dir_rep.
  assert (I : In (lr0, rep2 n0, rep2 n1, rep2 n2) lr_cases).
  { unfold lr_cases. apply in_flat_map. exists lr0. split; [cbn; lia|].
    apply in_flat_map. exists (rep2 n0). split; [unfold rep2; destruct (n0 =? 2); cbn; auto|].
    apply in_flat_map. exists (rep2 n1). split; [unfold rep2; destruct (n1 =? 2); cbn; auto|].
    apply in_map_iff. exists (rep2 n2). split; [reflexivity|].
    unfold rep2; destruct (n2 =? 2); cbn; auto. }
  pose proof (proj1 (forallb_forall lr_ok lr_cases) lr_cases_ok _ I) as K.
  unfold lr_ok in K. rewrite !andb_true_iff in K. destruct K as [[K1 K2] K3].
  apply Bool.eqb_prop in K1, K2, K3.
  assert (R : forall n, (rep2 n =? 2) = (n =? 2)).
  { intros n. unfold rep2. destruct (n =? 2) eqn:E; reflexivity. }
  rewrite !R in *. auto.
Qed.

Lemma lr_never_two_cells lr0 n0 n1 n2 : 0 <= lr0 <= 7 ->
  let k := lines_along (current_lr_dir lr0 n0 n1 n2) in
  (n0 = 2 -> fst (fst k) = false) /\
  (n1 = 2 -> snd (fst k) = false) /\
  (n2 = 2 -> snd k = false).
Proof.
  intros H. cbv zeta. destruct (lr_subset lr0 n0 n1 n2 H) as [A [B C]].
  cbv zeta in A, B, C. rewrite A, B, C.
  repeat split; intros ->; cbn; apply andb_false_r.
Qed.

(* ------------------------------------------------------------------------ *)
(* 3. semicoarsening: which directions are halved                            *)

(* pattern membership: is direction d (0=x,1=y,2=z) coarsened by pattern sc *)
Definition in_pat (scd d : Z) : bool := negb (scd =? d + 1).

(* NOTE the hypothesis: when NO direction of the pattern can be halved the
   helper answers 6 (coarsen z) regardless; the recursion never asks in that
   situation because it has reached its bottom level (see [some_halvable]). *)
Definition can_halve (scd n0 n1 n2 : Z) : bool :=
  ((in_pat scd 0 && halvable n0) || (in_pat scd 1 && halvable n1)
   || (in_pat scd 2 && halvable n2))%bool.

Lemma restrict_factors_current scd n0 n1 n2 : 0 <= scd <= 3 ->
  can_halve scd n0 n1 n2 = true ->
  restrict_factors (current_sc_dir scd n0 n1 n2) =
  (if (in_pat scd 0 && halvable n0)%bool then 2 else 1,
   if (in_pat scd 1 && halvable n1)%bool then 2 else 1,
   if (in_pat scd 2 && halvable n2)%bool then 2 else 1).
Proof.
  intros H. assert (C : scd = 0 \/ scd = 1 \/ scd = 2 \/ scd = 3) by lia.
  unfold can_halve, current_sc_dir, restrict_factors, halvable, in_pat. cbv zeta.
  assert (T : forall n, (n <? 3) = negb (2 <? n)).
  { intros n. destruct (Z.ltb_spec n 3), (Z.ltb_spec 2 n); cbn; lia. }
  rewrite !T.
  destruct (n0 mod 2 =? 0), (2 <? n0), (n1 mod 2 =? 0), (2 <? n1),
           (n2 mod 2 =? 0), (2 <? n2);
  repeat (destruct C as [->|C] || (subst scd)); cbn; intros Hc;
    try reflexivity; discriminate Hc.
Qed.

Lemma coarse_cells_1 n : coarse_cells n 1 = n.
Proof. unfold coarse_cells. rewrite Z.div_1_r. lia. Qed.

Lemma coarse_cells_2 n : n mod 2 = 0 -> coarse_cells n 2 = n / 2.
Proof.
  intros H. unfold coarse_cells.
  replace (n + 2) with (n + 1 * 2) by lia. rewrite Z.div_add by lia. lia.
Qed.

Definition step1 (scd d n : Z) : Z :=
  if (in_pat scd d && halvable n)%bool then n / 2 else n.

(* the coarse shape: each direction is halved iff the pattern coarsens it and
   its cell count is even and larger than two *)
Lemma halve_spec c s : 0 <= sc c <= 3 ->
  can_halve (sc c) (sx s) (sy s) (sz s) = true ->
  halve s (c_sc_of c s) = (step1 (sc c) 0 (sx s), step1 (sc c) 1 (sy s), step1 (sc c) 2 (sz s)).
Proof.
  intros H Hc. unfold halve, c_sc_of. rewrite restrict_factors_current by assumption.
  cbn [fst snd]. unfold step1.
  f_equal; [f_equal|];
  match goal with |- context [halvable ?n] =>
    destruct (in_pat _ _); cbn [andb]; [destruct (halvable n) eqn:E|];
    rewrite ?coarse_cells_1; try reflexivity;
    apply halvable_spec in E; apply coarse_cells_2; tauto
  end.
Qed.

Lemma step1_ge2 scd d n : 2 <= n -> 2 <= step1 scd d n.
Proof.
  intros H. unfold step1. destruct (in_pat scd d); cbn [andb]; [|assumption].
  destruct (halvable n) eqn:E; [|assumption]. apply halvable_half in E. lia.
Qed.

(* only even directions with more than two cells are ever halved *)
Lemma step1_changes scd d n : step1 scd d n <> n -> (n mod 2 = 0 /\ 2 < n /\ step1 scd d n = n / 2).
Proof.
  unfold step1. destruct (in_pat scd d); cbn [andb]; [|congruence].
  destruct (halvable n) eqn:E; [|congruence]. apply halvable_spec in E. intros _. tauto.
Qed.

Lemma step1_count scd d n : 0 < n ->
  count1 (step1 scd d n) = if in_pat scd d then Z.max 0 (count1 n - 1) else count1 n.
Proof.
  intros Hn. unfold step1. destruct (in_pat scd d); cbn [andb]; [|reflexivity].
  destruct (halvable n) eqn:E.
  - rewrite (count1_step n) by assumption.
    apply halvable_half in E. pose proof (count1_nonneg (n/2)). lia.
  - rewrite count1_stop by assumption. reflexivity.
Qed.

(* shape after l levels of coarsening with pattern scd *)
Fixpoint iter_step (l : nat) (scd d n : Z) : Z :=
  match l with O => n | S l' => iter_step l' scd d (step1 scd d n) end.

Lemma iter_step_ge2 l : forall scd d n, 2 <= n -> 2 <= iter_step l scd d n.
Proof.
  induction l as [|l IH]; intros scd d n H; cbn [iter_step]; [assumption|].
  apply IH. now apply step1_ge2.
Qed.

(* closed form: n / 2^(min l (count1 n)) in coarsened directions *)
Lemma iter_step_closed l : forall scd d n, 2 <= n ->
  iter_step l scd d n =
  if in_pat scd d then n / 2 ^ Z.min (Z.of_nat l) (count1 n) else n.
Proof.
  induction l as [|l IH]; intros scd d n H; cbn [iter_step].
  - destruct (in_pat scd d); [|reflexivity].
    pose proof (count1_nonneg n ltac:(lia)).
    replace (Z.min (Z.of_nat 0) (count1 n)) with 0 by lia.
    now rewrite Z.pow_0_r, Z.div_1_r.
  - rewrite IH by (apply step1_ge2; assumption).
    unfold step1. destruct (in_pat scd d) eqn:P; cbn [andb]; [|reflexivity].
    destruct (halvable n) eqn:E.
    + rewrite (count1_step n) by (assumption || lia).
      apply halvable_half in E as E'. destruct E' as [E1 E2].
      pose proof (count1_nonneg (n/2) ltac:(lia)).
      replace (Z.min (Z.of_nat (S l)) (1 + count1 (n / 2)))
        with (1 + Z.min (Z.of_nat l) (count1 (n / 2))) by lia.
      rewrite Z.pow_add_r by lia. rewrite Z.pow_1_r.
      rewrite Z.div_div by lia. reflexivity.
    + rewrite count1_stop by assumption.
      replace (Z.min (Z.of_nat l) 0) with 0 by lia.
      replace (Z.min (Z.of_nat (S l)) 0) with 0 by lia. reflexivity.
Qed.

(* ------------------------------------------------------------------------ *)
(* 4. shapes along the recursion                                             *)

Lemma iter_step_count l : forall scd d n, 2 <= n ->
  count1 (iter_step l scd d n) =
  if in_pat scd d then Z.max 0 (count1 n - Z.of_nat l) else count1 n.
Proof.
  induction l as [|l IH]; intros scd d n H; cbn [iter_step].
  - pose proof (count1_nonneg n ltac:(lia)). destruct (in_pat scd d); lia.
  - rewrite IH by (apply step1_ge2; assumption).
    rewrite step1_count by lia.
    pose proof (count1_nonneg n ltac:(lia)). destruct (in_pat scd d); lia.
Qed.

Lemma iter_step_S l : forall scd d n,
  iter_step (S l) scd d n = step1 scd d (iter_step l scd d n).
Proof.
  induction l as [|l IH]; intros scd d n; [reflexivity|].
  change (iter_step (S (S l)) scd d n) with (iter_step (S l) scd d (step1 scd d n)).
  rewrite IH. reflexivity.
Qed.

Definition shape_at (c : cfg) (l : nat) : shape :=
  (iter_step l (sc c) 0 (sx (shape0 c)), iter_step l (sc c) 1 (sy (shape0 c)),
   iter_step l (sc c) 2 (sz (shape0 c))).

Definition wf_cfg (c : cfg) : Prop :=
  0 <= sc c <= 3 /\ 2 <= sx (shape0 c) /\ 2 <= sy (shape0 c) /\ 2 <= sz (shape0 c).

Lemma cap_level_le u n : 0 <= n -> 0 <= cap_level u n <= n.
Proof.
  intros H. unfold cap_level. cbv zeta.
  destruct (Z.ltb_spec (-(1)) u), (Z.ltb_spec u n); cbn [andb]; lia.
Qed.

Lemma cap_level_spec u n : 0 <= n ->
  cap_level u n = if (u <? 0) then n else Z.min u n.
Proof.
  intros H. unfold cap_level. cbv zeta.
  destruct (Z.ltb_spec (-(1)) u), (Z.ltb_spec u n), (Z.ltb_spec u 0); cbn [andb]; lia.
Qed.

(* the bottom level is the maximum, over the directions the pattern coarsens,
   of the (capped) number of possible halvings *)
Lemma bottom_spec c : 0 <= sc c <= 3 ->
  let cx := cap_level (user c) (count1 (sx (shape0 c))) in
  let cy := cap_level (user c) (count1 (sy (shape0 c))) in
  let cz := cap_level (user c) (count1 (sz (shape0 c))) in
  bottom c = Z.max (if in_pat (sc c) 0 then cx else 0)
              (Z.max (if in_pat (sc c) 1 then cy else 0) (if in_pat (sc c) 2 then cz else 0))
  \/ (cx < 0 \/ cy < 0 \/ cz < 0).
Proof.
  intros H. cbv zeta. unfold bottom, clevel_tab, cap3, clevel_table, tab_get, in_pat.
  cbv zeta. cbn [fst snd].
  assert (C : sc c = 0 \/ sc c = 1 \/ sc c = 2 \/ sc c = 3) by lia.
  destruct C as [E|[E|[E|E]]]; rewrite E; simpl (_ =? _); simpl (negb _);
    cbn [fst snd]; lia.
Qed.

Lemma bottom_nonneg c : wf_cfg c -> 0 <= bottom c.
Proof.
  intros [H [Hx [Hy Hz]]].
  pose proof (cap_level_le (user c) _ (count1_nonneg (sx (shape0 c)) ltac:(lia))).
  pose proof (cap_level_le (user c) _ (count1_nonneg (sy (shape0 c)) ltac:(lia))).
  pose proof (cap_level_le (user c) _ (count1_nonneg (sz (shape0 c)) ltac:(lia))).
  destruct (bottom_spec c H) as [E|E]; [|lia].
  cbv zeta in E. rewrite E. destruct (in_pat (sc c) 0), (in_pat (sc c) 1), (in_pat (sc c) 2); lia.
Qed.

(* above the bottom level some direction of the pattern can still be halved *)
Lemma some_halvable c (l : nat) : wf_cfg c -> Z.of_nat l < bottom c ->
  can_halve (sc c) (sx (shape_at c l)) (sy (shape_at c l)) (sz (shape_at c l)) = true.
Proof.
  intros [H [Hx [Hy Hz]]] Hl.
  pose proof (count1_nonneg (sx (shape0 c)) ltac:(lia)) as Nx.
  pose proof (count1_nonneg (sy (shape0 c)) ltac:(lia)) as Ny.
  pose proof (count1_nonneg (sz (shape0 c)) ltac:(lia)) as Nz.
  pose proof (cap_level_le (user c) _ Nx) as Cx.
  pose proof (cap_level_le (user c) _ Ny) as Cy.
  pose proof (cap_level_le (user c) _ Nz) as Cz.
  destruct (bottom_spec c H) as [E|E]; [|lia]. cbv zeta in E.
  unfold can_halve, shape_at. cbn [sx sy sz fst snd].
  assert (P : forall d n, 2 <= n -> in_pat (sc c) d = true ->
              Z.of_nat l < count1 n -> halvable (iter_step l (sc c) d n) = true).
  { intros d n Hn Hp Hc.
    apply count1_pos_iff; [pose proof (iter_step_ge2 l (sc c) d n Hn); lia|].
    rewrite iter_step_count by assumption. rewrite Hp. lia. }
  apply orb_true_iff.
  destruct (in_pat (sc c) 0) eqn:P0; cbn [andb].
  - destruct (Z_lt_dec (Z.of_nat l) (cap_level (user c) (count1 (sx (shape0 c))))) as [L|L].
    + left. apply orb_true_iff. left. apply (P 0); try assumption; lia.
    + destruct (in_pat (sc c) 1) eqn:P1; cbn [andb].
      * destruct (Z_lt_dec (Z.of_nat l) (cap_level (user c) (count1 (sy (shape0 c))))) as [L1|L1].
        -- left. apply orb_true_iff. right. apply (P 1); try assumption; lia.
        -- right. destruct (in_pat (sc c) 2) eqn:P2; [|lia].
           apply (P 2); try assumption; lia.
      * right. destruct (in_pat (sc c) 2) eqn:P2; [|lia].
        apply (P 2); try assumption; lia.
  - destruct (in_pat (sc c) 1) eqn:P1; cbn [andb].
    + destruct (Z_lt_dec (Z.of_nat l) (cap_level (user c) (count1 (sy (shape0 c))))) as [L1|L1].
      * left. apply (P 1); try assumption; lia.
      * right. destruct (in_pat (sc c) 2) eqn:P2; [|lia].
        apply (P 2); try assumption; lia.
    + right. destruct (in_pat (sc c) 2) eqn:P2; [|lia].
      apply (P 2); try assumption; lia.
Qed.

(* one restriction step moves from shape_at l to shape_at (l+1) *)
Lemma halve_shape_at c (l : nat) : wf_cfg c -> Z.of_nat l < bottom c ->
  halve (shape_at c l) (c_sc_of c (shape_at c l)) = shape_at c (S l).
Proof.
  intros W Hl. rewrite halve_spec; [|apply W|apply some_halvable; assumption].
  unfold shape_at, sx, sy, sz; cbn [fst snd]. now rewrite !iter_step_S.
Qed.

Lemma shape_at_ge2 c l : wf_cfg c ->
  2 <= sx (shape_at c l) /\ 2 <= sy (shape_at c l) /\ 2 <= sz (shape_at c l).
Proof.
  intros [H [Hx [Hy Hz]]]. unfold shape_at, sx, sy, sz; cbn [fst snd].
  repeat split; apply iter_step_ge2; assumption.
Qed.

(* ------------------------------------------------------------------------ *)
(* 5. the recursion: termination, bottom level, V / W / F order              *)

Lemma opt_concat_single {A} (x : list A) : opt_concat [Some x] = Some x.
Proof. cbn. now rewrite app_nil_r. Qed.

Lemma opt_concat_two {A} (x y : list A) : opt_concat [Some x; Some y] = Some (x ++ y).
Proof. cbn. now rewrite app_nil_r. Qed.

Lemma zrange_1 : zrange 1 = [0].  Proof. reflexivity. Qed.
Lemma zrange_2 : zrange 2 = [0; 1].  Proof. reflexivity. Qed.

(* what one visit of a non-bottom level does around the recursive call *)
Definition wrap (c : cfg) (l : Z) (s : shape) (sub : list ev) : list ev :=
  pre_ev c l s ++ [ERestrict l (c_sc_of c s)] ++ sub ++ [EProlong l] ++ post_ev c l s.
Definition next_shape (c : cfg) (s : shape) : shape := halve s (c_sc_of c s).

(* textbook cycles; k = number of levels below the current one *)
Fixpoint Vtb (c : cfg) (k : nat) (l : Z) (s : shape) : list ev :=
  match k with
  | O => [ECoarse l s (c_lr_of c s)]
  | S k' => wrap c l s (Vtb c k' (l + 1) (next_shape c s))
  end.

(* W: every coarse level (except the coarsest) is visited twice per visit of
   the level above *)
Fixpoint Wtb (c : cfg) (k : nat) (l : Z) (s : shape) : list ev :=
  match k with
  | O => [ECoarse l s (c_lr_of c s)]
  | S k' => let v := wrap c l s (Wtb c k' (l + 1) (next_shape c s)) in v ++ v
  end.

(* F: an F-cycle on the next level followed by a V-cycle on it *)
Fixpoint Ftb (c : cfg) (k : nat) (l : Z) (s : shape) : list ev :=
  match k with
  | O => [ECoarse l s (c_lr_of c s)]
  | S k' => wrap c l s (Ftb c k' (l + 1) (next_shape c s))
            ++ wrap c l s (Vtb c k' (l + 1) (next_shape c s))
  end.

Lemma mg_cycmax_bottom l p b cy cm : l = b -> mg_cycmax l p b cy cm = 1.
Proof. intros ->. unfold mg_cycmax. cbv zeta. now rewrite Z.eqb_refl. Qed.

Lemma mg_cycmax_above l p b cy cm : l <> b ->
  mg_cycmax l p b cy cm = if ((p =? 0) || negb (cy =? 70))%bool then cm else p.
Proof.
  intros H. unfold mg_cycmax. cbv zeta.
  replace (l =? b) with false by (symmetry; now apply Z.eqb_neq). reflexivity.
Qed.

Lemma mg_body_bottom rec c l s cm cy : l = bottom c ->
  mg_body rec c l s cm cy = Some [ECoarse l s (c_lr_of c s)].
Proof. intros ->. unfold mg_body. now rewrite Z.eqb_refl. Qed.

Lemma mg_body_above rec c l s cm cy sub : l <> bottom c ->
  rec (l + 1) (next_shape c s) (cm - cy) = Some sub ->
  mg_body rec c l s cm cy = Some (wrap c l s sub).
Proof.
  intros H E. unfold mg_body.
  replace (l =? bottom c) with false by (symmetry; now apply Z.eqb_neq).
  unfold mg_handover. cbv zeta. cbn [fst snd].
  unfold next_shape in E. now rewrite E.
Qed.

(* V-cycle: any call below the fine grid is one V visit *)
Lemma mg_call_V c : cyc c = 86 ->
  forall k fuel l s p, l = bottom c - Z.of_nat k -> (k < fuel)%nat ->
  mg_call fuel c l s p = Some (Vtb c k l s).
Proof.
  intros HV. induction k as [|k IH]; intros fuel l s p Hl Hf;
    (destruct fuel as [|f]; [lia|]); cbn [mg_call Vtb].
  - rewrite mg_cycmax_bottom by lia. rewrite zrange_1. cbn [map].
    rewrite mg_body_bottom by lia. apply opt_concat_single.
  - rewrite mg_cycmax_above by lia. rewrite HV.
    replace ((p =? 0) || negb (86 =? 70))%bool with true by (now rewrite orb_true_r).
    change (cycmax_of_cycle 86) with 1. rewrite zrange_1. cbn [map].
    rewrite (mg_body_above _ c l s 1 0 (Vtb c k (l + 1) (next_shape c s))); [|lia|].
    + apply opt_concat_single.
    + apply IH; lia.
Qed.

Lemma mg_call_W c : cyc c = 87 ->
  forall k fuel l s p, l = bottom c - Z.of_nat k -> (k < fuel)%nat ->
  mg_call fuel c l s p = Some (Wtb c k l s).
Proof.
  intros HW. induction k as [|k IH]; intros fuel l s p Hl Hf;
    (destruct fuel as [|f]; [lia|]); cbn [mg_call Wtb].
  - rewrite mg_cycmax_bottom by lia. rewrite zrange_1. cbn [map].
    rewrite mg_body_bottom by lia. apply opt_concat_single.
  - rewrite mg_cycmax_above by lia. rewrite HW.
    replace ((p =? 0) || negb (87 =? 70))%bool with true by (now rewrite orb_true_r).
    change (cycmax_of_cycle 87) with 2. rewrite zrange_2. cbn [map].
    rewrite (mg_body_above _ c l s 2 0 (Wtb c k (l + 1) (next_shape c s))); [|lia|apply IH; lia].
    rewrite (mg_body_above _ c l s 2 1 (Wtb c k (l + 1) (next_shape c s))); [|lia|apply IH; lia].
    apply opt_concat_two.
Qed.

(* F-cycle: with hand-over value 2 an F visit followed by a V visit; with
   hand-over value 1 a single V visit *)
Lemma mg_call_F c : cyc c = 70 ->
  forall k fuel l s, l = bottom c - Z.of_nat k -> (k < fuel)%nat ->
  mg_call fuel c l s 2 = Some (Ftb c k l s) /\
  mg_call fuel c l s 1 = Some (Vtb c k l s).
Proof.
  intros HF. induction k as [|k IH]; intros fuel l s Hl Hf;
    (destruct fuel as [|f]; [lia|]); cbn [mg_call Ftb Vtb].
  - rewrite !mg_cycmax_bottom by lia. rewrite zrange_1. cbn [map].
    rewrite !mg_body_bottom by lia. split; apply opt_concat_single.
  - rewrite !mg_cycmax_above by lia. rewrite HF.
    change ((2 =? 0) || negb (70 =? 70))%bool with false.
    change ((1 =? 0) || negb (70 =? 70))%bool with false. cbv iota.
    destruct (IH f (l + 1) (next_shape c s) ltac:(lia) ltac:(lia)) as [I2 I1].
    split.
    + rewrite zrange_2. cbn [map].
      rewrite (mg_body_above _ c l s 2 0 (Ftb c k (l + 1) (next_shape c s))); [|lia|exact I2].
      rewrite (mg_body_above _ c l s 2 1 (Vtb c k (l + 1) (next_shape c s))); [|lia|exact I1].
      apply opt_concat_two.
    + rewrite zrange_1. cbn [map].
      rewrite (mg_body_above _ c l s 1 0 (Vtb c k (l + 1) (next_shape c s))); [|lia|exact I1].
      apply opt_concat_single.
Qed.

(* One fine-grid cycle, for every shape and configuration: it terminates with
   the fuel the model allots (bottom + 1), and its event list is the textbook
   V / W / F cycle over K = bottom levels. *)
Definition fine_tb (c : cfg) : list ev :=
  match Z.to_nat (bottom c) with
  | O => [ECoarse 0 (shape0 c) (c_lr_of c (shape0 c))]
  | S k =>
      wrap c 0 (shape0 c)
        ((if cyc c =? 86 then Vtb c k else if cyc c =? 87 then Wtb c k else Ftb c k)
           1 (next_shape c (shape0 c)))
  end.

Theorem fine_cycle_order c : 0 <= bottom c -> (cyc c = 70 \/ cyc c = 86 \/ cyc c = 87) ->
  fine_cycle (fuel_for c) c = Some (fine_tb c).
Proof.
  intros Hb Hc. unfold fine_cycle, fine_cycle_from, fine_tb, fuel_for.
  replace (if level0_cycmax_recomputed then c else c) with c
    by (destruct level0_cycmax_recomputed; reflexivity).
  destruct (Z.to_nat (bottom c)) as [|k] eqn:E.
  - rewrite mg_body_bottom by lia. reflexivity.
  - assert (L : 1 = bottom c - Z.of_nat k) by lia.
    rewrite mg_cycmax_above by lia. change ((0 =? 0) || _)%bool with true. cbv iota.
    destruct Hc as [H|[H|H]]; rewrite H.
    + change (cycmax_of_cycle 70) with 2. cbn [Z.eqb Pos.eqb].
      destruct (mg_call_F c H k (S (S k)) 1 (next_shape c (shape0 c)) L ltac:(lia)) as [I2 _].
      apply mg_body_above; [lia|exact I2].
    + change (cycmax_of_cycle 86) with 1. cbn [Z.eqb Pos.eqb].
      apply mg_body_above; [lia|]. apply mg_call_V; [assumption|lia|lia].
    + change (cycmax_of_cycle 87) with 2. cbn [Z.eqb Pos.eqb].
      apply mg_body_above; [lia|]. apply mg_call_W; [assumption|lia|lia].
Qed.

(* All fine-grid cycles of a run with cycling directions: each one is the
   textbook cycle of ITS OWN configuration -- provided the level-0 cycmax is
   re-computed in every cycle (flag read off solver.py). *)
Lemma flag_holds : level0_cycmax_recomputed = true.
Proof. reflexivity. Qed.

Theorem outer_cycles_order c psc plr n :
  (forall k, 0 <= bottom (cfg_at c psc plr k)) ->
  (cyc c = 70 \/ cyc c = 86 \/ cyc c = 87) ->
  outer_cycles c psc plr n =
  map (fun k => Some (fine_tb (cfg_at c psc plr k))) (zrange n).
Proof.
  intros Hb Hc. unfold outer_cycles. apply map_ext. intros k.
  cbv zeta. unfold fine_cycle_from. rewrite flag_holds.
  apply (fine_cycle_order (cfg_at c psc plr k)); [apply Hb|exact Hc].
Qed.

(* With a stale level-0 cycmax the F-cycle degenerates: witness 48 x 5 x 3,
   semicoarsening pattern 1-2-3, second cycle. *)
Lemma stale_cycmax_refuted :
  exists c1 c, 0 <= bottom c /\ cyc c = 70 /\
    fine_cycle_stale c1 (fuel_for c) c <> Some (fine_tb c).
Proof.
  exists {| cyc := 70; sc := 1; lr := 0; user := 2; pre_on := true; post_on := true;
            shape0 := (48, 5, 3) |},
         {| cyc := 70; sc := 2; lr := 0; user := 2; pre_on := true; post_on := true;
            shape0 := (48, 5, 3) |}.
  split; [vm_compute; congruence|]. split; [reflexivity|]. vm_compute. congruence.
Qed.

(* ------------------------------------------------------------------------ *)
(* 6. every event of a fine-grid cycle is well-formed                        *)

Definition ev_ok (c : cfg) (e : ev) : Prop :=
  match e with
  | EPre l s r | EPost l s r =>
      0 <= l < bottom c /\ s = shape_at c (Z.to_nat l) /\ r = c_lr_of c s
  | ECoarse l s r => l = bottom c /\ s = shape_at c (Z.to_nat l) /\ r = c_lr_of c s
  | ERestrict l cs => 0 <= l < bottom c /\ cs = c_sc_of c (shape_at c (Z.to_nat l))
  | EProlong l => 0 <= l < bottom c
  end.

Lemma wrap_ok c l s sub : 0 <= l < bottom c -> s = shape_at c (Z.to_nat l) ->
  Forall (ev_ok c) sub -> Forall (ev_ok c) (wrap c l s sub).
Proof.
  intros Hl Hs Hsub. unfold wrap, pre_ev, post_ev.
  apply Forall_app; split.
  { destruct (pre_on c); repeat constructor; cbn; auto; lia. }
  apply Forall_app; split.
  { repeat constructor; cbn; subst s; auto; lia. }
  apply Forall_app; split; [assumption|].
  apply Forall_app; split.
  { repeat constructor; cbn; auto; lia. }
  destruct (post_on c); repeat constructor; cbn; auto; lia.
Qed.

Lemma next_shape_at c l : wf_cfg c -> 0 <= l < bottom c ->
  next_shape c (shape_at c (Z.to_nat l)) = shape_at c (Z.to_nat (l + 1)).
Proof.
  intros W Hl. unfold next_shape. rewrite halve_shape_at by (assumption || lia).
  f_equal. lia.
Qed.

Lemma Vtb_ok c : wf_cfg c -> forall k l, l = bottom c - Z.of_nat k -> 0 <= l ->
  Forall (ev_ok c) (Vtb c k l (shape_at c (Z.to_nat l))).
Proof.
  intros W. induction k as [|k IH]; intros l Hl H0; cbn [Vtb].
  - constructor; [cbn; repeat split; auto; lia | constructor].
  - apply wrap_ok; [lia|reflexivity|].
    rewrite next_shape_at by (assumption || lia). apply IH; lia.
Qed.

Lemma Wtb_ok c : wf_cfg c -> forall k l, l = bottom c - Z.of_nat k -> 0 <= l ->
  Forall (ev_ok c) (Wtb c k l (shape_at c (Z.to_nat l))).
Proof.
  intros W. induction k as [|k IH]; intros l Hl H0; cbn [Wtb].
  - constructor; [cbn; repeat split; auto; lia | constructor].
  - assert (G : Forall (ev_ok c) (wrap c l (shape_at c (Z.to_nat l))
               (Wtb c k (l + 1) (next_shape c (shape_at c (Z.to_nat l)))))).
    { apply wrap_ok; [lia|reflexivity|].
      rewrite next_shape_at by (assumption || lia). apply IH; lia. }
    apply Forall_app; split; exact G.
Qed.

Lemma Ftb_ok c : wf_cfg c -> forall k l, l = bottom c - Z.of_nat k -> 0 <= l ->
  Forall (ev_ok c) (Ftb c k l (shape_at c (Z.to_nat l))).
Proof.
  intros W. induction k as [|k IH]; intros l Hl H0; cbn [Ftb].
  - constructor; [cbn; repeat split; auto; lia | constructor].
  - apply Forall_app; split; (apply wrap_ok; [lia|reflexivity|]);
      rewrite next_shape_at by (assumption || lia).
    + apply IH; lia.
    + apply Vtb_ok; (assumption || lia).
Qed.

Lemma shape_at_0 c : shape_at c 0 = shape0 c.
Proof. unfold shape_at, sx, sy, sz. cbn [iter_step]. now destruct (shape0 c) as [[a b] d]. Qed.

Theorem fine_tb_ok c : wf_cfg c -> Forall (ev_ok c) (fine_tb c).
Proof.
  intros W. pose proof (bottom_nonneg c W) as Hb. unfold fine_tb.
  destruct (Z.to_nat (bottom c)) as [|k] eqn:E.
  - constructor; [|constructor]. cbn. replace (bottom c) with 0 by lia.
    change (Z.to_nat 0) with O. rewrite shape_at_0. auto.
  - rewrite <- (shape_at_0 c). change O with (Z.to_nat 0).
    apply wrap_ok; [lia|reflexivity|].
    rewrite next_shape_at by (assumption || lia).
    destruct (cyc c =? 86); [apply Vtb_ok; (assumption || lia)|].
    destruct (cyc c =? 87); [apply Wtb_ok|apply Ftb_ok]; (assumption || lia).
Qed.

(* with full coarsening the bottom shape is the "Coarsest grid" of the header *)
Lemma bottom_shape_is_header_shape c : wf_cfg c -> sc c = 0 ->
  shape_at c (Z.to_nat (bottom c)) = repr_coarsest (user c) (shape0 c).
Proof.
  intros W Hs. pose proof (bottom_nonneg c W) as Hb.
  destruct W as [H [Hx [Hy Hz]]].
  pose proof (count1_nonneg (sx (shape0 c)) ltac:(lia)) as Nx.
  pose proof (count1_nonneg (sy (shape0 c)) ltac:(lia)) as Ny.
  pose proof (count1_nonneg (sz (shape0 c)) ltac:(lia)) as Nz.
  destruct (bottom_spec c H) as [E|E];
    [|pose proof (cap_level_le (user c) _ Nx); pose proof (cap_level_le (user c) _ Ny);
      pose proof (cap_level_le (user c) _ Nz); lia].
  cbv zeta in E. rewrite Hs in E. unfold in_pat in E.
  simpl (_ =? _) in E. simpl (negb _) in E. cbv iota in E.
  unfold shape_at, repr_coarsest, cap3. cbn [fst snd].
  rewrite !iter_step_closed by assumption. rewrite Hs. unfold in_pat.
  simpl (_ =? _). simpl (negb _). cbv iota.
  rewrite Z2Nat.id by lia.
  rewrite !cap_level_spec in * by assumption.
  destruct (user c <? 0); f_equal; [f_equal| |f_equal|]; f_equal; f_equal; lia.
Qed.

(* ------------------------------------------------------------------------ *)
(* 7. cycling of the semicoarsening / line-relaxation directions             *)

(* itertools.cycle as a state machine: position in the pattern *)
Definition cycle_next (pat : list Z) (pos : nat) : Z * nat :=
  (nth pos pat 0, Nat.modulo (S pos) (length pat)).

Fixpoint cycle_iter (pat : list Z) (k : nat) (pos : nat) : nat :=
  match k with O => pos | S k' => snd (cycle_next pat (cycle_iter pat k' pos)) end.

Lemma cycle_iter_pos pat k : pat <> [] -> cycle_iter pat k 0 = (k mod length pat)%nat.
Proof.
  intros Hp. assert (L : length pat <> O) by (destruct pat; cbn; congruence).
  induction k as [|k IH]; cbn [cycle_iter cycle_next snd].
  - now rewrite Nat.mod_0_l.
  - rewrite IH. rewrite <- Nat.add_1_r at 1.
    rewrite Nat.add_mod_idemp_l by assumption. now rewrite Nat.add_1_r.
Qed.

(* the direction used in fine-grid cycle k is pattern[k mod len]: the iterator
   is advanced exactly once per cycle *)
Lemma dirs_cyclic pat (k : nat) : pat <> [] ->
  fst (cycle_next pat (cycle_iter pat k 0)) = dir_at pat (Z.of_nat k).
Proof.
  intros Hp. assert (L : length pat <> O) by (destruct pat; cbn; congruence).
  cbn [cycle_next fst]. rewrite cycle_iter_pos by assumption. unfold dir_at.
  f_equal. rewrite <- Nat2Z.inj_mod. now rewrite Nat2Z.id.
Qed.

(* restatements used by Props/C05.v *)
Definition capped (c : cfg) (n : Z) : Z :=
  if user c <? 0 then count1 n else Z.min (user c) (count1 n).

Lemma bottom_spec_capped c : wf_cfg c ->
  bottom c = Z.max (if in_pat (sc c) 0 then capped c (sx (shape0 c)) else 0)
              (Z.max (if in_pat (sc c) 1 then capped c (sy (shape0 c)) else 0)
                     (if in_pat (sc c) 2 then capped c (sz (shape0 c)) else 0)).
Proof.
  intros [H [Hx [Hy Hz]]]. unfold capped.
  pose proof (count1_nonneg (sx (shape0 c)) ltac:(lia)) as Nx.
  pose proof (count1_nonneg (sy (shape0 c)) ltac:(lia)) as Ny.
  pose proof (count1_nonneg (sz (shape0 c)) ltac:(lia)) as Nz.
  rewrite <- !cap_level_spec by assumption.
  destruct (bottom_spec c H) as [E|E]; [exact E|].
  pose proof (cap_level_le (user c) _ Nx). pose proof (cap_level_le (user c) _ Ny).
  pose proof (cap_level_le (user c) _ Nz). lia.
Qed.

Definition level_cells (c : cfg) (l : nat) (d n : Z) : Z :=
  if in_pat (sc c) d then n / 2 ^ Z.min (Z.of_nat l) (count1 n) else n.

Lemma shape_at_closed c (l : nat) : wf_cfg c ->
  shape_at c l = (level_cells c l 0 (sx (shape0 c)), level_cells c l 1 (sy (shape0 c)),
                  level_cells c l 2 (sz (shape0 c))).
Proof.
  intros [H [Hx [Hy Hz]]]. unfold shape_at, level_cells.
  now rewrite !iter_step_closed by assumption.
Qed.

(* --- directions advance once per fine-grid cycle, also across the calls of a
   preconditioner (flag read off solver.py) ---------------------------------- *)
Lemma dirs_flag_holds : dirs_advance_before_terminate = true.
Proof. reflexivity. Qed.

Theorem calls_advance_once_per_cycle c psc plr m n :
  outer_cycles_calls c psc plr m n = outer_cycles c psc plr n.
Proof.
  unfold outer_cycles_calls, outer_cycles, dir_index. rewrite dirs_flag_holds. reflexivity.
Qed.

(* if the last cycle of a call did not advance them, the second call of a
   three-cycle pattern would start with the direction the first call ended with *)
Lemma stale_handover_refuted :
  exists m k, dir_at [1; 2; 3] (dir_index_of false m k) <> dir_at [1; 2; 3] k.
Proof. exists 3, 3. vm_compute. discriminate. Qed.
