(* Proofs/Hierarchy.v -- theorems about the multigrid control model
   (Model/Hierarchy.v over Gen/SolverHelpers.v), for ALL shapes >= 2. *)
From Coq Require Import ZArith List Bool Lia.
From V Require Import Gen.SolverHelpers Model.Hierarchy.
Import ListNotations.
Local Open Scope Z_scope.

(* ------------------------------------------------------------------------ *)
(* 1. the halving rule and the per-direction level count                     *)

Lemma halvable_spec n : halvable n = true <-> (n mod 2 = 0 /\ 2 < n).
Proof.
  unfold halvable. cbv zeta. rewrite andb_true_iff, Z.eqb_eq, Z.ltb_lt. tauto.
Qed.

Lemma halvable_half n : halvable n = true -> 2 <= n / 2 /\ 2 * (n / 2) = n.
Proof.
  rewrite halvable_spec. intros [Hm Hn].
  pose proof (Z.div_mod n 2 ltac:(lia)). lia.
Qed.

Lemma halv_count_fuel f1 : forall f2 n, 0 < n ->
  Z.log2 n < Z.of_nat f1 -> Z.log2 n < Z.of_nat f2 ->
  halv_count f1 n = halv_count f2 n.
Proof.
  induction f1 as [|f1 IH]; intros f2 n Hn H1 H2.
  - pose proof (Z.log2_nonneg n). lia.
  - destruct f2 as [|f2]; [pose proof (Z.log2_nonneg n); lia|].
    cbn [halv_count]. destruct (halvable n) eqn:E; [|reflexivity].
    f_equal. apply halvable_half in E as E'. destruct E' as [E1 E2].
    assert (L : Z.log2 n = Z.log2 (n / 2) + 1).
    { rewrite <- E2 at 1. rewrite Z.log2_double by lia. lia. }
    apply IH; lia.
Qed.

Lemma count1_step n : 0 < n -> halvable n = true -> count1 n = 1 + count1 (n / 2).
Proof.
  intros Hn E. unfold count1. set (f2 := fuel_of (n / 2)).
  unfold fuel_of. cbn [halv_count]. rewrite E. f_equal.
  apply halvable_half in E as E'. destruct E' as [E1 E2].
  assert (L : Z.log2 n = Z.log2 (n / 2) + 1).
  { rewrite <- E2 at 1. rewrite Z.log2_double by lia. lia. }
  pose proof (Z.log2_nonneg (n/2)).
  apply halv_count_fuel; subst f2; unfold fuel_of; lia.
Qed.

Lemma count1_stop n : halvable n = false -> count1 n = 0.
Proof. intros E. unfold count1, fuel_of. cbn [halv_count]. now rewrite E. Qed.

Lemma count1_nonneg n : 0 < n -> 0 <= count1 n.
Proof.
  intros Hn. unfold count1. generalize (fuel_of n). intros f. revert n Hn.
  induction f as [|f IH]; intros n Hn; cbn [halv_count]; [lia|].
  destruct (halvable n) eqn:E; [|lia].
  apply halvable_half in E. specialize (IH (n/2)). lia.
Qed.

Lemma count1_pos_iff n : 0 < n -> (0 < count1 n <-> halvable n = true).
Proof.
  intros Hn. split.
  - intros H. destruct (halvable n) eqn:E; [reflexivity|].
    rewrite count1_stop in H by assumption. lia.
  - intros E. rewrite count1_step by assumption.
    apply halvable_half in E. pose proof (count1_nonneg (n/2)). lia.
Qed.

(* closed form: n = m * 2^(count1 n) with m >= 2 and m not halvable *)
Lemma count1_closed_form n : 2 <= n ->
  exists m, n = m * 2 ^ count1 n /\ 2 <= m /\ halvable m = false.
Proof.
  intros Hn.
  assert (G : forall k, 0 <= k -> forall n, 2 <= n -> count1 n = k ->
              exists m, n = m * 2 ^ k /\ 2 <= m /\ halvable m = false).
  { intros k Hk. pattern k. apply natlike_ind; [| |assumption]; clear k Hk.
    - intros n0 H0 Hc. exists n0. rewrite Z.pow_0_r. repeat split; try lia.
      destruct (halvable n0) eqn:E; [|reflexivity].
      apply (count1_pos_iff n0 ltac:(lia)) in E. lia.
    - intros k Hk IH n0 H0 Hc.
      assert (E : halvable n0 = true) by (apply (count1_pos_iff n0); lia).
      rewrite count1_step in Hc by (assumption || lia).
      apply halvable_half in E as E'. destruct E' as [E1 E2].
      destruct (IH (n0/2) E1 ltac:(lia)) as [m [Hm [Hm2 Hm3]]].
      exists m. repeat split; try assumption.
      rewrite Z.pow_succ_r by lia. rewrite <- E2 at 1. rewrite Hm at 1. ring. }
  apply (G (count1 n)); [apply count1_nonneg; lia|assumption|reflexivity].
Qed.

(* ------------------------------------------------------------------------ *)
(* 2. line relaxation never runs along a two-cell direction                  *)

Lemma lr_never_two_cells lr0 n0 n1 n2 : 0 <= lr0 <= 7 ->
  let k := lines_along (current_lr_dir lr0 n0 n1 n2) in
  (n0 = 2 -> fst (fst k) = false) /\
  (n1 = 2 -> snd (fst k) = false) /\
  (n2 = 2 -> snd k = false).
Proof.
  intros H.
  assert (C : lr0 = 0 \/ lr0 = 1 \/ lr0 = 2 \/ lr0 = 3 \/ lr0 = 4 \/ lr0 = 5
              \/ lr0 = 6 \/ lr0 = 7) by lia.
  destruct (Z.eqb_spec n0 2) as [E0|E0];
  destruct (Z.eqb_spec n1 2) as [E1|E1];
  destruct (Z.eqb_spec n2 2) as [E2|E2];
  repeat (destruct C as [->|C] || (subst lr0));
  cbv zeta; unfold lines_along, current_lr_dir, smoothing_kernels;
  repeat match goal with
  | H : ?n = 2 |- _ => rewrite H; clear H
  end;
  repeat match goal with
  | H : ?n <> 2 |- context [?n =? 2] =>
      replace (n =? 2) with false by (symmetry; apply Z.eqb_neq; exact H)
  end;
  cbn; repeat split; intros; try reflexivity; try congruence.
Qed.

(* the smoother still relaxes along every requested direction that has more
   than two cells, and if nothing is left the point smoother runs *)
Lemma lr_subset lr0 n0 n1 n2 : 0 <= lr0 <= 7 ->
  let k := lines_along (current_lr_dir lr0 n0 n1 n2) in
  let k0 := lines_along lr0 in
  (fst (fst k) = (fst (fst k0) && negb (n0 =? 2))%bool) /\
  (snd (fst k) = (snd (fst k0) && negb (n1 =? 2))%bool) /\
  (snd k = (snd k0 && negb (n2 =? 2))%bool).
Proof.
  intros H.
  assert (C : lr0 = 0 \/ lr0 = 1 \/ lr0 = 2 \/ lr0 = 3 \/ lr0 = 4 \/ lr0 = 5
              \/ lr0 = 6 \/ lr0 = 7) by lia.
  cbv zeta. unfold lines_along, current_lr_dir, smoothing_kernels.
  destruct (n0 =? 2), (n1 =? 2), (n2 =? 2);
  repeat (destruct C as [->|C] || (subst lr0)); cbn; repeat split; reflexivity.
Qed.

(* ------------------------------------------------------------------------ *)
(* 3. semicoarsening: which directions are halved                            *)

(* pattern membership: is direction d (0=x,1=y,2=z) coarsened by pattern sc *)
Definition in_pat (scd d : Z) : bool := negb (scd =? d + 1).

(* NOTE the hypothesis: when NO direction of the pattern can be halved the
   helper answers 6 (coarsen z) regardless; the recursion never asks in that
   situation because it has reached its bottom level (see [some_halvable]). *)
Definition can_halve (scd n0 n1 n2 : Z) : bool :=
  ((in_pat scd 0 && halvable n0) || (in_pat scd 1 && halvable n1)
   || (in_pat scd 2 && halvable n2))%bool.

Lemma restrict_factors_current scd n0 n1 n2 : 0 <= scd <= 3 ->
  can_halve scd n0 n1 n2 = true ->
  restrict_factors (current_sc_dir scd n0 n1 n2) =
  (if (in_pat scd 0 && halvable n0)%bool then 2 else 1,
   if (in_pat scd 1 && halvable n1)%bool then 2 else 1,
   if (in_pat scd 2 && halvable n2)%bool then 2 else 1).
Proof.
  intros H. assert (C : scd = 0 \/ scd = 1 \/ scd = 2 \/ scd = 3) by lia.
  unfold can_halve, current_sc_dir, restrict_factors, halvable, in_pat. cbv zeta.
  assert (T : forall n, (n <? 3) = negb (2 <? n)).
  { intros n. destruct (Z.ltb_spec n 3), (Z.ltb_spec 2 n); cbn; lia. }
  rewrite !T.
  destruct (n0 mod 2 =? 0), (2 <? n0), (n1 mod 2 =? 0), (2 <? n1),
           (n2 mod 2 =? 0), (2 <? n2);
  repeat (destruct C as [->|C] || (subst scd)); cbn; intros Hc;
    try reflexivity; discriminate Hc.
Qed.

Lemma coarse_cells_1 n : coarse_cells n 1 = n.
Proof. unfold coarse_cells. rewrite Z.div_1_r. lia. Qed.

Lemma coarse_cells_2 n : n mod 2 = 0 -> coarse_cells n 2 = n / 2.
Proof.
  intros H. unfold coarse_cells.
  replace (n + 2) with (n + 1 * 2) by lia. rewrite Z.div_add by lia. lia.
Qed.

Definition step1 (scd d n : Z) : Z :=
  if (in_pat scd d && halvable n)%bool then n / 2 else n.

(* the coarse shape: each direction is halved iff the pattern coarsens it and
   its cell count is even and larger than two *)
Lemma halve_spec c s : 0 <= sc c <= 3 ->
  can_halve (sc c) (sx s) (sy s) (sz s) = true ->
  halve s (c_sc_of c s) = (step1 (sc c) 0 (sx s), step1 (sc c) 1 (sy s), step1 (sc c) 2 (sz s)).
Proof.
  intros H Hc. unfold halve, c_sc_of. rewrite restrict_factors_current by assumption.
  cbn [fst snd]. unfold step1.
  f_equal; [f_equal|];
  match goal with |- context [halvable ?n] =>
    destruct (in_pat _ _); cbn [andb]; [destruct (halvable n) eqn:E|];
    rewrite ?coarse_cells_1; try reflexivity;
    apply halvable_spec in E; apply coarse_cells_2; tauto
  end.
Qed.

Lemma step1_ge2 scd d n : 2 <= n -> 2 <= step1 scd d n.
Proof.
  intros H. unfold step1. destruct (in_pat scd d); cbn [andb]; [|assumption].
  destruct (halvable n) eqn:E; [|assumption]. apply halvable_half in E. lia.
Qed.

(* only even directions with more than two cells are ever halved *)
Lemma step1_changes scd d n : step1 scd d n <> n -> (n mod 2 = 0 /\ 2 < n /\ step1 scd d n = n / 2).
Proof.
  unfold step1. destruct (in_pat scd d); cbn [andb]; [|congruence].
  destruct (halvable n) eqn:E; [|congruence]. apply halvable_spec in E. intros _. tauto.
Qed.

Lemma step1_count scd d n : 0 < n ->
  count1 (step1 scd d n) = if in_pat scd d then Z.max 0 (count1 n - 1) else count1 n.
Proof.
  intros Hn. unfold step1. destruct (in_pat scd d); cbn [andb]; [|reflexivity].
  destruct (halvable n) eqn:E.
  - rewrite (count1_step n) by assumption.
    apply halvable_half in E. pose proof (count1_nonneg (n/2)). lia.
  - rewrite count1_stop by assumption. reflexivity.
Qed.

(* shape after l levels of coarsening with pattern scd *)
Fixpoint iter_step (l : nat) (scd d n : Z) : Z :=
  match l with O => n | S l' => iter_step l' scd d (step1 scd d n) end.

Lemma iter_step_ge2 l : forall scd d n, 2 <= n -> 2 <= iter_step l scd d n.
Proof.
  induction l as [|l IH]; intros scd d n H; cbn [iter_step]; [assumption|].
  apply IH. now apply step1_ge2.
Qed.

(* closed form: n / 2^(min l (count1 n)) in coarsened directions *)
Lemma iter_step_closed l : forall scd d n, 2 <= n ->
  iter_step l scd d n =
  if in_pat scd d then n / 2 ^ Z.min (Z.of_nat l) (count1 n) else n.
Proof.
  induction l as [|l IH]; intros scd d n H; cbn [iter_step].
  - destruct (in_pat scd d); [|reflexivity].
    pose proof (count1_nonneg n ltac:(lia)).
    replace (Z.min (Z.of_nat 0) (count1 n)) with 0 by lia.
    now rewrite Z.pow_0_r, Z.div_1_r.
  - rewrite IH by (apply step1_ge2; assumption).
    unfold step1. destruct (in_pat scd d) eqn:P; cbn [andb]; [|reflexivity].
    destruct (halvable n) eqn:E.
    + rewrite (count1_step n) by (assumption || lia).
      apply halvable_half in E as E'. destruct E' as [E1 E2].
      pose proof (count1_nonneg (n/2) ltac:(lia)).
      replace (Z.min (Z.of_nat (S l)) (1 + count1 (n / 2)))
        with (1 + Z.min (Z.of_nat l) (count1 (n / 2))) by lia.
      rewrite Z.pow_add_r by lia. rewrite Z.pow_1_r.
      rewrite Z.div_div by lia. reflexivity.
    + rewrite count1_stop by assumption.
      replace (Z.min (Z.of_nat l) 0) with 0 by lia.
      replace (Z.min (Z.of_nat (S l)) 0) with 0 by lia. reflexivity.
Qed.

(* ------------------------------------------------------------------------ *)
(* 4. shapes along the recursion                                             *)

Lemma iter_step_count l : forall scd d n, 2 <= n ->
  count1 (iter_step l scd d n) =
  if in_pat scd d then Z.max 0 (count1 n - Z.of_nat l) else count1 n.
Proof.
  induction l as [|l IH]; intros scd d n H; cbn [iter_step].
  - pose proof (count1_nonneg n ltac:(lia)). destruct (in_pat scd d); lia.
  - rewrite IH by (apply step1_ge2; assumption).
    rewrite step1_count by lia.
    pose proof (count1_nonneg n ltac:(lia)). destruct (in_pat scd d); lia.
Qed.

Lemma iter_step_S l : forall scd d n,
  iter_step (S l) scd d n = step1 scd d (iter_step l scd d n).
Proof.
  induction l as [|l IH]; intros scd d n; [reflexivity|].
  change (iter_step (S (S l)) scd d n) with (iter_step (S l) scd d (step1 scd d n)).
  rewrite IH. reflexivity.
Qed.

Definition shape_at (c : cfg) (l : nat) : shape :=
  (iter_step l (sc c) 0 (sx (shape0 c)), iter_step l (sc c) 1 (sy (shape0 c)),
   iter_step l (sc c) 2 (sz (shape0 c))).

Definition wf_cfg (c : cfg) : Prop :=
  0 <= sc c <= 3 /\ 2 <= sx (shape0 c) /\ 2 <= sy (shape0 c) /\ 2 <= sz (shape0 c).

Lemma cap_level_le u n : 0 <= n -> 0 <= cap_level u n <= n.
Proof.
  intros H. unfold cap_level. cbv zeta.
  destruct (Z.ltb_spec (-(1)) u), (Z.ltb_spec u n); cbn [andb]; lia.
Qed.

Lemma cap_level_spec u n : 0 <= n ->
  cap_level u n = if (u <? 0) then n else Z.min u n.
Proof.
  intros H. unfold cap_level. cbv zeta.
  destruct (Z.ltb_spec (-(1)) u), (Z.ltb_spec u n), (Z.ltb_spec u 0); cbn [andb]; lia.
Qed.

(* the bottom level is the maximum, over the directions the pattern coarsens,
   of the (capped) number of possible halvings *)
Lemma bottom_spec c : 0 <= sc c <= 3 ->
  let cx := cap_level (user c) (count1 (sx (shape0 c))) in
  let cy := cap_level (user c) (count1 (sy (shape0 c))) in
  let cz := cap_level (user c) (count1 (sz (shape0 c))) in
  bottom c = Z.max (if in_pat (sc c) 0 then cx else 0)
              (Z.max (if in_pat (sc c) 1 then cy else 0) (if in_pat (sc c) 2 then cz else 0))
  \/ (cx < 0 \/ cy < 0 \/ cz < 0).
Proof.
  intros H. cbv zeta. unfold bottom, clevel_tab, cap3, clevel_table, tab_get, in_pat.
  cbv zeta. cbn [fst snd].
  assert (C : sc c = 0 \/ sc c = 1 \/ sc c = 2 \/ sc c = 3) by lia.
  destruct C as [E|[E|[E|E]]]; rewrite E; simpl (_ =? _); simpl (negb _);
    cbn [fst snd]; lia.
Qed.

Lemma bottom_nonneg c : wf_cfg c -> 0 <= bottom c.
Proof.
  intros [H [Hx [Hy Hz]]].
  pose proof (cap_level_le (user c) _ (count1_nonneg (sx (shape0 c)) ltac:(lia))).
  pose proof (cap_level_le (user c) _ (count1_nonneg (sy (shape0 c)) ltac:(lia))).
  pose proof (cap_level_le (user c) _ (count1_nonneg (sz (shape0 c)) ltac:(lia))).
  destruct (bottom_spec c H) as [E|E]; [|lia].
  cbv zeta in E. rewrite E. destruct (in_pat (sc c) 0), (in_pat (sc c) 1), (in_pat (sc c) 2); lia.
Qed.

(* above the bottom level some direction of the pattern can still be halved *)
Lemma some_halvable c (l : nat) : wf_cfg c -> Z.of_nat l < bottom c ->
  can_halve (sc c) (sx (shape_at c l)) (sy (shape_at c l)) (sz (shape_at c l)) = true.
Proof.
  intros [H [Hx [Hy Hz]]] Hl.
  pose proof (count1_nonneg (sx (shape0 c)) ltac:(lia)) as Nx.
  pose proof (count1_nonneg (sy (shape0 c)) ltac:(lia)) as Ny.
  pose proof (count1_nonneg (sz (shape0 c)) ltac:(lia)) as Nz.
  pose proof (cap_level_le (user c) _ Nx) as Cx.
  pose proof (cap_level_le (user c) _ Ny) as Cy.
  pose proof (cap_level_le (user c) _ Nz) as Cz.
  destruct (bottom_spec c H) as [E|E]; [|lia]. cbv zeta in E.
  unfold can_halve, shape_at. cbn [sx sy sz fst snd].
  assert (P : forall d n, 2 <= n -> in_pat (sc c) d = true ->
              Z.of_nat l < count1 n -> halvable (iter_step l (sc c) d n) = true).
  { intros d n Hn Hp Hc.
    apply count1_pos_iff; [pose proof (iter_step_ge2 l (sc c) d n Hn); lia|].
    rewrite iter_step_count by assumption. rewrite Hp. lia. }
  apply orb_true_iff.
  destruct (in_pat (sc c) 0) eqn:P0; cbn [andb].
  - destruct (Z_lt_dec (Z.of_nat l) (cap_level (user c) (count1 (sx (shape0 c))))) as [L|L].
    + left. apply orb_true_iff. left. apply (P 0); try assumption; lia.
    + destruct (in_pat (sc c) 1) eqn:P1; cbn [andb].
      * destruct (Z_lt_dec (Z.of_nat l) (cap_level (user c) (count1 (sy (shape0 c))))) as [L1|L1].
        -- left. apply orb_true_iff. right. apply (P 1); try assumption; lia.
        -- right. destruct (in_pat (sc c) 2) eqn:P2; [|lia].
           apply (P 2); try assumption; lia.
      * right. destruct (in_pat (sc c) 2) eqn:P2; [|lia].
        apply (P 2); try assumption; lia.
  - destruct (in_pat (sc c) 1) eqn:P1; cbn [andb].
    + destruct (Z_lt_dec (Z.of_nat l) (cap_level (user c) (count1 (sy (shape0 c))))) as [L1|L1].
      * left. apply (P 1); try assumption; lia.
      * right. destruct (in_pat (sc c) 2) eqn:P2; [|lia].
        apply (P 2); try assumption; lia.
    + right. destruct (in_pat (sc c) 2) eqn:P2; [|lia].
      apply (P 2); try assumption; lia.
Qed.

(* one restriction step moves from shape_at l to shape_at (l+1) *)
Lemma halve_shape_at c (l : nat) : wf_cfg c -> Z.of_nat l < bottom c ->
  halve (shape_at c l) (c_sc_of c (shape_at c l)) = shape_at c (S l).
Proof.
  intros W Hl. rewrite halve_spec; [|apply W|apply some_halvable; assumption].
  unfold shape_at, sx, sy, sz; cbn [fst snd]. now rewrite !iter_step_S.
Qed.

Lemma shape_at_ge2 c l : wf_cfg c ->
  2 <= sx (shape_at c l) /\ 2 <= sy (shape_at c l) /\ 2 <= sz (shape_at c l).
Proof.
  intros [H [Hx [Hy Hz]]]. unfold shape_at, sx, sy, sz; cbn [fst snd].
  repeat split; apply iter_step_ge2; assumption.
Qed.
