(* Proofs/LayeredAsm.v -- C19: the result assembly of layered() / _compute_1d puts the
   response of receiver r (by label) into row r at exactly the finite triples. *)
From Coq Require Import Bool List String Arith Lia.
From V Require Import Model.Layered Model.LayeredAsm Proofs.Layered.
Import ListNotations.

Section AsmProofs.
  Variable D : Type.
  Variable A : Type.
  Variable freqs : list A.
  Variable resp : string -> list A -> list D.
  Variable resp1 : string -> A -> D.
  Hypothesis resp_pointwise : forall k fs, resp k fs = map (resp1 k) fs.

  Notation nan_row := (nan_row D A freqs).
  Notation assign := (assign D).
  Notation upd_row := (upd_row D).

  (* the row the loop leaves for receiver k *)
  Definition spec_row (observed : option (list (string * list bool))) (k : string) : orow D :=
    let fi := mask_for A freqs observed k in
    if Nat.eqb (count_true fi) 0 then nan_row
    else assign nan_row fi (resp k (select fi freqs)).

  Lemma upd_row_app (done : list (orow D)) x rest f :
    upd_row (done ++ x :: rest) (List.length done) f = done ++ f x :: rest.
  Proof. induction done as [|a t IH]; cbn; [reflexivity|]. now rewrite IH. Qed.

  Lemma asm_fold observed : forall rest done,
    fold_left (asm_step D A freqs resp observed) rest
              (List.length done, done ++ map (fun _ => nan_row) rest) =
    ((List.length done + List.length rest)%nat, done ++ map (spec_row observed) rest).
  Proof.
    induction rest as [|k t IH]; intros done.
    - cbn. now rewrite Nat.add_0_r.
    - cbn [fold_left map List.length].
      assert (E : asm_step D A freqs resp observed
                    (List.length done, done ++ nan_row :: map (fun _ => nan_row) t) k =
                  (List.length (done ++ [spec_row observed k]),
                   (done ++ [spec_row observed k]) ++ map (fun _ => nan_row) t)).
      { unfold asm_step, spec_row. cbn [fst snd]. rewrite app_length. cbn [List.length].
        rewrite Nat.add_1_r, <- app_assoc. cbn [app].
        destruct (Nat.eqb (count_true (mask_for A freqs observed k)) 0); [reflexivity|].
        now rewrite upd_row_app. }
      rewrite E, IH, app_length, <- app_assoc. cbn [List.length app]. f_equal. lia.
  Qed.

  Lemma assemble_eq keys observed :
    assemble D A freqs resp keys observed = map (spec_row observed) keys.
  Proof.
    unfold assemble. pose proof (asm_fold observed keys []) as H. cbn [List.length app] in H.
    now rewrite H.
  Qed.

  (* out[i, fi] = map f (freqs[fi]) written into a NaN row *)
  Lemma assign_map_select (f : A -> D) : forall fi (l : list A) j d,
    List.length fi = List.length l -> (j < List.length l)%nat ->
    nth j (assign (map (fun _ => None) l) fi (map f (select fi l))) None =
    if nth j fi false then Some (f (nth j l d)) else None.
  Proof.
    induction fi as [|b t IH]; intros l j d Hl Hj.
    - destruct l; cbn in *; lia.
    - destruct l as [|x r]; [cbn in Hl; lia|].
      cbn [List.length] in *. destruct b; cbn [select map LayeredAsm.assign].
      + destruct j; [reflexivity|]. cbn [nth]. apply IH; lia.
      + destruct j; [reflexivity|]. cbn [nth]. apply IH; lia.
  Qed.

  Lemma spec_row_nth observed k j d :
    List.length (mask_for A freqs observed k) = List.length freqs -> (j < List.length freqs)%nat ->
    nth j (spec_row observed k) None =
    if nth j (mask_for A freqs observed k) false then Some (resp1 k (nth j freqs d)) else None.
  Proof.
    intros Hl Hj. unfold spec_row.
    destruct (Nat.eqb (count_true (mask_for A freqs observed k)) 0) eqn:C.
    - apply Nat.eqb_eq in C. rewrite (count_true_0 _ j C).
      unfold LayeredAsm.nan_row. apply (nth_map_const freqs (@None D) j).
    - rewrite resp_pointwise. unfold LayeredAsm.nan_row. now apply assign_map_select.
  Qed.

  (* THE assembly theorem (mask looked up by label) *)
  Lemma assemble_spec keys observed :
    (forall k, In k keys -> List.length (mask_for A freqs observed k) = List.length freqs) ->
    List.length (assemble D A freqs resp keys observed) = List.length keys /\
    forall r k j d, nth_error keys r = Some k -> (j < List.length freqs)%nat ->
      nth j (nth r (assemble D A freqs resp keys observed) []) None =
      if nth j (mask_for A freqs observed k) false then Some (resp1 k (nth j freqs d)) else None.
  Proof.
    intros Hm. rewrite assemble_eq. split; [apply map_length|].
    intros r k j d Hk Hj.
    assert (Er : nth r (map (spec_row observed) keys) [] = spec_row observed k).
    { apply nth_error_nth. now rewrite nth_error_map, Hk. }
    rewrite Er. apply spec_row_nth; [|exact Hj]. apply Hm. eapply nth_error_In; eauto.
  Qed.

  (* label lookup = position when the observed array carries the receivers' keys *)
  Lemma loc_combine {T} : forall (keys : list string) (masks : list (list T)) r k,
    NoDup keys -> List.length masks = List.length keys -> nth_error keys r = Some k ->
    loc (combine keys masks) k = nth r masks [].
  Proof.
    induction keys as [|a t IH]; intros masks r k Hn Hl Hk; [destruct r; discriminate|].
    destruct masks as [|m ms]; [cbn in Hl; lia|]. cbn [combine loc].
    inversion Hn as [|? ? Hnot Hn']; subst.
    destruct r as [|r]; cbn in Hk.
    - inversion Hk; subst. now rewrite String.eqb_refl.
    - assert (a <> k) by (intros ->; apply Hnot; eapply nth_error_In; eauto).
      destruct (String.eqb a k) eqn:E; [apply String.eqb_eq in E; contradiction|].
      cbn [nth]. apply IH; auto.
  Qed.

  (* positional form: observed = the (nrec, nfreq) flags in receiver order *)
  Lemma assemble_by_position keys (masks : list (list bool)) :
    NoDup keys -> List.length masks = List.length keys ->
    (forall r, (r < List.length keys)%nat -> List.length (nth r masks []) = List.length freqs) ->
    let out := assemble D A freqs resp keys (Some (combine keys masks)) in
    List.length out = List.length keys /\
    forall r k j d, nth_error keys r = Some k -> (j < List.length freqs)%nat ->
      nth j (nth r out []) None =
      if nth j (nth r masks []) false then Some (resp1 k (nth j freqs d)) else None.
  Proof.
    intros Hn Hl Hm out.
    assert (Hloc : forall r k, nth_error keys r = Some k ->
                     mask_for A freqs (Some (combine keys masks)) k = nth r masks []).
    { intros r k Hk. cbn [mask_for]. now apply loc_combine. }
    destruct (assemble_spec keys (Some (combine keys masks))) as [L S].
    { intros k Hin. destruct (In_nth_error _ _ Hin) as [r Hr]. rewrite (Hloc r k Hr).
      apply Hm. apply nth_error_Some. congruence. }
    split; [exact L|]. intros r k j d Hk Hj. unfold out. rewrite (S r k j d Hk Hj).
    now rewrite (Hloc r k Hk).
  Qed.

  (* no observed data: every slot is computed *)
  Lemma assemble_no_observed keys :
    let out := assemble D A freqs resp keys None in
    List.length out = List.length keys /\
    forall r k j d, nth_error keys r = Some k -> (j < List.length freqs)%nat ->
      nth j (nth r out []) None = Some (resp1 k (nth j freqs d)).
  Proof.
    destruct (assemble_spec keys None) as [L S].
    { intros k _. cbn [mask_for]. apply map_length. }
    split; [exact L|]. intros r k j d Hk Hj. rewrite (S r k j d Hk Hj). cbn [mask_for].
    assert (E : nth j (map (fun _ : A => true) freqs) false = true).
    { rewrite (nth_indep _ false true) by (now rewrite map_length).
      apply (nth_map_const freqs true j). }
    now rewrite E.
  Qed.
End AsmProofs.

(* ---- all sources ---------------------------------------------------------- *)
Section AllSourcesProofs.
  Variable D : Type.
  Variable A : Type.
  Variable freqs : list A.
  Variable resp : string -> string -> list A -> list D.
  Variable resp1 : string -> string -> A -> D.
  Hypothesis resp_pointwise : forall s k fs, resp s k fs = map (resp1 s k) fs.

  Lemma existsb_nth_false {T} (p : T -> bool) (l : list T) :
    existsb p l = false -> forall x, In x l -> p x = false.
  Proof.
    intros H x Hin. destruct (p x) eqn:E; [|reflexivity].
    assert (existsb p l = true) by (apply existsb_exists; eauto). congruence.
  Qed.

  (* slot (source si = label s, receiver r = label k, frequency j) of _compute_1d:
     the reference response of (s, k) at frequency j if there is no finite observed datum at
     all, or if the observed datum of (s, k, j) is finite; NaN otherwise *)
  Lemma compute_1d_spec srcs keys (flags : list (list (list bool))) :
    NoDup srcs -> NoDup keys -> List.length flags = List.length srcs ->
    (forall si, (si < List.length srcs)%nat -> List.length (nth si flags []) = List.length keys) ->
    (forall si r, (si < List.length srcs)%nat -> (r < List.length keys)%nat ->
                  List.length (nth r (nth si flags []) []) = List.length freqs) ->
    let obs := combine srcs (map (combine keys) flags) in
    let out := compute_1d D A freqs resp srcs keys obs in
    List.length out = List.length srcs /\
    forall si s r k j d, nth_error srcs si = Some s -> nth_error keys r = Some k ->
      (j < List.length freqs)%nat ->
      List.length (nth si out []) = List.length keys /\
      nth j (nth r (nth si out []) []) None =
      if (negb (has_data obs) || nth j (nth r (nth si flags []) []) false)%bool
      then Some (resp1 s k (nth j freqs d)) else None.
  Proof.
    intros Hns Hnk Hl Hlk Hlf obs out. split; [apply map_length|].
    intros si s r k j d Hs Hk Hj.
    assert (Hsi : (si < List.length srcs)%nat) by (apply nth_error_Some; congruence).
    assert (Eo : nth si out [] =
                 assemble D A freqs (resp s) keys (src_observed obs s)).
    { apply nth_error_nth. unfold out, compute_1d. now rewrite nth_error_map, Hs. }
    rewrite Eo. unfold src_observed. destruct (has_data obs) eqn:Hd; cbn [negb orb].
    - assert (El : loc obs s = combine keys (nth si flags [])).
      { unfold obs. rewrite (loc_combine srcs (map (combine keys) flags) si s Hns);
          [|now rewrite map_length|exact Hs].
        rewrite (nth_indep _ [] (combine keys [])) by (now rewrite map_length, Hl).
        now rewrite map_nth. }
      rewrite El.
      destruct (assemble_by_position D A freqs (resp s) (resp1 s) (resp_pointwise s) keys
                  (nth si flags []) Hnk (Hlk si Hsi) (fun r0 Hr0 => Hlf si r0 Hsi Hr0)) as [L S].
      split; [exact L|]. exact (S r k j d Hk Hj).
    - destruct (assemble_no_observed D A freqs (resp s) (resp1 s) (resp_pointwise s) keys) as [L S].
      split; [exact L|]. exact (S r k j d Hk Hj).
  Qed.
End AllSourcesProofs.

(* ---- the filtered-index variant is distinguished --------------------------- *)
Definition tok (k : string) (fs : list nat) : list (string * nat) := map (fun f => (k, f)) fs.

(* receivers a, b, c; a has no finite datum, b only at the second frequency, c at both:
   the code's assembly keeps row 0 NaN and puts b, c in rows 1, 2; the filtered-index variant
   moves them one row up *)
Lemma assemble_filtered_witness :
  let keys := ["a"; "b"; "c"]%string in
  let obs := Some (combine keys [[false; false]; [false; true]; [true; true]]) in
  assemble _ _ [10; 20] tok keys obs =
    [[None; None]; [None; Some ("b"%string, 20)]; [Some ("c"%string, 10); Some ("c"%string, 20)]] /\
  assemble_filtered _ _ [10; 20] tok keys obs =
    [[None; Some ("b"%string, 20)]; [Some ("c"%string, 10); Some ("c"%string, 20)]; [None; None]].
Proof. split; vm_compute; reflexivity. Qed.
