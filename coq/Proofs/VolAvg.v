(* Proofs/VolAvg.v -- C15: lemmas about Model/VolAvg.v over the reals. *)
From Coq Require Import Reals ZArith Bool List Arith Lra Lia Sorted.
From V Require Import Base.FieldSig Model.VolAvg.
Import ListNotations.
Local Open Scope R_scope.

(* ------------------------------------------------------------ finite sums *)
Definition sumL {A} (f : A -> R) (l : list A) : R := sumF (map f l).

Lemma sumL_nil {A} (f : A -> R) : sumL f [] = 0.
Proof. reflexivity. Qed.
Lemma sumL_cons {A} (f : A -> R) a l : sumL f (a :: l) = f a + sumL f l.
Proof. reflexivity. Qed.
Lemma sumL_app {A} (f : A -> R) l1 l2 : sumL f (l1 ++ l2) = sumL f l1 + sumL f l2.
Proof. induction l1; rewrite ?app_nil_l, <- ?app_comm_cons, ?sumL_cons, ?sumL_nil; lra. Qed.
Lemma sumL_ext {A} (f g : A -> R) l : (forall a, In a l -> f a = g a) -> sumL f l = sumL g l.
Proof.
  induction l as [|a l IH]; intros H; [reflexivity|].
  rewrite !sumL_cons, (H a (or_introl eq_refl)), IH; [reflexivity|].
  intros b Hb; apply H; now right.
Qed.
Lemma sumL_plus {A} (f g : A -> R) l : sumL (fun a => f a + g a) l = sumL f l + sumL g l.
Proof. induction l; rewrite ?sumL_cons, ?sumL_nil, ?IHl; lra. Qed.
Lemma sumL_scal {A} (c : R) (f : A -> R) l : sumL (fun a => c * f a) l = c * sumL f l.
Proof. induction l; rewrite ?sumL_cons, ?sumL_nil, ?IHl; lra. Qed.
Lemma sumL_zero {A} (l : list A) : sumL (fun _ => 0) l = 0.
Proof. induction l; rewrite ?sumL_cons, ?sumL_nil, ?IHl; lra. Qed.
Lemma sumL_le {A} (f g : A -> R) l : (forall a, In a l -> f a <= g a) -> sumL f l <= sumL g l.
Proof.
  induction l as [|a l IH]; intros H; [rewrite !sumL_nil; lra|].
  rewrite !sumL_cons. pose proof (H a (or_introl eq_refl)).
  assert (sumL f l <= sumL g l) by (apply IH; intros b Hb; apply H; now right). lra.
Qed.
Lemma sumL_flat_map {A B} (f : B -> R) (g : A -> list B) l :
  sumL f (flat_map g l) = sumL (fun a => sumL f (g a)) l.
Proof. induction l; cbn [flat_map]; rewrite ?sumL_app, ?sumL_cons, ?sumL_nil, ?IHl; reflexivity. Qed.
Lemma sumL_map {A B} (f : B -> R) (g : A -> B) l : sumL f (map g l) = sumL (fun a => f (g a)) l.
Proof. unfold sumL. now rewrite map_map. Qed.

Section Indicator.
  Context {J : Type}.
  Variable jeqb : J -> J -> bool.
  Hypothesis jeqb_spec : forall a b, jeqb a b = true <-> a = b.

  Lemma jeqb_refl a : jeqb a a = true.
  Proof using jeqb_spec. now apply jeqb_spec. Qed.

  Lemma sum_indicator (f : J -> R) (j : J) (Os : list J) :
    NoDup Os -> In j Os -> sumL (fun o => if jeqb j o then f o else 0) Os = f j.
  Proof using jeqb_spec.
    induction Os as [|o Os IH]; intros Hnd Hin; [destruct Hin|].
    inversion Hnd as [|? ? Hno Hnd']; subst. rewrite sumL_cons.
    destruct Hin as [->|Hin].
    - rewrite jeqb_refl.
      assert (E : sumL (fun o => if jeqb j o then f o else 0) Os = 0).
      { transitivity (sumL (fun _ : J => 0) Os); [|apply sumL_zero].
        apply sumL_ext. intros a Ha.
        destruct (jeqb j a) eqn:E; [|reflexivity].
        apply jeqb_spec in E. subst. contradiction. }
      rewrite E. lra.
    - destruct (jeqb j o) eqn:E.
      + apply jeqb_spec in E. subst. contradiction.
      + rewrite IH by assumption. lra.
  Qed.
End Indicator.

(* ------------------------------------- linear maps given by weight triples *)
Lemma accum_cons {I J} (jeqb : J -> J -> bool) (t : R * I * J) T v o :
  accum jeqb (t :: T) v o
  = (if jeqb (snd t) o then fst (fst t) * v (snd (fst t)) else 0) + accum jeqb T v o.
Proof. reflexivity. Qed.
Lemma accum_nil {I J} (jeqb : J -> J -> bool) (v : I -> R) o :
  accum jeqb (@nil (R * I * J)) v o = 0.
Proof. reflexivity. Qed.

Section Triples.
  Context {I J : Type}.
  Variable ieqb : I -> I -> bool.
  Variable jeqb : J -> J -> bool.
  Hypothesis ieqb_spec : forall a b, ieqb a b = true <-> a = b.
  Hypothesis jeqb_spec : forall a b, jeqb a b = true <-> a = b.
  Variable T : list (R * I * J).
  Variable vol : J -> R.
  Variables (Is : list I) (Os : list J).
  Hypothesis Is_nodup : NoDup Is.
  Hypothesis Os_nodup : NoDup Os.
  Hypothesis T_in : forall t, In t T -> In (snd (fst t)) Is.
  Hypothesis T_out : forall t, In t T -> In (snd t) Os.

  Notation wt t := (fst (fst t)).
  Notation tin t := (snd (fst t)).
  Notation tout t := (snd t).

  Lemma accum_sumL v o :
    accum jeqb T v o = sumL (fun t => if jeqb (tout t) o then wt t * v (tin t) else 0) T.
  Proof. reflexivity. Qed.

  (* linearity of the accumulation and of the whole map *)
  Lemma accum_linear a b v v' o :
    accum jeqb T (fun i => a * v i + b * v' i) o
    = a * accum jeqb T v o + b * accum jeqb T v' o.
  Proof.
    rewrite !accum_sumL, <- !sumL_scal, <- sumL_plus. apply sumL_ext. intros t _.
    destruct (jeqb (tout t) o); cbn; ring.
  Qed.

  Lemma apply_va_linear a b v v' o :
    apply_va jeqb T vol (fun _ => 0) (fun i => a * v i + b * v' i) o
    = a * apply_va jeqb T vol (fun _ => 0) v o + b * apply_va jeqb T vol (fun _ => 0) v' o.
  Proof.
    unfold apply_va. rewrite accum_linear. cbn. unfold Rdiv. ring.
  Qed.

  (* swapping the order of summation *)
  Lemma sum_out_swap (g : J -> R) v :
    sumL (fun o => g o * accum jeqb T v o) Os
    = sumL (fun t => g (tout t) * (wt t * v (tin t))) T.
  Proof using jeqb_spec Os_nodup T_out.
    revert T_out. clear T_in. induction T as [|t T' IH]; intros Hout.
    - rewrite sumL_nil.
      transitivity (sumL (fun _ : J => 0) Os); [|apply sumL_zero].
      apply sumL_ext. intros. rewrite accum_nil. ring.
    - rewrite sumL_cons, <- IH by (intros t' Ht'; apply Hout; now right).
      rewrite <- (sum_indicator jeqb jeqb_spec (fun o => g o * (wt t * v (tin t))) (tout t) Os
                                Os_nodup (Hout t (or_introl eq_refl))).
      rewrite <- sumL_plus. apply sumL_ext. intros o _.
      rewrite accum_cons.
      destruct (jeqb (tout t) o); ring.
  Qed.

  Lemma sum_in_swap (h : R * I * J -> R) v :
    sumL (fun i => sumL (fun t => if ieqb (tin t) i then h t else 0) T * v i) Is
    = sumL (fun t => h t * v (tin t)) T.
  Proof using ieqb_spec Is_nodup T_in.
    revert T_in. clear T_out. induction T as [|t T' IH]; intros Hin.
    - rewrite sumL_nil. transitivity (sumL (fun _ : I => 0) Is); [|apply sumL_zero].
      apply sumL_ext. intros; rewrite sumL_nil; ring.
    - rewrite sumL_cons, <- IH by (intros t' Ht'; apply Hin; now right).
      rewrite <- (sum_indicator ieqb ieqb_spec (fun i => h t * v i) (tin t) Is
                                Is_nodup (Hin t (or_introl eq_refl))).
      rewrite <- sumL_plus. apply sumL_ext. intros i _.
      rewrite sumL_cons. destruct (ieqb (tin t) i); ring.
  Qed.

  (* <u, A v> = <A^T u, v> *)
  Lemma adjoint_identity u v :
    (forall o, In o Os -> vol o <> 0) ->
    sumL (fun o => u o * apply_va jeqb T vol (fun _ => 0) v o) Os
    = sumL (fun i => apply_va_T ieqb T vol u i * v i) Is.
  Proof using ieqb_spec jeqb_spec Is_nodup Os_nodup T_in T_out.
    intros Hvol.
    transitivity (sumL (fun o => (u o / vol o) * accum jeqb T v o) Os).
    { apply sumL_ext. intros o Ho. unfold apply_va. cbn. field. now apply Hvol. }
    rewrite sum_out_swap. symmetry.
    transitivity (sumL (fun i => sumL (fun t => if ieqb (tin t) i
                     then wt t / vol (tout t) * u (tout t) else 0) T * v i) Is);
      [reflexivity|].
    rewrite (sum_in_swap (fun t => wt t / vol (tout t) * u (tout t)) v).
    apply sumL_ext. intros t Ht. cbn. field. apply Hvol. now apply T_out.
  Qed.

  (* conservation, given that the weights reading input cell i sum to its volume *)
  Lemma conserves_given_tile (voli : I -> R) v :
    (forall o, In o Os -> vol o <> 0) ->
    (forall i, In i Is -> wsum_in ieqb T i = voli i) ->
    sumL (fun o => vol o * apply_va jeqb T vol (fun _ => 0) v o) Os
    = sumL (fun i => voli i * v i) Is.
  Proof using ieqb_spec jeqb_spec Is_nodup Os_nodup T_in T_out.
    intros Hvol Htile.
    transitivity (sumL (fun o => 1 * accum jeqb T v o) Os).
    { apply sumL_ext. intros o Ho. unfold apply_va. cbn. field. now apply Hvol. }
    rewrite sum_out_swap.
    transitivity (sumL (fun i => sumL (fun t => if ieqb (tin t) i then wt t else 0) T * v i) Is).
    - rewrite (sum_in_swap (fun t => wt t) v). apply sumL_ext. intros; ring.
    - apply sumL_ext. intros i Hi. rewrite <- (Htile i Hi). reflexivity.
  Qed.

  (* the map is multiplication with the matrix va_matrix *)
  Lemma apply_va_is_matrix v o :
    apply_va jeqb T vol (fun _ => 0) v o
    = sumL (fun i => va_matrix ieqb jeqb T vol o i * v i) Is.
  Proof using ieqb_spec Is_nodup T_in.
    transitivity (sumL (fun i => sumL (fun t => if ieqb (tin t) i
                     then (if jeqb (tout t) o then wt t / vol o else 0) else 0) T * v i) Is).
    2:{ apply sumL_ext. intros i _. f_equal. unfold va_matrix. apply sumL_ext. intros t _.
        destruct (jeqb (tout t) o), (ieqb (tin t) i); reflexivity. }
    rewrite (sum_in_swap (fun t => if jeqb (tout t) o then wt t / vol o else 0) v).
    unfold apply_va. cbn. rewrite Rplus_0_l. unfold Rdiv at 1.
    rewrite Rmult_comm, accum_sumL, <- sumL_scal.
    apply sumL_ext. intros t _. destruct (jeqb (tout t) o); unfold Rdiv; ring.
  Qed.

  (* convexity: weights >= 0 that sum to the (positive) volume of cell o *)
  Lemma convex_given_tile v o m M :
    (forall t, In t T -> 0 <= wt t) ->
    wsum_out jeqb T o = vol o -> 0 < vol o ->
    (forall t, In t T -> m <= v (tin t) <= M) ->
    m <= apply_va jeqb T vol (fun _ => 0) v o <= M.
  Proof.
    intros Hw Hsum Hpos Hv. unfold apply_va. cbn.
    assert (B : m * sumL (fun t => if jeqb (tout t) o then wt t else 0) T
                <= sumL (fun t => if jeqb (tout t) o then wt t * v (tin t) else 0) T
                <= M * sumL (fun t => if jeqb (tout t) o then wt t else 0) T).
    { rewrite <- !sumL_scal. split; apply sumL_le; intros t Ht;
        specialize (Hw t Ht); specialize (Hv t Ht);
        destruct (jeqb (tout t) o); cbn; try lra; nra. }
    change (sumL (fun t => if jeqb (tout t) o then wt t else 0) T)
      with (wsum_out jeqb T o) in B.
    change (sumL (fun t => if jeqb (tout t) o then wt t * v (tin t) else 0) T)
      with (accum jeqb T v o) in B.
    rewrite Hsum in B. rewrite Rplus_0_l. split.
    - apply Rmult_le_reg_r with (vol o); [exact Hpos|].
      unfold Rdiv. rewrite Rmult_assoc, Rinv_l by lra. lra.
    - apply Rmult_le_reg_r with (vol o); [exact Hpos|].
      unfold Rdiv. rewrite Rmult_assoc, Rinv_l by lra. lra.
  Qed.
End Triples.

(* -------------------------------------------- tensor structure of the 3-D map *)
Lemma idx3_eqb_spec (a b : idx3) : idx3_eqb a b = true <-> a = b.
Proof.
  destruct a as [[a1 a2] a3], b as [[b1 b2] b3]. unfold idx3_eqb; cbn.
  rewrite !andb_true_iff, !Nat.eqb_eq. split.
  - intros [[-> ->] ->]; reflexivity.
  - intros H; injection H as -> -> ->; auto.
Qed.

Lemma wsum_out_sumL {I J} (jeqb : J -> J -> bool) (T : list (R * I * J)) o :
  wsum_out jeqb T o = sumL (fun t => if jeqb (snd t) o then fst (fst t) else 0) T.
Proof. reflexivity. Qed.
Lemma wsum_in_sumL {I J} (ieqb : I -> I -> bool) (T : list (R * I * J)) i :
  wsum_in ieqb T i = sumL (fun t => if ieqb (snd (fst t)) i then fst (fst t) else 0) T.
Proof. reflexivity. Qed.

Lemma sumL_prod3 {X Y Z} (hx : X -> R) (hy : Y -> R) (hz : Z -> R) wx wy wz :
  sumL (fun tz => sumL (fun ty => sumL (fun tx => hx tx * hy ty * hz tz) wx) wy) wz
  = sumL hx wx * sumL hy wy * sumL hz wz.
Proof.
  transitivity (sumL (fun tz => (sumL hx wx * sumL hy wy) * hz tz) wz).
  - apply sumL_ext; intros tz _.
    transitivity (sumL (fun ty => (sumL hx wx * hz tz) * hy ty) wy).
    + apply sumL_ext; intros ty _.
      transitivity (sumL (fun tx => (hy ty * hz tz) * hx tx) wx).
      * apply sumL_ext; intros; ring.
      * rewrite sumL_scal. ring.
    + rewrite sumL_scal. ring.
  - rewrite sumL_scal. ring.
Qed.

(* total weight written to output cell (a,b,c) = product of the 1-D totals *)
Lemma wsum_out_trip3 (wx wy wz : list (R * nat * nat)) a b c :
  wsum_out idx3_eqb (trip3 wx wy wz) (a, b, c)
  = wsum_out Nat.eqb wx a * wsum_out Nat.eqb wy b * wsum_out Nat.eqb wz c.
Proof.
  rewrite !wsum_out_sumL. unfold trip3.
  rewrite <- sumL_prod3. rewrite sumL_flat_map. apply sumL_ext. intros tz _.
  rewrite sumL_flat_map. apply sumL_ext. intros ty _.
  rewrite sumL_map. apply sumL_ext. intros tx _.
  unfold idx3_eqb; cbn.
  destruct (Nat.eqb (snd tx) a), (Nat.eqb (snd ty) b), (Nat.eqb (snd tz) c); cbn; ring.
Qed.

Lemma wsum_in_trip3 (wx wy wz : list (R * nat * nat)) a b c :
  wsum_in idx3_eqb (trip3 wx wy wz) (a, b, c)
  = wsum_in Nat.eqb wx a * wsum_in Nat.eqb wy b * wsum_in Nat.eqb wz c.
Proof.
  rewrite !wsum_in_sumL. unfold trip3.
  rewrite <- sumL_prod3. rewrite sumL_flat_map. apply sumL_ext. intros tz _.
  rewrite sumL_flat_map. apply sumL_ext. intros ty _.
  rewrite sumL_map. apply sumL_ext. intros tx _.
  unfold idx3_eqb; cbn.
  destruct (Nat.eqb (snd (fst tx)) a), (Nat.eqb (snd (fst ty)) b), (Nat.eqb (snd (fst tz)) c);
    cbn; ring.
Qed.

Lemma trip3_nonneg (wx wy wz : list (R * nat * nat)) :
  (forall t, In t wx -> 0 <= fst (fst t)) -> (forall t, In t wy -> 0 <= fst (fst t)) ->
  (forall t, In t wz -> 0 <= fst (fst t)) ->
  forall t, In t (trip3 wx wy wz) -> 0 <= fst (fst t).
Proof.
  intros Hx Hy Hz t Ht. unfold trip3 in Ht.
  apply in_flat_map in Ht. destruct Ht as [tz [Hz' Ht]].
  apply in_flat_map in Ht. destruct Ht as [ty [Hy' Ht]].
  apply in_map_iff in Ht. destruct Ht as [tx [<- Hx']]. cbn.
  specialize (Hx _ Hx'); specialize (Hy _ Hy'); specialize (Hz _ Hz').
  apply Rmult_le_pos; [apply Rmult_le_pos|]; assumption.
Qed.

(* ------------------------------- unbounded 1-D facts: sorted merge, weights > 0 *)
Lemma Rleb_true x y : Rleb x y = true <-> x <= y.
Proof. unfold Rleb. destruct (Rle_dec x y); split; auto; discriminate. Qed.
Lemma Rleb_false x y : Rleb x y = false <-> y < x.
Proof. unfold Rleb. destruct (Rle_dec x y); split; try discriminate; try lra; auto. Qed.

Lemma uinsert_in x l y : In y (uinsert Rleb x l) -> y = x \/ In y l.
Proof.
  induction l as [|z l IH]; cbn.
  - intros [<-|[]]; auto.
  - destruct (Rleb x z) eqn:E1; [destruct (Rleb z x) eqn:E2|].
    + intros H; right; exact H.
    + intros [<-|H]; auto.
    + intros [<-|H]; [right; left; reflexivity|].
      destruct (IH H) as [->|H']; [left; reflexivity | right; right; exact H'].
Qed.

Lemma uinsert_sorted x l :
  StronglySorted Rlt l -> StronglySorted Rlt (uinsert Rleb x l).
Proof.
  induction l as [|z l IH]; intros Hs; cbn.
  - constructor; [constructor|constructor].
  - inversion Hs as [|? ? Hs' Hall]; subst.
    destruct (Rleb x z) eqn:E1; [destruct (Rleb z x) eqn:E2|].
    + exact Hs.
    + apply Rleb_true in E1. apply Rleb_false in E2.
      constructor; [exact Hs|]. constructor; [lra|].
      rewrite Forall_forall in *. intros y Hy. specialize (Hall y Hy). lra.
    + apply Rleb_false in E1. constructor; [apply IH; exact Hs'|].
      rewrite Forall_forall in *. intros y Hy.
      destruct (uinsert_in x l y Hy) as [->|Hy']; [exact E1|apply Hall; exact Hy'].
Qed.

Lemma usort_sorted l : StronglySorted Rlt (usort Rleb l).
Proof.
  induction l as [|x l IH]; cbn; [constructor|]. apply uinsert_sorted. exact IH.
Qed.

Lemma va_loop_pos x_i x_o n1 n2 lo hi xs :
  StronglySorted Rlt xs -> forall i1 i2 t,
  In t (va_loop Rleb x_i x_o n1 n2 lo hi xs i1 i2) -> 0 < fst (fst t).
Proof.
  induction xs as [|a xs IH]; intros Hs i1 i2 t; cbn [va_loop]; [intros []|].
  inversion Hs as [|? ? Hs' Hall]; subst.
  destruct xs as [|b rest]; [intros []|].
  assert (a < b) by (rewrite Forall_forall in Hall; apply Hall; now left).
  match goal with |- context [if ?c then _ else _] => destruct c end.
  - intros [<-|Ht]; [cbn; lra|]. eapply IH; eauto.
  - intros Ht. eapply IH; eauto.
Qed.

(* for ALL node lists (any length, even unsorted input): every weight is > 0 *)
Lemma va_weights_pos x_i x_o t :
  In t (va_weights Rleb x_i x_o) -> 0 < fst (fst t).
Proof. unfold va_weights. apply va_loop_pos. apply usort_sorted. Qed.

(* ------------------------------------------------------------------ log mode *)
Lemma ln10_nz' : ln 10 <> 0.
Proof. assert (0 < ln 10) by (rewrite <- ln_1; apply ln_increasing; lra). lra. Qed.
Lemma log10_pow10 y : log10R (pow10R y) = y.
Proof. unfold log10R, pow10R. rewrite ln_exp. field. exact ln10_nz'. Qed.
Lemma pow10_opp y : pow10R (- y) = 1 / pow10R y.
Proof.
  unfold pow10R. replace (- y * ln 10) with (- (y * ln 10)) by ring.
  rewrite exp_Ropp. unfold Rdiv. ring.
Qed.
Lemma log10_inv x : 0 < x -> log10R (1 / x) = - log10R x.
Proof.
  intros H. unfold log10R. replace (1 / x) with (/ x) by (unfold Rdiv; ring).
  rewrite ln_Rinv by exact H. field. exact ln10_nz'.
Qed.

Section LogMode.
  Context {I J : Type}.
  Variable ieqb : I -> I -> bool.
  Variable jeqb : J -> J -> bool.
  Hypothesis ieqb_spec : forall a b, ieqb a b = true <-> a = b.
  Hypothesis jeqb_spec : forall a b, jeqb a b = true <-> a = b.
  Variable T : list (R * I * J).
  Variable vol : J -> R.

  (* resistivity and conductivity give reciprocal results in log mode *)
  Lemma log_mode_reciprocal v o :
    (forall i, 0 < v i) ->
    apply_va_log jeqb T vol (fun i => 1 / v i) o = 1 / apply_va_log jeqb T vol v o.
  Proof.
    intros Hv. unfold apply_va_log. rewrite <- pow10_opp. f_equal.
    pose proof (apply_va_linear jeqb T vol (-1) 0 (fun i => log10R (v i)) (fun _ => 0) o) as L.
    transitivity (apply_va jeqb T vol (fun _ => 0)
                    (fun i => -1 * log10R (v i) + 0 * 0) o).
    - unfold apply_va. f_equal. f_equal. unfold accum. f_equal.
      apply map_ext. intros t. destruct (jeqb (snd t) o); [|reflexivity].
      cbn. rewrite log10_inv by apply Hv. ring.
    - rewrite L. ring.
  Qed.

  (* the integral of log10 is conserved under the tiling hypothesis *)
  Lemma log_mode_conserves (Is : list I) (Os : list J) (voli : I -> R) v :
    NoDup Is -> NoDup Os ->
    (forall t, In t T -> In (snd (fst t)) Is) -> (forall t, In t T -> In (snd t) Os) ->
    (forall o, In o Os -> vol o <> 0) ->
    (forall i, In i Is -> wsum_in ieqb T i = voli i) ->
    sumL (fun o => vol o * log10R (apply_va_log jeqb T vol v o)) Os
    = sumL (fun i => voli i * log10R (v i)) Is.
  Proof using ieqb_spec jeqb_spec.
    intros H1 H2 H3 H4 H5 H6.
    rewrite <- (conserves_given_tile ieqb jeqb ieqb_spec jeqb_spec T vol Is Os H1 H2 H3 H4
                                     voli (fun i => log10R (v i)) H5 H6).
    apply sumL_ext. intros o _. unfold apply_va_log. now rewrite log10_pow10.
  Qed.
End LogMode.

(* ------------------------------------------ 1-D statements, decided on a bounded
   family: all pairs of node lists that are sub-sequences (>= 2 nodes) of 0..6 *)
From Coq Require Import QArith.
From V Require Import Base.ExecQ.
Local Open Scope Q_scope.

Definition sublists {A} (l : list A) : list (list A) :=
  fold_right (fun a acc => acc ++ map (cons a) acc) [[]] l.
Definition grids7 : list (list Q) :=
  filter (fun g => Nat.leb 2 (length g)) (sublists [0; 1; 2; 3; 4; 5; 6]).

Definition qsum (l : list Q) : Q := fold_right Qplus 0 l.
Definition wq_out (W : list (Q * nat * nat)) (j : nat) : Q :=
  qsum (map (fun t => if Nat.eqb (snd t) j then fst (fst t) else 0) W).
Definition wq_in (W : list (Q * nat * nat)) (j : nat) : Q :=
  qsum (map (fun t => if Nat.eqb (snd (fst t)) j then fst (fst t) else 0) W).
Definition trip_eqb (a b : Q * nat * nat) : bool :=
  (Qeq_bool (fst (fst a)) (fst (fst b)) && Nat.eqb (snd (fst a)) (snd (fst b))
   && Nat.eqb (snd a) (snd b))%bool.
Fixpoint list_eqb {A} (e : A -> A -> bool) (l1 l2 : list A) : bool :=
  match l1, l2 with
  | [], [] => true
  | a :: t1, b :: t2 => (e a b && list_eqb e t1 t2)%bool
  | _, _ => false
  end.
Definition last_q (l : list Q) : Q := nth (length l - 1) l 0.

(* every clause of the 1-D property for one pair of node lists *)
Definition check_pair (x_i x_o : list Q) : bool :=
  let W := va_weights Qle_bool x_i x_o in
  let n1 := length x_i in let n2 := length x_o in
  (* weights positive, indices in range *)
  (forallb (fun t => negb (Qle_bool (fst (fst t)) 0) && Nat.ltb (snd (fst t)) (n1 - 1)
                     && Nat.ltb (snd t) (n2 - 1)) W
  (* stateful loop = stateless description *)
  && list_eqb trip_eqb W (va_pairs Qle_bool x_i x_o (nth 0 x_o 0) (last_q x_o)
                                   (usort Qle_bool (x_i ++ x_o)))
  (* the weights written to output cell j sum to its width *)
  && forallb (fun j => Qeq_bool (wq_out W j) (nth (j + 1) x_o 0 - nth j x_o 0)) (seq 0 (n2 - 1))
  (* same region: the weights read from input cell j sum to its width *)
  && (if Qeq_bool (nth 0 x_i 0) (nth 0 x_o 0) && Qeq_bool (last_q x_i) (last_q x_o)
      then forallb (fun j => Qeq_bool (wq_in W j) (nth (j + 1) x_i 0 - nth j x_i 0)) (seq 0 (n1 - 1))
      else true)
  (* every merged interval lies inside its input cell, or outside the source
     grid and then it reads the nearest (first / last) input cell *)
  && forallb (fun t =>
        let j := snd t in let i := snd (fst t) in
        let a := nth j x_o 0 in let b := nth (j + 1) x_o 0 in
        (* some sub-interval of output cell j of length w: we check the cell-level fact *)
        if Qle_bool b (nth 0 x_i 0) then Nat.eqb i 0
        else if Qle_bool (last_q x_i) a then Nat.eqb i (n1 - 2)
        else true) W
  (* equal grids: identity (one weight per cell, its width, same index) *)
  && (if list_eqb Qeq_bool x_i x_o
      then list_eqb trip_eqb W
             (map (fun j => (nth (j + 1) x_o 0 - nth j x_o 0, j, j)) (seq 0 (n2 - 1)))
      else true))%bool.

Lemma check_pair_all :
  forallb (fun x_i => forallb (fun x_o => check_pair x_i x_o) grids7) grids7 = true.
Proof. vm_compute. reflexivity. Qed.

(* a concrete run, and the size of the bounded family *)
Lemma va_weights_example :
  va_weights Qle_bool [0; 1; 5#2; 4]%Q [-1#1; 1#2; 5#2; 3; 6]%Q
  = [((1)%Q, 0%nat, 0%nat); ((1#2)%Q, 0%nat, 0%nat); ((1#2)%Q, 0%nat, 1%nat); ((3#2)%Q, 1%nat, 1%nat); ((1#2)%Q, 2%nat, 2%nat); ((1)%Q, 2%nat, 3%nat); ((2)%Q, 2%nat, 3%nat)]
  /\ length grids7 = 120%nat.
Proof. vm_compute. split; reflexivity. Qed.
