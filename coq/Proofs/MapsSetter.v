(* Proofs/MapsSetter.v -- C14 (round 6): what a refused assignment leaves behind, and
   validity as an invariant of every history of operations on one Model.
   The order of events of the setters is Gen/MapsSetter.v (from models.py). *)
From Coq Require Import Reals ZArith Bool List String Lra Lia QArith.
From V Require Import Base.FieldSig Base.ExecQ Model.VolumeModel Gen.MapsMap Model.Maps Proofs.Maps
     Gen.MapsSetter Model.MapsSetter.
Import ListNotations.

Section SetterProofs.
  Context {F : Type}.
  Variable pos0 isz : F -> bool.
  Variable bwF : mapid -> F -> F.
  Variable ovf : mapid -> F -> option (xval F).
  Variable zero : F.
  Hypothesis zero_not_pos : pos0 zero = false.

  Notation check_pf := (check_pf pos0 isz bwF ovf zero).
  Notation model_set := (model_set pos0 isz bwF ovf zero).
  Notation model_aug := (model_aug pos0 isz bwF ovf zero).
  Notation run_setter := (run_setter pos0 isz bwF ovf zero).
  Notation set_param := (set_param pos0 isz bwF ovf zero).
  Notation step := (step pos0 isz bwF ovf zero).
  Notation trace := (trace pos0 isz bwF ovf zero).
  Notation outcomes := (outcomes pos0 isz bwF ovf zero).
  Notation run_ops := (run_ops pos0 isz bwF ovf zero).
  Notation aug_ok := (aug_ok pos0 isz bwF ovf zero).
  Notation aug_clean := (aug_clean pos0 isz bwF ovf zero).
  Notation accepts := (accepts pos0 isz bwF ovf zero).
  Notation model_valid := (model_valid pos0 isz bwF ovf zero).

  (* the specification setter (check, then store) seen as a step with an outcome *)
  Definition spec_set (md : model (F:=F)) (p : pname) (vs : list (xval F))
    : model (F:=F) * option verr :=
    match model_set md p vs with inl md' => (md', None) | inr e => (md, Some e) end.

  (* event list [check the assigned values; store] = the specification setter *)
  Lemma run_setter_check_store md p vs :
    run_setter [EvCheckValues; EvStore] md p vs = spec_set md p vs.
  Proof.
    unfold spec_set, Maps.model_set. cbn [Maps.run_setter].
    destruct (get_prop md p) as [l|] eqn:E.
    - destruct (check_pf (m_map md) (Some (Some l)) p vs); reflexivity.
    - reflexivity.
  Qed.

  (* THE ANCHORED STEP: the setters as they stand in models.py (Gen/MapsSetter.v)
     behave as the specification setter.  This is where a changed order of
     check / store in the source stops compiling. *)
  Lemma set_param_is_spec md p vs : set_param md p vs = spec_set md p vs.
  Proof.
    unfold MapsSetter.set_param.
    destruct p; cbn [setter_order]; apply run_setter_check_store.
  Qed.

  Lemma set_param_rejected_unchanged md p vs :
    snd (set_param md p vs) <> None -> fst (set_param md p vs) = md.
  Proof.
    rewrite set_param_is_spec. unfold spec_set.
    destruct (model_set md p vs); cbn [fst snd]; [intros H; now elim H | reflexivity].
  Qed.

  Lemma set_param_spec md p vs :
    (snd (set_param md p vs) = None <->
     get_prop md p <> None /\ List.Forall (accepts (m_map md) p) vs) /\
    (snd (set_param md p vs) = None -> fst (set_param md p vs) = set_prop md p (Some vs)).
  Proof using zero_not_pos.
    rewrite set_param_is_spec. unfold spec_set.
    pose proof (model_set_spec pos0 isz bwF ovf zero zero_not_pos md p vs) as S.
    destruct (model_set md p vs) as [md'|e] eqn:E; cbn [fst snd].
    - destruct (S md') as [S1 _]. destruct (S1 eq_refl) as (Hn & Hf & ->).
      split; [split; [intros _; split; assumption | reflexivity] | reflexivity].
    - split; [split; [discriminate|] | discriminate].
      intros [Hn Hf]. destruct (S (set_prop md p (Some vs))) as [_ S2].
      specialize (S2 (conj Hn (conj Hf eq_refl))). discriminate.
  Qed.

  Lemma check_pf_not_type m attr p vs : check_pf m attr p vs <> Some ErrType.
  Proof.
    unfold Maps.check_pf. destruct attr as [[l|]|];
      repeat match goal with |- context [if ?c then _ else _] => destruct c end; discriminate.
  Qed.

  Definition same_frame (md md' : model (F:=F)) : Prop :=
    case_of md' = case_of md /\ m_map md' = m_map md.

  (* one operation keeps the model valid (and its anisotropy case and map) *)
  Lemma step_preserves md o :
    model_valid md -> aug_ok md o ->
    model_valid (fst (step md o)) /\ same_frame md (fst (step md o)).
  Proof using zero_not_pos.
    intros Hv Ha. destruct o as [p vs|p vs]; cbn [MapsSetter.step].
    - rewrite set_param_is_spec. unfold spec_set.
      destruct (model_set md p vs) as [md'|e] eqn:E; cbn [fst].
      + destruct (model_set_preserves pos0 isz bwF ovf zero zero_not_pos md p vs md' Hv E)
          as (H1 & H2 & H3). split; [exact H1 | split; assumption].
      + split; [exact Hv | split; reflexivity].
    - cbn [MapsSetter.aug_ok MapsSetter.step] in Ha.
      destruct (model_aug_spec pos0 isz bwF ovf zero zero_not_pos md p vs) as (A1 & A2 & A3).
      destruct (get_prop md p) as [l|] eqn:E.
      + assert (Hn : Some l <> None) by discriminate.
        destruct Ha as [Ha|Ha].
        * apply A1 in Ha. destruct Ha as [_ Hf].
          rewrite (A2 Hn).
          assert (M : model_set md p vs = inl (set_prop md p (Some vs))).
          { apply (model_set_spec pos0 isz bwF ovf zero zero_not_pos). rewrite E.
            repeat split; [exact Hn | exact Hf]. }
          destruct (model_set_preserves pos0 isz bwF ovf zero zero_not_pos md p vs _ Hv M)
            as (H1 & H2 & H3). split; [exact H1 | split; assumption].
        * exfalso. unfold Maps.model_aug in Ha. rewrite E in Ha. cbn [snd] in Ha.
          exact (check_pf_not_type _ _ _ _ Ha).
      + rewrite (A3 eq_refl). cbn [fst]. split; [exact Hv | split; reflexivity].
  Qed.

  (* by induction over the operation sequence: every state of the history *)
  Lemma history_valid ops : forall md,
    model_valid md -> aug_clean md ops ->
    List.Forall (fun m => model_valid m /\ same_frame md m) (trace md ops).
  Proof using zero_not_pos.
    induction ops as [|o rest IH]; intros md Hv Hc; cbn [MapsSetter.trace]; [constructor|].
    destruct Hc as [Ho Hr].
    destruct (step_preserves md o Hv Ho) as [Hv' Hf'].
    constructor; [split; assumption|].
    specialize (IH _ Hv' Hr).
    eapply List.Forall_impl; [|exact IH]. cbn beta.
    intros m [Hm [Hc1 Hc2]]. split; [exact Hm|].
    destruct Hf' as [F1 F2]. split; congruence.
  Qed.

  Lemma run_ops_valid ops : forall md,
    model_valid md -> aug_clean md ops ->
    model_valid (run_ops md ops) /\ same_frame md (run_ops md ops).
  Proof using zero_not_pos.
    unfold MapsSetter.run_ops.
    induction ops as [|o rest IH]; intros md Hv Hc; cbn [fold_left].
    - split; [exact Hv | split; reflexivity].
    - destruct Hc as [Ho Hr]. destruct (step_preserves md o Hv Ho) as [Hv' [F1 F2]].
      destruct (IH _ Hv' Hr) as [Hv'' [G1 G2]]. split; [exact Hv''|split; congruence].
  Qed.

  (* a history of refused plain assignments is the identity on the model *)
  Definition is_set (o : mop (F:=F)) : Prop := match o with OpSet _ _ => True | OpAug _ _ => False end.

  Lemma refused_history_identity ops : forall md,
    List.Forall is_set ops ->
    List.Forall (fun e => e <> None) (outcomes md ops) ->
    run_ops md ops = md /\ List.Forall (fun m => m = md) (trace md ops).
  Proof.
    unfold MapsSetter.run_ops.
    induction ops as [|o rest IH]; intros md Hs Ho; cbn [fold_left MapsSetter.trace].
    - split; [reflexivity|constructor].
    - inversion Hs as [|o' r' So Sr]; subst.
      cbn [MapsSetter.outcomes] in Ho. inversion Ho as [|e' r'' Eo Er]; subst.
      destruct o as [p vs|p vs]; [|now elim So].
      cbn [MapsSetter.step] in *.
      rewrite (set_param_rejected_unchanged md p vs Eo) in *.
      destruct (IH md Sr Er) as [I1 I2]. split; [exact I1|constructor; [reflexivity|exact I2]].
  Qed.
End SetterProofs.

(* ------------------------------------------------------- the real instance *)
Local Open Scope R_scope.

(* every stored cell is a finite number with positive conductivity (mu_r, epsilon_r:
   positive value) *)
Definition model_pos_finite (md : model (F:=R)) : Prop :=
  forall p vs, get_prop md p = Some vs ->
  List.Forall (fun v => exists x, xreal v = Some x /\ 0 < checked_value (m_map md) p x) vs.

Lemma model_valid_pos_finite (md : model (F:=R)) :
  model_valid Rpos0 Risz backward no_ovf 0 md <-> model_pos_finite md.
Proof.
  unfold model_valid, model_pos_finite. split.
  - intros (H1 & H2 & H3 & H4 & H5) p vs E.
    assert (G : List.Forall (accepts Rpos0 Risz backward no_ovf 0 (m_map md) p) vs).
    { destruct p; cbn [get_prop] in E;
        [rewrite E in H1; exact H1 | rewrite E in H2; exact H2 | rewrite E in H3; exact H3
        | rewrite E in H4; exact H4 | rewrite E in H5; exact H5]. }
    revert G. apply List.Forall_impl. intros v. apply accepts_R.
  - intros H.
    assert (G : forall p, opt_ok Rpos0 Risz backward no_ovf 0 (m_map md) p (get_prop md p)).
    { intros p. unfold opt_ok. destruct (get_prop md p) as [vs|] eqn:E; [|exact I].
      specialize (H p vs E). revert H. apply List.Forall_impl. intros v. apply accepts_R. }
    repeat split; [apply (G PX) | apply (G PY) | apply (G PZ) | apply (G PMu) | apply (G PEps)].
Qed.

Lemma reachable_pos_finite mapping x y z mu eps md0 ops :
  model_init Rpos0 Risz backward no_ovf 0 mapping x y z mu eps = inl md0 ->
  aug_clean Rpos0 Risz backward no_ovf 0 md0 ops ->
  List.Forall (fun m => model_pos_finite m /\ case_of m = case_of md0 /\ m_map m = m_map md0)
              (md0 :: trace Rpos0 Risz backward no_ovf 0 md0 ops).
Proof.
  intros Hi Hc.
  apply (model_init_spec Rpos0 Risz backward no_ovf 0 Rpos0_zero) in Hi.
  destruct Hi as (m & _ & _ & Hv).
  constructor.
  - split; [now apply model_valid_pos_finite | split; reflexivity].
  - pose proof (history_valid Rpos0 Risz backward no_ovf 0 Rpos0_zero ops md0 Hv Hc) as H.
    revert H. apply List.Forall_impl. intros m' [H1 H2]. split; [now apply model_valid_pos_finite|exact H2].
Qed.

(* ------------------------------------------------------------ non-vacuity *)
Local Open Scope Q_scope.
Definition ex_md : model (F:=Q) :=
  mkModel MLgResistivity (Some [Fin (2#1); Fin (-3#2)]) None (Some [Fin (1#1); Fin (0#1)])
          (Some [Fin (3#2); Fin (2#1)]) None.

(* refused plain assignments of every kind leave the model as it was; an accepted
   one stores; a refused AUGMENTED assignment has already changed the stored array
   (numpy operated in place before the setter ran) -- the reason for aug_clean *)
Lemma fault_path_examples_Q :
  set_param_Q ex_md PX [Fin (2#1); Fin (400#1)] = (ex_md, Some ErrPositive) /\
  set_param_Q ex_md PX [Fin (2#1); Fin (-400#1)] = (ex_md, Some ErrFinite) /\
  set_param_Q ex_md PZ [NaN; Fin (1#1)] = (ex_md, Some ErrPositive) /\
  set_param_Q ex_md PZ [Fin (1#1); NInf] = (ex_md, Some ErrFinite) /\
  set_param_Q ex_md PMu [Fin (1#1); Fin (0#1)] = (ex_md, Some ErrPositive) /\
  set_param_Q ex_md PMu [Fin (1#1); PInf] = (ex_md, Some ErrFinite) /\
  set_param_Q ex_md PY [Fin (1#1); Fin (1#1)] = (ex_md, Some ErrNone) /\
  set_param_Q ex_md PX [Fin (5#1); Fin (-300#1)]
    = (set_prop ex_md PX (Some [Fin (5#1); Fin (-300#1)]), None) /\
  step_Q ex_md (OpAug PMu [Fin (-3#2); Fin (-2#1)])
    = (set_prop ex_md PMu (Some [Fin (-3#2); Fin (-2#1)]), Some ErrPositive) /\
  check_pf_Q MLgResistivity None PMu [Fin (-3#2); Fin (-2#1)] = Some ErrPositive.
Proof. vm_compute. repeat split. Qed.
