(* Proofs/GSLineAffineX.v -- the line smoother along x ([gauss_seidel_x]):
   (0) [gauss_seidel_x_is_sweeps]: the generated kernel IS the schedule
       (Proofs/GSLineSweep.v) of line steps [linestep] (assemble, solve, write
       back), inner loop over iyh, outer loop over izh, direction flipped
       before every sweep (an equation between the generated code and the pure
       model; breaks if the generated loop nest changes shape);
   (A) [gauss_seidel_x_linear]: the kernel is a LINEAR (hence affine) map of the
       pair (field, source), every nu, ny, nz, nx >= 2; the pivot hypothesis is
       stated once, for run 1: the line matrix depends neither on the field nor
       on the source ([gsx_matrix_indep2]); NO PEC hypothesis is needed.
       Ingredients: block rhs linear ([cR_lin0..4], symbolic evaluation + field),
       bvec = block rhs entries by the layout ([gsx_bvec_lin]), banded solve
       linear in the rhs (GSAffine.solve_lin_ext), write-back = e[solution]
       ([gsx_wb_spec]), three-run lifting ([sweeps_rel3]);
   (B) [gauss_seidel_x_last_line_exact]: for nu >= 1 and nx, ny, nz >= 2 all
       5 nx - 4 equations of the line relaxed LAST, (iy,iz) = (last_line nu ny,
       last_line nu nz) (= (1,1) for odd nu, (ny-1,nz-1) for even nu), hold on
       the returned field.  Hypotheses: PEC at the two x-ends of that line on
       the INPUT field (those values are never written: frame invariant) and
       the pivots of that one line (on the input field; matrix independence).
   Also defines [LinFld] and is imported by GSLineAffineY.v / GSLineAffineZ.v. *)
From Coq Require Import ZArith Lia Bool Field List.
From V Require Import Base.Loops Base.Arr Base.FieldSig Base.Tactics.
From V Require Import Gen.CoreBand Gen.CoreGS Model.FIT Proofs.BandSums Proofs.BandLDL.
From V Require Import Proofs.GSBlock Proofs.GSLineX Proofs.GSLineCommon Proofs.GSLineSweep.
From V Require Proofs.GSAffine.
Import ListNotations.
Local Open Scope Z_scope.

(* ------------------------------------------------------------------ *)
(* the generated kernel IS the sweep schedule of line steps             *)
Section ShapeX.
  Context {F : Type} {O : FOps F}.
  Variables (sx sy sz eta_x eta_y eta_z zeta : Z -> Z -> Z -> F).
  Variables (hx hy hz : Z -> F).
  Variables (nu nx ny nz : Z).

  Notation L3 := (gauss_seidel_x_L3 sx sy sz eta_x eta_y eta_z zeta hx hy hz nu nx nx ny ny nz nz
                    (kof hx) (kof hy) (kof hz)).
  Notation L2 := (gauss_seidel_x_L2 sx sy sz eta_x eta_y eta_z zeta hx hy hz nu nx nx ny ny nz nz
                    (kof hx) (kof hy) (kof hz)).
  Notation L1 := (gauss_seidel_x_L1 sx sy sz eta_x eta_y eta_z zeta hx hy hz nu nx nx ny ny nz nz
                    (kof hx) (kof hy) (kof hz)).
  Notation STEP := (linestep sx sy sz eta_x eta_y eta_z zeta hx hy hz nu nx ny nz).

  Lemma L3x_flds iback it izh iz iyh (st : @St7 F) :
    flds (L3 iback (5*nx-4) it izh iz (iz-1) (iz+1) iyh st) = STEP (lnode iback ny iyh) iz (flds st).
  Proof.
    rewrite (gsx_L3_step (snd (fst (fst st))) (snd (fst st)) (snd st) sx sy sz eta_x eta_y eta_z zeta
               hx hy hz nu nx nx ny ny nz nz (node iback ny iyh) iz iback (5*nx-4) it izh iyh st
               eq_refl eq_refl).
    reflexivity.
  Qed.

  Lemma L2x_flds iback it izh (st : @St7 F) :
    flds (L2 iback (5*nx-4) it izh st) = inner ny STEP iback (lnode iback nz izh) (flds st).
  Proof.
    cbv delta [gauss_seidel_x_L2]. cbv beta. cbv zeta.
    match goal with
    | |- flds (_, _, _, _, snd (fst (fst ?t)), snd (fst ?t), snd ?t) = _ => change (flds t = inner ny STEP iback (lnode iback nz izh) (flds st))
    end.
    unfold inner.
    apply (Zfold_rel2 (fun (s : @St7 F) (f : @Fld F) => flds s = f)); [reflexivity|].
    intros j a b Hj <-.
    exact (L3x_flds iback it izh (lnode iback nz izh) j a).
  Qed.

  Lemma L1x_flds it (st : @St8 F) :
    iback8 (L1 (5*nx-4) it st) = 1 - iback8 st /\
    flds8 (L1 (5*nx-4) it st) = sweep1 ny nz STEP (1 - iback8 st) (flds8 st).
  Proof.
    split; [reflexivity|].
    cbv delta [gauss_seidel_x_L1]. cbv beta. cbv zeta.
    match goal with
    | |- flds8 (_, _, _, _, _, snd (fst (fst ?t)), snd (fst ?t), snd ?t) = _ =>
        change (flds t = sweep1 ny nz STEP (1 - iback8 st) (flds8 st))
    end.
    unfold sweep1.
    apply (Zfold_rel2 (fun (s : @St7 F) (f : @Fld F) => flds s = f)); [reflexivity|].
    intros k a b Hk <-. apply L2x_flds.
  Qed.

  Theorem gauss_seidel_x_is_sweeps (ex ey ez : Z -> Z -> Z -> F) :
    gauss_seidel_x nx ny nz ex ey ez sx sy sz eta_x eta_y eta_z zeta hx hy hz nu
    = sweeps ny nz STEP nu (ex, ey, ez).
  Proof.
    cbv delta [gauss_seidel_x]. cbv beta. cbv zeta. cbn [fst snd].
    match goal with |- (snd (fst (fst ?t)), snd (fst ?t), snd ?t) = _ => change (flds8 t = sweeps ny nz STEP nu (ex, ey, ez)) end.
    unfold sweeps, sweepsN.
    match goal with |- flds8 ?t = snd ?u =>
      assert (G : iback8 t = fst u /\ flds8 t = snd u); [|exact (proj2 G)] end.
    apply (Zfold_rel2 (fun (s : @St8 F) (p : Z * @Fld F) => iback8 s = fst p /\ flds8 s = snd p)).
    - split; reflexivity.
    - intros i a b _ [E1 E2]. destruct (L1x_flds i a) as [H1 H2].
      cbn [fst snd]. rewrite <- E1, <- E2. split; [exact H1|exact H2].
  Qed.
End ShapeX.

(* ------------------------------------------------------------------ *)
(* the matrix of the line system depends neither on field nor source   *)
Section MatrixIndepX2.
  Context {F : Type} {O : FOps F}.
  Variables (fx fy fz gx gy gz sx sy sz tx ty tz eta_x eta_y eta_z zeta : Z -> Z -> Z -> F).
  Variables (hx hy hz : Z -> F).
  Variables (nu lhx nx lhy ny lhz nz iy iz : Z).

  Lemma gsx_matrix_indep2 : 2 <= nx ->
    fst (gsx_sys fx fy fz sx sy sz eta_x eta_y eta_z zeta hx hy hz nu lhx nx lhy ny lhz nz iy iz)
    = fst (gsx_sys gx gy gz tx ty tz eta_x eta_y eta_z zeta hx hy hz nu lhx nx lhy ny lhz nz iy iz).
  Proof.
    intros Hn. unfold gsx_sys, gsx_loop. cbn [fst].
    apply (matrix_indep_gen nx
             (gsx_blk fx fy fz sx sy sz eta_x eta_y eta_z zeta hx hy hz nu lhx nx lhy ny lhz nz iy iz)
             (gsx_blk gx gy gz tx ty tz eta_x eta_y eta_z zeta hx hy hz nu lhx nx lhy ny lhz nz iy iz)
             (gsx_L4 fx fy fz sx sy sz eta_x eta_y eta_z zeta hx hy hz nu lhx nx lhy ny lhz nz iy iz)
             (gsx_L4 gx gy gz tx ty tz eta_x eta_y eta_z zeta hx hy hz nu lhx nx lhy ny lhz nz iy iz)).
    - apply gsx_L4_step.
    - apply gsx_L4_step.
    - apply gsx_blk_AB.
    - apply gsx_blk_AB.
    - intros. cbv delta [gsx_blk gauss_seidel_x_L4_call1 blkM]. cbv beta. reflexivity.
    - intros. cbv delta [gsx_blk gauss_seidel_x_L4_call1 blkL]. cbv beta. reflexivity.
    - exact Hn.
  Qed.
End MatrixIndepX2.

(* pointwise linear combination of three field triples *)
Definition LinFld {F : Type} {O : FOps F} (al be : F) (fm f1 f2 : @Fld F) : Prop :=
  (forall i j l, fst (fst fm) i j l = (al * fst (fst f1) i j l + be * fst (fst f2) i j l)%F) /\
  (forall i j l, snd (fst fm) i j l = (al * snd (fst f1) i j l + be * snd (fst f2) i j l)%F) /\
  (forall i j l, snd fm i j l = (al * snd f1 i j l + be * snd f2 i j l)%F).

(* ------------------------------------------------------------------ *)
(* (A) one line step is linear in (field, source)                       *)
Section LinX.
  Context {F : Type} {O : FOps F}.
  Hypothesis Fth : field_theory F0 F1 Fadd Fmul Fsub Fopp Fdiv Finv (@eq F).
  Hypothesis two_nz : (1 + 1)%F <> 0%F.
  Add Field Flx : Fth.
  Variables (al be : F).
  Variables (mx my mz px py pz qx qy qz : Z -> Z -> Z -> F).
  Variables (smx smy smz spx spy spz sqx sqy sqz : Z -> Z -> Z -> F).
  Variables (eta_x eta_y eta_z zeta : Z -> Z -> Z -> F).
  Variables (hx hy hz : Z -> F).
  Hypothesis hx_nz : forall i, hx i <> 0%F.
  Hypothesis hy_nz : forall i, hy i <> 0%F.
  Hypothesis hz_nz : forall i, hz i <> 0%F.
  Variables (nu lhx nx lhy ny lhz nz iy iz : Z).
  Hypothesis Hmx : forall i j l, mx i j l = (al * px i j l + be * qx i j l)%F.
  Hypothesis Hmy : forall i j l, my i j l = (al * py i j l + be * qy i j l)%F.
  Hypothesis Hmz : forall i j l, mz i j l = (al * pz i j l + be * qz i j l)%F.
  Hypothesis Hsx : forall i j l, smx i j l = (al * spx i j l + be * sqx i j l)%F.
  Hypothesis Hsy : forall i j l, smy i j l = (al * spy i j l + be * sqy i j l)%F.
  Hypothesis Hsz : forall i j l, smz i j l = (al * spz i j l + be * sqz i j l)%F.

  Notation CRm := (cR mx my mz smx smy smz eta_x eta_y eta_z zeta hx hy hz nu lhx nx lhy ny lhz nz iy iz).
  Notation CRp := (cR px py pz spx spy spz eta_x eta_y eta_z zeta hx hy hz nu lhx nx lhy ny lhz nz iy iz).
  Notation CRq := (cR qx qy qz sqx sqy sqz eta_x eta_y eta_z zeta hx hy hz nu lhx nx lhy ny lhz nz iy iz).
  Notation SYSm := (gsx_sys mx my mz smx smy smz eta_x eta_y eta_z zeta hx hy hz nu lhx nx lhy ny lhz nz iy iz).
  Notation SYSp := (gsx_sys px py pz spx spy spz eta_x eta_y eta_z zeta hx hy hz nu lhx nx lhy ny lhz nz iy iz).
  Notation SYSq := (gsx_sys qx qy qz sqx sqy sqz eta_x eta_y eta_z zeta hx hy hz nu lhx nx lhy ny lhz nz iy iz).

  Ltac side := first [ exact two_nz | apply (four_nz Fth two_nz) | apply (one_nz Fth)
                     | apply hx_nz | apply hy_nz | apply hz_nz ].

  Ltac cr_eval :=
    match goal with
    | |- ?G =>
        let G' := eval cbv beta iota zeta delta
                    [cR st0 blkR gsx_blk gauss_seidel_x_L4_call1
                     upd1 upd1f upd3f fill1 arr_of_list nth Z.to_nat Pos.to_nat Pos.iter_op
                     Nat.add Z.eqb Pos.eqb Z.ltb Z.compare Pos.compare
                     Pos.compare_cont negb fst snd kof] in G in
        cut G'; [ let H := fresh "H" in intro H; vm_cast_no_check H | ]
    end.
  Ltac cr_row := cr_eval; rewrite ?Hmx, ?Hmy, ?Hmz, ?Hsx, ?Hsy, ?Hsz; flit; field; repeat split; side.

  Lemma cR_lin0 a : CRm a 0 = (al * CRp a 0%Z + be * CRq a 0%Z)%F.
  Proof using Fth two_nz hx_nz hy_nz hz_nz Hmx Hmy Hmz Hsx Hsy Hsz. cr_row. Qed.
  Lemma cR_lin1 a : CRm a 1 = (al * CRp a 1%Z + be * CRq a 1%Z)%F.
  Proof using Fth two_nz hx_nz hy_nz hz_nz Hmx Hmy Hmz Hsx Hsy Hsz. cr_row. Qed.
  Lemma cR_lin2 a : CRm a 2 = (al * CRp a 2%Z + be * CRq a 2%Z)%F.
  Proof using Fth two_nz hx_nz hy_nz hz_nz Hmx Hmy Hmz Hsx Hsy Hsz. cr_row. Qed.
  Lemma cR_lin3 a : CRm a 3 = (al * CRp a 3%Z + be * CRq a 3%Z)%F.
  Proof using Fth two_nz hx_nz hy_nz hz_nz Hmx Hmy Hmz Hsx Hsy Hsz. cr_row. Qed.
  Lemma cR_lin4 a : CRm a 4 = (al * CRp a 4%Z + be * CRq a 4%Z)%F.
  Proof using Fth two_nz hx_nz hy_nz hz_nz Hmx Hmy Hmz Hsx Hsy Hsz. cr_row. Qed.

  (* the right-hand side of the line system is linear *)
  Lemma gsx_bvec_lin : 2 <= nx -> forall i, 0 <= i < 5*nx-4 ->
    snd SYSm i = (al * snd SYSp i + be * snd SYSq i)%F.
  Proof.
    intros Hn i Hi.
    pose proof (proj2 (proj2 (proj2 (gsx_system_layout mx my mz smx smy smz eta_x eta_y eta_z zeta
                  hx hy hz nu lhx nx lhy ny lhz nz iy iz Hn)))) as Bm.
    pose proof (proj2 (proj2 (proj2 (gsx_system_layout px py pz spx spy spz eta_x eta_y eta_z zeta
                  hx hy hz nu lhx nx lhy ny lhz nz iy iz Hn)))) as Bp.
    pose proof (proj2 (proj2 (proj2 (gsx_system_layout qx qy qz sqx sqy sqz eta_x eta_y eta_z zeta
                  hx hy hz nu lhx nx lhy ny lhz nz iy iz Hn)))) as Bq.
    pose proof (Z.div_mod i 5 ltac:(lia)) as E.
    pose proof (Z.mod_pos_bound i 5 ltac:(lia)) as Hr.
    set (a := i / 5) in *. set (r := i mod 5) in *. clearbody a r. subst i.
    assert (Ha : 0 <= a < nx) by lia.
    assert (Hok : rowok nx a r) by (unfold rowok; lia).
    rewrite (Bm a r Ha Hok), (Bp a r Ha Hok), (Bq a r Ha Hok).
    destruct (r_cases r Hr) as [->|[->|[->|[->| ->]]]].
    - apply cR_lin0.
    - apply cR_lin1.
    - apply cR_lin2.
    - apply cR_lin3.
    - apply cR_lin4.
  Qed.

  (* hence so is the solution (one pivot hypothesis: the matrix is common) *)
  Lemma gsx_sol_lin : 2 <= nx ->
    (forall j, 0 <= j < 5*nx-4 -> pivot (5*nx-4) (fst SYSp) j <> 0%F) ->
    forall i, 0 <= i < 5*nx-4 ->
      gsx_sol mx my mz smx smy smz eta_x eta_y eta_z zeta hx hy hz nu lhx nx lhy ny lhz nz iy iz i
      = (al * gsx_sol px py pz spx spy spz eta_x eta_y eta_z zeta hx hy hz nu lhx nx lhy ny lhz nz iy iz i
         + be * gsx_sol qx qy qz sqx sqy sqz eta_x eta_y eta_z zeta hx hy hz nu lhx nx lhy ny lhz nz iy iz i)%F.
  Proof.
    intros Hn Hpiv. unfold gsx_sol.
    rewrite (gsx_matrix_indep2 mx my mz px py pz smx smy smz spx spy spz eta_x eta_y eta_z zeta
               hx hy hz nu lhx nx lhy ny lhz nz iy iz Hn).
    rewrite (gsx_matrix_indep2 qx qy qz px py pz sqx sqy sqz spx spy spz eta_x eta_y eta_z zeta
               hx hy hz nu lhx nx lhy ny lhz nz iy iz Hn).
    apply (GSAffine.solve_lin_ext Fth al be (5*nx-4) (fst SYSp) (snd SYSm) (snd SYSp) (snd SYSq)
             ltac:(lia) Hpiv).
    intros k Hk. now apply gsx_bvec_lin.
  Qed.

  (* and the field written back *)
  Lemma gsx_out_lin : 2 <= nx ->
    (forall j, 0 <= j < 5*nx-4 -> pivot (5*nx-4) (fst SYSp) j <> 0%F) ->
    LinFld al be
      (gsx_out mx my mz smx smy smz eta_x eta_y eta_z zeta hx hy hz nu lhx nx lhy ny lhz nz iy iz)
      (gsx_out px py pz spx spy spz eta_x eta_y eta_z zeta hx hy hz nu lhx nx lhy ny lhz nz iy iz)
      (gsx_out qx qy qz sqx sqy sqz eta_x eta_y eta_z zeta hx hy hz nu lhx nx lhy ny lhz nz iy iz).
  Proof.
    intros Hn Hpiv. pose proof (gsx_sol_lin Hn Hpiv) as Hsol. unfold gsx_out.
    set (xm := gsx_sol mx my mz _ _ _ _ _ _ _ _ _ _ _ _ _ _ _ _ _ _ _) in *.
    set (x1 := gsx_sol px py pz _ _ _ _ _ _ _ _ _ _ _ _ _ _ _ _ _ _ _) in *.
    set (x2 := gsx_sol qx qy qz _ _ _ _ _ _ _ _ _ _ _ _ _ _ _ _ _ _ _) in *.
    clearbody xm x1 x2.
    unfold LinFld. repeat split; intros i j l.
    - rewrite (proj1 (gsx_wb_spec mx my mz smx smy smz eta_x eta_y eta_z zeta hx hy hz nu lhx nx lhy ny lhz nz iy iz xm ltac:(lia) i j l)).
      rewrite (proj1 (gsx_wb_spec px py pz spx spy spz eta_x eta_y eta_z zeta hx hy hz nu lhx nx lhy ny lhz nz iy iz x1 ltac:(lia) i j l)).
      rewrite (proj1 (gsx_wb_spec qx qy qz sqx sqy sqz eta_x eta_y eta_z zeta hx hy hz nu lhx nx lhy ny lhz nz iy iz x2 ltac:(lia) i j l)).
      unfold lx. bdestr; cbn [andb]; first [apply Hsol; lia|apply Hmx].
    - rewrite (proj1 (proj2 (gsx_wb_spec mx my mz smx smy smz eta_x eta_y eta_z zeta hx hy hz nu lhx nx lhy ny lhz nz iy iz xm ltac:(lia) i j l))).
      rewrite (proj1 (proj2 (gsx_wb_spec px py pz spx spy spz eta_x eta_y eta_z zeta hx hy hz nu lhx nx lhy ny lhz nz iy iz x1 ltac:(lia) i j l))).
      rewrite (proj1 (proj2 (gsx_wb_spec qx qy qz sqx sqy sqz eta_x eta_y eta_z zeta hx hy hz nu lhx nx lhy ny lhz nz iy iz x2 ltac:(lia) i j l))).
      unfold ly. bdestr; cbn [andb]; first [apply Hsol; lia|apply Hmy].
    - rewrite (proj2 (proj2 (gsx_wb_spec mx my mz smx smy smz eta_x eta_y eta_z zeta hx hy hz nu lhx nx lhy ny lhz nz iy iz xm ltac:(lia) i j l))).
      rewrite (proj2 (proj2 (gsx_wb_spec px py pz spx spy spz eta_x eta_y eta_z zeta hx hy hz nu lhx nx lhy ny lhz nz iy iz x1 ltac:(lia) i j l))).
      rewrite (proj2 (proj2 (gsx_wb_spec qx qy qz sqx sqy sqz eta_x eta_y eta_z zeta hx hy hz nu lhx nx lhy ny lhz nz iy iz x2 ltac:(lia) i j l))).
      unfold lz. bdestr; cbn [andb]; first [apply Hsol; lia|apply Hmz].
  Qed.
End LinX.

(* ------------------------------------------------------------------ *)
(* (A) the whole kernel is linear in (field, source)                    *)
Section GSXLinear.
  Context {F : Type} {O : FOps F}.
  Hypothesis Fth : field_theory F0 F1 Fadd Fmul Fsub Fopp Fdiv Finv (@eq F).
  Hypothesis two_nz : (1 + 1)%F <> 0%F.
  Variables (al be : F).
  Variables (emx emy emz e1x e1y e1z e2x e2y e2z : Z -> Z -> Z -> F).
  Variables (smx smy smz s1x s1y s1z s2x s2y s2z : Z -> Z -> Z -> F).
  Variables (eta_x eta_y eta_z zeta : Z -> Z -> Z -> F).
  Variables (hx hy hz : Z -> F).
  Hypothesis hx_nz : forall i, hx i <> 0%F.
  Hypothesis hy_nz : forall i, hy i <> 0%F.
  Hypothesis hz_nz : forall i, hz i <> 0%F.
  Variables (nu nx ny nz : Z).
  Hypothesis Hnx : 2 <= nx.
  Hypothesis Hex : forall i j l, emx i j l = (al * e1x i j l + be * e2x i j l)%F.
  Hypothesis Hey : forall i j l, emy i j l = (al * e1y i j l + be * e2y i j l)%F.
  Hypothesis Hez : forall i j l, emz i j l = (al * e1z i j l + be * e2z i j l)%F.
  Hypothesis Hsx : forall i j l, smx i j l = (al * s1x i j l + be * s2x i j l)%F.
  Hypothesis Hsy : forall i j l, smy i j l = (al * s1y i j l + be * s2y i j l)%F.
  Hypothesis Hsz : forall i j l, smz i j l = (al * s1z i j l + be * s2z i j l)%F.
  (* no pivot of any interior line vanishes; the line matrices are the same in the
     three runs ([gsx_matrix_indep2]), so the hypothesis is stated on run 1 only *)
  Hypothesis pivots : forall iy iz, 1 <= iy < ny -> 1 <= iz < nz ->
    PivX e1x e1y e1z s1x s1y s1z eta_x eta_y eta_z zeta hx hy hz nu nx nx ny ny nz nz iy iz.

  Lemma linestep_lin iy iz fm f1 f2 : 1 <= iy < ny -> 1 <= iz < nz -> LinFld al be fm f1 f2 ->
    LinFld al be (linestep smx smy smz eta_x eta_y eta_z zeta hx hy hz nu nx ny nz iy iz fm)
                 (linestep s1x s1y s1z eta_x eta_y eta_z zeta hx hy hz nu nx ny nz iy iz f1)
                 (linestep s2x s2y s2z eta_x eta_y eta_z zeta hx hy hz nu nx ny nz iy iz f2).
  Proof.
    intros Hy Hz (Gx & Gy & Gz).
    destruct fm as [[mx my] mz], f1 as [[px py] pz], f2 as [[qx qy] qz]. cbn [fst snd] in Gx, Gy, Gz.
    unfold linestep. cbn [fst snd].
    apply (gsx_out_lin Fth two_nz al be mx my mz px py pz qx qy qz smx smy smz s1x s1y s1z s2x s2y s2z
             eta_x eta_y eta_z zeta hx hy hz hx_nz hy_nz hz_nz nu nx nx ny ny nz nz iy iz
             Gx Gy Gz Hsx Hsy Hsz Hnx).
    rewrite (gsx_matrix_indep2 px py pz e1x e1y e1z s1x s1y s1z s1x s1y s1z eta_x eta_y eta_z zeta
               hx hy hz nu nx nx ny ny nz nz iy iz Hnx).
    exact (pivots iy iz Hy Hz).
  Qed.

  Theorem gauss_seidel_x_linear :
    let rm := gauss_seidel_x nx ny nz emx emy emz smx smy smz eta_x eta_y eta_z zeta hx hy hz nu in
    let r1 := gauss_seidel_x nx ny nz e1x e1y e1z s1x s1y s1z eta_x eta_y eta_z zeta hx hy hz nu in
    let r2 := gauss_seidel_x nx ny nz e2x e2y e2z s2x s2y s2z eta_x eta_y eta_z zeta hx hy hz nu in
    forall i j l,
      fst (fst rm) i j l = (al * fst (fst r1) i j l + be * fst (fst r2) i j l)%F /\
      snd (fst rm) i j l = (al * snd (fst r1) i j l + be * snd (fst r2) i j l)%F /\
      snd rm i j l = (al * snd r1 i j l + be * snd r2 i j l)%F.
  Proof.
    cbv zeta. rewrite !gauss_seidel_x_is_sweeps.
    pose proof (sweeps_rel3 ny nz
                  (linestep smx smy smz eta_x eta_y eta_z zeta hx hy hz nu nx ny nz)
                  (linestep s1x s1y s1z eta_x eta_y eta_z zeta hx hy hz nu nx ny nz)
                  (linestep s2x s2y s2z eta_x eta_y eta_z zeta hx hy hz nu nx ny nz)
                  (LinFld al be) linestep_lin nu (emx, emy, emz) (e1x, e1y, e1z) (e2x, e2y, e2z)) as G.
    destruct G as (Gx & Gy & Gz); [repeat split; assumption|].
    intros i j l. repeat split; [apply Gx|apply Gy|apply Gz].
  Qed.
End GSXLinear.

(* ------------------------------------------------------------------ *)
(* (B) the line relaxed last is exact on the returned field             *)
Section GSXLast.
  Context {F : Type} {O : FOps F}.
  Hypothesis Fth : field_theory F0 F1 Fadd Fmul Fsub Fopp Fdiv Finv (@eq F).
  Hypothesis two_nz : (1 + 1)%F <> 0%F.
  Variables (ex ey ez sx sy sz eta_x eta_y eta_z zeta : Z -> Z -> Z -> F).
  Variables (hx hy hz : Z -> F).
  Hypothesis hx_nz : forall i, hx i <> 0%F.
  Hypothesis hy_nz : forall i, hy i <> 0%F.
  Hypothesis hz_nz : forall i, hz i <> 0%F.
  Variables (nu nx ny nz : Z).

  (* the kernel flips iback BEFORE every sweep, starting from 0: sweeps 1,3,..
     visit the lines in DESCENDING order and end at (iy,iz) = (1,1), sweeps
     2,4,.. in ascending order and end at (ny-1,nz-1) *)
  Theorem gauss_seidel_x_last_line_exact :
    1 <= nu -> 2 <= nx -> 2 <= ny -> 2 <= nz ->
    let iy := last_line nu ny in let iz := last_line nu nz in
    PECx ey ez nx iy iz ->
    PivX ex ey ez sx sy sz eta_x eta_y eta_z zeta hx hy hz nu nx nx ny ny nz nz iy iz ->
    let r := gauss_seidel_x nx ny nz ex ey ez sx sy sz eta_x eta_y eta_z zeta hx hy hz nu in
    forall i, 0 <= i < 5*nx-4 ->
      fld_res sx sy sz eta_x eta_y eta_z zeta hx hy hz iy iz
        (fst (fst r)) (snd (fst r)) (snd r) (i / 5) (i mod 5) = 0%F.
  Proof.
    intros Hnu Hnx Hny Hnz iy iz Hpec Hpiv r. subst r. rewrite gauss_seidel_x_is_sweeps.
    pose (P := fun (p q : Z) (f : @Fld F) =>
      PECx ey ez nx p q ->
      PivX ex ey ez sx sy sz eta_x eta_y eta_z zeta hx hy hz nu nx nx ny ny nz nz p q ->
      forall i, 0 <= i < 5*nx-4 ->
        fld_res sx sy sz eta_x eta_y eta_z zeta hx hy hz p q
          (fst (fst f)) (snd (fst f)) (snd f) (i / 5) (i mod 5) = 0%F).
    assert (G : P iy iz (sweeps ny nz (linestep sx sy sz eta_x eta_y eta_z zeta hx hy hz nu nx ny nz)
                           nu (ex, ey, ez))).
    { apply (sweeps_last ny nz (linestep sx sy sz eta_x eta_y eta_z zeta hx hy hz nu nx ny nz)
               (FrameX ex ey ez nx ny nz)); try assumption.
      - intros p q f Hp Hq Gf.
        exact (FrameX_step ex ey ez sx sy sz eta_x eta_y eta_z zeta hx hy hz nu nx ny nz p q f Hp Hq Gf).
      - intros p q f Hp Hq (Gx & Gy & Gz) Hpec' Hpiv'. destruct f as [[fx fy] fz]. cbn [fst snd] in Gx, Gy, Gz.
        unfold linestep. cbn [fst snd].
        apply (gsx_line_exact_out Fth two_nz fx fy fz sx sy sz eta_x eta_y eta_z zeta hx hy hz
                 hx_nz hy_nz hz_nz nu nx nx ny ny nz nz p q Hnx ltac:(lia) ltac:(lia)).
        + unfold PECx in *. rewrite !Gy, !Gz by lia. exact Hpec'.
        + unfold PivX in *.
          rewrite (gsx_matrix_indep fx fy fz ex ey ez sx sy sz eta_x eta_y eta_z zeta hx hy hz
                     nu nx nx ny ny nz nz p q Hnx).
          exact Hpiv'.
      - unfold FrameX. cbn [fst snd]. repeat split; intros; reflexivity. }
    exact (G Hpec Hpiv).
  Qed.
End GSXLast.

(* ------------------------------------------------------------------ *)
(* Sanity check of (B) by running the generated kernel on a concrete 3x3x2
   rational instance (two interior lines (1,1), (2,1); PEC at the x-ends):
   after nu = 1 (descending order, last line (1,1)) line (1,1) is exact and
   line (2,1) is not.  (nu = 2 is not evaluated: executing the functional
   arrays of the model twice is exponentially expensive.) *)
From Coq Require Import QArith.
From V Require Import Base.ExecQ.
Local Open Scope Z_scope.
Definition tsx (i j k : Z) : Q := qz (3 - i + j) 7.
Definition tsy (i j k : Z) : Q := qz (i - k) 2.
Definition tsz (i j k : Z) : Q := qz (1 + j * k) 3.
Definition resx_at (nu iy iz : Z) : Z -> Q :=
  let r := gauss_seidel_x 3 3 2 xex xey xez tsx tsy tsz xeta xeta xeta xzeta xh xh xh nu in
  fun i => fld_res tsx tsy tsz xeta xeta xeta xzeta xh xh xh iy iz
             (fst (fst r)) (snd (fst r)) (snd r) (i / 5) (i mod 5).
Definition some_nonzero (f : Z -> Q) (n : Z) : bool := existsb (fun i => negb (qzero (f i))) (range n).

Example gsx_last_example :
  last_line 1 3 = 1 /\ last_line 2 3 = 2 /\ last_line 1 2 = 1 /\ last_line 2 2 = 1 /\
  (forall i, 0 <= i < 11 -> resx_at 1 1 1 i = 0%F) /\ some_nonzero (resx_at 1 2 1) 11 = true.
Proof.
  split; [reflexivity|split; [reflexivity|split; [reflexivity|split; [reflexivity|split]]]].
  - by_dump 11 (resx_at 1 1 1) (fun _ : Z => 0%F).
  - vm_compute; reflexivity.
Qed.

Print Assumptions gauss_seidel_x_is_sweeps.
Print Assumptions gsx_matrix_indep2.
Print Assumptions gsx_out_lin.
Print Assumptions gauss_seidel_x_linear.
Print Assumptions gauss_seidel_x_last_line_exact.
Print Assumptions gsx_last_example.
