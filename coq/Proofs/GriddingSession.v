(* Proofs/GriddingSession.v -- C16: lemmas about Model/GriddingSession.v (one
   session = a history of gridding calls and in-place edits of the caller's
   arrays).  Generic part over any number type; the part about permitted cell
   numbers over the reals (it uses oaw_post_full). *)
From Coq Require Import Reals ZArith Bool List Arith Lia Lra.
From V Require Import Base.FieldSig Model.Gridding Model.GriddingSession Proofs.Gridding Proofs.GriddingSea.
Import ListNotations.

(* ------------------------------------------------------------ list helpers *)
Lemma set_nth_length {A} n (v : A) l : length (set_nth n v l) = length l.
Proof.
  revert n. induction l as [|a t IH]; intros [|n]; cbn [set_nth length]; try reflexivity.
  rewrite IH. reflexivity.
Qed.

Lemma set_nth_other {A} n m (v : A) l : n <> m -> nth_error (set_nth n v l) m = nth_error l m.
Proof.
  revert n m. induction l as [|a t IH]; intros [|n] [|m] H; cbn [set_nth nth_error]; try reflexivity.
  - contradiction.
  - apply IH. intros ->. apply H. reflexivity.
Qed.

Lemma set_nth_same {A} n (v : A) l : (n < length l)%nat -> nth_error (set_nth n v l) n = Some v.
Proof.
  revert n. induction l as [|a t IH]; intros [|n] H; cbn [set_nth nth_error length] in *; try lia.
  - reflexivity.
  - apply IH. lia.
Qed.

(* ------------------------------------------------- the default table (Z) *)
Lemma default_cells_eq :
  default_cells = [16;24;32;40;48;64;80;96;128;160;192;256;320;384;512;640;768;1024]%Z.
Proof. vm_compute. reflexivity. Qed.

Lemma good_default_some : good_mg_cell_nr 1024 5 3 = Some default_cells.
Proof. vm_compute. reflexivity. Qed.

(* members of the default table: p * 2^n <= 1024 with p in {2, 3, 5} and n >= 3 *)
Lemma default_cells_spec x :
  In x default_cells <->
  exists p n, (p = 2 \/ p = 3 \/ p = 5)%Z /\ (3 <= n)%Z /\ x = (p * 2 ^ n)%Z /\ (x <= 1024)%Z.
Proof.
  assert (HM : (1024 < 2 ^ 31)%Z) by (vm_compute; reflexivity).
  rewrite (good_spec_unbounded 1024 5 3 default_cells x HM good_default_some). split.
  - intros [p [n [Hp [Hpl [Hn [Hx Hle]]]]]]. exists p, n.
    split; [|repeat split; assumption].
    unfold lowest_all in Hp. cbn [In] in Hp.
    destruct Hp as [H2|[H3|[H5|Hp]]]; [subst p; tauto|subst p; tauto|subst p; tauto|].
    exfalso. repeat (destruct Hp as [Hq|Hp]; [subst p; lia|]). exact Hp.
  - intros [p [n [Hp [Hn [Hx Hle]]]]]. exists p, n.
    repeat split; try assumption; unfold lowest_all; cbn [In];
      destruct Hp as [-> | [-> | ->]]; try lia; tauto.
Qed.

(* ------------------------------------------------------------ the session *)
Section SessionGeneric.
  Context {F : Type} {O : FOps F}.
  Variable leb : F -> F -> bool.
  Variable floorZ : F -> Z.
  Variable brentq : F -> F -> Z -> F.
  Variable argsort13 : list F -> list nat.
  Variable twopi : F.
  Variable skin : F -> F.
  Notation step := (step leb floorZ brentq argsort13 twopi skin).
  Notation run := (run leb floorZ brentq argsort13 twopi skin).
  Notation Heap := (@Heap F).

  (* what a request answers is a function of its arguments: it is the same in
     every state of the session *)
  Lemma closed_outcome_any_state (s1 s2 : Heap) op :
    closed_op op = true -> snd (step s1 op) = snd (step s2 op).
  Proof.
    destruct op as [m p d|o|h e|i cells vec|c cells]; cbn [closed_op]; intros H; try discriminate.
    - cbn [step]. destruct (good_mg_cell_nr m p d); reflexivity.
    - destruct cells as [|l|h]; destruct vec as [|h']; try discriminate; reflexivity.
    - destruct cells as [|l|h]; try discriminate; reflexivity.
  Qed.

  Lemma closed_outcome_any_history (h1 h2 : list (@Op F)) (s1 s2 : Heap) op :
    closed_op op = true ->
    snd (step (fst (run h1 s1)) op) = snd (step (fst (run h2 s2)) op).
  Proof. intros H. apply closed_outcome_any_state. exact H. Qed.

  (* ... and with heap arrays as arguments it depends on the heap only through
     the current content of those arrays *)
  Lemma oaw_outcome_resolved (s : Heap) i cells vec l v :
    resolve_cells s cells = Some l -> resolve_vec s i vec = Some v ->
    snd (step s (OOaw i cells vec))
    = ROaw (origin_and_widths leb floorZ brentq argsort13 twopi (oaw_with i l v)).
  Proof. intros H1 H2. cbn [step]. rewrite H1, H2. reflexivity. Qed.

  Lemma cm_outcome_resolved (s : Heap) c cells l :
    resolve_cells s cells = Some l ->
    snd (step s (OCm c cells))
    = RCm (construct_mesh leb floorZ brentq argsort13 twopi skin (cm_with c l)).
  Proof. intros H1. cbn [step]. rewrite H1. reflexivity. Qed.

  (* good_mg_cell_nr answers the table of its arguments after every history *)
  Lemma good_outcome_any_history (h : list (@Op F)) (s : Heap) m p d :
    snd (step (fst (run h s)) (OGood m p d))
    = match good_mg_cell_nr m p d with Some l => RInts l | None => ValueErr end.
  Proof. cbn [step]. destruct (good_mg_cell_nr m p d); reflexivity. Qed.

  (* a call never writes to an array the caller holds: the heap only grows *)
  Lemma call_keeps_heap (s : Heap) op :
    is_edit op = false -> exists new, fst (step s op) = (s ++ new)%list.
  Proof.
    destruct op as [m p d|o|h e|i cells vec|c cells]; cbn [is_edit]; intros H; try discriminate.
    - cbn [step]. destruct (good_mg_cell_nr m p d) as [l|].
      + exists [OInt l]. reflexivity.
      + exists []. cbn. rewrite app_nil_r. reflexivity.
    - exists [o]. reflexivity.
    - cbn [step]. destruct (resolve_cells s cells) as [l|]; [destruct (resolve_vec s i vec) as [v|]|].
      + cbn [fst]. destruct (o_res _); try (exists []; rewrite app_nil_r; reflexivity).
        eexists. reflexivity.
      + exists []. cbn. rewrite app_nil_r. reflexivity.
      + exists []. cbn. rewrite app_nil_r. reflexivity.
    - cbn [step]. destruct (resolve_cells s cells) as [l|].
      + cbn [fst]. destruct (cm_res _); try (exists []; rewrite app_nil_r; reflexivity).
        eexists. reflexivity.
      + exists []. cbn. rewrite app_nil_r. reflexivity.
  Qed.

  Lemma call_keeps_objects (s : Heap) op k o :
    is_edit op = false -> nth_error s k = Some o -> nth_error (fst (step s op)) k = Some o.
  Proof.
    intros H Hk. destruct (call_keeps_heap s op H) as [new ->].
    rewrite nth_error_app1; [exact Hk|]. apply nth_error_Some. rewrite Hk. discriminate.
  Qed.

  (* an in-place edit touches the one array it names, nothing else *)
  Lemma edit_touches_one (s : Heap) h e k :
    k <> h -> nth_error (fst (step s (OEdit h e))) k = nth_error s k.
  Proof.
    intros Hk. cbn [step]. destruct (nth_error s h) as [[l|l]|]; cbn [fst];
      [apply set_nth_other; congruence|apply set_nth_other; congruence|reflexivity].
  Qed.

  Lemma edit_keeps_length (s : Heap) h e : length (fst (step s (OEdit h e))) = length s.
  Proof.
    cbn [step]. destruct (nth_error s h) as [[l|l]|]; cbn [fst];
      [apply set_nth_length|apply set_nth_length|reflexivity].
  Qed.

  Lemma edit_result (s : Heap) h e :
    nth_error (fst (step s (OEdit h e))) h
    = match nth_error s h with
      | Some (OInt l) => Some (OInt (edit_int e l))
      | Some (ONum l) => Some (ONum (edit_num leb e l))
      | None => None
      end.
  Proof.
    cbn [step]. destruct (nth_error s h) as [[l|l]|] eqn:E; cbn [fst].
    - apply set_nth_same. apply nth_error_Some. rewrite E. discriminate.
    - apply set_nth_same. apply nth_error_Some. rewrite E. discriminate.
    - exact E.
  Qed.

  (* the objects a whole history of calls (no edits of object k) leaves behind *)
  Lemma history_keeps_unedited (ops : list (@Op F)) (s : Heap) k o :
    (forall h e, In (OEdit h e) ops -> h <> k) ->
    nth_error s k = Some o -> nth_error (fst (run ops s)) k = Some o.
  Proof.
    revert s. induction ops as [|op t IH]; intros s Hne Hk; cbn [run fst]; [exact Hk|].
    apply IH; [intros h e Hin; apply (Hne h e); right; exact Hin|].
    destruct (is_edit op) eqn:E.
    - destruct op as [| |h e| |]; try discriminate.
      rewrite edit_touches_one; [exact Hk|].
      intros ->. exact (Hne h e (or_introl eq_refl) eq_refl).
    - apply call_keeps_objects; assumption.
  Qed.
End SessionGeneric.

(* ------------------------------------- permitted cell numbers (over the reals) *)
Local Open Scope R_scope.
Section SessionR.
  Variable floorZ : R -> Z.
  Variable brentq : R -> R -> Z -> R.
  Variable argsort13 : list R -> list nat.
  Variable twopi : R.
  Variable skin : R -> R.
  Hypothesis brentq_bracket : forall t d n, 1 / 2 <= brentq t d n <= 10.
  Notation step := (step gleb floorZ brentq argsort13 twopi skin).
  Notation run := (run gleb floorZ brentq argsort13 twopi skin).

  Lemma input_ok_oaw_with i l : input_ok i -> input_ok (oaw_with i l (i_vector i)).
  Proof. intros H. exact H. Qed.

  (* after EVERY history: a request without cell_numbers that returns a grid has
     p * 2^n cells, p in {2,3,5}, n >= 3, at most 1024 *)
  Lemma default_request_permitted (h : list (@Op R)) (s : @Heap R) i ws x0 hx nx sa ca n :
    input_ok i ->
    snd (step (fst (run h s)) (OOaw i CDefault VGiven)) = ROaw (mkOawOut ws (ROk x0 hx nx sa ca n)) ->
    exists p k, (p = 2 \/ p = 3 \/ p = 5)%Z /\ (3 <= k)%Z
                /\ Z.of_nat (length hx) = (p * 2 ^ k)%Z /\ (Z.of_nat (length hx) <= 1024)%Z.
  Proof using brentq_bracket.
    intros Hin H. cbn [GriddingSession.step resolve_cells resolve_vec snd] in H.
    injection H as H.
    destruct (oaw_post_full floorZ brentq argsort13 twopi brentq_bracket _ ws x0 hx nx sa ca n
                            (input_ok_oaw_with i default_cells Hin) H) as [dom0 [_ Hp]].
    cbv zeta in Hp. destruct Hp as [_ [Hc _]]. cbn [oaw_with i_cell_numbers] in Hc.
    apply default_cells_spec in Hc. destruct Hc as [p [k [Hp [Hk [Hx Hle]]]]].
    exists p, k. repeat split; assumption.
  Qed.

  (* the same for a request that brings its own list / heap array: one of ITS numbers *)
  Lemma request_cells_from_argument (s : @Heap R) i cells l ws x0 hx nx sa ca n :
    input_ok i -> resolve_cells s cells = Some l ->
    snd (step s (OOaw i cells VGiven)) = ROaw (mkOawOut ws (ROk x0 hx nx sa ca n)) ->
    In (Z.of_nat (length hx)) l.
  Proof using brentq_bracket.
    intros Hin Hr H. cbn [GriddingSession.step resolve_vec snd] in H. rewrite Hr in H. cbn [snd] in H.
    injection H as H.
    destruct (oaw_post_full floorZ brentq argsort13 twopi brentq_bracket _ ws x0 hx nx sa ca n
                            (input_ok_oaw_with i l Hin) H) as [dom0 [_ Hp]].
    cbv zeta in Hp. destruct Hp as [_ [Hc _]]. exact Hc.
  Qed.
End SessionR.
