(* Proofs/SolveCtlSrc.v -- the variant read off the CURRENT emg3d/solver.py
   (Gen/SolveCtl.v: zero_branch_inplace, zero_branch_sets_l2, krylov_recomputes_l2,
   krylov_exit_message) has the repaired behaviour.  This file stops compiling when
   solver.py zeroes only a local name for a zero source, reports a stale var.l2 after
   the Krylov call, or lets a negative scipy code keep a stale "CONVERGED" message. *)
From Coq Require Import ZArith String Bool List Lia.
From V Require Import Gen.SolveCtl Model.SolveCtl Proofs.SolveCtl.
Local Open Scope Z_scope.
Local Open Scope string_scope.

Ltac kmap_cases :=
  repeat match goal with |- context [if ?b then _ else _] => destruct b eqn:? end; cbn.

Lemma kmap_conv_generic (f : string -> Z -> string -> string) :
  (forall n i m, f n i m =
     if Z.ltb i 0 then (if (String.eqb m "" || String.eqb m "CONVERGED")%bool
                        then "Error in " ++ n ++ " (" ++ zstr i ++ ")" else m)
     else if Z.ltb 0 i then "MAX. ITERATION REACHED, NOT CONVERGED" else "CONVERGED") ->
  (forall n i m, f n i m = MSG_CONV -> i = 0) /\ (forall n i m, f n i m <> "").
Proof.
  intro Hf. split; intros n i m; rewrite Hf.
  - destruct (Z.ltb i 0) eqn:A.
    + destruct (String.eqb m "" || String.eqb m "CONVERGED")%bool eqn:B; cbn; intro H.
      * discriminate.
      * apply orb_false_iff in B. destruct B as [_ B]. apply String.eqb_neq in B. contradiction.
    + destruct (Z.ltb 0 i) eqn:B; cbn; intro H; [discriminate|].
      apply Z.ltb_ge in A. apply Z.ltb_ge in B. lia.
  - destruct (Z.ltb i 0) eqn:A.
    + destruct (String.eqb m "" || String.eqb m "CONVERGED")%bool eqn:B; cbn.
      * discriminate.
      * apply orb_false_iff in B. destruct B as [B _]. now apply String.eqb_neq in B.
    + destruct (Z.ltb 0 i); discriminate.
Qed.

(* the repaired hand-written variant (always compiles) *)
Lemma fixed_kmap : (forall n i m, kmap_fixed n i m = MSG_CONV -> i = 0) /\
                   (forall n i m, kmap_fixed n i m <> "").
Proof. apply kmap_conv_generic. reflexivity. Qed.

(* the current source *)
Lemma src_inplace : v_zero_inplace src_variant = true. Proof. reflexivity. Qed.
Lemma src_zl2 : v_zero_l2 src_variant = true. Proof. reflexivity. Qed.
Lemma src_recompute : v_recompute src_variant = true. Proof. reflexivity. Qed.
Lemma src_kmap : (forall n i m, v_kmap src_variant n i m = MSG_CONV -> i = 0) /\
                 (forall n i m, v_kmap src_variant n i m <> "").
Proof.
  apply kmap_conv_generic. intros n i m. cbn [v_kmap src_variant]. unfold krylov_exit_message.
  destruct (Z.ltb i 0); [destruct (String.eqb m "" || String.eqb m "CONVERGED")%bool|destruct (Z.ltb 0 i)];
    reflexivity.
Qed.
