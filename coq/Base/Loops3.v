(* Base/Loops3.v -- a triple loop nest whose body performs a pointwise update
   at (i,j,k) is the pointwise map over the index box.  Used for amat_x,
   restrict, prolongation-style kernels. *)
From Coq Require Import ZArith Lia Bool.
From V Require Import Base.Loops.
Local Open Scope Z_scope.

Definition in_box (nx ny nz i j k : Z) : bool :=
  ((0 <=? i) && (i <? nx) && (0 <=? j) && (j <? ny) && (0 <=? k) && (k <? nz))%bool.

Section Loops3.
  Context {St V : Type}.
  Variable get : St -> Z -> Z -> Z -> V.
  Variable f : Z -> Z -> Z -> V -> V.
  (* body k j i : innermost index last, as in `for k: for j: for i:` *)
  Variable body : Z -> Z -> Z -> St -> St.
  Variables nx ny nz : Z.

  Hypothesis body_pointwise :
    forall i j k s, 0 <= i < nx -> 0 <= j < ny -> 0 <= k < nz ->
    forall i' j' k',
      get (body k j i s) i' j' k' =
      if ((i' =? i) && (j' =? j) && (k' =? k))%bool
      then f i j k (get s i j k) else get s i' j' k'.

  Definition loop_i k j s := Zfold 0 nx (fun i s => body k j i s) s.
  Definition loop_j k s := Zfold 0 ny (fun j s => loop_i k j s) s.
  Definition loop_k s := Zfold 0 nz (fun k s => loop_j k s) s.

  Lemma loop_i_spec k j s : 0 <= nx -> 0 <= j < ny -> 0 <= k < nz ->
    forall i' j' k',
      get (loop_i k j s) i' j' k' =
      if ((0 <=? i') && (i' <? nx) && (j' =? j) && (k' =? k))%bool
      then f i' j k (get s i' j k) else get s i' j' k'.
  Proof.
    intros Hnx Hj Hk. unfold loop_i.
    apply (Zfold_ind (fun n s' => forall i' j' k',
      get s' i' j' k' =
      if ((0 <=? i') && (i' <? n) && (j' =? j) && (k' =? k))%bool
      then f i' j k (get s i' j k) else get s i' j' k')); [lia| |].
    - intros i' j' k'.
      destruct (0 <=? i') eqn:E1, (i' <? 0) eqn:E2; cbn; try reflexivity; lia.
    - intros i s' Hi IH i' j' k'.
      rewrite body_pointwise by lia. rewrite !IH.
      destruct (Z.eqb_spec i' i) as [->|Ni];
      destruct (Z.eqb_spec j' j) as [->|Nj];
      destruct (Z.eqb_spec k' k) as [->|Nk]; cbn;
      repeat match goal with
      | |- context [?a <=? ?b] => destruct (Z.leb_spec a b); cbn
      | |- context [?a <? ?b] => destruct (Z.ltb_spec a b); cbn
      end; try reflexivity; try lia.
  Qed.

  Lemma loop_j_spec k s : 0 <= nx -> 0 <= ny -> 0 <= k < nz ->
    forall i' j' k',
      get (loop_j k s) i' j' k' =
      if ((0 <=? i') && (i' <? nx) && (0 <=? j') && (j' <? ny) && (k' =? k))%bool
      then f i' j' k (get s i' j' k) else get s i' j' k'.
  Proof.
    intros Hnx Hny Hk. unfold loop_j.
    apply (Zfold_ind (fun n s' => forall i' j' k',
      get s' i' j' k' =
      if ((0 <=? i') && (i' <? nx) && (0 <=? j') && (j' <? n) && (k' =? k))%bool
      then f i' j' k (get s i' j' k) else get s i' j' k')); [lia| |].
    - intros i' j' k'.
      destruct (0 <=? i'), (i' <? nx), (0 <=? j') eqn:E1, (j' <? 0) eqn:E2;
        cbn; try reflexivity; lia.
    - intros j s' Hj IH i' j' k'.
      rewrite loop_i_spec by lia. rewrite !IH.
      destruct (Z.eqb_spec j' j) as [->|Nj];
      destruct (Z.eqb_spec k' k) as [->|Nk]; cbn;
      repeat match goal with
      | |- context [?a <=? ?b] => destruct (Z.leb_spec a b); cbn
      | |- context [?a <? ?b] => destruct (Z.ltb_spec a b); cbn
      end; try reflexivity; try lia.
  Qed.

  Theorem loop_k_spec s : 0 <= nx -> 0 <= ny -> 0 <= nz ->
    forall i' j' k',
      get (loop_k s) i' j' k' =
      if in_box nx ny nz i' j' k'
      then f i' j' k' (get s i' j' k') else get s i' j' k'.
  Proof.
    intros Hnx Hny Hnz. unfold loop_k, in_box.
    apply (Zfold_ind (fun n s' => forall i' j' k',
      get s' i' j' k' =
      if ((0 <=? i') && (i' <? nx) && (0 <=? j') && (j' <? ny)
          && (0 <=? k') && (k' <? n))%bool
      then f i' j' k' (get s i' j' k') else get s i' j' k')); [lia| |].
    - intros i' j' k'.
      destruct (0 <=? i'), (i' <? nx), (0 <=? j'), (j' <? ny),
        (0 <=? k') eqn:E1, (k' <? 0) eqn:E2; cbn; try reflexivity; lia.
    - intros k s' Hk IH i' j' k'.
      rewrite loop_j_spec by lia. rewrite !IH.
      destruct (Z.eqb_spec k' k) as [->|Nk]; cbn;
      repeat match goal with
      | |- context [?a <=? ?b] => destruct (Z.leb_spec a b); cbn
      | |- context [?a <? ?b] => destruct (Z.ltb_spec a b); cbn
      end; try reflexivity; try lia.
  Qed.
End Loops3.

(* The shape the translator emits for loop nests over a triple state: every
   level re-packs the state as (fst (fst t), snd (fst t), snd t). *)
Section Wrapped.
  Context {A B C : Type}.
  Definition w3 (t : A * B * C) : A * B * C := (fst (fst t), snd (fst t), snd t).
  Lemma w3_id t : w3 t = t.
  Proof. now destruct t as [[a b] c]. Qed.

  Variable body : Z -> Z -> Z -> A * B * C -> A * B * C.
  Variables nx ny nz : Z.
  Definition loopw_k (s : A * B * C) : A * B * C :=
    Zfold 0 nz (fun k s1 =>
      w3 (Zfold 0 ny (fun j s2 =>
        w3 (Zfold 0 nx (fun i s3 => body k j i s3) (w3 s2))) (w3 s1))) s.

  Lemma loopw_k_eq s : loopw_k s = loop_k body nx ny nz s.
  Proof.
    unfold loopw_k, loop_k, loop_j, loop_i.
    apply Zfold_ext. intros k s1 _. rewrite !w3_id.
    apply Zfold_ext. intros j s2 _. now rewrite !w3_id.
  Qed.
End Wrapped.
