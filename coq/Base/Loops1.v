(* Base/Loops1.v -- a loop whose body updates a 1-D array pointwise. *)
From Coq Require Import ZArith Lia Bool.
From V Require Import Base.Loops Base.Arr.
Local Open Scope Z_scope.

Section Loops1.
  Context {A : Type}.
  Variable f : Z -> A -> A.

  Lemma Zfold_upd1_pointwise lo hi (a : Z -> A) : lo <= hi -> forall j,
    Zfold lo hi (fun i s => upd1 s i (f i (s i))) a j =
    if ((lo <=? j) && (j <? hi))%bool then f j (a j) else a j.
  Proof.
    intros Hle.
    apply (Zfold_ind (fun k s => forall j,
      s j = if ((lo <=? j) && (j <? k))%bool then f j (a j) else a j)); [assumption| |].
    - intros j. destruct (Z.leb_spec lo j), (Z.ltb_spec j lo); cbn; try reflexivity; lia.
    - intros i s Hi IH j. unfold upd1. destruct (Z.eqb_spec j i) as [->|N].
      + rewrite IH.
        destruct (Z.leb_spec lo i), (Z.ltb_spec i i), (Z.ltb_spec i (i+1)); cbn;
          try reflexivity; lia.
      + rewrite IH.
        destruct (Z.leb_spec lo j), (Z.ltb_spec j i), (Z.ltb_spec j (i+1)); cbn;
          try reflexivity; lia.
  Qed.
End Loops1.
