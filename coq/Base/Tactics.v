(* Base/Tactics.v -- shared proof automation. *)
From Coq Require Import ZArith Lia Bool Field.
From V Require Import Base.Loops Base.Arr Base.FieldSig.

(* unfold numeric literals so that [ring]/[field] see 1+1 etc. *)
Ltac flit := cbv [Flit FofZ Fpos F2 F4] in *.

(* decide integer side conditions that appear as boolean tests *)
Ltac zb_true t := replace t with true by (symmetry; lia).
Ltac zb_false t := replace t with false by (symmetry; lia).

(* rewrite (Z.max 0 (i-1)) etc. when the bound is known *)
Ltac zmax_norm :=
  repeat match goal with
  | |- context [Z.max ?a ?b] =>
      first [ replace (Z.max a b) with b by lia
            | replace (Z.max a b) with a by lia ]
  | |- context [Z.min ?a ?b] =>
      first [ replace (Z.min a b) with a by lia
            | replace (Z.min a b) with b by lia ]
  end.

(* normalise index arithmetic such as (i - 1 + 1) so that [field] sees equal
   array reads as equal atoms *)
Ltac idx_norm :=
  repeat match goal with
  | |- context [(?i - 1 + 1)%Z] => replace (i - 1 + 1)%Z with i by lia
  | |- context [(?i + 1 - 1)%Z] => replace (i + 1 - 1)%Z with i by lia
  end.
