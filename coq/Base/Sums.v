(* Base/Sums.v -- finite sums over index lists, for any number type with the
   FOps operations.  [sum l f] is executable; the lemmas assume the field
   axioms as a section hypothesis (like every proof file).
   Used by C07/C08 (inner products, transposes). *)
From Coq Require Import List Ring Field.
From V Require Import Base.FieldSig.
Import ListNotations.

Section SumDef.
  Context {F : Type} {O : FOps F} {I : Type}.
  Fixpoint sum (l : list I) (f : I -> F) : F :=
    match l with
    | [] => 0%F
    | i :: r => (f i + sum r f)%F
    end.
End SumDef.

Section SumLemmas.
  Context {F : Type} {O : FOps F}.
  Hypothesis Fth : field_theory F0 F1 Fadd Fmul Fsub Fopp Fdiv Finv (@eq F).
  Add Field SumsF : Fth.
  Local Open Scope F_scope.

  Lemma sum_ext {I} (l : list I) (f g : I -> F) :
    (forall i, In i l -> f i = g i) -> sum l f = sum l g.
  Proof.
    induction l as [|a l IH]; intros H; cbn; [reflexivity|].
    rewrite (H a (or_introl eq_refl)), IH; [reflexivity|].
    intros i Hi. apply H. now right.
  Qed.

  Lemma sum_zero {I} (l : list I) : sum l (fun _ => 0) = 0.
  Proof. induction l as [|a l IH]; cbn; [reflexivity|]. rewrite IH. ring. Qed.

  Lemma sum_zero_ext {I} (l : list I) (f : I -> F) :
    (forall i, In i l -> f i = 0) -> sum l f = 0.
  Proof. intros H. rewrite (sum_ext l f (fun _ => 0) H). apply sum_zero. Qed.

  Lemma sum_add {I} (l : list I) (f g : I -> F) :
    sum l (fun i => f i + g i) = sum l f + sum l g.
  Proof. induction l as [|a l IH]; cbn; [ring|]. rewrite IH. ring. Qed.

  Lemma sum_sub {I} (l : list I) (f g : I -> F) :
    sum l (fun i => f i - g i) = sum l f - sum l g.
  Proof. induction l as [|a l IH]; cbn; [ring|]. rewrite IH. ring. Qed.

  Lemma sum_opp {I} (l : list I) (f : I -> F) :
    sum l (fun i => - f i) = - sum l f.
  Proof. induction l as [|a l IH]; cbn; [ring|]. rewrite IH. ring. Qed.

  Lemma sum_scale_l {I} (l : list I) (c : F) (f : I -> F) :
    sum l (fun i => c * f i) = c * sum l f.
  Proof. induction l as [|a l IH]; cbn; [ring|]. rewrite IH. ring. Qed.

  Lemma sum_scale_r {I} (l : list I) (c : F) (f : I -> F) :
    sum l (fun i => f i * c) = sum l f * c.
  Proof. induction l as [|a l IH]; cbn; [ring|]. rewrite IH. ring. Qed.

  Lemma sum_app {I} (l1 l2 : list I) (f : I -> F) :
    sum (l1 ++ l2) f = sum l1 f + sum l2 f.
  Proof. induction l1 as [|a l IH]; cbn; [ring|]. rewrite IH. ring. Qed.

  Lemma sum_map {I J} (h : J -> I) (l : list J) (f : I -> F) :
    sum (map h l) f = sum l (fun j => f (h j)).
  Proof. induction l as [|a l IH]; cbn; [reflexivity|]. now rewrite IH. Qed.

  (* exchange of the order of summation *)
  Lemma sum_exchange {I J} (l : list I) (m : list J) (f : I -> J -> F) :
    sum l (fun i => sum m (fun j => f i j)) = sum m (fun j => sum l (fun i => f i j)).
  Proof.
    induction l as [|a l IH]; cbn.
    - now rewrite sum_zero.
    - rewrite IH, <- sum_add. reflexivity.
  Qed.

  (* an additive map commutes with finite sums *)
  Lemma sum_morph {I} (h : F -> F) (l : list I) (f : I -> F) :
    h 0 = 0 -> (forall x y, h (x + y) = h x + h y) ->
    h (sum l f) = sum l (fun i => h (f i)).
  Proof.
    intros H0 Hadd. induction l as [|a l IH]; cbn; [exact H0|].
    now rewrite Hadd, IH.
  Qed.

  (* sums restricted by a boolean mask = sums over the filtered list *)
  Lemma sum_filter {I} (p : I -> bool) (l : list I) (f : I -> F) :
    sum (filter p l) f = sum l (fun i => if p i then f i else 0).
  Proof.
    induction l as [|a l IH]; cbn; [reflexivity|].
    destruct (p a); cbn; rewrite IH; ring.
  Qed.

  (* sum over a product list *)
  Lemma sum_list_prod {I J} (l : list I) (m : list J) (f : I * J -> F) :
    sum (list_prod l m) f = sum l (fun i => sum m (fun j => f (i, j))).
  Proof.
    induction l as [|a l IH]; cbn; [reflexivity|].
    now rewrite sum_app, sum_map, IH.
  Qed.

  (* a sum with a single non-zero term *)
  Lemma sum_single {I} (eqb : I -> I -> bool) (l : list I) (a : I) (f : I -> F) :
    (forall i j, eqb i j = true <-> i = j) -> NoDup l -> In a l ->
    sum l (fun i => if eqb i a then f i else 0) = f a.
  Proof.
    intros Heq. induction l as [|b l IH]; intros Hnd Hin; [destruct Hin|].
    cbn. inversion Hnd as [|? ? Hnb Hnd']; subst.
    destruct Hin as [->|Hin].
    - replace (eqb a a) with true by (symmetry; now apply Heq).
      rewrite sum_zero_ext; [ring|].
      intros i Hi. destruct (eqb i a) eqn:E; [|reflexivity].
      apply Heq in E. subst. contradiction.
    - destruct (eqb b a) eqn:E.
      + apply Heq in E. subst. contradiction.
      + rewrite IH by assumption. ring.
  Qed.
End SumLemmas.
