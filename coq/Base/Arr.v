(* Base/Arr.v -- arrays as total functions on Z indices, functional update. *)
From Coq Require Import ZArith Lia Bool List.
Local Open Scope Z_scope.

Section Arr.
  Context {A : Type}.

  Definition upd1 (a : Z -> A) (i : Z) (v : A) : Z -> A :=
    fun j => if Z.eqb j i then v else a j.

  Definition upd3 (a : Z -> Z -> Z -> A) (i j k : Z) (v : A) : Z -> Z -> Z -> A :=
    fun i' j' k' =>
      if (Z.eqb i' i && Z.eqb j' j && Z.eqb k' k)%bool then v else a i' j' k'.

  Lemma upd1_same a i v : upd1 a i v i = v.
  Proof. unfold upd1. now rewrite Z.eqb_refl. Qed.

  Lemma upd1_other a i v j : j <> i -> upd1 a i v j = a j.
  Proof. unfold upd1. intros H. apply Z.eqb_neq in H. now rewrite H. Qed.

  Lemma upd3_same a i j k v : upd3 a i j k v i j k = v.
  Proof. unfold upd3. now rewrite !Z.eqb_refl. Qed.

  Lemma upd3_other a i j k v i' j' k' :
    (i' <> i \/ j' <> j \/ k' <> k) -> upd3 a i j k v i' j' k' = a i' j' k'.
  Proof.
    unfold upd3. intros H.
    destruct (Z.eqb_spec i' i), (Z.eqb_spec j' j), (Z.eqb_spec k' k);
      cbn; try reflexivity. exfalso. destruct H as [H|[H|H]]; contradiction.
  Qed.

  (* a[i] op= e  written so that the array occurs once: upd1f a i (fun v => v op e) *)
  Definition upd1f (a : Z -> A) (i : Z) (f : A -> A) : Z -> A := upd1 a i (f (a i)).
  Definition upd3f (a : Z -> Z -> Z -> A) (i j k : Z) (f : A -> A) : Z -> Z -> Z -> A :=
    upd3 a i j k (f (a i j k)).

  (* Array literals: np.array([x0, ..., xn]) *)
  Definition arr_of_list (d : A) (l : list A) : Z -> A :=
    fun i => if Z.ltb i 0 then d else nth (Z.to_nat i) l d.

  (* a[:] = c *)
  Definition fill1 (c : A) : Z -> A := fun _ => c.
End Arr.

(* Tabulation: rebuild an array from its first n values (drops the chain of
   updates; used only when executing models). *)
Definition tab1 {A} (d : A) (n : Z) (a : Z -> A) : Z -> A :=
  let l := map (fun k => a (Z.of_nat k)) (seq 0 (Z.to_nat n)) in
  arr_of_list d l.

Definition tab3 {A} (d : A) (n1 n2 n3 : Z) (a : Z -> Z -> Z -> A)
  : Z -> Z -> Z -> A :=
  let t := tab1 (fun _ _ => d) n1
             (fun i => tab1 (fun _ => d) n2 (fun j => tab1 d n3 (fun k => a i j k))) in
  fun i j k => t i j k.

Ltac upd_simpl :=
  repeat first
    [ rewrite upd3_same
    | rewrite upd1_same
    | rewrite upd3_other by lia
    | rewrite upd1_other by lia ].
