(* Base/FieldSig.v -- the operations a generated kernel needs from its number
   type.  Definitions in Gen/ are parametric in an [FOps] instance and need no
   axioms of it; proof files additionally assume [field_theory] (and 1+1 <> 0)
   as section hypotheses.  Executable instances are in ExecQ.v. *)
From Coq Require Import ZArith Field.

Class FOps (F : Type) := {
  F0 : F; F1 : F;
  Fadd : F -> F -> F; Fmul : F -> F -> F; Fsub : F -> F -> F;
  Fopp : F -> F; Fdiv : F -> F -> F; Finv : F -> F
}.

Declare Scope F_scope.
Delimit Scope F_scope with F.
Notation "0" := F0 : F_scope.
Notation "1" := F1 : F_scope.
Infix "+" := Fadd : F_scope.
Infix "*" := Fmul : F_scope.
Infix "-" := Fsub : F_scope.
Infix "/" := Fdiv : F_scope.
Notation "- x" := (Fopp x) : F_scope.

Section Lits.
  Context {F : Type} {O : FOps F}.
  Local Open Scope F_scope.
  (* Numerals used by the kernels.  Kept as plain terms so that [field] sees
     through them. *)
  Definition F2 : F := 1 + 1.
  Definition F4 : F := (1 + 1) * (1 + 1).
  Fixpoint Fpos (p : positive) : F :=
    match p with
    | xH => 1
    | xO q => (1 + 1) * Fpos q
    | xI q => 1 + (1 + 1) * Fpos q
    end.
  Definition FofZ (z : Z) : F :=
    match z with Z0 => 0 | Zpos p => Fpos p | Zneg p => - Fpos p end.
  (* rational literal n/d *)
  Definition Flit (n : Z) (d : positive) : F := FofZ n / Fpos d.
End Lits.

(* What proof files assume. *)
Definition is_field {F} (O : FOps F) : Prop :=
  field_theory (F0) (F1) Fadd Fmul Fsub Fopp Fdiv Finv (@eq F).
