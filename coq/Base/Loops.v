(* Base/Loops.v -- `for i in range(lo, hi)` as a fold over Z, with the
   invariant rule used by every loop proof.  Definitions are executable. *)
From Coq Require Import ZArith Lia.
Local Open Scope Z_scope.

Section Fold.
  Context {St : Type}.

  Fixpoint nfold (n : nat) (lo : Z) (body : Z -> St -> St) (st : St) : St :=
    match n with
    | O => st
    | S n' => nfold n' (lo + 1) body (body lo st)
    end.

  (* for i in range(lo, hi): st = body i st *)
  Definition Zfold (lo hi : Z) (body : Z -> St -> St) (st : St) : St :=
    nfold (Z.to_nat (hi - lo)) lo body st.

  (* for i in range(hi, lo, -1)  i.e. i = hi, hi-1, ..., lo+1 *)
  Fixpoint nfold_down (n : nat) (hi : Z) (body : Z -> St -> St) (st : St) : St :=
    match n with
    | O => st
    | S n' => nfold_down n' (hi - 1) body (body hi st)
    end.

  (* for i in range(start, stop, -1): visits start, start-1, ..., stop+1 *)
  Definition Zfold_down (start stop : Z) (body : Z -> St -> St) (st : St) : St :=
    nfold_down (Z.to_nat (start - stop)) start body st.

  Lemma nfold_snoc n : forall lo body st,
    nfold (S n) lo body st = body (lo + Z.of_nat n) (nfold n lo body st).
  Proof.
    induction n as [|n IH]; intros lo body st.
    - cbn. now rewrite Z.add_0_r.
    - change (nfold (S (S n)) lo body st) with (nfold (S n) (lo+1) body (body lo st)).
      rewrite IH. cbn [nfold]. f_equal. lia.
  Qed.

  Lemma Zfold_empty lo hi body st : hi <= lo -> Zfold lo hi body st = st.
  Proof.
    intros H. unfold Zfold. replace (Z.to_nat (hi - lo)) with O by lia. reflexivity.
  Qed.

  Lemma Zfold_snoc lo hi body st : lo <= hi ->
    Zfold lo (hi + 1) body st = body hi (Zfold lo hi body st).
  Proof.
    intros H. unfold Zfold.
    replace (Z.to_nat (hi + 1 - lo)) with (S (Z.to_nat (hi - lo))) by lia.
    rewrite nfold_snoc. f_equal. lia.
  Qed.

  Lemma Zfold_first lo hi body st : lo < hi ->
    Zfold lo hi body st = Zfold (lo + 1) hi body (body lo st).
  Proof.
    intros H. unfold Zfold.
    replace (Z.to_nat (hi - lo)) with (S (Z.to_nat (hi - (lo + 1)))) by lia.
    reflexivity.
  Qed.

  (* Invariant rule. *)
  Lemma Zfold_ind (P : Z -> St -> Prop) lo hi body st :
    lo <= hi ->
    P lo st ->
    (forall i s, lo <= i < hi -> P i s -> P (i + 1) (body i s)) ->
    P hi (Zfold lo hi body st).
  Proof.
    intros Hle H0 Hstep.
    assert (G : forall n, (Z.of_nat n <= hi - lo) ->
                P (lo + Z.of_nat n) (nfold n lo body st)).
    { induction n as [|n IH]; intros Hn.
      - cbn. now rewrite Z.add_0_r.
      - rewrite nfold_snoc.
        replace (lo + Z.of_nat (S n)) with (lo + Z.of_nat n + 1) by lia.
        apply Hstep; [lia | apply IH; lia]. }
    unfold Zfold. specialize (G (Z.to_nat (hi - lo))).
    replace (lo + Z.of_nat (Z.to_nat (hi - lo))) with hi in G by lia.
    apply G. lia.
  Qed.

  Lemma Zfold_ext lo hi body1 body2 st :
    (forall i s, lo <= i < hi -> body1 i s = body2 i s) ->
    Zfold lo hi body1 st = Zfold lo hi body2 st.
  Proof.
    intros H. destruct (Z_le_gt_dec lo hi) as [Hle|Hgt].
    - apply (Zfold_ind (fun i s => s = Zfold lo i body2 st) lo hi body1 st Hle).
      + now rewrite Zfold_empty by lia.
      + intros i s Hi ->. rewrite Zfold_snoc by lia. apply H; lia.
    - rewrite !Zfold_empty by lia. reflexivity.
  Qed.

  Lemma nfold_down_snoc n : forall hi body st,
    nfold_down (S n) hi body st = body (hi - Z.of_nat n) (nfold_down n hi body st).
  Proof.
    induction n as [|n IH]; intros hi body st.
    - cbn. now rewrite Z.sub_0_r.
    - change (nfold_down (S (S n)) hi body st)
        with (nfold_down (S n) (hi-1) body (body hi st)).
      rewrite IH. cbn [nfold_down]. f_equal. lia.
  Qed.

  Lemma Zfold_down_empty start stop body st :
    start <= stop -> Zfold_down start stop body st = st.
  Proof.
    intros H. unfold Zfold_down.
    replace (Z.to_nat (start - stop)) with O by lia. reflexivity.
  Qed.

  (* Invariant rule for descending loops: P i s holds *before* visiting i. *)
  Lemma Zfold_down_ind (P : Z -> St -> Prop) start stop body st :
    stop <= start ->
    P start st ->
    (forall i s, stop < i <= start -> P i s -> P (i - 1) (body i s)) ->
    P stop (Zfold_down start stop body st).
  Proof.
    intros Hle H0 Hstep.
    assert (G : forall n, (Z.of_nat n <= start - stop) ->
                P (start - Z.of_nat n) (nfold_down n start body st)).
    { induction n as [|n IH]; intros Hn.
      - cbn. now rewrite Z.sub_0_r.
      - rewrite nfold_down_snoc.
        replace (start - Z.of_nat (S n)) with (start - Z.of_nat n - 1) by lia.
        apply Hstep; [lia | apply IH; lia]. }
    unfold Zfold_down. specialize (G (Z.to_nat (start - stop))).
    replace (start - Z.of_nat (Z.to_nat (start - stop))) with stop in G by lia.
    apply G. lia.
  Qed.
End Fold.

(* `while` loops are only accepted with explicit fuel; out-of-fuel is None. *)
Section While.
  Context {St : Type}.
  Fixpoint while_fuel (fuel : nat) (cond : St -> bool) (body : St -> St) (st : St)
    : option St :=
    if cond st then
      match fuel with
      | O => None
      | S f => while_fuel f cond body (body st)
      end
    else Some st.
End While.
