(* Base/ExecQ.v -- executable number types for running generated and hand
   models inside Coq: rationals normalised after every operation, and complex
   numbers as pairs over any FOps.  Used only by correspondence (Corr/*.v). *)
From Coq Require Import ZArith QArith List.
From V Require Import Base.FieldSig Base.Arr.
Import ListNotations.

#[global] Instance QOps : FOps Q := {
  F0 := 0%Q; F1 := 1%Q;
  Fadd a b := Qred (Qplus a b);
  Fmul a b := Qred (Qmult a b);
  Fsub a b := Qred (Qminus a b);
  Fopp a := Qopp a;
  Fdiv a b := Qred (Qdiv a b);
  Finv a := Qinv a
}.

Section Cx.
  Context {F : Type} {O : FOps F}.
  Local Open Scope F_scope.
  Definition cx_mul (a b : F * F) : F * F :=
    (fst a * fst b - snd a * snd b, fst a * snd b + snd a * fst b).
  Definition cx_inv (a : F * F) : F * F :=
    let n := fst a * fst a + snd a * snd a in (fst a / n, - (snd a / n)).
  #[global] Instance CxOps : FOps (F * F) := {
    F0 := (0, 0); F1 := (1, 0);
    Fadd a b := (fst a + fst b, snd a + snd b);
    Fmul := cx_mul;
    Fsub a b := (fst a - fst b, snd a - snd b);
    Fopp a := (- fst a, - snd a);
    Fdiv a b := cx_mul a (cx_inv b);
    Finv := cx_inv
  }.
End Cx.

(* Input/output helpers for case files. *)
Definition qz (n : Z) (d : positive) : Q := Qred (Qmake n d).
Definition arr1_of (l : list Q) : Z -> Q := arr_of_list 0%Q l.
Definition arr3_of {A} (d : A) (l : list (list (list A))) : Z -> Z -> Z -> A :=
  fun i j k =>
    if (Z.ltb i 0 || Z.ltb j 0 || Z.ltb k 0)%bool then d
    else nth (Z.to_nat k) (nth (Z.to_nat j) (nth (Z.to_nat i) l []) []) d.
Definition out_q (q : Q) : Z * Z := (Qnum q, Zpos (Qden q)).
Definition range (n : Z) : list Z := map Z.of_nat (seq 0 (Z.to_nat n)).
Definition dump1 {A B} (o : A -> B) (n : Z) (a : Z -> A) : list B :=
  map (fun i => o (a i)) (range n).
Definition dump3 {A B} (o : A -> B) (n1 n2 n3 : Z) (a : Z -> Z -> Z -> A) : list B :=
  flat_map (fun i => flat_map (fun j => map (fun k => o (a i j k)) (range n3))
                                (range n2)) (range n1).
Definition out_c (c : Q * Q) : (Z * Z) * (Z * Z) := (out_q (fst c), out_q (snd c)).
Definition cq (n1 : Z) (d1 : positive) (n2 : Z) (d2 : positive) : Q * Q := (qz n1 d1, qz n2 d2).
