(* Model/Prolong.v -- specification of the residual restriction as a tensor
   product of 1-D maps, and hand model of the field prolongation
   (emg3d.solver.prolongation + RegularGridProlongator) and of the model
   restriction (_restrict_model_parameters).  Definitions only.

   Index conventions: cnx, cny, cnz = numbers of COARSE nodes per direction;
   nx, ny, nz = numbers of FINE nodes; an x-edge field has indices
   (cell i, node j, node k). *)
From Coq Require Import ZArith List Bool.
From V Require Import Base.FieldSig Gen.SolverHelpers.
Import ListNotations.
Local Open Scope Z_scope.

(* is direction d (0 = x, 1 = y, 2 = z) coarsened by pattern sc (0..6)?
   -- read off the generated restrict_factors *)
Definition coars (scd d : Z) : bool :=
  let f := restrict_factors scd in
  (if d =? 0 then fst (fst f) else if d =? 1 then snd (fst f) else snd f) =? 2.

Section RestrictSpec.
  Context {F : Type} {O : FOps F}.
  Variable scd : Z.
  Variables nx ny nz : Z.                     (* fine node counts *)
  Variables wx wy wz : (Z -> F) * (Z -> F) * (Z -> F).   (* (left, centre, right) *)

  Definition wl (w : (Z -> F) * (Z -> F) * (Z -> F)) := fst (fst w).
  Definition w0 (w : (Z -> F) * (Z -> F) * (Z -> F)) := snd (fst w).
  Definition wr (w : (Z -> F) * (Z -> F) * (Z -> F)) := snd w.

  (* 1-D restriction across the edge direction: centre/left/right weights on the
     fine nodes 2I, 2I-1, 2I+1 (indices clamped at the ends exactly as the code
     does; irrelevant for interior coarse nodes) *)
  Definition S1 (c : bool) (w : (Z -> F) * (Z -> F) * (Z -> F)) (n : Z)
             (f : Z -> F) (I : Z) : F :=
    if c then (w0 w I * f (2*I)%Z + wl w I * f (Z.max 0 (2*I-1))%Z
               + wr w I * f (Z.min (n-1) (2*I+1))%Z)%F
    else f I.
  (* 1-D restriction along the edge direction: the two children are summed *)
  Definition E1 (c : bool) (n : Z) (f : Z -> F) (I : Z) : F :=
    if c then (f (2*I)%Z + f (Z.min (n-1) (2*I+1))%Z)%F else f I.

  Definition Rx_spec (rx : Z -> Z -> Z -> F) (I J K : Z) : F :=
    S1 (coars scd 1) wy ny (fun j =>
      S1 (coars scd 2) wz nz (fun k =>
        E1 (coars scd 0) nx (fun i => rx i j k) I) K) J.
  Definition Ry_spec (ry : Z -> Z -> Z -> F) (I J K : Z) : F :=
    S1 (coars scd 0) wx nx (fun i =>
      S1 (coars scd 2) wz nz (fun k =>
        E1 (coars scd 1) ny (fun j => ry i j k) J) K) I.
  Definition Rz_spec (rz : Z -> Z -> Z -> F) (I J K : Z) : F :=
    S1 (coars scd 0) wx nx (fun i =>
      S1 (coars scd 1) wy ny (fun j =>
        E1 (coars scd 2) nz (fun k => rz i j k) K) J) I.
End RestrictSpec.

Section Prolong1D.
  Context {F : Type} {O : FOps F}.
  (* linear interpolation ("hat function") weight of coarse node I, which sits
     at fine node 2I, evaluated at fine node j; [x] are the fine node
     coordinates.  Model of RegularGridProlongator's weights when the coarse
     grid consists of every second fine node. *)
  Definition P1 (x : Z -> F) (j I : Z) : F :=
    if j =? 2*I then 1%F
    else if j =? 2*I - 1 then ((x (2*I-1)%Z - x (2*I-2)%Z) / (x (2*I)%Z - x (2*I-2)%Z))%F
    else if j =? 2*I + 1 then ((x (2*I+2)%Z - x (2*I+1)%Z) / (x (2*I+2)%Z - x (2*I)%Z))%F
    else 0%F.
  (* the restriction weights as a matrix entry: coarse row I, fine column j *)
  Definition R1 (w : (Z -> F) * (Z -> F) * (Z -> F)) (I j : Z) : F :=
    if j =? 2*I then w0 w I
    else if j =? 2*I - 1 then wl w I
    else if j =? 2*I + 1 then wr w I
    else 0%F.

  (* prolongation of one transverse line: value added at fine node j *)
  Definition prolong1 (c : bool) (x : Z -> F) (cf : Z -> F) (j : Z) : F :=
    if c then
      (if Z.even j then cf (j / 2)
       else (P1 x j ((j-1)/2)%Z * cf ((j-1)/2)%Z + P1 x j ((j+1)/2)%Z * cf ((j+1)/2)%Z)%F)
    else cf j.
End Prolong1D.

Section Prolong3D.
  Context {F : Type} {O : FOps F}.
  Variable scd : Z.
  Variables xn yn zn : Z -> F.               (* fine node coordinates *)
  Variables nx ny nz : Z.                    (* fine node counts *)

  Definition cidx (c : bool) (i : Z) : Z := if c then i / 2 else i.
  (* x-component: constant along x (copied to both children), bilinear in y, z;
     only interior (non-boundary) transverse nodes are written *)
  Definition prolong_x (cfx efx : Z -> Z -> Z -> F) (i j k : Z) : F :=
    if ((0 <=? i) && (i <? nx - 1) && (1 <=? j) && (j <? ny - 1) && (1 <=? k) && (k <? nz - 1))%bool
    then (efx i j k +
          prolong1 (coars scd 1) yn (fun J =>
            prolong1 (coars scd 2) zn (fun K => cfx (cidx (coars scd 0) i) J K) k) j)%F
    else efx i j k.
  Definition prolong_y (cfy efy : Z -> Z -> Z -> F) (i j k : Z) : F :=
    if ((1 <=? i) && (i <? nx - 1) && (0 <=? j) && (j <? ny - 1) && (1 <=? k) && (k <? nz - 1))%bool
    then (efy i j k +
          prolong1 (coars scd 0) xn (fun I =>
            prolong1 (coars scd 2) zn (fun K => cfy I (cidx (coars scd 1) j) K) k) i)%F
    else efy i j k.
  Definition prolong_z (cfz efz : Z -> Z -> Z -> F) (i j k : Z) : F :=
    if ((1 <=? i) && (i <? nx - 1) && (1 <=? j) && (j <? ny - 1) && (0 <=? k) && (k <? nz - 1))%bool
    then (efz i j k +
          prolong1 (coars scd 0) xn (fun I =>
            prolong1 (coars scd 1) yn (fun J => cfz I J (cidx (coars scd 2) k)) j) i)%F
    else efz i j k.
End Prolong3D.

Section RestrictParam.
  Context {F : Type} {O : FOps F}.
  (* _restrict_model_parameters: each coarse cell is the sum of its children *)
  Definition sum_children1 (c : bool) (f : Z -> F) (I : Z) : F :=
    if c then (f (2*I)%Z + f (2*I+1)%Z)%F else f I.
  Definition restrict_param (scd : Z) (p : Z -> Z -> Z -> F) (I J K : Z) : F :=
    sum_children1 (coars scd 0) (fun i =>
      sum_children1 (coars scd 1) (fun j =>
        sum_children1 (coars scd 2) (fun k => p i j k) K) J) I.
End RestrictParam.
