(* Model/Fourier.v -- property C20: the frequency bookkeeping and the filling
   of the required spectrum by emg3d.time.Fourier.  Definitions ONLY.

   Numbers: an abstract field [F] (FOps) with a boolean comparison [leb]
   (x <= y); executed on Q with Qle_bool.  Complex data are pairs (re, im).
   Third-party pieces are Section variables (oracles): the spline through
   (log freq_compute, data), PCHIP through the extended points, [logf], and
   the reference transform empymod.model.tem. *)
From Coq Require Import List Bool ZArith.
From V Require Import Base.FieldSig.
Import ListNotations.

Section Masks.
  Context {F : Type}.
  Variable leb : F -> F -> bool.            (* x <= y *)

  Definition ltb (x y : F) : bool := negb (leb y x).   (* x < y on a total order *)

  (* freq_required < fmin *)
  Definition mask_extrapolate (fmin : F) (req : list F) : list bool :=
    map (fun x => ltb x fmin) req.
  (* (freq_required >= fmin) & (freq_required <= fmax) *)
  Definition in_band (fmin fmax x : F) : bool := leb fmin x && leb x fmax.
  Definition mask_interpolate (fmin fmax : F) (req : list F) : list bool :=
    map (in_band fmin fmax) req.
  (* what interpolate() leaves at its pre-allocated 0: touched by neither assignment *)
  Definition mask_zero (fmin fmax : F) (req : list F) : list bool :=
    map (fun x => negb (ltb x fmin) && negb (in_band fmin fmax x)) req.
  (* freq_required > fmax *)
  Definition mask_above (fmax : F) (req : list F) : list bool :=
    map (fun x => ltb fmax x) req.

  (* x == y, and np.array_equal on 1-D arrays *)
  Definition feqb (x y : F) : bool := leb x y && leb y x.
  Fixpoint list_eqb (a b : list F) : bool :=
    match a, b with
    | [], [] => true
    | x :: a', y :: b' => feqb x y && list_eqb a' b'
    | _, _ => false
    end.
  (* the test emg3d used before the fix: sizes only *)
  Definition same_length (a b : list F) : bool := Nat.eqb (List.length a) (List.length b).

  (* x[::k], k >= 1 *)
  Fixpoint every_from (k : nat) (skip : nat) (l : list F) : list F :=
    match l with
    | [] => []
    | x :: r => match skip with
                | O => x :: every_from k (k - 1) r
                | S s => every_from k s r
                end
    end.
  Definition every_nth (k : nat) (l : list F) : list F := every_from k 0 l.

  (* freq_coarse, in the order the property tests its options *)
  Definition freq_coarse (every_x : option nat) (input_freq : option (list F))
             (req : list F) : list F :=
    match every_x, input_freq with
    | None, None => req
    | None, Some inp => inp
    | Some k, _ => every_nth k req
    end.

  (* _check_coarse_inputs(keep_inp_freq): both set -> one is erased *)
  Definition check_coarse (keep_inp : bool) (every_x : option nat)
             (input_freq : option (list F)) : option nat * option (list F) :=
    match every_x, input_freq with
    | Some k, Some inp => if keep_inp then (None, Some inp) else (Some k, None)
    | _, _ => (every_x, input_freq)
    end.

  Definition mask_compute (fmin fmax : F) (coarse : list F) : list bool :=
    map (in_band fmin fmax) coarse.
  Definition freq_compute (fmin fmax : F) (coarse : list F) : list F :=
    filter (in_band fmin fmax) coarse.
  Definition freq_extrapolate (fmin : F) (req : list F) : list F :=
    filter (fun x => ltb x fmin) req.
  Definition freq_interpolate (fmin fmax : F) (req : list F) : list F :=
    filter (in_band fmin fmax) req.
End Masks.

(* numpy  out[mask] = vals : as many values as True entries, or one value
   (broadcast); anything else raises ValueError (None) *)
Section MaskedAssign.
  Context {D : Type}.

  Fixpoint fill (mask : list bool) (vals : list D) (out : list D) : list D :=
    match mask, out with
    | m :: mr, o :: orest =>
        if m then match vals with
                  | v :: vr => v :: fill mr vr orest
                  | [] => o :: fill mr [] orest
                  end
        else o :: fill mr vals orest
    | _, _ => out
    end.

  Definition count_true (mask : list bool) : nat := List.length (filter (fun b => b) mask).

  Definition massign (mask : list bool) (vals : list D) (out : list D) : option (list D) :=
    if Nat.eqb (List.length vals) (count_true mask) then Some (fill mask vals out)
    else match vals with
         | [v] => Some (fill mask (repeat v (count_true mask)) out)
         | _ => None
         end.

  (* number of True entries strictly before position i *)
  Definition rank (mask : list bool) (i : nat) : nat := count_true (firstn i mask).
End MaskedAssign.

Section Interpolate.
  Context {F : Type} {O : FOps F}.
  Variable leb : F -> F -> bool.
  Variable logf : F -> F.                                   (* np.log *)
  Variable spline1 : list F -> list F -> F -> F.            (* knots, values, query *)
  Variable pchip1 : list F -> list F -> F -> F.             (* knots, values, query *)
  Variable tiny : F.                                        (* 1e-100 *)

  Definition cplx : Type := (F * F)%type.
  Definition czero : cplx := (0%F, 0%F).

  (* Fourier.interpolate(fdata), parametric in the test that selects the
     pass-through branch *)
  Definition interpolate_with (pass : list F -> list F -> bool)
             (fmin fmax : F) (every_x : option nat)
             (input_freq : option (list F)) (req : list F) (fdata : list cplx)
    : option (list cplx) :=
    let coarse := freq_coarse every_x input_freq req in
    let fc := freq_compute leb fmin fmax coarse in
    let mi := mask_interpolate leb fmin fmax req in
    let me := mask_extrapolate leb fmin req in
    let out0 := repeat czero (List.length req) in
    let vals_i :=
      if pass coarse req
      then fdata                                            (* pass-through *)
      else map (fun x => (spline1 (map logf fc) (map fst fdata) (logf x),
                          spline1 (map logf fc) (map snd fdata) (logf x)))
               (freq_interpolate leb fmin fmax req) in
    match massign mi vals_i out0 with
    | None => None
    | Some out1 =>
        match fdata with
        | [] => None                                        (* fdata[0]: IndexError *)
        | d0 :: _ =>
            let fx := tiny :: fc in
            let re_ext := fst d0 :: map fst fdata in
            let im_ext := (- tiny)%F :: map snd fdata in
            let vals_e := map (fun x => (pchip1 fx re_ext x, pchip1 fx im_ext x))
                              (freq_extrapolate leb fmin req) in
            massign me vals_e out1
        end
    end.

  (* the code: pass-through iff np.array_equal(freq_coarse, freq_required) *)
  Definition interpolate := interpolate_with (list_eqb leb).
  (* emg3d before "fix: Fourier.interpolate passed data through whenever input_freq
     had the size of freq_required": sizes compared only *)
  Definition interpolate_unfixed := interpolate_with (@same_length F).

  (* Fourier.freq2time(fdata, off): the reference transform applied to the
     filled spectrum *)
  Context {TD : Type}.
  Variable tem : list cplx -> list F -> TD.    (* empymod.model.tem(data, freq=...) *)
  Definition freq2time (fmin fmax : F) (every_x : option nat)
             (input_freq : option (list F)) (req : list F) (fdata : list cplx)
    : option TD :=
    match interpolate fmin fmax every_x input_freq req fdata with
    | None => None
    | Some filled => Some (tem filled req)
    end.
End Interpolate.

(* PCHIP on its FIRST interval [x0, x1] (scipy.interpolate.PchipInterpolator):
   cubic Hermite with the end slope of _edge_case and the interior slope of
   _find_derivatives.  h0 = x1-x0, h1 = x2-x1, m0 = (y1-y0)/h0, m1 = (y2-y1)/h1 *)
Section Pchip.
  Context {F : Type} {O : FOps F}.
  Variable leb : F -> F -> bool.
  Local Open Scope F_scope.

  Definition F3 : F := 1 + (1 + 1).

  Definition sgn (x : F) : Z :=
    if leb x 0 then (if leb 0 x then 0%Z else (-1)%Z) else 1%Z.
  Definition fabs (x : F) : F := if leb 0 x then x else - x.

  Definition edge_slope (h0 h1 m0 m1 : F) : F :=
    let d := ((F2 * h0 + h1) * m0 - h0 * m1) / (h0 + h1) in
    if negb (Z.eqb (sgn d) (sgn m0)) then 0
    else if negb (Z.eqb (sgn m0) (sgn m1)) && negb (leb (fabs d) (F3 * fabs m0))
         then F3 * m0 else d.

  Definition interior_slope (h0 h1 m0 m1 : F) : F :=
    if Z.eqb (sgn m0) 0 || Z.eqb (sgn m1) 0 || negb (Z.eqb (sgn m0) (sgn m1)) then 0
    else let w1 := F2 * h1 + h0 in
         let w2 := h1 + F2 * h0 in
         (w1 + w2) / (w1 / m0 + w2 / m1).

  (* cubic Hermite on [x0, x0+h], t = (x - x0)/h *)
  Definition hermite (y0 y1 d0 d1 h t : F) : F :=
    let t2 := t * t in
    let t3 := t2 * t in
    (F2 * t3 - F3 * t2 + 1) * y0 + (t3 - F2 * t2 + t) * (h * d0)
    + (F3 * t2 - F2 * t3) * y1 + (t3 - t2) * (h * d1).

  (* value of PCHIP at x in the first interval of knots x0 < x1 < x2 *)
  Definition pchip_first (x0 x1 x2 y0 y1 y2 x : F) : F :=
    let h0 := x1 - x0 in
    let h1 := x2 - x1 in
    let m0 := (y1 - y0) / h0 in
    let m1 := (y2 - y1) / h1 in
    hermite y0 y1 (edge_slope h0 h1 m0 m1) (interior_slope h0 h1 m0 m1) h0 ((x - x0) / h0).

  (* with only two knots PCHIP is the straight line *)
  Definition pchip_two (x0 x1 y0 y1 x : F) : F :=
    let h0 := x1 - x0 in
    let m0 := (y1 - y0) / h0 in
    hermite y0 y1 m0 m0 h0 ((x - x0) / h0).
End Pchip.

(* ------------------------------------------------------------------ *)
(* Histories on ONE Fourier instance: the public setters               *)
(* ------------------------------------------------------------------ *)
Section History.
  Context {F : Type}.

  (* what the instance remembers; freq_required is recomputed by empymod's
     check_time when time / ft / ftarg change (oracle: the new list is the
     argument of SetReq) *)
  Record fstate : Type := mkFS {
    s_fmin : F; s_fmax : F;
    s_every : option nat; s_inp : option (list F);
    s_req : list F }.

  Inductive fop : Type :=
  | SetFmin (x : F) | SetFmax (x : F)
  | SetEvery (k : option nat)           (* every_x_freq setter: keeps every_x_freq *)
  | SetInput (l : option (list F))      (* input_freq setter: keeps input_freq *)
  | SetReq (l : list F).                (* time / fourier_arguments / signal-independent *)

  Definition fstep (s : fstate) (o : fop) : fstate :=
    match o with
    | SetFmin x => mkFS x (s_fmax s) (s_every s) (s_inp s) (s_req s)
    | SetFmax x => mkFS (s_fmin s) x (s_every s) (s_inp s) (s_req s)
    | SetEvery k => let ei := check_coarse false k (s_inp s) in
                    mkFS (s_fmin s) (s_fmax s) (fst ei) (snd ei) (s_req s)
    | SetInput l => let ei := check_coarse true (s_every s) l in
                    mkFS (s_fmin s) (s_fmax s) (fst ei) (snd ei) (s_req s)
    | SetReq l => mkFS (s_fmin s) (s_fmax s) (s_every s) (s_inp s) l
    end.

  Definition frun (s : fstate) (ops : list fop) : fstate := fold_left fstep ops s.

  (* Fourier(time, fmin, fmax, ..., input_freq=, every_x_freq=) *)
  Definition finit (fmin fmax : F) (every_x : option nat) (inp : option (list F))
             (req : list F) : fstate :=
    let ei := check_coarse true every_x inp in mkFS fmin fmax (fst ei) (snd ei) req.

  Definition exclusive (s : fstate) : Prop := s_every s = None \/ s_inp s = None.
End History.

Section HistoryInterp.
  Context {F : Type} {O : FOps F}.
  Variable leb : F -> F -> bool.
  Variable logf : F -> F.
  Variable spline1 : list F -> list F -> F -> F.
  Variable pchip1 : list F -> list F -> F -> F.
  Variable tiny : F.

  (* interpolate() on an instance: a function of the CURRENT parameters only *)
  Definition interpolate_state (s : fstate) (fdata : list (F * F)) : option (list (F * F)) :=
    interpolate leb logf spline1 pchip1 tiny (s_fmin s) (s_fmax s) (s_every s) (s_inp s)
                (s_req s) fdata.
End HistoryInterp.

(* ------------------------------------------------------------------ *)
(* The sine / cosine choice of the DLF transform (empymod check_time)  *)
(* ------------------------------------------------------------------ *)
(* A function of the instance's OWN setting: its signal and the 'kind' its own
   ftarg carries (if any) -- not of any other instance created from the same
   user dictionary. *)
Inductive trig : Type := Sin | Cos.

Definition dlf_kind (signal : Z) (user_kind : option trig) : trig :=
  if Z.ltb 0 signal then Sin
  else if Z.ltb signal 0 then Cos
  else match user_kind with Some k => k | None => Sin end.

Definition trig_code (k : trig) : Z := match k with Sin => 0%Z | Cos => 1%Z end.
