(* Model/SurveyFinite.v -- C13, round 6: the survey machine of
   Model/SurveyMachine.v extended by
     * the MEMOISED finite mask of emg3d.Survey (`Survey.isfinite` stores
       np.isfinite(data.observed) in `survey._isfinite` the first time it is
       called on a survey with at least one finite datum and never refreshes
       it; `finite_data()` indexes with it);
     * read-only queries between data changes (isfinite, finite_data, size,
       count, Simulation.misfit);
     * two further routes that change the NaN pattern of data.observed:
       `survey.data.observed[...] = array` (in place) and
       `Simulation.compute(observed=True, add_noise=False)`
       (`data['observed'] = data['synthetic'].copy()`: a fresh array).
   The memo is part of the state ([memo]); Simulation.misfit does not consult
   it ([misfit] of Model/SurveyMachine.v reads the current arrays only).
   DEFINITIONS ONLY (generic part, then the Q instance + dump functions for
   py/props/c13.py). *)
From Coq Require Import ZArith QArith List Bool Arith.
From V Require Import Base.FieldSig Base.ExecQ Model.SurveyMachine Model.SurveyMachineExec.
Import ListNotations.
Close Scope Q_scope.
Local Open Scope nat_scope.

Section SurveyFinite.
  Context {F : Type} {FO : FOps F}.
  Variable ltb : F -> F -> bool.
  Variable off2 : Z -> Z -> F.
  Local Notation cell := (@cell F).
  Local Notation cube := (@cube F).
  Local Notation survey := (@survey F).
  Local Notation world := (@world F).

  (* ------------------------------------------------------------ masks *)
  Definition mask : Type := list (list (list bool)).
  Definition mget (m : mask) (i j k : nat) : bool :=
    nth k (nth j (nth i m nil) nil) false.
  (* np.isfinite(data.observed.data) for data of shape (n1, n2, n3) *)
  Definition cur_mask (c : cube) (n1 n2 n3 : nat) : mask :=
    ltab n1 (fun i => ltab n2 (fun j => ltab n3 (fun k => is_val (cget c i j k)))).
  Definition many (m : mask) : bool :=               (* finite.sum() > 0 *)
    existsb (existsb (existsb (fun b : bool => b))) m.

  Record xworld : Type := mkX {
    base : world;                 (* the survey machine *)
    memo : list (nat * mask)      (* survey index -> survey._isfinite, newest first *)
  }.
  Definition memo_of (xw : xworld) (s : nat) : option mask :=
    match find (fun p => Nat.eqb (fst p) s) (memo xw) with
    | Some p => Some (snd p)
    | None => None
    end.

  (* -------------------------------------------------------- operations *)
  Inductive query : Type := QIsFinite | QFiniteData | QSize | QCount | QMisfit.
  Inductive xop : Type :=
  | XBase (o : @op F)
  | XQuery (s : nat) (q : query)
  | XSetObs (s : nat) (c : cube)       (* survey.data.observed[...] = c *)
  | XObsFromSyn (s : nat).             (* compute(observed=True, add_noise=False) *)

  Inductive xoutcome : Type :=
  | XOut (o : @outcome F)
  | XMask (m : mask)
  | XCells (l : list cell)
  | XNum (n : nat)
  | XMis (m : option F).               (* None = ValueError (no standard deviation) *)

  Definition is_query (o : xop) : bool :=
    match o with XQuery _ _ => true | _ => false end.
  Definition x_is_setter_on (i : nat) (o : xop) : bool :=
    match o with XBase b => is_setter_on i b | _ => false end.

  (* Survey.isfinite: the memo if there is one, else the current mask, which is
     memoised iff any datum is finite *)
  Definition isfinite (xw : xworld) (s : nat) (sv : survey) : xworld * mask :=
    match memo_of xw s with
    | Some m => (xw, m)
    | None =>
      let '(n1, n2, n3) := shape sv in
      let m := cur_mask (deref (hdat (base xw)) (obs sv)) n1 n2 n3 in
      ((if many m then mkX (base xw) ((s, m) :: memo xw) else xw), m)
    end.

  (* data[mask] in C order *)
  Definition masked_cells (m : mask) (c : cube) (n1 n2 n3 : nat) : list cell :=
    flat_map (fun i => flat_map (fun j => flat_map (fun k =>
      if mget m i j k then [cget c i j k] else []) (seq 0 n3)) (seq 0 n2)) (seq 0 n1).
  Definition count_vals (c : cube) (n1 n2 n3 : nat) : nat :=
    length (masked_cells (cur_mask c n1 n2 n3) c n1 n2 n3).

  Definition do_query (xw : xworld) (s : nat) (q : query) : xworld * xoutcome :=
    match nth_error (svs (base xw)) s with
    | None => (xw, XOut (OutErr 9))
    | Some sv =>
      let '(n1, n2, n3) := shape sv in
      let ob := deref (hdat (base xw)) (obs sv) in
      match q with
      | QIsFinite => let '(xw1, m) := isfinite xw s sv in (xw1, XMask m)
      | QFiniteData => let '(xw1, m) := isfinite xw s sv in
                       (xw1, XCells (masked_cells m ob n1 n2 n3))
      | QSize => (xw, XNum (n1 * n2 * n3))
      | QCount => (xw, XNum (count_vals ob n1 n2 n3))
      | QMisfit => (xw, XMis (misfit (base xw) sv 0%Z))
      end
    end.

  Definition with_obs (sv : survey) (r : nat) : survey :=
    mkS (src sv) (rec sv) (frq sv) r (named sv) (nf_attr sv) (re_attr sv)
        (nf_arr sv) (re_arr sv) (std_arr sv).

  (* in-place assignment of a full-shape array to data.observed *)
  Definition set_obs (s : nat) (c : cube) (w : world) : world * @outcome F :=
    match nth_error (svs w) s with
    | None => (w, OutErr 9)
    | Some sv =>
      let '(d1, d2, d3) := cdims c in
      let '(n1, n2, n3) := shape sv in
      if Nat.eqb d1 n1 && Nat.eqb d2 n2 && Nat.eqb d3 n3
      then (mkW (hset w) (upd_nth (obs sv) c (hdat w)) (svs w), OutOk)
      else (w, OutErr 1)
    end.

  (* data['observed'] = data['synthetic'].copy() : a fresh array *)
  Definition obs_from_syn (s : nat) (w : world) : world * @outcome F :=
    match nth_error (svs w) s with
    | None => (w, OutErr 9)
    | Some sv =>
      match lookup 0%Z (named sv) with
      | None => (w, OutErr 2)
      | Some r =>
        (mkW (hset w) (hdat w ++ [deref (hdat w) r])
             (upd_nth s (with_obs sv (length (hdat w))) (svs w)), OutOk)
      end
    end.

  (* the part of a non-query operation that acts on the survey machine *)
  Definition bstep (inplace : bool) (o : xop) (w : world) : world * @outcome F :=
    match o with
    | XBase b => step ltb off2 inplace b w
    | XSetObs s c => set_obs s c w
    | XObsFromSyn s => obs_from_syn s w
    | XQuery _ _ => (w, OutOk)
    end.

  Definition xstep (inplace : bool) (o : xop) (xw : xworld) : xworld * xoutcome :=
    match o with
    | XQuery s q => do_query xw s q
    | _ => let '(w1, r) := bstep inplace o (base xw) in (mkX w1 (memo xw), XOut r)
    end.

  Fixpoint xrun (inplace : bool) (ops : list xop) (xw : xworld) : xworld :=
    match ops with
    | nil => xw
    | o :: t => xrun inplace t (fst (xstep inplace o xw))
    end.

  Fixpoint xtrace (inplace : bool) (ops : list xop) (xw : xworld)
    : list (xoutcome * xworld) :=
    match ops with
    | nil => nil
    | o :: t => let '(xw1, r) := xstep inplace o xw in (r, xw1) :: xtrace inplace t xw1
    end.

  (* the history with the queries removed *)
  Definition erase_queries (ops : list xop) : list xop :=
    filter (fun o => negb (is_query o)) ops.

  (* ------------------------------------- specification vocabulary *)
  (* the misfit summands restricted to a mask *)
  Definition terms_masked (m : mask) (ob sy sd : cube) (Is Js Ks : list nat)
    : list (option F) :=
    flat_map (fun i => flat_map (fun j => map (fun k =>
      if mget m i j k then term (cget ob i j k) (cget sy i j k) (cget sd i j k) else None)
      Ks) Js) Is.
  (* what Simulation.misfit would return if it summed over the MEMOISED mask
     (the behaviour the property excludes); None where misfit is None *)
  Definition misfit_through_memo (xw : xworld) (s : nat) (sv : survey) : option F :=
    let '(n1, n2, n3) := shape sv in
    match std2 (base xw) sv, lookup 0%Z (named sv), memo_of xw s with
    | Some sd, Some r, Some m =>
      Some (misfit_of (terms_masked m (deref (hdat (base xw)) (obs sv))
                                    (deref (hdat (base xw)) r) sd
                                    (seq 0 n1) (seq 0 n2) (seq 0 n3)))
    | Some _, Some _, None => misfit (base xw) sv 0%Z
    | _, _, _ => None
    end.
  (* the misfit of survey s as a query on the extended state *)
  Definition xmisfit (xw : xworld) (s : nat) : option (option F) :=
    match nth_error (svs (base xw)) s with
    | Some sv => Some (misfit (base xw) sv 0%Z)
    | None => None
    end.
End SurveyFinite.

(* ------------------------------------------------- Q instance and dumps *)
Definition qxworld : Type := @xworld Q.
Definition d_mask (m : mask) : list (list (list Z)) :=
  map (map (map (fun b : bool => if b then 1%Z else 0%Z))) m.
Definition d_omask (m : option mask) : option (list (list (list Z))) :=
  match m with Some m => Some (d_mask m) | None => None end.
(* (kind, mask, cells, number, misfit): kind -1 = not a query *)
Definition d_xinfo (o : @xoutcome Q) :=
  match o with
  | XOut _ => ((-1)%Z, @nil (list (list Z)), @nil (option ((Z * Z) * (Z * Z))), 0%Z, @None (Z * Z))
  | XMask m => (0%Z, d_mask m, [], 0%Z, None)
  | XCells l => (1%Z, [], map d_cell l, 0%Z, None)
  | XNum n => (2%Z, [], [], Z.of_nat n, None)
  | XMis m => (3%Z, [], [], (match m with Some _ => 1%Z | None => 0%Z end), d_oq m)
  end.
Definition d_xout (o : @xoutcome Q) :=
  match o with
  | XOut r => d_outcome r
  | _ => (3%Z, 0%Z, None)
  end.
Definition d_memos (xw : qxworld) :=
  map (fun i => d_omask (memo_of xw i)) (seq 0 (length (svs (base xw)))).
Definition d_xtrace (t : list (@xoutcome Q * qxworld)) :=
  map (fun p => (d_xout (fst p), (d_xinfo (fst p), d_memos (snd p)), d_world (base (snd p)))) t.
Definition d_xfinal (xw : qxworld) := d_final (base xw).
