(* Model/CliTypes.v -- types shared by the regenerated option tables
   (Gen/CliTable.v, written on every run by py/vlib/clitab.py from the CURRENT
   emg3d/cli/{main,parser,run}.py, docs/manual/cli.rst and the API signatures)
   and by the hand model of the command-line front end (Model/Cli.v).
   Definitions only. *)
From Coq Require Import String List ZArith Bool.
Import ListNotations.
Local Open Scope string_scope.

(* How the configuration parser reads the text of an option. *)
Inductive ty : Type :=
| TBool        (* cfg.getboolean *)
| TInt         (* cfg.getint *)
| TFloat       (* cfg.getfloat / float(cfg.get) *)
| TStr         (* cfg.get *)
| TFloatList   (* [float(v) for v in cfg.get(..).split(',')] *)
| TLoL         (* ';'-separated list of (None | True | False | float list); 1 or 3 parts *)
| TStrList.    (* [v.strip() for v in value.split(',')], only when non-empty *)

Definition ty_eqb (a b : ty) : bool :=
  match a, b with
  | TBool, TBool | TInt, TInt | TFloat, TFloat | TStr, TStr
  | TFloatList, TFloatList | TLoL, TLoL | TStrList, TStrList => true
  | _, _ => false
  end.

(* One option the parser reads: section and key of the configuration file, the
   typed reader, and the place in the parser's result where the value is put
   (a dotted path of dictionary keys, e.g.
   "simulation_options.gridding_opts"); the value is stored under [p_key]. *)
Record pentry : Type := PE {
  p_sec : string; p_key : string; p_ty : ty; p_path : string }.

(* A default the parser stores when the option is absent: path, key, text,
   and the function ("gradient") for which it applies ([None] = always). *)
Record pdefault : Type := PD {
  d_path : string; d_key : string; d_val : string; d_when : option string }.

(* A terminal argument that overrides an option of the file:
   argparse destination, section, key. *)
Record toverride : Type := TO {
  o_dest : string; o_sec : string; o_key : string }.

Definition str_mem (s : string) (l : list string) : bool :=
  existsb (String.eqb s) l.

Fixpoint assoc {A} (k : string) (l : list (string * A)) : option A :=
  match l with
  | [] => None
  | (k', v) :: r => if String.eqb k k' then Some v else assoc k r
  end.
