(* Model/SourceHist.v -- get_source_field as a state machine over ONE source
   instance and a history of requests (definitions only).

   What exists in the code (fields.get_source_field, read off on every run by
   the ast anchor of py/props/c10.py):
     vfield = _dipole_vector(grid, source.points)      a FRESH array per call
     sfield = Field(grid, data=vfield.field, frequency=frequency)
              np.asarray(data, dtype): NO copy when the dtype is unchanged
              (frequency None / Laplace: float64 -> float64), a copy when the
              request is complex (frequency > 0)
     sfield.field *= source.strength ; sfield.field *= -smu0    IN PLACE
   The in-place scaling is harmless only because the scaled array is a
   temporary.  The machine below has the heap explicit (arrays are cells of a
   heap, named by their index), so that aliasing is inside the model:

     [memo]     the instance keeps the unit vector of the last grid (a variant
                that does NOT exist in the pinned code; it is here so that the
                theorems are not vacuous: it is the class of change they exclude);
     [copy_out] a kept vector is handed out as a copy (true) or as the stored
                array itself (false).

   The pinned code is [memo = false].  Arrays are an abstract type [Vec]; the
   vector of the instance on a grid is [vecof g], the scaling of a request is
   [scale f] (instantiated with Model.Source.dipole_vector / source_scale by
   the correspondence).  Callers may edit a RETURNED array in place ([Edit]). *)
From Coq Require Import List Arith Bool.
Import ListNotations.

Section SourceHist.
  Variable Grid : Type.            (* the grids the instance is requested on *)
  Variable Freq : Type.            (* None | Laplace f | frequency f *)
  Variable Ed : Type.              (* in-place edits a caller may apply *)
  Variable Vec : Type.             (* array contents *)
  Variable vdef : Vec.             (* contents of unallocated cells (never read) *)
  Variable geqb : Grid -> Grid -> bool.
  Variable is_real : Freq -> bool. (* real-valued request: dtype unchanged, no cast copy *)
  Variable vecof : Grid -> Vec.    (* _dipole_vector(grid, source.points) of THIS instance *)
  Variable scale : Freq -> Vec -> Vec.   (* *= strength; *= -s mu0 *)
  Variable edit : Ed -> Vec -> Vec.

  Definition Heap : Type := nat -> Vec.
  Definition hset (h : Heap) (i : nat) (v : Vec) : Heap :=
    fun j => if Nat.eqb j i then v else h j.

  (* state: heap, next free cell, what the instance keeps (grid, array id),
     ids of the arrays handed out so far (in order) *)
  Record St : Type := mkSt { heap : Heap; next : nat; kept : option (Grid * nat); outs : list nat }.
  Definition st0 : St := mkSt (fun _ => vdef) 0 None [].

  Inductive Op : Type :=
  | Request (g : Grid) (f : Freq)   (* source.get_field(grid, frequency) *)
  | Edit (k : nat) (e : Ed).        (* caller edits the k-th returned field in place *)

  (* an array id plus the heap / next-free counter after obtaining it *)
  Record Got : Type := mkGot { gheap : Heap; gnext : nat; gid : nat; gkept : option (Grid * nat) }.

  (* the unit vector: fresh temporary, or (memo) the array kept with the instance *)
  Definition get_vector (memo : bool) (s : St) (g : Grid) : Got :=
    let fresh : Got :=
      mkGot (hset (heap s) (next s) (vecof g)) (S (next s)) (next s)
            (if memo then Some (g, next s) else kept s) in
    if memo then
      match kept s with
      | Some (g', id) => if geqb g' g then mkGot (heap s) (next s) id (kept s) else fresh
      | None => fresh
      end
    else fresh.

  (* handing a kept vector out: as a copy or as the stored array itself *)
  Definition hand_out (memo copy_out : bool) (v : Got) : Got :=
    if (memo && copy_out)%bool
    then mkGot (hset (gheap v) (gnext v) (gheap v (gid v))) (S (gnext v)) (gnext v) (gkept v)
    else v.

  (* Field(grid, data=vfield.field, frequency): alias when real, cast copy when complex *)
  Definition as_field (f : Freq) (v : Got) : Got :=
    if is_real f then v
    else mkGot (hset (gheap v) (gnext v) (gheap v (gid v))) (S (gnext v)) (gnext v) (gkept v).

  (* observable of a step: the contents of the returned array (None for Edit) *)
  Definition step (memo copy_out : bool) (s : St) (o : Op) : St * option Vec :=
    match o with
    | Edit k e =>
        match nth_error (outs s) k with
        | Some id => (mkSt (hset (heap s) id (edit e (heap s id))) (next s) (kept s) (outs s), None)
        | None => (s, None)
        end
    | Request g f =>
        let v : Got := as_field f (hand_out memo copy_out (get_vector memo s g)) in
        let h : Heap := hset (gheap v) (gid v) (scale f (gheap v (gid v))) in   (* in place *)
        (mkSt h (gnext v) (gkept v) (outs s ++ [gid v]), Some (h (gid v)))
    end.

  Fixpoint run (memo copy_out : bool) (s : St) (ops : list Op) : St * list (option Vec) :=
    match ops with
    | [] => (s, [])
    | o :: t =>
        let r := step memo copy_out s o in
        let r' := run memo copy_out (fst r) t in
        (fst r', snd r :: snd r')
    end.

  (* ---- the specification: results are a function of (grid, source, frequency) ---- *)
  Definition spec_obs (o : Op) : option Vec :=
    match o with Request g f => Some (scale f (vecof g)) | Edit _ _ => None end.

  Fixpoint list_upd (l : list Vec) (k : nat) (fn : Vec -> Vec) : list Vec :=
    match l, k with
    | [], _ => []
    | x :: t, O => fn x :: t
    | x :: t, S j => x :: list_upd t j fn
    end.

  (* contents of the returned arrays as the CALLER sees them: what was returned,
     changed only by the caller's own edits of that very array *)
  Definition spec_outs_step (l : list Vec) (o : Op) : list Vec :=
    match o with
    | Request g f => l ++ [scale f (vecof g)]
    | Edit k e => list_upd l k (edit e)
    end.
  Definition spec_outs (l : list Vec) (ops : list Op) : list Vec := fold_left spec_outs_step ops l.
End SourceHist.
