(* Model/Adjoint.v -- C07/C08.  Hand model (definitions only) of the
   adjoint-state machinery of emg3d.simulations.Simulation:
     misfit / residual            (simulations.py  Simulation.misfit)
     residual source              (Simulation._get_rfield)
     gradient                     (Simulation.gradient)
     jvec / jtvec                 (Simulation.jvec, Simulation.jtvec)
   Part 1 is abstract linear algebra over a number type K with an involution
   [conj]: index types are arbitrary, index sets are finite lists, vectors are
   functions, inner products are finite sums WITHOUT conjugation.
   Part 2 are the concrete, executable pieces on 3-D arrays: the volume
   averaging is the GENERATED [interp_edges_to_vol_averages] (Gen/MapsVol.v,
   translated from emg3d/maps.py on every run), the edge averaging is the one of
   Model/FIT.v (what core.amat_x uses; C02).
   The linear solves are not modelled: solutions enter as fields that satisfy
   the linear system (hypotheses of the theorems; oracle values in the
   correspondence). *)
From Coq Require Import ZArith List Bool.
From V Require Import Base.FieldSig Base.Sums Base.Loops Base.Arr.
From V Require Import Model.FIT Gen.MapsVol.
Import ListNotations.

(* ======================================================================== *)
(* Part 1: abstract                                                          *)
Section Abstract.
  Context {K : Type} {O : FOps K}.
  Variable conj : K -> K.
  Local Open Scope F_scope.

  (* real part and squared modulus, inside K *)
  Definition re (x : K) : K := (x + conj x) / (1 + 1).
  Definition abs2 (x : K) : K := conj x * x.

  Context {IE IC ID IM : Type}.
  (* edges (unknowns), cells x components of the computational grid, data
     (receivers of one source-frequency pair), model parameters *)
  Variables (E : list IE) (C : list IC) (Dt : list ID) (M : list IM).

  Definition dotE (u v : IE -> K) : K := sum E (fun i => u i * v i).
  Definition dotC (u v : IC -> K) : K := sum C (fun i => u i * v i).
  Definition dotD (u v : ID -> K) : K := sum Dt (fun i => u i * v i).
  Definition dotM (u v : IM -> K) : K := sum M (fun i => u i * v i).

  (* --- the system matrix  A(sigma) = K0 + s * diag(Av sigma) ------------- *)
  Variable K0 : (IE -> K) -> IE -> K.     (* curl^T M_f curl *)
  Variable Av : (IC -> K) -> IE -> K.     (* edge average of vol*sigma (M_e) *)
  Variable AvT : (IE -> K) -> IC -> K.    (* interp_edges_to_vol_averages *)
  Variable s : K.                         (* smu0 = i omega mu0 *)
  Definition Aop (sig : IC -> K) (u : IE -> K) : IE -> K :=
    fun i => K0 u i + s * Av sig i * u i.

  (* --- receivers: datum j samples the field with the row p j ------------- *)
  Variable p : ID -> IE -> K.
  Definition P (u : IE -> K) : ID -> K := fun j => sum E (fun i => p j i * u i).
  Definition PT (y : ID -> K) : IE -> K := fun i => sum Dt (fun j => y j * p j i).

  (* --- misfit ------------------------------------------------------------ *)
  Variable fin : ID -> bool.     (* residual of datum j is finite (not NaN) *)
  Variables (obs w : ID -> K).
  Definition residual (e : IE -> K) : ID -> K := fun j => P e j - obs j.
  (* np.sum(weights*(residual.conj()*residual)).real/2 ; xarray's sum skips NaN *)
  Definition misfit_of (r : ID -> K) : K :=
    re (sum (filter fin Dt) (fun j => w j * (conj (r j) * r j))) / (1 + 1).
  Definition misfit (e : IE -> K) : K := misfit_of (residual e).

  (* --- _get_rfield ------------------------------------------------------- *)
  (* strength = conj(residual * weight / -smu0); receivers with NaN residual
     are skipped; each adjoint source of strength t contributes
     vector * t * (-smu0)  (fields.get_source_field) *)
  Definition strength (r : ID -> K) (j : ID) : K := conj (r j * w j / (- s)).
  Definition rsource (r : ID -> K) : IE -> K :=
    PT (fun j => if fin j then strength r j * (- s) else 0).

  (* --- gradient (conductivity parametrisation, on the computational grid) - *)
  (* np.real(bfield.field * efield.smu0 * efield.field), then volume averaging *)
  Definition gfield (e b : IE -> K) : IE -> K := fun i => re (b i * s * e i).
  Definition grad (e b : IE -> K) : IC -> K := AvT (gfield e b).

  (* the exact remainder of the misfit expansion: every term contains
     (e' - e) together with delta, or (e' - e) twice *)
  Definition remainder (e e' b : IE -> K) (delta : IC -> K) : K :=
    re (dotE b (fun i => s * Av delta i * (e' i - e i)))
    + sum (filter fin Dt) (fun j => w j * abs2 (P (fun i => e' i - e i) j)) / (1 + 1).

  (* --- jvec / jtvec ------------------------------------------------------ *)
  (* V: model parameters -> cells x components of the computational grid
     (anisotropy expansion, then interpolation); VT its transpose
     (adjoint interpolation, then anisotropy collection);
     c: chain-rule factor dsigma/dm per model parameter *)
  Variable V : (IM -> K) -> IC -> K.
  Variable VT : (IC -> K) -> IM -> K.
  Variable c : IM -> K.
  (* source of the jvec solve: -smu0 * (G(e) * cvector),  G(e) = diag(e) Av *)
  Definition jsource (e : IE -> K) (dsig : IC -> K) : IE -> K :=
    fun i => - s * (e i * Av dsig i).
  Definition jvec_dsig (v : IM -> K) : IC -> K := V (fun m => c m * v m).
  (* jvec = P u  where  A(sigma) u = jsource e (jvec_dsig v) *)
  (* jtvec: residual := vector / weights, then the gradient machinery *)
  Definition jt_residual (y : ID -> K) : ID -> K := fun j => y j / w j.
  Definition jtvec_of (e b : IE -> K) : IM -> K := fun m => c m * VT (grad e b) m.
End Abstract.

(* ======================================================================== *)
(* Part 2: concrete pieces on 3-D arrays                                     *)
Section Concrete.
  Context {K : Type} {O : FOps K}.
  Variable conj : K -> K.
  Local Open Scope F_scope.
  Notation A3 := (Z -> Z -> Z -> K).

  Definition zero3 : A3 := fun _ _ _ => 0.
  Definition add3 (a b : A3) : A3 := fun i j k => a i j k + b i j k.
  Definition mul3 (a b : A3) : A3 := fun i j k => a i j k * b i j k.

  (* gfield = real(bfield * smu0 * efield), per component array *)
  Definition gfield3 (smu0 : K) (e b : A3) : A3 :=
    fun i j k => re conj (b i j k * smu0 * e i j k).

  (* one source-frequency pair: the generated volume averaging into a fresh
     zero array (grad = np.zeros(...); interp_edges_to_vol_averages(...)).
     The gfield arrays are tabulated on the edge box the loop reads (identity
     there; each product is then computed once when executing). *)
  Definition grad_sf (nx ny nz : Z) (vol : A3) (smu0 : K)
             (e b : A3 * A3 * A3) : A3 * A3 * A3 :=
    interp_edges_to_vol_averages nx ny nz
      (tab3 0 (nx+1) (ny+1) (nz+1) (gfield3 smu0 (fst (fst e)) (fst (fst b))))
      (tab3 0 (nx+1) (ny+1) (nz+1) (gfield3 smu0 (snd (fst e)) (snd (fst b))))
      (tab3 0 (nx+1) (ny+1) (nz+1) (gfield3 smu0 (snd e) (snd b)))
      vol zero3 zero3 zero3.

  Definition add33 (a b : A3 * A3 * A3) : A3 * A3 * A3 :=
    (add3 (fst (fst a)) (fst (fst b)), add3 (snd (fst a)) (snd (fst b)),
     add3 (snd a) (snd b)).
  Definition tab33 (nx ny nz : Z) (a : A3 * A3 * A3) : A3 * A3 * A3 :=
    (tab3 0 nx ny nz (fst (fst a)), tab3 0 nx ny nz (snd (fst a)),
     tab3 0 nx ny nz (snd a)).

  (* gradient += grad  over all source-frequency pairs (same grid).  Arrays are
     re-tabulated after each pair (identity on the index box; keeps execution
     linear). *)
  Fixpoint grad_all (nx ny nz : Z) (vol : A3)
           (sf : list (K * (A3 * A3 * A3) * (A3 * A3 * A3))) (acc : A3 * A3 * A3)
    : A3 * A3 * A3 :=
    match sf with
    | [] => acc
    | (smu0, e, b) :: r =>
        grad_all nx ny nz vol r
          (tab33 nx ny nz (add33 acc (tab33 nx ny nz (grad_sf nx ny nz vol smu0 e b))))
    end.

  (* anisotropy collection and chain rule, in the order of the code.
     case: 0 isotropic, 1 HTI, 2 VTI, 3 triaxial (as Model/VolumeModel.v);
     cx cy cz: chain factors dsigma/dm evaluated at property_x/_y/_z.
     Result: the list gradient[indices]. *)
  Definition has_y (case : Z) : bool := (Z.eqb case 1 || Z.eqb case 3)%bool.
  Definition has_z (case : Z) : bool := (Z.eqb case 2 || Z.eqb case 3)%bool.
  Definition collect (case : Z) (g : A3 * A3 * A3) (cx cy cz : A3) : list A3 :=
    let g0 := fst (fst g) in
    let g1 := snd (fst g) in
    let g2 := snd g in
    let g0 := if has_y case then g0 else add3 g0 g1 in
    let g0 := if has_z case then g0 else add3 g0 g2 in
    (mul3 g0 cx :: nil)
      ++ (if has_y case then mul3 g1 cy :: nil else nil)
      ++ (if has_z case then mul3 g2 cz :: nil else nil).

  (* the expansion of a model vector (1, 2 or 3 components) to the three
     conductivities the solver uses: what jvec stacks (np.r_[...]) and what
     VolumeModel aliases *)
  Definition expand (case : Z) (v : list A3) : A3 * A3 * A3 :=
    let v0 := nth 0 v zero3 in
    let v1 := nth 1 v zero3 in
    let v2 := nth 2 v zero3 in
    if Z.eqb case 0 then (v0, v0, v0)
    else if Z.eqb case 1 then (v0, v1, v0)
    else if Z.eqb case 2 then (v0, v0, v1)
    else (v0, v1, v2).

  Definition gradient_pipeline (case nx ny nz : Z) (vol : A3)
             (sf : list (K * (A3 * A3 * A3) * (A3 * A3 * A3))) (cx cy cz : A3)
    : list A3 :=
    collect case (grad_all nx ny nz vol sf (zero3, zero3, zero3)) cx cy cz.

  (* ---- computational grid /= model grid ---------------------------------- *)
  (* maps._interp_volume_average_adj(oval, ogrid, nval, ngrid):
        oval[c] += P.T * nval[c]   (c = 0,1,2),  P = volume_average(ogrid, ngrid)
     The sparse matrix P is third party (discretize): it enters as the list of
     its non-zero entries ((model cell), (computational cell), weight).  The
     result is ADDED to what oval already holds. *)
  Definition cell3 : Type := (Z * Z * Z)%type.
  Definition vt_add (T : list (cell3 * cell3 * K)) (nval oval : A3) : A3 :=
    fold_left (fun (a : A3) (t : cell3 * cell3 * K) =>
                 let m := fst (fst t) in
                 let c := snd (fst t) in
                 upd3 a (fst (fst m)) (snd (fst m)) (snd m)
                      (a (fst (fst m)) (snd (fst m)) (snd m)
                       + snd t * nval (fst (fst c)) (snd (fst c)) (snd c)))
              T oval.
  Definition vt_add3 (T : list (cell3 * cell3 * K)) (nval oval : A3 * A3 * A3)
    : A3 * A3 * A3 :=
    (vt_add T (fst (fst nval)) (fst (fst oval)),
     vt_add T (snd (fst nval)) (snd (fst oval)),
     vt_add T (snd nval) (snd oval)).

  (* one source-frequency pair on its own computational grid *)
  Record pair_cg : Type := {
    pc_nx : Z; pc_ny : Z; pc_nz : Z;          (* shape of the computational grid *)
    pc_vol : A3; pc_smu0 : K;
    pc_e : A3 * A3 * A3; pc_b : A3 * A3 * A3;
    pc_T : list (cell3 * cell3 * K)           (* entries of volume_average(model grid, comp. grid) *)
  }.

  (* gradient = zeros(model grid); for every pair:
       grad = zeros(comp. grid); interp_edges_to_vol_averages(...)
       _interp_volume_average_adj(oval=gradient, nval=grad)      -- ACCUMULATES *)
  Fixpoint grad_all_T (nxm nym nzm : Z) (sf : list pair_cg) (acc : A3 * A3 * A3)
    : A3 * A3 * A3 :=
    match sf with
    | [] => acc
    | q :: r =>
        grad_all_T nxm nym nzm r
          (tab33 nxm nym nzm
             (vt_add3 (pc_T q)
                (tab33 (pc_nx q) (pc_ny q) (pc_nz q)
                   (grad_sf (pc_nx q) (pc_ny q) (pc_nz q) (pc_vol q) (pc_smu0 q) (pc_e q) (pc_b q)))
                acc))
    end.

  Definition gradient_pipeline_T (case nxm nym nzm : Z) (sf : list pair_cg) (cx cy cz : A3)
    : list A3 :=
    collect case (grad_all_T nxm nym nzm sf (zero3, zero3, zero3)) cx cy cz.

  Definition ncomp (case : Z) : nat :=
    1 + (if has_y case then 1 else 0) + (if has_z case then 1 else 0).

  (* jvec source on the same grid: -smu0 * e * M_e(vol * dsigma), with the
     four-cell edge averages of Model/FIT.v; dsigma = expand(chain * v) *)
  (* chain rule applied to the components of a model-shaped vector (jvec):
     component 0 with property_x, the second with property_y (HTI) or
     property_z (VTI), triaxial: x, y, z *)
  Definition chain_mul (case : Z) (v : list A3) (cx cy cz : A3) : list A3 :=
    if Z.eqb case 0 then [mul3 (nth 0 v zero3) cx]
    else if Z.eqb case 1 then [mul3 (nth 0 v zero3) cx; mul3 (nth 1 v zero3) cy]
    else if Z.eqb case 2 then [mul3 (nth 0 v zero3) cx; mul3 (nth 1 v zero3) cz]
    else [mul3 (nth 0 v zero3) cx; mul3 (nth 1 v zero3) cy; mul3 (nth 2 v zero3) cz].

  (* jvec source on the same grid: -smu0 * e * M_e(vol * dsigma), with the
     four-cell edge averages of Model/FIT.v; dsigma = expand(chain * v) *)
  Definition jvec_source (case : Z) (vol : A3) (smu0 : K) (e : A3 * A3 * A3)
             (v : list A3) (cx cy cz : A3) : A3 * A3 * A3 :=
    let cv := expand case (chain_mul case v cx cy cz) in
    let wx := mul3 vol (fst (fst cv)) in
    let wy := mul3 vol (snd (fst cv)) in
    let wz := mul3 vol (snd cv) in
    (fun i j k => - smu0 * (fst (fst e) i j k * Me_x wx i j k),
     fun i j k => - smu0 * (snd (fst e) i j k * Me_y wy i j k),
     fun i j k => - smu0 * (snd e i j k * Me_z wz i j k)).

  (* what one edge (ix,iy,iz) adds to cell (i,j,k) in the volume averaging:
     [hits a b t] counts how often t occurs among the two clamped neighbours *)
  Definition hits (a b t : Z) : K :=
    (if Z.eqb t a then 1 else 0) + (if Z.eqb t b then 1 else 0).
  Definition ixm (ix : Z) : Z := Z.max 0 (ix - 1).
  Definition ixp (n ix : Z) : Z := Z.min (n - 1) ix.
  Definition contrib_x (nx ny nz : Z) (vol ex : A3) (ix iy iz i j k : Z) : K :=
    if (Z.ltb ix nx && Z.eqb i ix)%bool
    then hits (ixm iy) (ixp ny iy) j * hits (ixm iz) (ixp nz iz) k
         * (vol i j k * ex ix iy iz / (Flit 4 1))
    else 0.
  Definition contrib_y (nx ny nz : Z) (vol ey : A3) (ix iy iz i j k : Z) : K :=
    if (Z.ltb iy ny && Z.eqb j iy)%bool
    then hits (ixm ix) (ixp nx ix) i * hits (ixm iz) (ixp nz iz) k
         * (vol i j k * ey ix iy iz / (Flit 4 1))
    else 0.
  Definition contrib_z (nx ny nz : Z) (vol ez : A3) (ix iy iz i j k : Z) : K :=
    if (Z.ltb iz nz && Z.eqb k iz)%bool
    then hits (ixm ix) (ixp nx ix) i * hits (ixm iy) (ixp ny iy) j
         * (vol i j k * ez ix iy iz / (Flit 4 1))
    else 0.

  (* the edge-side operator whose transpose the volume averaging is: each edge
     averages (factor 1/4) the four neighbour cells, indices clamped exactly as
     interp_edges_to_vol_averages clamps them (ixm = max 0 (.-1), ixp n = min (n-1) .).
     On every edge core.amat_x visits (transverse indices < n) this is Me_x /
     Me_y / Me_z of Model/FIT.v; on the upper boundary edges (transverse index
     = n) the last cell is taken twice. *)
  Definition edge_avg_x (ny nz : Z) (eta : A3) (i j k : Z) : K :=
    (eta i (ixm j) (ixm k) + eta i (ixp ny j) (ixm k)
     + eta i (ixm j) (ixp nz k) + eta i (ixp ny j) (ixp nz k)) / Flit 4 1.
  Definition edge_avg_y (nx nz : Z) (eta : A3) (i j k : Z) : K :=
    (eta (ixm i) j (ixm k) + eta (ixp nx i) j (ixm k)
     + eta (ixm i) j (ixp nz k) + eta (ixp nx i) j (ixp nz k)) / Flit 4 1.
  Definition edge_avg_z (nx ny : Z) (eta : A3) (i j k : Z) : K :=
    (eta (ixm i) (ixm j) k + eta (ixp nx i) (ixm j) k
     + eta (ixm i) (ixp ny j) k + eta (ixp nx i) (ixp ny j) k) / Flit 4 1.
  (* forward volume averaging model grid -> computational grid with the same
     entry list (maps.interpolate(method='volume') in jvec): value of the
     computational cell (ci,cj,ck) = sum over the entries that target it *)
  Definition v_apply (T : list (cell3 * cell3 * K)) (a : A3) : A3 :=
    fun ci cj ck =>
      sum T (fun t => let m := fst (fst t) in
                      let c := snd (fst t) in
                      if (Z.eqb ci (fst (fst c)) && Z.eqb cj (snd (fst c)) && Z.eqb ck (snd c))%bool
                      then snd t * a (fst (fst m)) (snd (fst m)) (snd m) else 0).

  (* jvec source when the computational grid differs from the model grid.
     ORDER (as in Simulation.jvec): chain factor with the MODEL's property
     arrays on the MODEL grid, THEN volume averaging of each component to the
     computational grid, anisotropy stacking, edge-mass derivative, -smu0.
     (nxc nyc nzc: computational shape, only used to tabulate when executing.) *)
  Definition jvec_source_T (case nxc nyc nzc : Z) (volc : A3) (smu0 : K) (e : A3 * A3 * A3)
             (T : list (cell3 * cell3 * K)) (v : list A3) (cx cy cz : A3)
    : A3 * A3 * A3 :=
    let cm := chain_mul case v cx cy cz in
    let cc := map (fun a => tab3 0 nxc nyc nzc (v_apply T a)) cm in
    let cv := expand case cc in
    let wx := mul3 volc (fst (fst cv)) in
    let wy := mul3 volc (snd (fst cv)) in
    let wz := mul3 volc (snd cv) in
    (fun i j k => - smu0 * (fst (fst e) i j k * Me_x wx i j k),
     fun i j k => - smu0 * (snd (fst e) i j k * Me_y wy i j k),
     fun i j k => - smu0 * (snd e i j k * Me_z wz i j k)).

End Concrete.
