(* Model/VolumeModel.v -- hand model of emg3d.models.VolumeModel: the
   coefficients handed to the kernels.  Tied to the code by correspondence
   (py/props/c02.py). *)
From Coq Require Import ZArith Bool.
From V Require Import Base.FieldSig.

Section VolumeModel.
  Context {F : Type} {O : FOps F}.
  Local Open Scope F_scope.

  (* eta = -s mu0 V (sigma + s eps0 eps_r)   [diffusive: without the eps term] *)
  Definition eta_of (smu0 sval eps0 : F) (has_eps : bool) (vol cond epsr : F) : F :=
    if has_eps then - smu0 * vol * (cond + sval * eps0 * epsr)
    else - smu0 * vol * cond.

  (* zeta = V / mu_r *)
  Definition zeta_of (has_mu : bool) (vol mur : F) : F :=
    if has_mu then vol / mur else vol.

  (* anisotropy cases: 0 isotropic, 1 HTI, 2 VTI, 3 triaxial *)
  Definition eta_y_sel (case : Z) (ex ey : F) : F :=
    if (Z.eqb case 1 || Z.eqb case 3)%bool then ey else ex.
  Definition eta_z_sel (case : Z) (ex ez : F) : F :=
    if (Z.eqb case 2 || Z.eqb case 3)%bool then ez else ex.
End VolumeModel.
