(* Model/Layered.v -- C19.  Hand model (definitions ONLY) of the layered (1D) mode:

     emg3d.models.Model.extract_1d        (extract1d: method check, mask ->
         bounding box, fallback to midpoint when the mask is empty, the index
         search `index(nodes, coo)` with np.clip, the interpolation matrix
         imat = outer(hx, hy) [* use] / sum, einsum('ij,ijk->k') of the values
         or of their log10 unless the map name starts with 'L', `merge`)
     emg3d._multiprocessing._get_points   (get_points: source / receiver ->
         midpoint with both points equal)
     emg3d._multiprocessing.layered       (layered_fwd: per-receiver loop,
         finite-data mask, skipped receivers stay NaN, scatter of the
         responses; layered_grad: misfit from the stored residual, horizontal
         and (VTI) vertical finite-difference gradients, out[c] += imat x grad)
     emg3d._multiprocessing._fd_gradient  (fd_grad: rel_diff = 1e-4, one
         perturbed call per layer, (fd_misfit - misfit)/delta)

   Oracles (Section variables, never axioms): the ellipse mask
   (maps.ellipse_indices), log10 / 10** (lg / pw), the property map's
   `backward`, and `_empymod_fwd` = empymod.bipole with res = 1/cond_h,
   aniso = sqrt(cond_h/cond_v) (bipole).
   Numbers: any type with FOps and a boolean [leb]; executed on Q (ExecQ),
   reasoned about on R (instance LROps below).  Tied to the code by
   correspondence (py/props/c19.py). *)
From Coq Require Import ZArith Bool List String.
From V Require Import Base.FieldSig Base.Arr.
Import ListNotations.
Local Open Scope Z_scope.

(* ---------------------------------------------------------------- sums -- *)
Section Sums.
  Context {F : Type} {O : FOps F}.
  Fixpoint nsum (n : nat) (lo : Z) (f : Z -> F) : F :=
    match n with
    | 0%nat => 0%F
    | Datatypes.S m => (f lo + nsum m (lo + 1) f)%F
    end.
  (* sum_{lo <= i < hi} f i *)
  Definition zsum (lo hi : Z) (f : Z -> F) : F := nsum (Z.to_nat (hi - lo)) lo f.
  (* sum over a full (nx, ny) array: np.einsum('ij,ij->', ...) / imat.sum() *)
  Definition zsum2 (nx ny : Z) (f : Z -> Z -> F) : F :=
    zsum 0 nx (fun i => zsum 0 ny (fun j => f i j)).
  Definition sumL (l : list F) : F := fold_right Fadd 0%F l.
End Sums.

(* ------------------------------------------------------- index scanning -- *)
Fixpoint first_from (n : nat) (i : Z) (p : Z -> bool) : option Z :=
  match n with
  | 0%nat => None
  | Datatypes.S m => if p i then Some i else first_from m (i + 1) p
  end.
(* smallest i in [lo, hi) with p i   (ix.min() of a nonzero()) *)
Definition zfirst (lo hi : Z) (p : Z -> bool) : option Z :=
  first_from (Z.to_nat (hi - lo)) lo p.
Fixpoint last_from (n : nat) (i : Z) (p : Z -> bool) : option Z :=
  match n with
  | 0%nat => None
  | Datatypes.S m => if p i then Some i else last_from m (i - 1) p
  end.
(* largest i in [lo, hi) with p i   (ix.max()) *)
Definition zlast (lo hi : Z) (p : Z -> bool) : option Z :=
  last_from (Z.to_nat (hi - lo)) (hi - 1) p.
Definition zany (lo hi : Z) (p : Z -> bool) : bool :=
  match zfirst lo hi p with Some _ => true | None => false end.
Definition zrange (lo hi : Z) : list Z :=
  map (fun t => lo + Z.of_nat t) (seq 0 (Z.to_nat (hi - lo))).

(* use.nonzero() -> (ix.min(), ix.max(), iy.min(), iy.max()); None if empty *)
Definition bbox (nx ny : Z) (use : Z -> Z -> bool) : option (Z * Z * Z * Z) :=
  match zfirst 0 nx (fun i => zany 0 ny (fun j => use i j)),
        zlast 0 nx (fun i => zany 0 ny (fun j => use i j)),
        zfirst 0 ny (fun j => zany 0 nx (fun i => use i j)),
        zlast 0 ny (fun j => zany 0 nx (fun i => use i j)) with
  | Some six, Some eix, Some siy, Some eiy => Some (six, eix, siy, eiy)
  | _, _, _, _ => None
  end.

(* boolean-mask selection / assignment:  a[fi]  and  out[i, fi] = r  on a NaN row *)
Fixpoint select {A} (fi : list bool) (l : list A) : list A :=
  match fi, l with
  | b :: t, x :: r => if b then x :: select t r else select t r
  | _, _ => []
  end.
Fixpoint scatter {A} (fi : list bool) (r : list A) : list (option A) :=
  match fi with
  | [] => []
  | true :: t => match r with
                 | x :: r' => Some x :: scatter t r'
                 | [] => None :: scatter t []
                 end
  | false :: t => None :: scatter t r
  end.
Definition count_true (fi : list bool) : nat := List.length (filter (fun b => b) fi).

Inductive xerr := EValueError | ETypeError.

Fixpoint set_nth {A} (n : nat) (f : A -> A) (l : list A) : list A :=
  match l, n with
  | [], _ => []
  | x :: t, 0%nat => f x :: t
  | x :: t, Datatypes.S m => x :: set_nth m f t
  end.

(* ================================================================= model == *)
Section Layered.
  Context {F : Type} {O : FOps F}.
  Variable leb : F -> F -> bool.          (* x <= y *)
  Variable lg pw : F -> F.                (* np.log10, 10**  (oracles) *)
  Local Open Scope F_scope.

  Definition ltb (a b : F) : bool := negb (leb b a).     (* a < b *)
  Definition fabs (x : F) : F := if leb 0 x then x else - x.
  Definition nonzero (x : F) : bool := negb (leb x 0 && leb 0 x).
  Definition b2f (b : bool) : F := if b then 1 else 0.
  Definition two : F := 1 + 1.

  (* TensorMesh(h, origin): node i = origin + h_0 + ... + h_{i-1} *)
  Definition node (x0 : F) (h : Z -> F) (i : Z) : F := x0 + zsum 0 i h.

  (* def index(nodes, coo):
       x = np.asarray(coo < np.r_[nodes, np.inf]).nonzero()[0][0]-1
       return np.clip(x, 0, nodes.size-2)                 (n cells, n+1 nodes) *)
  Definition cell_index (x0 : F) (h : Z -> F) (n : Z) (coo : F) : Z :=
    let m := match zfirst 0 (n + 1) (fun m => ltb coo (node x0 h m)) with
             | Some m => m
             | None => (n + 1)%Z                          (* the appended inf *)
             end in
    Z.min (Z.max (m - 1) 0) (n - 1).

  Record grid := {
    g_nx : Z; g_ny : Z; g_nz : Z;
    g_x0 : F; g_y0 : F; g_z0 : F;
    g_hx : Z -> F; g_hy : Z -> F; g_hz : Z -> F }.

  Inductive xmethod := XMid | XPrism | XCyl.

  (* the selection: (midpoint flag after the empty-mask fallback, six, eix, siy, eiy) *)
  Definition sel (g : grid) (m : xmethod) (use : Z -> Z -> bool) (p0 p1 : F * F)
    : bool * (Z * Z * Z * Z) :=
    let ix := cell_index (g_x0 g) (g_hx g) (g_nx g) ((fst p0 + fst p1) / two) in
    let iy := cell_index (g_y0 g) (g_hy g) (g_ny g) ((snd p0 + snd p1) / two) in
    match m with
    | XMid => (true, (ix, ix, iy, iy))
    | _ => match bbox (g_nx g) (g_ny g) use with
           | Some b => (false, b)
           | None => (true, (ix, ix, iy, iy))     (* selection empty -> 'midpoint' *)
           end
    end.

  Definition in_box (b : Z * Z * Z * Z) (i j : Z) : bool :=
    let '(six, eix, siy, eiy) := b in
    ((six <=? i) && (i <=? eix) && (siy <=? j) && (j <=? eiy))%Z.

  (* pp = np.outer(hx[six:eix+1], hy[siy:eiy+1]); if cylinder: pp *= use[...] *)
  Definition pp (g : grid) (m : xmethod) (use : Z -> Z -> bool) (i j : Z) : F :=
    match m with
    | XCyl => g_hx g i * g_hy g j * b2f (use i j)
    | _ => g_hx g i * g_hy g j
    end.
  Definition pp_total (g : grid) (m : xmethod) (use : Z -> Z -> bool)
             (b : Z * Z * Z * Z) : F :=
    let '(six, eix, siy, eiy) := b in
    zsum six (eix + 1) (fun i => zsum siy (eiy + 1) (fun j => pp g m use i j)).

  (* imat = zeros(shape[:2]); imat[six:eix+1, siy:eiy+1] = pp / pp.sum()  (or 1.0) *)
  Definition imat_of (g : grid) (m : xmethod) (use : Z -> Z -> bool)
             (s : bool * (Z * Z * Z * Z)) : Z -> Z -> F :=
    let '(mid, b) := s in
    if mid then fun i j => if in_box b i j then 1 else 0
    else let tot := pp_total g m use b in
         fun i j => if in_box b i j then pp g m use i j / tot else 0.

  (* one property, one layer:
       midpoint:          values[six, siy, k]
       map name 'L...':   einsum('ij,ijk->k', imat, values)
       otherwise:         10 ** einsum('ij,ijk->k', imat, log10(values)) *)
  Definition layer_val (g : grid) (lname : bool) (s : bool * (Z * Z * Z * Z))
             (im : Z -> Z -> F) (p : Z -> Z -> Z -> F) (k : Z) : F :=
    let '(mid, (six, _, siy, _)) := s in
    if mid then p six siy k
    else if lname then zsum2 (g_nx g) (g_ny g) (fun i j => im i j * p i j k)
    else pw (zsum2 (g_nx g) (g_ny g) (fun i j => im i j * lg (p i j k))).
  Definition layer_vals (g : grid) (lname : bool) (s : bool * (Z * Z * Z * Z))
             (im : Z -> Z -> F) (p : Z -> Z -> Z -> F) : list F :=
    map (layer_val g lname s im p) (zrange 0 (g_nz g)).

  (* ---- merge=True ------------------------------------------------------- *)
  (* diff = zeros(nz); diff[0] = 1.0;
     for v in props: diff[1:] += abs(np.diff(v));   ind = diff.nonzero()[0]
     [mdiff props k] for k >= 1 is diff[k]; [prevv v 0] = -1 is the sentinel of
     the code as found (np.r_[-1, v]), used only by [merge_ind_unfixed]. *)
  Definition prevv (v : list F) (k : nat) : F :=
    match k with 0%nat => - (1) | Datatypes.S k' => nth k' v 0 end.
  Definition mdiff (props : list (list F)) (k : nat) : F :=
    sumL (map (fun v => fabs (nth k v 0 - prevv v k)) props).
  Definition merge_keep (props : list (list F)) (k : nat) : bool :=
    match k with 0%nat => true | Datatypes.S _ => nonzero (mdiff props k) end.
  Definition merge_ind (nz : nat) (props : list (list F)) : list nat :=
    filter (merge_keep props) (seq 0 nz).
  (* UNFIXED variant (before the repair): diff += abs(np.diff(np.r_[-1, v])) *)
  Definition merge_ind_unfixed (nz : nat) (props : list (list F)) : list nat :=
    filter (fun k => nonzero (mdiff props k)) (seq 0 nz).
  (* props = {k: v[ind]};  hz = np.diff(np.r_[nodes_z[ind], nodes_z[-1]]) *)
  Definition take_ind (ind : list nat) (v : list F) : list F :=
    map (fun k => nth k v 0) ind.
  Fixpoint diffs (l : list F) : list F :=
    match l with
    | a :: t => match t with
                | b :: _ => (b - a) :: diffs t
                | [] => []
                end
    | [] => []
    end.
  Definition merge_hz (g : grid) (ind : list nat) : list F :=
    diffs (map (fun k => node (g_z0 g) (g_hz g) (Z.of_nat k)) ind
           ++ [node (g_z0 g) (g_hz g) (g_nz g)]).

  (* ---- Model.extract_1d -------------------------------------------------- *)
  Record ext := {
    e_mid : bool; e_box : Z * Z * Z * Z;
    e_imat : Z -> Z -> F;
    e_props : list (list F);          (* property_x, [property_y], [property_z], [mu_r], [epsilon_r] *)
    e_hz : list F;                    (* cell widths of the (1, 1, nz') grid *)
    e_wx : F; e_wy : F;               (* its x- and y-width *)
    e_ox : F; e_oy : F; e_oz : F }.   (* its origin *)

  Definition extract_core (g : grid) (lname merge : bool) (m : xmethod)
             (use : Z -> Z -> bool) (p0 p1 : F * F)
             (props : list (Z -> Z -> Z -> F)) : ext :=
    let s := sel g m use p0 p1 in
    let im := imat_of g m use s in
    let '(six, eix, siy, eiy) := snd s in
    let vals := map (layer_vals g lname s im) props in
    let nzn := Z.to_nat (g_nz g) in
    let ind := merge_ind nzn vals in
    {| e_mid := fst s; e_box := snd s; e_imat := im;
       e_props := if merge then map (take_ind ind) vals else vals;
       e_hz := if merge then merge_hz g ind else map (g_hz g) (zrange 0 (g_nz g));
       e_wx := node (g_x0 g) (g_hx g) (eix + 1) - node (g_x0 g) (g_hx g) six;
       e_wy := node (g_y0 g) (g_hy g) (eiy + 1) - node (g_y0 g) (g_hy g) siy;
       e_ox := node (g_x0 g) (g_hx g) six;
       e_oy := node (g_y0 g) (g_hy g) siy;
       e_oz := g_z0 g |}.

  Definition xmethod_of (method : string) : option xmethod :=
    if String.eqb method "midpoint" then Some XMid
    else if String.eqb method "cylinder" then Some XCyl
    else if String.eqb method "prism" then Some XPrism
    else None.

  (* extract_1d(method, p0, p1, ellipse, merge): the argument checks, p1 = p0
     when p1 is None, then the core.  [ellipse p0 p1] is the mask oracle
     (maps.ellipse_indices on the cell centres with the given ellipse dict). *)
  Definition extract_1d (g : grid) (lname : bool) (props : list (Z -> Z -> Z -> F))
             (ellipse : F * F -> F * F -> Z -> Z -> bool)
             (method : string) (has_radius : bool) (p0 : F * F) (p1 : option (F * F))
             (merge : bool) : xerr + ext :=
    match xmethod_of method with
    | None => inl EValueError
    | Some m =>
        match m, has_radius with
        | XMid, _ | _, true =>
            let p1' := match p1 with Some q => q | None => p0 end in
            inr (extract_core g lname merge m (ellipse p0 p1') p0 p1' props)
        | _, false => inl ETypeError
        end
    end.

  (* ---- receiver positions -------------------------------------------------- *)
  Definition pt3 : Type := (F * F * F)%type.
  Definition xy (p : pt3) : F * F := (fst (fst p), snd (fst p)).
  (* a receiver: (relative flag, centre);  rec.center_abs(src):
     source.center + self.center if relative else self.center *)
  Definition rcv : Type := (bool * pt3)%type.
  Definition rec_abs (srcc : pt3) (r : rcv) : pt3 :=
    let c := snd r in
    if fst r then (fst (fst srcc) + fst (fst c), snd (fst srcc) + snd (fst c), snd srcc + snd c)
    else c.
  (* UNFIXED variant (before the repair): rec.center, the flag ignored *)
  Definition rec_abs_unfixed (srcc : pt3) (r : rcv) : pt3 := snd r.

  (* ---- histories on ONE Model object -------------------------------------- *)
  (* In-place writes into the property arrays (model.property_x[i, j, k] = v
     through the array the getter returns; the setters do the same to every
     cell) interleaved with extract_1d requests.  The state is the arrays and
     nothing else: Model keeps no record of earlier extractions. *)
  Inductive hop : Type :=
  | HEdit (p : nat) (i j k : Z) (v : F)     (* <property number p>[i, j, k] = v *)
  | HExtract.                               (* extract_1d(...) with the selection [ex] *)
  Definition edit_props (props : list (Z -> Z -> Z -> F)) (o : hop) : list (Z -> Z -> Z -> F) :=
    match o with
    | HEdit p i j k v => set_nth p (fun a => upd3 a i j k v) props
    | HExtract => props
    end.
  (* the answers of the extract_1d requests of a history, in order;
     [ex props] = extract_1d of a fixed selection on the arrays [props] *)
  Fixpoint run_hist (ex : list (Z -> Z -> Z -> F) -> xerr + ext)
           (props : list (Z -> Z -> Z -> F)) (ops : list hop) : list (xerr + ext) :=
    match ops with
    | [] => []
    | HExtract :: t => ex props :: run_hist ex props t
    | o :: t => run_hist ex (edit_props props o) t
    end.
  Definition is_extract (o : hop) : bool := match o with HExtract => true | _ => false end.

  (* ---- _get_points(method, src, rec) -------------------------------------- *)
  Definition get_points (method : string) (src rec : F * F) : string * (F * F) * (F * F) :=
    if String.eqb method "source" then ("midpoint"%string, src, src)
    else if String.eqb method "receiver" then ("midpoint"%string, rec, rec)
    else (method, src, rec).

  (* oned.grid.nodes_z[1:-1] *)
  Fixpoint cumsum (a : F) (l : list F) : list F :=
    match l with
    | [] => []
    | h :: t => (a + h) :: cumsum (a + h) t
    end.
  Definition depth_of (e : ext) : list F := removelast (cumsum (e_oz e) (e_hz e)).

  (* ---- layered(inp), one source ------------------------------------------- *)
  Section OneSource.
    Variable D : Type.                                   (* a response *)
    Variable g : grid.
    Variable lname : bool.                               (* map name starts with 'L' *)
    Variable backward : F -> F.                          (* oned.map.backward (oracle) *)
    Variable props : list (Z -> Z -> Z -> F).            (* model._def_properties order *)
    Variables (vti has_mu has_eps : bool).
    Variable ellipse : F * F -> F * F -> Z -> Z -> bool. (* mask oracle *)
    Variable method : string.
    Variable has_radius merge : bool.
    Variable srcc : pt3.                                 (* src.center *)
    Variable freqs : list F.
    (* _empymod_fwd(cond_h, cond_v, {..., rec, mrec, depth, freqtime, epermH, mpermH}):
       receiver (index into the receiver dict: orientation, type), its ABSOLUTE
       centre (rec.coordinates_abs(src)), depth, cond_h, cond_v, epermH,
       mpermH, frequencies -> one response per frequency *)
    Variable bipole : nat -> pt3 -> list F -> list F -> option (list F) ->
                      option (list F) -> option (list F) -> list F -> list D.

    (* position of a property in model._def_properties *)
    Definition pos_z : nat := 1.                          (* VTI: x, z *)
    Definition pos_mu : nat := if vti then 2%nat else 1%nat.
    Definition pos_eps : nat := ((if vti then 2 else 1) + (if has_mu then 1 else 0))%nat.

    Definition extract_for (rc : rcv) : xerr + ext :=
      let '(mth, p0, p1) := get_points method (xy srcc) (xy (rec_abs srcc rc)) in
      extract_1d g lname props ellipse mth has_radius p0 (Some p1) merge.

    Definition cond_h_of (e : ext) : list F := map backward (nth 0 (e_props e) []).
    Definition cond_v_of (e : ext) : option (list F) :=
      if vti then Some (map backward (nth pos_z (e_props e) [])) else None.
    Definition eperm_of (e : ext) : option (list F) :=
      if has_eps then Some (nth pos_eps (e_props e) []) else None.
    Definition mperm_of (e : ext) : option (list F) :=
      if has_mu then Some (nth pos_mu (e_props e) []) else None.

    (* finite mask of a receiver: observed is None -> all True *)
    Definition mask_of (obs_fin : option (list bool)) : list bool :=
      match obs_fin with
      | Some l => l
      | None => map (fun _ => true) freqs
      end.

    (* forward: one row of `out` (None = the NaN it was initialised with) *)
    Definition fwd_row (i : nat) (rc : rcv) (obs_fin : option (list bool))
      : xerr + list (option D) :=
      let fi := mask_of obs_fin in
      if Nat.eqb (count_true fi) 0 then inr (map (fun _ => None) freqs)   (* continue *)
      else match extract_for rc with
           | inl er => inl er
           | inr e =>
               inr (scatter fi (bipole i (rec_abs srcc rc) (depth_of e) (cond_h_of e) (cond_v_of e)
                                       (eperm_of e) (mperm_of e) (select fi freqs)))
           end.

    Fixpoint fwd_rows (i : nat) (recs : list (rcv * option (list bool)))
      : xerr + list (list (option D)) :=
      match recs with
      | [] => inr []
      | (rc, ofin) :: t =>
          match fwd_row i rc ofin with
          | inl er => inl er
          | inr row => match fwd_rows (Datatypes.S i) t with
                       | inl er => inl er
                       | inr rows => inr (row :: rows)
                       end
          end
      end.
    (* layered(inp) with gradient=False; [observed] = None or the finite flags
       per receiver *)
    Definition layered_fwd (rcs : list rcv) (observed : option (list (list bool)))
      : xerr + list (list (option D)) :=
      fwd_rows 0 (map (fun t => (fst t, match observed with
                                         | Some o => Some (nth (snd t) o [])
                                         | None => None
                                         end))
                      (combine rcs (seq 0 (List.length rcs)))).
  End OneSource.

  (* ---- _fd_gradient and the gradient branch of layered() ------------------ *)
  Definition cx : Type := (F * F)%type.
  Definition csub (a b : cx) : cx := (fst a - fst b, snd a - snd b).
  Definition sqabs (a : cx) : F := fst a * fst a + snd a * snd a.
  (* np.sum(w*(r.conj()*r)).real/2 *)
  Fixpoint wsq (w : list F) (r : list cx) : F :=
    match w, r with
    | a :: w', b :: r' => a * sqabs b + wsq w' r'
    | _, _ => 0
    end.
  Definition wmisfit (w : list F) (r : list cx) : F := wsq w r / two.
  Fixpoint csubL (a b : list cx) : list cx :=
    match a, b with
    | x :: a', y :: b' => csub x y :: csubL a' b'
    | _, _ => []
    end.
  Definition rel_diff : F := Flit 1 10000.
  Fixpoint bump (l : list F) (iz : nat) (delta : F) : list F :=
    match l with
    | [] => []
    | x :: t => match iz with
                | 0%nat => (x + delta) :: t
                | Datatypes.S iz' => x :: bump t iz' delta
                end
    end.

  (* _fd_gradient(cond_h, cond_v, data, weight, misfit, empymod_inp, imat, vertical)
     without the final `imat[..., None] * grad[None, :]`;
     [call ch cv] = _empymod_fwd(ch, cv, empymod_inp) *)
  Definition fd_grad (cond_h : list F) (cond_v : option (list F)) (data : list cx)
             (weight : list F) (misfit : F)
             (call : list F -> option (list F) -> list cx) (vertical : bool) : list F :=
    map (fun iz =>
           let base := if vertical then match cond_v with Some v => v | None => [] end
                       else cond_h in
           let delta := nth iz base 0 * rel_diff in
           let cond_p := bump base iz delta in
           let response := if vertical then call cond_h (Some cond_p)
                           else call cond_p cond_v in
           let fd_misfit := wmisfit weight (csubL response data) in
           (fd_misfit - misfit) / delta)
        (seq 0 (List.length cond_h)).

  (* imat[..., None] * grad[None, :] *)
  Definition spread (im : Z -> Z -> F) (gr : list F) : Z -> Z -> Z -> F :=
    fun i j k => if (k <? 0)%Z then 0 else im i j * nth (Z.to_nat k) gr 0.
  Definition add3 (a b : Z -> Z -> Z -> F) : Z -> Z -> Z -> F :=
    fun i j k => a i j k + b i j k.
  Definition zero3 : Z -> Z -> Z -> F := fun _ _ _ => 0.

  Section OneSourceGrad.
    Variable g : grid.
    Variable lname : bool.
    Variable backward : F -> F.
    Variable props : list (Z -> Z -> Z -> F).
    Variables (vti has_mu has_eps : bool).
    Variable ellipse : F * F -> F * F -> Z -> Z -> bool.
    Variable method : string.
    Variable has_radius merge : bool.
    Variable srcc : pt3.
    Variable freqs : list F.
    Variable bipole : nat -> pt3 -> list F -> list F -> option (list F) ->
                      option (list F) -> option (list F) -> list F -> list cx.

    (* per receiver: receiver, finite flags, observed, weights, residual (all frequencies) *)
    Definition rdata : Type :=
      (rcv * list bool * list cx * list F * list cx)%type.

    (* what one receiver adds to (out[0], out[2]); None = `continue`.
       [gmerge] is the merge flag handed to extract_1d: layered() sets
       lopts['merge'] = False when gradient (one value per MODEL layer). *)
    Definition grad_rec (gmerge : bool) (i : nat) (rd : rdata)
      : xerr + option ((Z -> Z -> F) * list F * option (list F)) :=
      let '(rc, fi, obsd, wgtd, resd) := rd in
      if Nat.eqb (count_true fi) 0 then inr None
      else match extract_for g lname props ellipse method has_radius gmerge srcc rc with
           | inl er => inl er
           | inr e =>
               let ch := cond_h_of backward e in
               let cv := cond_v_of backward vti e in
               let call := fun a b => bipole i (rec_abs srcc rc) (depth_of e) a b
                                        (eperm_of vti has_mu has_eps e)
                                        (mperm_of vti has_mu e) (select fi freqs) in
               let obs := select fi obsd in
               let wgt := select fi wgtd in
               let res := select fi resd in
               let misfit := wmisfit wgt res in
               let gh := fd_grad ch cv obs wgt misfit call false in
               let gv := if vti then Some (fd_grad ch cv obs wgt misfit call true)
                         else None in
               inr (Some (e_imat e, gh, gv))
           end.

    (* the receiver loop: out[0] += imat x gh; if vti: out[2] += imat x gv *)
    Fixpoint grad_loop (gmerge : bool) (i : nat) (rds : list rdata)
             (out : (Z -> Z -> Z -> F) * (Z -> Z -> Z -> F))
      : xerr + ((Z -> Z -> Z -> F) * (Z -> Z -> Z -> F)) :=
      match rds with
      | [] => inr out
      | rd :: t =>
          match grad_rec gmerge i rd with
          | inl er => inl er
          | inr None => grad_loop gmerge (Datatypes.S i) t out
          | inr (Some (im, gh, gv)) =>
              let o0 := add3 (fst out) (spread im gh) in
              let o2 := match gv with
                        | Some v => add3 (snd out) (spread im v)
                        | None => snd out
                        end in
              grad_loop gmerge (Datatypes.S i) t (o0, o2)
          end
      end.
    (* layered(inp) with gradient=True: (out[0], out[2]); out[1] stays zero.
       [inputs] = None when weights, residual or observed is missing. *)
    Definition layered_grad (inputs : option (list rdata))
      : xerr + ((Z -> Z -> Z -> F) * (Z -> Z -> Z -> F)) :=
      match inputs with
      | None => inr (zero3, zero3)
      | Some rds => grad_loop false 0 rds (zero3, zero3)
      end.
    (* UNFIXED variant (before the repair): merge from layered_opts passed on *)
    Definition layered_grad_unfixed (inputs : option (list rdata))
      : xerr + ((Z -> Z -> Z -> F) * (Z -> Z -> Z -> F)) :=
      match inputs with
      | None => inr (zero3, zero3)
      | Some rds => grad_loop merge 0 rds (zero3, zero3)
      end.
  End OneSourceGrad.
End Layered.

(* ---- the real instance (proofs) ----------------------------------------- *)
From Coq Require Import Reals.
#[global] Instance LROps : FOps R := {
  F0 := 0%R; F1 := 1%R; Fadd := Rplus; Fmul := Rmult; Fsub := Rminus;
  Fopp := Ropp; Fdiv := Rdiv; Finv := Rinv }.
Definition LRleb (x y : R) : bool := if Rle_dec x y then true else false.
Definition log10R (x : R) : R := (ln x / ln 10)%R.
Definition pow10R (x : R) : R := exp (x * ln 10)%R.
