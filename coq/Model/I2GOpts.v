(* Model/I2GOpts.v -- C15.  Hand model (definitions only) of the OPTION RESOLUTION
   in front of the volume averaging:

     Model.interpolate_to_grid(grid, **interpolate_opts)     (emg3d/models.py)
        g2g_inp = {'method': 'volume', 'extrapolate': True,
                   'log': not self.map.name.startswith('L'),
                   **interpolate_opts, 'grid': self.grid, 'xi': grid}
     Field.interpolate_to_grid(grid, **interpolate_opts)     (emg3d/fields.py)
        g2g_inp = {'method': 'cubic', 'extrapolate': False, 'log': False,
                   **interpolate_opts, 'grid': self.grid, 'xi': grid}
     Simulation.get_model(source, frequency)                 (emg3d/simulations.py)
        = self.model.interpolate_to_grid(grid)               (no user options)
     maps.interpolate(grid, values, xi, method='linear', extrapolate=True,
                      log=False, **kwargs)                   (emg3d/maps.py)

   The tables of defaults are the only thing that persists between two calls:
   they are the STATE of this model ([defaults]).  A call is a step
   [state -> call -> state * route]; the route says which interpolation
   routine receives which options (or that the call raises before reaching one).
   In the code the tables are dict displays evaluated anew on every call, so a
   step returns the state it was given; the theorems (Proofs/I2GOpts.v) state
   what follows for EVERY sequence of calls, and the correspondence
   (py/props/c15.py, option histories) runs such sequences on ONE process and
   compares every answer with this model on the current state. *)
From Coq Require Import ZArith Bool List String.
Import ListNotations.
Local Open Scope string_scope.

(* Python values that occur as interpolation options *)
Inductive oval : Type :=
  | OStr (s : string) | OBool (b : bool) | ONone | ONum (z : Z) | OGrid (id : nat).

(* a dict with string keys (insertion ordered, keys unique) *)
Definition opts : Type := list (string * oval).

Fixpoint dget (k : string) (d : opts) : option oval :=
  match d with
  | [] => None
  | (k', v) :: t => if String.eqb k k' then Some v else dget k t
  end.

(* d[k] = v on a COPY: replaces in place, appends a new key *)
Fixpoint dset (k : string) (v : oval) (d : opts) : opts :=
  match d with
  | [] => [(k, v)]
  | (k', v') :: t => if String.eqb k k' then (k, v) :: t else (k', v') :: dset k v t
  end.

(* {**d, **u}: a NEW dict; entries of u win *)
Definition dmerge (d u : opts) : opts :=
  fold_left (fun acc kv => dset (fst kv) (snd kv) acc) u d.

(* ---- the state: the tables of defaults of the two classes ---------------- *)
Record defaults : Type := { d_model : opts; d_field : opts }.

Definition defaults0 : defaults :=
  {| d_model := [("method", OStr "volume"); ("extrapolate", OBool true)];
     d_field := [("method", OStr "cubic"); ("extrapolate", OBool false); ("log", OBool false)] |}.

(* signature defaults of maps.interpolate (immutable values) *)
Definition direct_defaults : opts :=
  [("method", OStr "linear"); ("extrapolate", OBool true); ("log", OBool false)].

(* ---- calls ---------------------------------------------------------------- *)
Inductive entry : Type :=
  | ModelI2G (log_default : bool)  (* Model.interpolate_to_grid and Simulation.get_model;
                                      log_default = not map.name.startswith('L') *)
  | FieldI2G                       (* Field.interpolate_to_grid *)
  | Direct.                        (* maps.interpolate called directly *)

Record call : Type :=
  { c_entry : entry; c_src : nat; c_tgt : nat; c_user : opts }.

(* the keyword arguments that reach maps.interpolate (without 'values') *)
Definition resolve (st : defaults) (c : call) : opts :=
  let fixed := [("grid", OGrid (c_src c)); ("xi", OGrid (c_tgt c))] in
  match c_entry c with
  | ModelI2G lg => dmerge (dmerge (dset "log" (OBool lg) (d_model st)) (c_user c)) fixed
  | FieldI2G => dmerge (dmerge (d_field st) (c_user c)) fixed
  | Direct => dmerge (dmerge direct_defaults (c_user c)) fixed
  end.

(* ---- what maps.interpolate does with them --------------------------------- *)
Inductive route : Type :=
  | RVolume (log : bool)
      (* interp_volume_average on the cell values (on log10 when log);
         'extrapolate' and extra keyword arguments are ignored *)
  | ROther (method : oval) (extrapolate log : bool) (kwargs : opts)
      (* interp_spline_3d ('cubic') / scipy RegularGridInterpolator (anything
         else; an unknown method raises there): third party *)
  | RTypeError.
      (* 'values' among the options: multiple values for a keyword *)

Definition truthy (v : option oval) : bool :=
  match v with
  | Some (OBool b) => b
  | Some (OStr s) => negb (String.eqb s "")
  | Some (ONum z) => negb (Z.eqb z 0)
  | Some (OGrid _) => true
  | Some ONone => false
  | None => false
  end.

Definition named_keys : list string :=
  ["grid"; "values"; "xi"; "method"; "extrapolate"; "log"].

Definition kwargs_of (r : opts) : opts :=
  filter (fun kv => negb (existsb (String.eqb (fst kv)) named_keys)) r.

Definition route_of (r : opts) : route :=
  match dget "values" r with
  | Some _ => RTypeError
  | None =>
      let lg := truthy (dget "log" r) in
      match dget "method" r with
      | Some (OStr m) =>
          if String.eqb m "volume" then RVolume lg
          else ROther (OStr m) (truthy (dget "extrapolate" r)) lg (kwargs_of r)
      | Some v => ROther v (truthy (dget "extrapolate" r)) lg (kwargs_of r)
      | None => RTypeError
      end
  end.

(* a Field lives on edges: the volume routine rejects it (ValueError) *)
Definition entry_accepts (e : entry) (rt : route) : bool :=
  match e, rt with
  | FieldI2G, RVolume _ => false
  | _, RTypeError => false
  | _, _ => true
  end.

(* ---- one call, and a history of calls -------------------------------------- *)
(* a call -- whether it returns or raises -- hands the tables on as they were *)
Definition step (st : defaults) (c : call) : defaults * route :=
  (st, route_of (resolve st c)).

Fixpoint run (st : defaults) (cs : list call) : defaults * list route :=
  match cs with
  | [] => (st, [])
  | c :: t =>
      let (st1, r) := step st c in
      let (st2, rs) := run st1 t in
      (st2, r :: rs)
  end.

(* the call without user options *)
Definition default_call (lg : bool) (src tgt : nat) : call :=
  {| c_entry := ModelI2G lg; c_src := src; c_tgt := tgt; c_user := [] |}.

(* ---- the values a call returns for one cell property ----------------------- *)
From Coq Require Import Reals.
From V Require Import Base.FieldSig Model.VolAvg.

Section Result.
  (* interp_spline_3d / scipy.interpolate.RegularGridInterpolator: third party
     (None = it raises) *)
  Variable third_party : oval -> bool -> bool -> opts -> (idx3 -> R) -> idx3 -> option R.

  (* T = the weight triples of the two grids of the call, vol = new volumes *)
  Definition interp_result (rt : route) (T : list (R * idx3 * idx3)) (vol : idx3 -> R)
             (v : idx3 -> R) (o : idx3) : option R :=
    match rt with
    | RVolume false => Some (apply_va idx3_eqb T vol (fun _ => 0%R) v o)
    | RVolume true => Some (apply_va_log idx3_eqb T vol v o)
    | ROther m e l kw => third_party m e l kw v o
    | RTypeError => None
    end.
End Result.
