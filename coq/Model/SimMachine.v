(* Model/SimMachine.v -- state machine of emg3d.simulations.Simulation seen
   through its caches and its data flow (property C12).  Definitions only.

   A cached value is represented by a TAG saying *which quantity of which
   model* it is (e.g. [Grad m] = adjoint-state gradient of the misfit for model
   version m, [Jt m w] = J^T w for model m, [WOverW w] = w/weights).  The
   survey, options and grid are fixed; the "truth" that can change is the model
   version m (in-place model update followed by clean()).

   A WORLD is a list of simulations (the original and everything obtained from
   it by copy / to_dict+from_dict / to_file+from_file) plus, in file mode, the
   content of the field files in the *shared* directory [file_dir] (copies
   inherit [file_dir], so they read and delete each other's files).

   [step q] follows emg3d/simulations.py statement by statement for the
   operations of the property; [q : quirks] selects, for the three places where
   the code as found breaks the property, the behaviour as found (true) or the
   behaviour after the proposed repair (false):
     q_jtvec  jtvec leaves J^T w in the gradient cache and w/weights in
              data.residual, and needs a prior misfit (docs/fix_C12.diff)
     q_misfit the cached misfit is an xarray.DataArray: after a file round trip
              `misfit` returns a memoryview, and to_file(json) raises
              (docs/fix_C12_misfit.diff)
     q_keep   gradient/jvec read the field dictionary directly and crash when
              the fields are gone (clean('keepresults'), copy('results')) while
              _computed is still True (docs/fix_C12_keepresults.diff)       *)
From Coq Require Import ZArith List Bool Arith.
Import ListNotations.

Inductive tag : Type :=
| NaN                       (* initial synthetic data *)
| Syn (m i : nat)           (* synthetic responses of slot i for model m *)
| Misfit (m : nat)
| Grad (m : nat)            (* gradient of the misfit *)
| Jt (m w : nat)            (* J^T w *)
| Jv (m v : nat)            (* J v *)
| Efield (m i : nat)
| Hfield (m i : nat)
| Residual (m : nat)        (* synthetic - observed *)
| WOverW (w : nat)          (* w / weights *)
| Weights
| Missing                   (* file mode: named file no longer exists *)
| Unknown.                  (* a value that is none of the above *)

Inductive tolk := TFwd | TGrad.
Inductive skind := KF | KB | KG.   (* forward, back-propagation, jvec solve *)
(* so_model: the model version handed to the solver for this solve *)
Record solve := mkSolve { so_kind : skind; so_slot : nat; so_tol : tolk; so_warm : bool; so_model : nat }.

Inductive cwhat := CComputed | CKeep | CAll.
Inductive dwhat := DComputed | DResults | DAll | DPlain.
Inductive via := VCopy | VDict | VH5 | VNpz | VJson.

Inductive sop : Type :=
| OCompute | OMisfit | OGradient
| OJvec (v : nat) | OJtvec (w : nat)
| OGetE (i : nat) | OGetH (i : nat)
| OClean (c : cwhat)
| OExport (x : via) (d : dwhat)        (* copy / to_dict(copy=True)+from_dict / to_file+from_file *)
| OSetModel (m : nat) (all repl : bool).
   (* model update -- in place (sim.model.property_x[...] = ...) or, repl, by replacing the
      object (sim.model = new) -- followed by clean('all' | 'computed').  The code reads
      self.model afresh for every solve, so both variants act alike on the tags. *)

Inductive err := EAttr | EFile | EType | EInj.   (* EInj: an exception injected at a seam (Model/SimFault.v) *)
Inductive ret := RNone | RVal (t : tag) | RBadType | RNew (k : nat) | RErr (e : err).
Record obs := mkObs { o_ret : ret; o_trace : list solve }.

Record quirks := mkQ { q_jtvec : bool; q_misfit : bool; q_keep : bool }.
Definition fixed : quirks := mkQ false false false.
Definition as_found : quirks := mkQ true true true.

Record sim := mkSim {
  s_model : nat;
  s_computed : bool;
  s_misfit : option tag;
  s_misfit_np : bool;          (* cached misfit went through a file (numpy, not DataArray) *)
  s_gradient : option tag;
  s_efield : nat -> option tag;  (* memory: the field; file mode: Some _ = a file name is stored *)
  s_bfield : bool;             (* attribute _dict_bfield exists *)
  s_syn : nat -> tag;
  s_residual : option tag;
  s_weights : option tag;
  s_jvec : option tag;
  s_tol : tolk                 (* solver_opts['tol'] *)
}.

Record world := mkWorld {
  w_n : nat;                   (* number of source-frequency slots *)
  w_file : bool;               (* file_dir set *)
  w_sims : list sim;
  w_store : nat -> option tag  (* file mode: content of efield_<slot>_out.h5 *)
}.

Definition init_sim (m : nat) : sim :=
  mkSim m false None false None (fun _ => None) false (fun _ => NaN) None None None TFwd.
Definition init_world (n : nat) (file : bool) (m : nat) : world :=
  mkWorld n file [init_sim m] (fun _ => None).

Definition isSome {A} (o : option A) : bool := match o with Some _ => true | None => false end.
Definition mem (i : nat) (l : list nat) : bool := existsb (Nat.eqb i) l.

Fixpoint upd_nth {A} (k : nat) (x : A) (l : list A) : list A :=
  match l, k with
  | [], _ => []
  | _ :: t, O => x :: t
  | h :: t, S k' => h :: upd_nth k' x t
  end.

(* ---- setters (explicit, to keep definitions short) ---- *)
Definition set_tol (s : sim) (t : tolk) : sim :=
  mkSim (s_model s) (s_computed s) (s_misfit s) (s_misfit_np s) (s_gradient s) (s_efield s)
        (s_bfield s) (s_syn s) (s_residual s) (s_weights s) (s_jvec s) t.
Definition set_fields (s : sim) (e : nat -> option tag) (y : nat -> tag) : sim :=
  mkSim (s_model s) (s_computed s) (s_misfit s) (s_misfit_np s) (s_gradient s) e
        (s_bfield s) y (s_residual s) (s_weights s) (s_jvec s) (s_tol s).
Definition set_computed (s : sim) (b : bool) : sim :=
  mkSim (s_model s) b (s_misfit s) (s_misfit_np s) (s_gradient s) (s_efield s)
        (s_bfield s) (s_syn s) (s_residual s) (s_weights s) (s_jvec s) (s_tol s).
Definition set_misfit (s : sim) (mf r wt : option tag) : sim :=
  mkSim (s_model s) (s_computed s) mf false (s_gradient s) (s_efield s)
        (s_bfield s) (s_syn s) r wt (s_jvec s) (s_tol s).
Definition set_grad (s : sim) (g : option tag) (b : bool) : sim :=
  mkSim (s_model s) (s_computed s) (s_misfit s) (s_misfit_np s) g (s_efield s)
        b (s_syn s) (s_residual s) (s_weights s) (s_jvec s) (s_tol s).
Definition set_residual (s : sim) (r : option tag) : sim :=
  mkSim (s_model s) (s_computed s) (s_misfit s) (s_misfit_np s) (s_gradient s) (s_efield s)
        (s_bfield s) (s_syn s) r (s_weights s) (s_jvec s) (s_tol s).
Definition set_jvec (s : sim) (j : option tag) : sim :=
  mkSim (s_model s) (s_computed s) (s_misfit s) (s_misfit_np s) (s_gradient s) (s_efield s)
        (s_bfield s) (s_syn s) (s_residual s) (s_weights s) j (s_tol s).

(* ---- reading a field slot: _dict_get('efield', ...) ---- *)
Definition eff (file : bool) (store : nat -> option tag) (s : sim) (i : nat) : option tag :=
  match s_efield s i with
  | None => None
  | Some t => if file then (match store i with None => Some Missing | Some t' => Some t' end)
              else Some t
  end.
Definition missing (file : bool) (store : nat -> option tag) (s : sim) (i : nat) : bool :=
  match eff file store s i with Some Missing => true | _ => false end.

(* result of an internal sub-step *)
Record res := mkRes { r_sim : sim; r_store : nat -> option tag; r_trace : list solve;
                      r_err : option err }.

(* ---- _compute(slots): forward solves ----
   collect phase: reads the stored field of every slot (warm start; a missing
   file raises) and sets solver_opts['tol'] = tol_forward; then the solves; then
   field, and synthetic responses of each slot are stored. *)
Definition compute_slots (file : bool) (store : nat -> option tag) (s : sim) (sl : list nat) : res :=
  if existsb (missing file store s) sl then
    mkRes (match sl with
           | i :: _ => if missing file store s i then s else set_tol s TFwd
           | [] => s end) store [] (Some EFile)
  else
    let m := s_model s in
    let tr := map (fun i => mkSolve KF i TFwd (isSome (eff file store s i)) (s_model s)) sl in
    let e' := fun i => if mem i sl then Some (Efield m i) else s_efield s i in
    let y' := fun i => if mem i sl then Syn m i else s_syn s i in
    let st' := fun i => if file && mem i sl then Some (Efield m i) else store i in
    mkRes (set_fields (match sl with [] => s | _ => set_tol s TFwd end) e' y') st' tr None.

(* get_efield for one slot: computes it if the dictionary entry is None *)
Definition ensure_slot (file : bool) (store : nat -> option tag) (s : sim) (i : nat) : res :=
  match eff file store s i with
  | Some Missing => mkRes s store [] (Some EFile)
  | Some _ => mkRes s store [] None
  | None => compute_slots file store s [i]
  end.

(* for slot in 0..n-1: get_efield(slot)   (repaired gradient / jvec loops) *)
Definition ensure_all (n : nat) (file : bool) (store : nat -> option tag) (s : sim) : res :=
  let stop := find (missing file store s) (seq 0 n) in
  let upto := match stop with Some k => k | None => n end in
  let todo := filter (fun i => negb (isSome (s_efield s i))) (seq 0 upto) in
  let m := s_model s in
  let tr := map (fun i => mkSolve KF i TFwd false (s_model s)) todo in
  let e' := fun i => if mem i todo then Some (Efield m i) else s_efield s i in
  let y' := fun i => if mem i todo then Syn m i else s_syn s i in
  let st' := fun i => if file && mem i todo then Some (Efield m i) else store i in
  mkRes (set_fields (match todo with [] => s | _ => set_tol s TFwd end) e' y') st' tr
        (match stop with Some _ => Some EFile | None => None end).

(* ---- tags of derived quantities ---- *)
Definition all_syn (n : nat) (y : nat -> tag) (m : nat) : bool :=
  forallb (fun i => match y i with Syn m' i' => Nat.eqb m' m && Nat.eqb i' i | _ => false end) (seq 0 n).
Definition all_ef (n : nat) (e : nat -> option tag) (m : nat) : bool :=
  forallb (fun i => match e i with Some (Efield m' i') => Nat.eqb m' m && Nat.eqb i' i | _ => false end) (seq 0 n).
Definition residual_of (n : nat) (s : sim) : tag :=
  if all_syn n (s_syn s) (s_model s) then Residual (s_model s) else Unknown.
Definition misfit_of (r wt : option tag) : tag :=
  match r, wt with Some (Residual m), Some Weights => Misfit m | _, _ => Unknown end.
Definition grad_of (n : nat) (file : bool) (store : nat -> option tag) (s : sim) : tag :=
  let m := s_model s in
  if all_ef n (eff file store s) m then
    match s_residual s, s_weights s with
    | Some (Residual m'), Some Weights => if Nat.eqb m' m then Grad m else Unknown
    | Some (WOverW w), Some Weights => Jt m w
    | _, _ => Unknown
    end
  else Unknown.
Definition jv_of (n : nat) (file : bool) (store : nat -> option tag) (s : sim) (v : nat) : tag :=
  if all_ef n (eff file store s) (s_model s) then Jv (s_model s) v else Unknown.
Definition hof (t : tag) : tag := match t with Efield m i => Hfield m i | t' => t' end.

(* ---- public operations on one simulation ---- *)
Definition do_compute (n : nat) (file : bool) (store : nat -> option tag) (s : sim) : res :=
  let r := compute_slots file store s (seq 0 n) in
  match r_err r with
  | Some _ => r
  | None => mkRes (set_computed (r_sim r) true) (r_store r) (r_trace r) None
  end.

Definition do_misfit (n : nat) (file : bool) (store : nat -> option tag) (s : sim) : res :=
  match s_misfit s with
  | Some _ => mkRes s store [] None
  | None =>
    let r := if s_computed s then mkRes s store [] None else do_compute n file store s in
    match r_err r with
    | Some _ => r
    | None =>
      let s1 := r_sim r in
      let wt := match s_weights s1 with Some t => Some t | None => Some Weights end in
      let rs := Some (residual_of n s1) in
      mkRes (set_misfit s1 (Some (misfit_of rs wt)) rs wt) (r_store r) (r_trace r) None
    end
  end.

Definition misfit_ret (q : quirks) (s : sim) : ret :=
  match s_misfit s with
  | Some t => if q_misfit q && s_misfit_np s then RBadType else RVal t
  | None => RNone
  end.

Definition bsolves (n : nat) (warm : bool) (m : nat) : list solve :=
  map (fun i => mkSolve KB i TGrad warm m) (seq 0 n).

(* the part of `gradient` after `_ = self.misfit`: _bcompute, then the loop
   over the slots that multiplies forward and back-propagated fields *)
Definition grad_core (q : quirks) (n : nat) (file : bool) (store : nat -> option tag) (s1 : sim) : res :=
  (* _bcompute: creates the bfield dictionaries, sets tol_gradient, solves *)
  let tb := bsolves n (s_bfield s1) (s_model s1) in
  let s2 := set_tol (set_grad s1 None true) TGrad in
  if q_keep q then
    (* loop reads the dictionary directly *)
    if existsb (missing file store s2) (seq 0 n)
    then mkRes s2 store tb (Some EFile)
    else if forallb (fun i => isSome (s_efield s2 i)) (seq 0 n)
    then mkRes (set_grad s2 (Some (grad_of n file store s2)) true) store tb None
    else mkRes s2 store tb (Some EAttr)
  else
    let r2 := ensure_all n file store s2 in
    match r_err r2 with
    | Some _ => mkRes (r_sim r2) (r_store r2) (tb ++ r_trace r2) (r_err r2)
    | None =>
      let s3 := r_sim r2 in
      mkRes (set_grad s3 (Some (grad_of n file (r_store r2) s3)) true) (r_store r2)
            (tb ++ r_trace r2) None
    end.

Definition do_gradient (q : quirks) (n : nat) (file : bool) (store : nat -> option tag) (s : sim) : res :=
  match s_gradient s with
  | Some _ => mkRes s store [] None
  | None =>
    let r := do_misfit n file store s in
    match r_err r with
    | Some _ => r
    | None =>
      let r2 := grad_core q n file (r_store r) (r_sim r) in
      mkRes (r_sim r2) (r_store r2) (r_trace r ++ r_trace r2) (r_err r2)
    end
  end.

Definition gsolves (n : nat) (m : nat) : list solve := map (fun i => mkSolve KG i TGrad false m) (seq 0 n).

(* the part of `jvec` after `_ = self.misfit` *)
Definition jvec_core (q : quirks) (n : nat) (file : bool) (store : nat -> option tag) (s1 : sim) (v : nat) : res :=
  if q_keep q then
    match n with
    | O => mkRes (set_jvec s1 (Some (jv_of n file store s1 v))) store [] None
    | S _ =>
      (* the collect loop stops at the first slot it cannot read *)
      match find (fun i => negb (isSome (s_efield s1 i)) || missing file store s1 i) (seq 0 n) with
      | Some k =>
        mkRes (match k with O => s1 | S _ => set_tol s1 TGrad end) store []
              (Some (if isSome (s_efield s1 k) then EFile else EAttr))
      | None =>
        mkRes (set_jvec (set_tol s1 TGrad) (Some (jv_of n file store s1 v))) store (gsolves n (s_model s1)) None
      end
    end
  else
    let r2 := ensure_all n file store s1 in
    match r_err r2 with
    | Some _ =>
      (* slots collected before the failing one have set tol_gradient last *)
      mkRes (match find (missing file store s1) (seq 0 n) with
             | Some (S _) => set_tol (r_sim r2) TGrad
             | _ => r_sim r2 end)
            (r_store r2) (r_trace r2) (r_err r2)
    | None =>
      let s3 := r_sim r2 in
      mkRes (set_jvec (match n with O => s3 | S _ => set_tol s3 TGrad end)
                      (Some (jv_of n file (r_store r2) s3 v)))
            (r_store r2) (r_trace r2 ++ gsolves n (s_model s1)) None
    end.

Definition do_jvec (q : quirks) (n : nat) (file : bool) (store : nat -> option tag) (s : sim) (v : nat) : res :=
  let r := do_misfit n file store s in
  match r_err r with
  | Some _ => r
  | None =>
    let r2 := jvec_core q n file (r_store r) (r_sim r) v in
    mkRes (r_sim r2) (r_store r2) (r_trace r ++ r_trace r2) (r_err r2)
  end.

Definition wow (s : sim) (w : nat) : option tag :=
  match s_weights s with Some Weights => Some (WOverW w) | _ => Some Unknown end.

(* jtvec as found: overwrite residual, drop the gradient cache, return .gradient *)
Definition do_jtvec_found (n : nat) (q : quirks) (file : bool) (store : nat -> option tag) (s : sim) (w : nat) : res * ret :=
  match s_residual s, s_weights s with
  | Some _, Some _ =>
    let s1 := set_grad (set_residual s (wow s w)) None false in
    let r := do_gradient q n file store s1 in
    (r, match r_err r with Some e => RErr e
                         | None => match s_gradient (r_sim r) with Some t => RVal t | None => RNone end end)
  | _, _ => (mkRes s store [] (Some EAttr), RErr EAttr)
  end.

(* jtvec repaired: ensure misfit; save residual and gradient; compute; restore *)
Definition do_jtvec_fixed (n : nat) (q : quirks) (file : bool) (store : nat -> option tag) (s : sim) (w : nat) : res * ret :=
  let r0 := do_misfit n file store s in
  match r_err r0 with
  | Some e => (r0, RErr e)
  | None =>
    let s0 := r_sim r0 in
    let saved_r := s_residual s0 in
    let saved_g := s_gradient s0 in
    let s1 := set_grad (set_residual s0 (wow s0 w)) None false in
    let r := do_gradient q n file (r_store r0) s1 in
    let s2 := set_grad (set_residual (r_sim r) saved_r) saved_g false in
    (mkRes s2 (r_store r) (r_trace r0 ++ r_trace r) (r_err r),
     match r_err r with Some e => RErr e
                      | None => match s_gradient (r_sim r) with Some t => RVal t | None => RNone end end)
  end.

Definition do_clean (file : bool) (store : nat -> option tag) (s : sim) (c : cwhat) : sim * (nat -> option tag) :=
  let s1 := set_grad (set_fields s (fun _ => None) (s_syn s)) (s_gradient s) false in
  let st := if file then (fun _ => None) else store in
  match c with
  | CKeep => (s1, st)
  | _ => (mkSim (s_model s1) false None false None (s_efield s1) false (fun _ => NaN)
                None None (s_jvec s1) (s_tol s1), st)
  end.

Definition via_file (x : via) : bool := match x with VCopy | VDict => false | _ => true end.

(* to_dict(what) [sets solver_opts['tol'] = tol_forward on the source] + from_dict *)
Definition export_new (s : sim) (x : via) (d : dwhat) : sim :=
  let keep_fields := match d with DComputed | DAll => true | _ => false end in
  let plain := match d with DPlain => true | _ => false end in
  mkSim (s_model s)
        (if plain then false else s_computed s)
        (if plain then None else s_misfit s)
        (if plain then false else (s_misfit_np s || (via_file x && isSome (s_misfit s))))
        (if plain then None else s_gradient s)
        (if keep_fields then s_efield s else fun _ => None)
        (if keep_fields then s_bfield s else false)
        (if plain then fun _ => NaN else s_syn s)
        (if plain then None else s_residual s)
        (if plain then None else s_weights s)
        (s_jvec s)
        TFwd.

Definition json_fails (q : quirks) (s : sim) (x : via) : bool :=
  q_misfit q && match x with VJson => true | _ => false end
  && isSome (s_misfit s) && negb (s_misfit_np s).

(* ---- one step of the world: operation o on simulation k ---- *)
Definition put (w : world) (k : nat) (s : sim) (st : nat -> option tag) : world :=
  mkWorld (w_n w) (w_file w) (upd_nth k s (w_sims w)) st.
Definition of_res (w : world) (k : nat) (r : res) (v : ret) : world * obs :=
  (put w k (r_sim r) (r_store r),
   mkObs (match r_err r with Some e => RErr e | None => v end) (r_trace r)).

Definition step (q : quirks) (w : world) (ko : nat * sop) : world * obs :=
  let (k, o) := ko in
  match nth_error (w_sims w) k with
  | None => (w, mkObs RNone [])
  | Some s =>
    let n := w_n w in let file := w_file w in let store := w_store w in
    match o with
    | OCompute => let r := do_compute n file store s in of_res w k r RNone
    | OMisfit => let r := do_misfit n file store s in of_res w k r (misfit_ret q (r_sim r))
    | OGradient =>
        let r := do_gradient q n file store s in
        of_res w k r (match s_gradient (r_sim r) with Some t => RVal t | None => RNone end)
    | OJvec v =>
        let r := do_jvec q n file store s v in
        of_res w k r (match s_jvec (r_sim r) with Some t => RVal t | None => RNone end)
    | OJtvec wi =>
        let (r, v) := if q_jtvec q then do_jtvec_found n q file store s wi
                      else do_jtvec_fixed n q file store s wi in
        of_res w k r v
    | OGetE i =>
        let r := ensure_slot file store s i in
        of_res w k r (match eff file (r_store r) (r_sim r) i with Some t => RVal t | None => RNone end)
    | OGetH i =>
        let r := ensure_slot file store s i in
        of_res w k r (match eff file (r_store r) (r_sim r) i with Some t => RVal (hof t) | None => RNone end)
    | OClean c => let (s', st) := do_clean file store s c in (put w k s' st, mkObs RNone [])
    | OExport x d =>
        let s' := set_tol s TFwd in
        if json_fails q s x then (put w k s' store, mkObs (RErr EType) [])
        else (mkWorld n file (upd_nth k s' (w_sims w) ++ [export_new s x d]) store,
              mkObs (RNew (length (w_sims w))) [])
    | OSetModel m all _ =>
        let c := if all then CAll else CComputed in
        let s1 := mkSim m (s_computed s) (s_misfit s) (s_misfit_np s) (s_gradient s) (s_efield s)
                        (s_bfield s) (s_syn s) (s_residual s) (s_weights s) (s_jvec s) (s_tol s) in
        let (s', st) := do_clean file store s1 c in (put w k s' st, mkObs RNone [])
    end
  end.

Definition step_unfixed : world -> nat * sop -> world * obs := step as_found.

Definition run (q : quirks) (w : world) (ops : list (nat * sop)) : world :=
  fold_left (fun w o => fst (step q w o)) ops w.

(* the three queries of the property *)
Inductive query := QSynthetic | QMisfit | QGradient.
Definition syn_list (n : nat) (s : sim) : list tag := map (s_syn s) (seq 0 n).
Definition ask (q : quirks) (w : world) (k : nat) (qu : query) : ret * list tag :=
  match qu with
  | QSynthetic => let w' := fst (step q w (k, OCompute)) in
                  (o_ret (snd (step q w (k, OCompute))),
                   match nth_error (w_sims w') k with Some s => syn_list (w_n w) s | None => [] end)
  | QMisfit => (o_ret (snd (step q w (k, OMisfit))), [])
  | QGradient => (o_ret (snd (step q w (k, OGradient))), [])
  end.

(* ---- integer dump for the correspondence ---- *)
Local Open Scope Z_scope.
Definition zn (n : nat) : Z := Z.of_nat n.
Definition enc_tag (t : tag) : list Z :=
  match t with
  | NaN => [1; 0; 0] | Syn m i => [2; zn m; zn i] | Misfit m => [3; zn m; 0]
  | Grad m => [4; zn m; 0] | Jt m w => [5; zn m; zn w] | Jv m v => [6; zn m; zn v]
  | Efield m i => [7; zn m; zn i] | Hfield m i => [11; zn m; zn i]
  | Residual m => [8; zn m; 0] | WOverW w => [9; 0; zn w] | Weights => [10; 0; 0]
  | Missing => [12; 0; 0] | Unknown => [13; 0; 0]
  end.
Definition enc_ot (o : option tag) : list Z := match o with None => [0; 0; 0] | Some t => enc_tag t end.
Definition zb (b : bool) : Z := if b then 1 else 0.
Definition enc_sim (n : nat) (file : bool) (store : nat -> option tag) (s : sim) : list Z :=
  [zn (s_model s); zb (s_computed s)] ++ enc_ot (s_misfit s) ++ enc_ot (s_gradient s)
  ++ flat_map (fun i => enc_ot (eff file store s i)) (seq 0 n)
  ++ [zb (s_bfield s)]
  ++ flat_map (fun i => enc_tag (s_syn s i)) (seq 0 n)
  ++ enc_ot (s_residual s) ++ enc_ot (s_weights s) ++ enc_ot (s_jvec s)
  ++ [match s_tol s with TFwd => 0 | TGrad => 1 end].
Definition enc_world (w : world) : list (list Z) :=
  map (enc_sim (w_n w) (w_file w) (w_store w)) (w_sims w).
Definition enc_solve (s : solve) : list Z :=
  [match so_kind s with KF => 0 | KB => 1 | KG => 2 end; zn (so_slot s);
   match so_tol s with TFwd => 0 | TGrad => 1 end; zb (so_warm s); zn (so_model s)].
Definition enc_ret (r : ret) : list Z :=
  match r with
  | RNone => [0; 0; 0; 0] | RVal t => 1 :: enc_tag t | RBadType => [2; 0; 0; 0]
  | RNew k => [3; zn k; 0; 0]
  | RErr e => [4; match e with EAttr => 1 | EFile => 2 | EType => 3 | EInj => 7 end; 0; 0]
  end.
Definition enc_obs (o : obs) : list Z := enc_ret (o_ret o) ++ flat_map enc_solve (o_trace o).

(* run a history, dumping observation and world after every step *)
Fixpoint run_dump (q : quirks) (w : world) (ops : list (nat * sop)) : list (list Z * list (list Z)) :=
  match ops with
  | [] => []
  | o :: rest => let (w', ob) := step q w o in (enc_obs ob, enc_world w') :: run_dump q w' rest
  end.
