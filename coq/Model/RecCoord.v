(* Model/RecCoord.v -- property C09: the glue that turns (survey, source) into
   the coordinates at which Simulation._get_responses samples the field.

   Hand model (definitions only) of
     electrodes.Receiver.center_abs / coordinates_abs   (absolute receivers:
        own coordinates; relative receivers: source centre + offset),
     surveys.Survey._irec_types                         (indices of the electric
        and of the magnetic receivers, in survey order),
     surveys.Survey._rec_types_coord(source)            (per-source cache
        self._rec_coord: a dict  source key -> fresh (nrec, 5) array; the
        returned tuples are built with integer-array indexing, i.e. COPIES),
     simulations.Simulation._get_responses              (one get_receiver call
        for all electric receivers of the source on the E field, one for all
        magnetic ones on the H field).
   The cache is STATE: [step] is a state machine over requests; an unknown
   source key raises KeyError (outcome [KeyErr]).  Over any number type with an
   addition (executed on Q, theorems for every F).  Tied to /repo by the history
   stream of py/props/c09.py on every run. *)
From Coq Require Import ZArith Bool List.
From V Require Import Base.FieldSig Model.Interp.
Import ListNotations.
Local Open Scope Z_scope.

Section RecCoord.
  Context {F : Type} {O : FOps F}.

  (* (x, y, z), (azimuth, elevation) *)
  Definition coord5 : Type := ((F * F * F) * (F * F))%type.

  Record receiver : Type := mkRx {
    rc_rel : bool;            (* relative=True: coordinates are offsets from the source centre *)
    rc_el  : bool;            (* xtype == 'electric' *)
    rc_xyz : F * F * F;       (* receiver.center as provided *)
    rc_ang : F * F            (* azimuth, elevation *)
  }.

  Definition add3 (c o : F * F * F) : F * F * F :=
    (Fadd (fst (fst c)) (fst (fst o)), Fadd (snd (fst c)) (snd (fst o)), Fadd (snd c) (snd o)).

  (* Receiver.coordinates_abs(source) for a point receiver; [centre] = source.center *)
  Definition coordinates_abs (centre : F * F * F) (r : receiver) : coord5 :=
    (if rc_rel r then add3 centre (rc_xyz r) else rc_xyz r, rc_ang r).

  Record survey : Type := mkSurvey {
    sv_sources   : list (Z * (F * F * F));     (* source key -> source.center *)
    sv_receivers : list receiver               (* survey order *)
  }.

  Fixpoint lookup {A : Type} (k : Z) (l : list (Z * A)) : option A :=
    match l with
    | [] => None
    | (k', v) :: t => if Z.eqb k k' then Some v else lookup k t
    end.

  (* np.array([r.coordinates_abs(src) for r in receivers.values()]) *)
  Definition rows (sv : survey) (centre : F * F * F) : list coord5 :=
    map (coordinates_abs centre) (sv_receivers sv).

  (* rows[ind], ind = np.nonzero(types == el)[0]  (survey order is kept) *)
  Definition select (el : bool) (rs : list receiver) (rw : list coord5) : list coord5 :=
    map snd (filter (fun p => Bool.eqb (rc_el (fst p)) el) (combine rs rw)).

  (* self._rec_coord *)
  Definition cache : Type := list (Z * list coord5).

  Inductive outcome : Type :=
  | Coords (e m : list coord5)      (* (erec_coord, mrec_coord) *)
  | KeyErr                          (* self.sources[source] raised KeyError *)
  | Done.                           (* an operation without a result *)

  Definition answer (sv : survey) (rw : list coord5) : outcome :=
    Coords (select true (sv_receivers sv) rw) (select false (sv_receivers sv) rw).

  (* Survey._rec_types_coord(source) *)
  Definition request (sv : survey) (st : cache) (s : Z) : cache * outcome :=
    match lookup s st with
    | Some rw => (st, answer sv rw)
    | None =>
        match lookup s (sv_sources sv) with
        | None => (st, KeyErr)                 (* the right-hand side raises before the store *)
        | Some c => ((s, rows sv c) :: st, answer sv (rows sv c))
        end
    end.

  (* operations of a history on ONE Survey object *)
  Inductive op : Type :=
  | Req (s : Z)        (* survey._rec_types_coord(s), as Simulation._get_responses does *)
  | Scribble.          (* the caller overwrites, in place, the arrays returned by the
                          previous request: they are copies, the cache is not touched *)

  Definition step (sv : survey) (st : cache) (o : op) : cache * outcome :=
    match o with
    | Req s => request sv st s
    | Scribble => (st, Done)
    end.

  Fixpoint run (sv : survey) (st : cache) (ops : list op) : cache * list outcome :=
    match ops with
    | [] => (st, [])
    | o :: t => let (st1, a) := step sv st o in
                let (st2, r) := run sv st1 t in (st2, a :: r)
    end.

  (* what the property requires: a function of (survey, source) only *)
  Definition spec_coords (sv : survey) (el : bool) (centre : F * F * F) : list coord5 :=
    map (coordinates_abs centre) (filter (fun r => Bool.eqb (rc_el r) el) (sv_receivers sv)).

  Definition spec (sv : survey) (o : op) : outcome :=
    match o with
    | Req s => match lookup s (sv_sources sv) with
               | Some c => Coords (spec_coords sv true c) (spec_coords sv false c)
               | None => KeyErr
               end
    | Scribble => Done
    end.

  (* cache invariant: every entry is the row table of ITS source *)
  Definition coherent (sv : survey) (st : cache) : Prop :=
    forall s rw, lookup s st = Some rw ->
      exists c, lookup s (sv_sources sv) = Some c /\ rw = rows sv c.

  (* ---- Simulation._get_responses: sample the field of source s at the cached
     coordinates; [rotf] = electrodes.rotation (cosdg/sindg, an oracle). *)
  Variable leb : F -> F -> bool.
  Variables (nx ny nz : Z) (ndx ndy ndz : Z -> F) (eps : F).
  Variable rotf : F -> F -> F * F * F.

  Definition to_batch (c : coord5) : (F * F * F) * (F * F * F) :=
    (fst c, rotf (fst (snd c)) (snd (snd c))).

  (* el = true: the electric receivers on the E field (fx fy fz on edges);
     el = false: the magnetic receivers on the H field (on faces). *)
  Definition get_responses (sv : survey) (st : cache) (s : Z) (el : bool)
             (fx fy fz : Z -> Z -> Z -> F) : cache * option (list (option F)) :=
    match request sv st s with
    | (st', Coords e m) =>
        (st', Some (get_receiver_batch leb nx ny nz ndx ndy ndz eps el fx fy fz
                      (map to_batch (if el then e else m))))
    | (st', _) => (st', None)
    end.
End RecCoord.
