(* Model/GriddingExec.v -- C16: executable instance of Model/Gridding.v on Q
   (used only by the correspondence files Corr/c16_*.v) and output encoders.
   Oracles are tables recorded from the implementation's own calls:
     brentq   : the (tdmin, n) |-> alph answers scipy gave during the run
     argsort  : the permutation numpy produced for the 13 squeeze factors
     skin     : property value |-> skin depth as emg3d.meshes.skin_depth returns it *)
From Coq Require Import ZArith QArith Qround Qabs Bool List.
From V Require Import Base.FieldSig Base.ExecQ Model.Gridding Model.GriddingSession.
Import ListNotations.

Definition qleb (x y : Q) : bool := Qle_bool x y.
Definition qfloor (x : Q) : Z := Qfloor x.

(* recorded brentq answers: (tdmin, n, alph); lookup by n and tdmin (1e-9 rel.) *)
Definition brentq_tab (tab : list (Q * Z * Q)) (tdmin delta : Q) (n : Z) : Q :=
  match find (fun r => (Z.eqb (snd (fst r)) n
                        && Qle_bool (Qabs (fst (fst r) - tdmin))
                                    (Qabs tdmin * (1 # 1000000000)))%bool) tab with
  | Some r => snd r
  | None => 0%Q
  end.

Definition skin_tab (tab : list (Q * Q)) (p : Q) : Q :=
  match find (fun r => Qeq_bool (fst r) p) tab with Some r => snd r | None => 0%Q end.

Definition warn_code (w : Warn) : Z := match w with WFuture => 1 | WSea => 2 end.

(* (warn codes, result code, [nx; nhxo], [x0; sa; ca] ++ hx) *)
Definition out_oaw (o : @OawOut Q) : list Z * Z * list Z * list (Z * Z) :=
  match o_res o with
  | RErrNoDomain => (map warn_code (o_warns o), 1, [], [])
  | RErrSea => (map warn_code (o_warns o), 2, [], [])
  | RErrRuntime => (map warn_code (o_warns o), 3, [], [])
  | RNone => (map warn_code (o_warns o), 4, [], [])
  | ROk x0 hx nx sa ca n =>
      (map warn_code (o_warns o), 0, [nx; Z.of_nat n], map out_q (x0 :: sa :: ca :: hx))
  end%Z.

Definition out_stretch (r : option ((Q * Q) * list Q * Z)) : Z * list (Z * Z) :=
  match r with
  | None => ((-1)%Z, [])
  | Some t => (snd t, map out_q (fst (fst (fst t)) :: snd (fst (fst t)) :: snd (fst t)))
  end.

Definition out_sea (r : (Q * Q) * list Q * bool) : bool * list (Z * Z) :=
  (snd r, map out_q (fst (fst (fst r)) :: snd (fst (fst r)) :: snd (fst r))).

(* (warn codes, code, origin ++ [] , hx, hy, hz); code 0 ok, 10+dir ValueError,
   3 RuntimeError, 9 malformed *)
Definition out_cm (o : @CmOut Q)
  : list Z * Z * list (Z * Z) * list (Z * Z) * list (Z * Z) * list (Z * Z) :=
  match cm_res o with
  | CErrValue d => (map warn_code (cm_warns o), (10 + Z.of_nat d)%Z, [], [], [], [])
  | CErrRuntime => (map warn_code (cm_warns o), 3%Z, [], [], [], [])
  | CMalformed => (map warn_code (cm_warns o), 9%Z, [], [], [], [])
  | COk org hx hy hz =>
      (map warn_code (cm_warns o), 0%Z,
       map out_q [fst (fst org); snd (fst org); snd org],
       map out_q hx, map out_q hy, map out_q hz)
  end.

Definition out_opt_zlist (r : option (list Z)) : Z * list Z :=
  match r with None => ((-1)%Z, []) | Some l => (0%Z, l) end.

(* ---- the per-direction arguments construct_mesh hands to origin_and_widths ---- *)
Definition out_opt_pair (p : option (Q * Q)) : list (Z * Z) :=
  match p with None => [] | Some ab => [out_q (fst ab); out_q (snd ab)] end.
Definition out_limits (l : @Limits Q) : list (Z * Z) :=
  match l with LimNone => [] | LimOne v => [out_q v] | LimTwo a b => [out_q a; out_q b] end.
Definition out_coe (c : option bool) : Z :=
  match c with None => (-1)%Z | Some false => 0%Z | Some true => 1%Z end.
(* (present, sds, [center; s0; s1; pps; lambda_factor; max_buffer], domain, distance,
    (has vector, vector), sea, limits, (center_on_edge, lambda_from_center, raise_error), cells) *)
Definition out_oawin (o : option (@OawIn Q))
  : Z * list (Z * Z) * list (Z * Z) * list (Z * Z) * list (Z * Z) * (Z * list (Z * Z))
    * list (Z * Z) * list (Z * Z) * (Z * bool * bool) * list Z :=
  match o with
  | None => (0%Z, [], [], [], [], (0%Z, []), [], [], ((-1)%Z, false, false), [])
  | Some i =>
      (1%Z, map out_q (i_sds i),
       map out_q [i_center i; fst (i_stretching i); snd (i_stretching i); i_pps i;
                  i_lambda_factor i; i_max_buffer i],
       out_opt_pair (i_domain i), out_opt_pair (i_distance i),
       match i_vector i with None => (0%Z, []) | Some v => (1%Z, map out_q v) end,
       match i_sea i with None => [] | Some s => [out_q s] end,
       out_limits (i_limits i),
       (out_coe (i_center_on_edge i), i_lambda_from_center i, i_raise_error i),
       i_cell_numbers i)
  end.
Definition out_cm_inputs (t : option (@OawIn Q) * option (@OawIn Q) * option (@OawIn Q)) :=
  [out_oawin (fst (fst t)); out_oawin (snd (fst t)); out_oawin (snd t)].

(* ---- one session (Model/GriddingSession.v): outcomes of a history + final heap ----
   every outcome as (warn codes, code, integers, numbers):
     100 Done, 101 BadHandle, 102 ValueErr, 103 RInts l,
     origin_and_widths: as out_oaw (codes 0..4),
     construct_mesh: 200 + code of out_cm, integers = the three cell counts,
                     numbers = origin ++ hx ++ hy ++ hz *)
Definition out_outcome (o : @Outcome Q) : list Z * Z * list Z * list (Z * Z) :=
  match o with
  | Done => ([], 100, [], [])
  | BadHandle => ([], 101, [], [])
  | ValueErr => ([], 102, [], [])
  | RInts l => ([], 103, l, [])
  | ROaw r => out_oaw r
  | RCm r =>
      match out_cm r with
      | (w, c, org, hx, hy, hz) =>
          (w, 200 + c, [Z.of_nat (length hx); Z.of_nat (length hy); Z.of_nat (length hz)],
           org ++ hx ++ hy ++ hz)
      end
  end%Z.
Definition out_obj (o : @Obj Q) : Z * list Z * list (Z * Z) :=
  match o with OInt l => (0%Z, l, []) | ONum l => (1%Z, [], map out_q l) end.
Definition out_session (r : @Heap Q * list (@Outcome Q))
  : list (list Z * Z * list Z * list (Z * Z)) * list (Z * list Z * list (Z * Z)) :=
  (map out_outcome (snd r), map out_obj (fst r)).
