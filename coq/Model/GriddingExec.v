(* Model/GriddingExec.v -- C16: executable instance of Model/Gridding.v on Q
   (used only by the correspondence files Corr/c16_*.v) and output encoders.
   Oracles are tables recorded from the implementation's own calls:
     brentq   : the (tdmin, n) |-> alph answers scipy gave during the run
     argsort  : the permutation numpy produced for the 13 squeeze factors
     skin     : property value |-> skin depth as emg3d.meshes.skin_depth returns it *)
From Coq Require Import ZArith QArith Qround Qabs Bool List.
From V Require Import Base.FieldSig Base.ExecQ Model.Gridding.
Import ListNotations.

Definition qleb (x y : Q) : bool := Qle_bool x y.
Definition qfloor (x : Q) : Z := Qfloor x.

(* recorded brentq answers: (tdmin, n, alph); lookup by n and tdmin (1e-9 rel.) *)
Definition brentq_tab (tab : list (Q * Z * Q)) (tdmin delta : Q) (n : Z) : Q :=
  match find (fun r => (Z.eqb (snd (fst r)) n
                        && Qle_bool (Qabs (fst (fst r) - tdmin))
                                    (Qabs tdmin * (1 # 1000000000)))%bool) tab with
  | Some r => snd r
  | None => 0%Q
  end.

Definition skin_tab (tab : list (Q * Q)) (p : Q) : Q :=
  match find (fun r => Qeq_bool (fst r) p) tab with Some r => snd r | None => 0%Q end.

Definition warn_code (w : Warn) : Z := match w with WFuture => 1 | WSea => 2 end.

(* (warn codes, result code, [nx; nhxo], [x0; sa; ca] ++ hx) *)
Definition out_oaw (o : @OawOut Q) : list Z * Z * list Z * list (Z * Z) :=
  match o_res o with
  | RErrNoDomain => (map warn_code (o_warns o), 1, [], [])
  | RErrSea => (map warn_code (o_warns o), 2, [], [])
  | RErrRuntime => (map warn_code (o_warns o), 3, [], [])
  | RNone => (map warn_code (o_warns o), 4, [], [])
  | ROk x0 hx nx sa ca n =>
      (map warn_code (o_warns o), 0, [nx; Z.of_nat n], map out_q (x0 :: sa :: ca :: hx))
  end%Z.

Definition out_stretch (r : option ((Q * Q) * list Q * Z)) : Z * list (Z * Z) :=
  match r with
  | None => ((-1)%Z, [])
  | Some t => (snd t, map out_q (fst (fst (fst t)) :: snd (fst (fst t)) :: snd (fst t)))
  end.

Definition out_sea (r : (Q * Q) * list Q * bool) : bool * list (Z * Z) :=
  (snd r, map out_q (fst (fst (fst r)) :: snd (fst (fst r)) :: snd (fst r))).

(* (warn codes, code, origin ++ [] , hx, hy, hz); code 0 ok, 10+dir ValueError,
   3 RuntimeError, 9 malformed *)
Definition out_cm (o : @CmOut Q)
  : list Z * Z * list (Z * Z) * list (Z * Z) * list (Z * Z) * list (Z * Z) :=
  match cm_res o with
  | CErrValue d => (map warn_code (cm_warns o), (10 + Z.of_nat d)%Z, [], [], [], [])
  | CErrRuntime => (map warn_code (cm_warns o), 3%Z, [], [], [], [])
  | CMalformed => (map warn_code (cm_warns o), 9%Z, [], [], [], [])
  | COk org hx hy hz =>
      (map warn_code (cm_warns o), 0%Z,
       map out_q [fst (fst org); snd (fst org); snd org],
       map out_q hx, map out_q hy, map out_q hz)
  end.

Definition out_opt_zlist (r : option (list Z)) : Z * list Z :=
  match r with None => ((-1)%Z, []) | Some l => (0%Z, l) end.
