(* Model/InterpMag.v -- C09, magnetic receivers (definitions only).

   emg3d.fields.get_magnetic_field(model, efield) for mu_r = 1:
       hfield = zeros;  zeta = cell volumes / (s mu0);
       _edge_curl_factor(hfield.fx, .fy, .fz, efield.fx, .fy, .fz, hx, hy, hz, zeta)
   where _edge_curl_factor is Gen/FieldsCurl.v, translated from fields.py on
   every run.  A magnetic receiver samples that face field with
   Model.Interp.get_receiver (el = false).  The adjoint source vector is
   curl^T (Model/FIT.v) of the face sampling vector (Model.Interp.face_vector),
   which is what _point_vector_magnetic builds through discretize. *)
From Coq Require Import ZArith Bool List.
From V Require Import Base.FieldSig Base.Arr Base.Loops.
From V Require Import Gen.FieldsCurl Model.FIT Model.Interp.
Local Open Scope Z_scope.

Section Mag.
  Context {F : Type} {O : FOps F}.
  Variables (nx ny nz : Z) (hx hy hz : Z -> F).
  Local Open Scope F_scope.

  (* VolumeModel.zeta / smu0 without mu_r *)
  Definition zeta_vac (smu0 : F) : Z -> Z -> Z -> F :=
    fun i j k => hx i * hy j * hz k / smu0.

  Definition magnetic_field (zeta ex ey ez : Z -> Z -> Z -> F)
    : (Z -> Z -> Z -> F) * (Z -> Z -> Z -> F) * (Z -> Z -> Z -> F) :=
    _edge_curl_factor nx ny nz zero3 zero3 zero3 ex ey ez hx hy hz zeta.

  (* the discrete curl of an edge field, one value per face (Model/FIT.v) *)
  Definition curl3 (ex ey ez : Z -> Z -> Z -> F)
    : (Z -> Z -> Z -> F) * (Z -> Z -> Z -> F) * (Z -> Z -> Z -> F) :=
    (curl_x ey ez hy hz, curl_y ex ez hx hz, curl_z ex ey hx hy).

  (* its transpose: an edge vector from a face vector *)
  Definition curlT3 (ux uy uz : Z -> Z -> Z -> F)
    : (Z -> Z -> Z -> F) * (Z -> Z -> Z -> F) * (Z -> Z -> Z -> F) :=
    (curlT_x uy uz hy hz, curlT_y ux uz hx hz, curlT_z ux uy hx hy).
End Mag.
