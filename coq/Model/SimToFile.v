(* Model/SimToFile.v -- hand model of the serialisation ENTRY POINTS of a
   Simulation and of their fault paths (property C17).  Definitions only.

   emg3d/simulations.py                      here
     Simulation.to_dict(what)                to_dict
     Simulation.copy(what)                   = from_dict(to_dict(what, True)): op OToDict
     Simulation.to_file(fname, what, name,   to_file   (fixed = true : try/finally of commit
                        **kwargs)                        e6d5394; fixed = false: the code before it)
   emg3d/io.py
     save(fname, **kwargs)                   save      (ext_first = false: /repo; ext_first = true:
                                                        a save that validates the extension first)
     _dict_serialize                         serialize

   STATE.  Simulation.to_file hands its `what` to Simulation.to_dict (which io.save calls without
   arguments) through a TRANSIENT instance attribute; [flag] is that attribute: absent ([None]) or
   present with a value.  Every operation may RAISE ([Raised]); a successful one reports with which
   level every serialisation of the simulation was made ([Done levels]: one entry per occurrence
   of the simulation among the saved members, in order).

   Stages of io.save, any of which can raise:
     1. call binding      `save(fname, **kwargs)`: keywords must be strings          [kw_ok]
     2. _dict_serialize   members in kwargs order; a registered class -> .to_dict()
                          (may raise: [MBad]); the simulation itself: [MSelf]
     3. extension         unknown extension -> ValueError                             [ext_ok]
     4. writer            np.savez / h5py / json.dump raise on a value they cannot
                          store or a directory that does not exist                    [write_ok]
   The booleans are INPUTS of the model (which stage of this call fails); the model says what the
   call leaves behind and what the following calls do.                                         *)
From Coq Require Import List Bool String.
Import ListNotations.
Local Open Scope string_scope.

Inductive what : Type := Computed | Results | All | Plain.
(* the `what` argument of a call: one of the four levels, or anything else *)
Inductive warg : Type := W (w : what) | WBad.

Definition flag : Type := option warg.

Inductive outcome : Type := Raised | Done (levels : list what).

(* what a level stores: (fields and grids, synthetic data, gradient/misfit/computed) *)
Definition stored (w : what) : bool * bool * bool :=
  match w with
  | Plain => (false, false, false)
  | Results => (false, true, true)
  | Computed | All => (true, true, true)
  end.

(* Simulation.to_dict(what):
     if hasattr(self, FLAG): what = self.FLAG; delattr(self, FLAG)
     if what not in [...]: raise TypeError                                     *)
Definition to_dict (s : flag) (w : warg) : flag * option what :=
  (None, match (match s with Some f => f | None => w end) with W x => Some x | WBad => None end).

Inductive member : Type :=
| MSelf       (* the simulation itself (io._dict_serialize calls value.to_dict()) *)
| MGood       (* any other member; serialises *)
| MBad.       (* a member whose serialisation raises (its to_dict raises, str(key) raises) *)

Fixpoint serialize (s : flag) (ms : list member) : flag * option (list what) :=
  match ms with
  | [] => (s, Some [])
  | MGood :: r => serialize s r
  | MBad :: _ => (s, None)
  | MSelf :: r =>
      match to_dict s (W Computed) with
      | (s1, None) => (s1, None)
      | (s1, Some x) =>
          match serialize s1 r with
          | (s2, None) => (s2, None)
          | (s2, Some l) => (s2, Some (x :: l))
          end
      end
  end.

Record save_call : Type := mk_save
  { kw_ok : bool; members : list member; ext_ok : bool; write_ok : bool }.

Definition save (ext_first : bool) (s : flag) (c : save_call) : flag * outcome :=
  if negb (kw_ok c) then (s, Raised)
  else if ext_first && negb (ext_ok c) then (s, Raised)
  else match serialize s (members c) with
       | (s1, None) => (s1, Raised)
       | (s1, Some l) => if ext_ok c && write_ok c then (s1, Done l) else (s1, Raised)
       end.

(* the `name` under which to_file stores the simulation: a new keyword; one of the keywords
   io.save pops before serialising (verb / compression / json_indent: the simulation is then
   not a member); not a str (call binding raises) *)
Inductive name_kind : Type := NFresh | NReserved | NNonStr.

Record tofile_call : Type := mk_tofile
  { tf_what : warg; tf_user : list member; tf_name : name_kind;
    tf_ext_ok : bool; tf_write_ok : bool }.

(* kwargs[name] = self  (appended after the user's members) *)
Definition tofile_save_call (t : tofile_call) : save_call :=
  {| kw_ok := match tf_name t with NNonStr => false | _ => true end;
     members := match tf_name t with NReserved => tf_user t | _ => tf_user t ++ [MSelf] end;
     ext_ok := tf_ext_ok t; write_ok := tf_write_ok t |}.

(* Simulation.to_file, for ANY implementation [sv] of io.save:
     self.FLAG = what
     fixed:    try: return io.save(...)  finally: if hasattr(self, FLAG): delattr(self, FLAG)
     unfixed:  return io.save(...)                                                       *)
Definition to_file_gen (sv : flag -> save_call -> flag * outcome) (fixed : bool)
    (s : flag) (t : tofile_call) : flag * outcome :=
  let r := sv (Some (tf_what t)) (tofile_save_call t) in
  ((if fixed then None else fst r), snd r).

Definition to_file (fixed ext_first : bool) : flag -> tofile_call -> flag * outcome :=
  to_file_gen (save ext_first) fixed.

Inductive op : Type :=
| OToDict (w : warg)          (* sim.to_dict(w), sim.copy(w) *)
| OSave (c : save_call)       (* emg3d.save(fname, ..., sim=sim, ...) *)
| OToFile (t : tofile_call).  (* sim.to_file(fname, what, name, **kwargs) *)

Definition step (fixed ext_first : bool) (s : flag) (o : op) : flag * outcome :=
  match o with
  | OToDict w => match to_dict s w with
                 | (s1, Some x) => (s1, Done [x])
                 | (s1, None) => (s1, Raised)
                 end
  | OSave c => save ext_first s c
  | OToFile t => to_file fixed ext_first s t
  end.

(* state after a history *)
Fixpoint exec (fixed ext_first : bool) (s : flag) (ops : list op) : flag :=
  match ops with
  | [] => s
  | o :: r => exec fixed ext_first (fst (step fixed ext_first s o)) r
  end.

(* (outcome, flag afterwards) of every operation of a history *)
Fixpoint run (fixed ext_first : bool) (s : flag) (ops : list op) : list (outcome * flag) :=
  match ops with
  | [] => []
  | o :: r => let q := step fixed ext_first s o in
              (snd q, fst q) :: run fixed ext_first (fst q) r
  end.

(* what an operation does on a simulation that carries no transient attribute: depends on the
   arguments of that call only *)
Definition spec (ext_first : bool) (o : op) : outcome := snd (step true ext_first None o).

Definition is_self (m : member) : bool := match m with MSelf => true | _ => false end.
Definition is_bad (m : member) : bool := match m with MBad => true | _ => false end.

(* ---- canonical text (for the correspondence with the implementation) ---- *)
Definition what_chr (w : what) : string :=
  match w with Computed => "C" | Results => "R" | All => "A" | Plain => "P" end.
(* observable class of a level: what is in the file *)
Definition what_cls (w : what) : string :=
  match stored w with
  | (true, _, _) => "F"            (* fields + results *)
  | (false, true, _) => "R"        (* results only *)
  | _ => "P"                       (* plain *)
  end.
Definition render_outcome (o : outcome) : string :=
  match o with
  | Raised => "X"
  | Done l => "D[" ++ String.concat "," (map what_cls l) ++ "]"
  end.
Definition render_flag (s : flag) : string :=
  match s with None => "-" | Some _ => "+" end.
Definition render_run (l : list (outcome * flag)) : string :=
  String.concat ";" (map (fun p => render_outcome (fst p) ++ render_flag (snd p)) l).
