(* Model/ModelHist.v -- hand model of ONE emg3d.models.Model object through a
   history of public operations, and of the coefficients a VolumeModel built at
   any point of that history hands to the kernel (property C02).

   State  = the CURRENT parameter arrays (plus the immutable mapping, eps0 and
            cell volumes).  There is deliberately nothing else: no flag, no cache.
   Ops    = assignment through the setter          model.p = values
            in-place write through the getter      model.p[idx] = values
            augmented assignment                   model.p op= k
            building a VolumeModel                 VolumeModel(model, sfield)
   An operation can FAIL (setter rejects non-positive values; a parameter the
   model was initiated without cannot be written): [step] returns the state left
   behind together with an outcome.

   Definitions only; proofs in Proofs/ModelHist.v; tied to emg3d/models.py by the
   history stream of py/props/c02.py (every outcome of every step, the arrays
   after every step, and every coefficient of every VolumeModel are compared). *)
From Coq Require Import ZArith Bool List.
From V Require Import Base.FieldSig Model.VolumeModel.
Import ListNotations.

Inductive pname : Type := PX | PY | PZ | PMu | PEps.
Inductive aop : Type := AMul | AAdd | ASub | ADiv.

Section ModelHist.
  Context {F : Type} {O : FOps F}.
  Local Open Scope F_scope.
  (* the setters' acceptance test on one value (> 0 and finite) *)
  Variable pos : F -> bool.

  (* arrays are the cells in Fortran order *)
  Record mstate : Type := mkM {
    m_resist : bool;                 (* mapping: Resistivity (true) / Conductivity *)
    m_eps0 : F;
    m_vol : list F;                  (* cell volumes (grid; immutable) *)
    m_x : list F;                    (* property_x: always present *)
    m_y : option (list F);
    m_z : option (list F);
    m_mu : option (list F);
    m_eps : option (list F) }.

  Inductive op : Type :=
  | OSet (p : pname) (vals : list F)           (* model.p = vals (already broadcast) *)
  | OSlice (p : pname) (w : list (option F))   (* model.p[idx] = ..; Some v = cell written *)
  | OAug (p : pname) (f : aop) (k : F)         (* model.p f= k *)
  | OBuild (smu0 sval : F).                    (* VolumeModel(model, sfield) *)

  Inductive outcome : Type :=
  | Done                                       (* returned normally *)
  | Rejected                                   (* ValueError: must be > 0 / finite *)
  | NoneErr                                    (* parameter is None: cannot be written *)
  | Coeffs (c : list (F * F * F * F)).         (* eta_x, eta_y, eta_z, zeta per cell *)

  Definition getp (st : mstate) (p : pname) : option (list F) :=
    match p with
    | PX => Some (m_x st) | PY => m_y st | PZ => m_z st | PMu => m_mu st | PEps => m_eps st
    end.

  (* only ever applied to a parameter that is present *)
  Definition setp (st : mstate) (p : pname) (v : list F) : mstate :=
    match p with
    | PX => mkM (m_resist st) (m_eps0 st) (m_vol st) v (m_y st) (m_z st) (m_mu st) (m_eps st)
    | PY => mkM (m_resist st) (m_eps0 st) (m_vol st) (m_x st) (Some v) (m_z st) (m_mu st) (m_eps st)
    | PZ => mkM (m_resist st) (m_eps0 st) (m_vol st) (m_x st) (m_y st) (Some v) (m_mu st) (m_eps st)
    | PMu => mkM (m_resist st) (m_eps0 st) (m_vol st) (m_x st) (m_y st) (m_z st) (Some v) (m_eps st)
    | PEps => mkM (m_resist st) (m_eps0 st) (m_vol st) (m_x st) (m_y st) (m_z st) (m_mu st) (Some v)
    end.

  Fixpoint overlay (old : list F) (w : list (option F)) : list F :=
    match old, w with
    | o :: old', Some v :: w' => v :: overlay old' w'
    | o :: old', None :: w' => o :: overlay old' w'
    | _, _ => old
    end.

  Definition apply_aop (f : aop) (a k : F) : F :=
    match f with AMul => a * k | AAdd => a + k | ASub => a - k | ADiv => a / k end.

  (* anisotropy case: 0 isotropic, 1 HTI, 2 VTI, 3 triaxial; stored at construction *)
  Definition case_of (st : mstate) : Z :=
    match m_y st, m_z st with
    | None, None => 0%Z | Some _, None => 1%Z | None, Some _ => 2%Z | Some _, Some _ => 3%Z
    end.
  Definition is_some {A} (o : option A) : bool := match o with Some _ => true | None => false end.

  Definition cond_of (resist : bool) (v : F) : F := if resist then 1 / v else v.

  (* the coefficients of ONE cell as a function of the values of that cell *)
  Definition cell_coeff (resist : bool) (case : Z) (has_eps has_mu : bool)
             (eps0 smu0 sval vol vx vy vz vmu veps : F) : F * F * F * F :=
    let ex := eta_of smu0 sval eps0 has_eps vol (cond_of resist vx) veps in
    let ey := eta_of smu0 sval eps0 has_eps vol (cond_of resist vy) veps in
    let ez := eta_of smu0 sval eps0 has_eps vol (cond_of resist vz) veps in
    (ex, eta_y_sel case ex ey, eta_z_sel case ex ez, zeta_of has_mu vol vmu).

  Definition oget (o : option (list F)) (i : nat) : F :=
    match o with Some l => nth i l 0 | None => 0 end.

  Definition coeff_at (st : mstate) (smu0 sval : F) (i : nat) : F * F * F * F :=
    cell_coeff (m_resist st) (case_of st) (is_some (m_eps st)) (is_some (m_mu st))
               (m_eps0 st) smu0 sval (nth i (m_vol st) 0) (nth i (m_x st) 0)
               (oget (m_y st) i) (oget (m_z st) i) (oget (m_mu st) i) (oget (m_eps st) i).

  Definition coeffs (st : mstate) (smu0 sval : F) : list (F * F * F * F) :=
    map (coeff_at st smu0 sval) (seq 0 (length (m_vol st))).

  Definition step (st : mstate) (o : op) : mstate * outcome :=
    match o with
    | OSet p vals =>
        match getp st p with
        | None => (st, NoneErr)
        | Some _ => if forallb pos vals then (setp st p vals, Done) else (st, Rejected)
        end
    | OSlice p w =>
        match getp st p with
        | None => (st, NoneErr)
        | Some old => (setp st p (overlay old w), Done)
        end
    | OAug p f k =>
        (* numpy updates the stored array in place, THEN the setter validates it *)
        match getp st p with
        | None => (st, NoneErr)
        | Some old => let v := map (fun a => apply_aop f a k) old in
                      (setp st p v, if forallb pos v then Done else Rejected)
        end
    | OBuild smu0 sval => (st, Coeffs (coeffs st smu0 sval))
    end.

  Fixpoint run (st : mstate) (h : list op) : mstate * list outcome :=
    match h with
    | [] => (st, [])
    | o :: t => let r := step st o in
                let r' := run (fst r) t in (fst r', snd r :: snd r')
    end.

  (* what no operation can change: mapping, eps0, volumes, which parameters exist *)
  Definition frame (st : mstate) : bool * F * list F * Z * bool * bool :=
    (m_resist st, m_eps0 st, m_vol st, case_of st, is_some (m_mu st), is_some (m_eps st)).

  Definition is_build (o : op) : bool := match o with OBuild _ _ => true | _ => false end.
  Definition erase_builds (h : list op) : list op := filter (fun o => negb (is_build o)) h.
End ModelHist.
