(* Model/Maps.v -- C14.  Hand model (definitions only) of
     * the selection of a map by name (emg3d.models.Model.__init__),
     * Model._check_positive_finite / _init_parameter / the five setters,
     * the anisotropy case, and the VolumeModel coefficients as a function of
       the MAPPED properties (VolumeModel maps back with map.backward).
   The six maps themselves are NOT written here: they are Gen/MapsMap.v,
   regenerated from emg3d/maps.py on every run. *)
From Coq Require Import Reals ZArith Bool List String.
From V Require Import Base.FieldSig Model.VolumeModel Gen.MapsMap.
Import ListNotations.

Inductive mapid : Type :=
  | MConductivity | MLgConductivity | MLnConductivity
  | MResistivity | MLgResistivity | MLnResistivity.

Definition all_maps : list mapid :=
  [MConductivity; MLgConductivity; MLnConductivity;
   MResistivity; MLgResistivity; MLnResistivity].

Definition map_name (m : mapid) : string :=
  match m with
  | MConductivity => "Conductivity" | MLgConductivity => "LgConductivity"
  | MLnConductivity => "LnConductivity" | MResistivity => "Resistivity"
  | MLgResistivity => "LgResistivity" | MLnResistivity => "LnResistivity"
  end.

(* getattr(maps, 'Map'+mapping)() : None = AttributeError *)
Definition map_of_name (s : string) : option mapid :=
  find (fun m => String.eqb (map_name m) s) all_maps.

(* Model.interpolate_to_grid: log = not map.name.startswith('L') *)
Definition map_is_log (m : mapid) : bool :=
  match m with
  | MConductivity | MResistivity => false
  | _ => true
  end.

(* dispatch into the generated real functions *)
Definition forward (m : mapid) : R -> R :=
  match m with
  | MConductivity => forward_Conductivity | MLgConductivity => forward_LgConductivity
  | MLnConductivity => forward_LnConductivity | MResistivity => forward_Resistivity
  | MLgResistivity => forward_LgResistivity | MLnResistivity => forward_LnResistivity
  end.
Definition backward (m : mapid) : R -> R :=
  match m with
  | MConductivity => backward_Conductivity | MLgConductivity => backward_LgConductivity
  | MLnConductivity => backward_LnConductivity | MResistivity => backward_Resistivity
  | MLgResistivity => backward_LgResistivity | MLnResistivity => backward_LnResistivity
  end.
Definition chain (m : mapid) : R -> R :=
  match m with
  | MConductivity => chain_Conductivity | MLgConductivity => chain_LgConductivity
  | MLnConductivity => chain_LnConductivity | MResistivity => chain_Resistivity
  | MLgResistivity => chain_LgResistivity | MLnResistivity => chain_LnResistivity
  end.

(* ------------------------------------------------------------------------ *)
(* Cell values as numpy sees them: finite numbers and the IEEE specials.     *)
Inductive xval (F : Type) : Type :=
  | Fin (x : F) | NegZero | PInf | NInf | NaN.
Arguments Fin {F} x. Arguments NegZero {F}. Arguments PInf {F}.
Arguments NInf {F}. Arguments NaN {F}.

Inductive verr : Type := ErrNone | ErrPositive | ErrFinite | ErrMap | ErrType.
Inductive pname : Type := PX | PY | PZ | PMu | PEps.
Definition is_property (p : pname) : bool :=
  match p with PX | PY | PZ => true | _ => false end.

(* What a setter of Model does, in SOURCE ORDER (Gen/MapsSetter.v is this list per
   parameter, re-extracted from emg3d/models.py on every run):
     EvGuardNone   `if <stored> is None: raise ValueError(...)`
     EvCheckValues `self._check_positive_finite(<assigned values>, name)`
     EvCheckStored `self._check_positive_finite(<stored array>, name)`
     EvStore       `<stored>[:] = np.asfortranarray(<assigned values>, dtype=np.float64)` *)
Inductive setter_event : Type := EvGuardNone | EvCheckValues | EvCheckStored | EvStore.

Section Validation.
  Context {F : Type}.
  (* decisions on the number type and the finite part of map.backward *)
  Variable pos0 : F -> bool.          (* 0 < x *)
  Variable isz : F -> bool.           (* x = 0 *)
  Variable bwF : mapid -> F -> F.     (* backward on finite non-special values *)
  (* float range: [ovf m x = Some s] says that backward of the FINITE value x
     over- or underflows to the special s (10**400 = inf, 10**-400 = 0.0, ...);
     None = representable.  Ideal reals: never (no_ovf). *)
  Variable ovf : mapid -> F -> option (xval F).
  Variable zero : F.

  (* np.real(v) > 0.0 *)
  Definition xpos (v : xval F) : bool :=
    match v with Fin x => pos0 x | PInf => true | _ => false end.
  (* np.isfinite(v) *)
  Definition xfin (v : xval F) : bool :=
    match v with Fin _ | NegZero => true | _ => false end.

  (* map.backward on numpy floats, IEEE special cases by hand:
     1/0 = inf, 1/-0 = -inf, 1/+-inf = +-0, 10**inf = inf, 10**-inf = 0, ... *)
  Definition bwx (m : mapid) (v : xval F) : xval F :=
    match v with
    | NaN => NaN
    | Fin x =>
        match ovf m x with
        | Some s => s
        | None =>
            match m with
            | MResistivity => if isz x then PInf else Fin (bwF m x)
            | _ => Fin (bwF m x)
            end
        end
    | NegZero =>
        match m with
        | MConductivity => NegZero
        | MResistivity => NInf
        | _ => Fin (bwF m zero)     (* -0.0 is the finite value 0 for log maps *)
        end
    | PInf =>
        match m with
        | MConductivity | MLgConductivity | MLnConductivity => PInf
        | _ => Fin zero
        end
    | NInf =>
        match m with
        | MConductivity => NInf
        | MLgConductivity | MLnConductivity => Fin zero
        | MResistivity => NegZero
        | MLgResistivity | MLnResistivity => PInf
        end
    end.

  (* Model._check_positive_finite(values, name).
     [attr]: None = the attribute `_name` does not exist yet (construction);
             Some None = it exists and is None; Some (Some _) = it holds an array. *)
  Definition check_pf (m : mapid) (attr : option (option (list (xval F))))
             (p : pname) (values : list (xval F)) : option verr :=
    match attr with
    | Some None => Some ErrNone
    | _ =>
        let mapped := if is_property p then map (bwx m) values else values in
        if negb (forallb xpos mapped) then Some ErrPositive
        else if negb (forallb xfin mapped) then Some ErrFinite
        else None
    end.

  Record model : Type := mkModel {
    m_map : mapid;
    m_x : option (list (xval F)); m_y : option (list (xval F));
    m_z : option (list (xval F)); m_mu : option (list (xval F));
    m_eps : option (list (xval F)) }.

  Definition get_prop (md : model) (p : pname) : option (list (xval F)) :=
    match p with
    | PX => m_x md | PY => m_y md | PZ => m_z md | PMu => m_mu md | PEps => m_eps md
    end.
  Definition set_prop (md : model) (p : pname) (v : option (list (xval F))) : model :=
    match p with
    | PX => mkModel (m_map md) v (m_y md) (m_z md) (m_mu md) (m_eps md)
    | PY => mkModel (m_map md) (m_x md) v (m_z md) (m_mu md) (m_eps md)
    | PZ => mkModel (m_map md) (m_x md) (m_y md) v (m_mu md) (m_eps md)
    | PMu => mkModel (m_map md) (m_x md) (m_y md) (m_z md) v (m_eps md)
    | PEps => mkModel (m_map md) (m_x md) (m_y md) (m_z md) (m_mu md) v
    end.

  (* Model._init_parameter: None stays None, otherwise validate *)
  Definition init_parameter (m : mapid) (p : pname) (values : option (list (xval F)))
    : option verr :=
    match values with
    | None => None
    | Some vs => check_pf m None p vs
    end.

  (* Model.__init__: parameters are initiated in the order x, y, z, mu_r,
     epsilon_r; the first failure is raised. *)
  Definition first_err (l : list (option verr)) : option verr :=
    fold_right (fun e acc => match e with Some _ => e | None => acc end) None l.

  Definition model_init (mapping : string) (x y z mu eps : option (list (xval F)))
    : model + verr :=
    match map_of_name mapping with
    | None => inr ErrMap
    | Some m =>
        match first_err [init_parameter m PX x; init_parameter m PY y;
                         init_parameter m PZ z; init_parameter m PMu mu;
                         init_parameter m PEps eps] with
        | Some e => inr e
        | None => inl (mkModel m x y z mu eps)
        end
    end.

  (* the setters: validate against the current attribute, then overwrite *)
  Definition model_set (md : model) (p : pname) (values : list (xval F)) : model + verr :=
    match check_pf (m_map md) (Some (get_prop md p)) p values with
    | Some e => inr e
    | None => inl (set_prop md p (Some values))
    end.

  (* augmented assignment  model.<p> op= k  (op in *, +, -, /):  Python reads the
     stored array, numpy updates it IN PLACE to [values] (= op(stored, k)), then the
     setter is called with that very array.  Hence the storage holds [values]
     whether or not the check passes; the check is the one of plain assignment.
     On a None property the operator itself raises TypeError before the setter. *)
  Definition model_aug (md : model) (p : pname) (values : list (xval F))
    : model * option verr :=
    match get_prop md p with
    | None => (md, Some ErrType)
    | Some _ => (set_prop md p (Some values),
                 check_pf (m_map md) (Some (get_prop md p)) p values)
    end.

  (* a setter as the sequence of its events: the first event that raises ends the
     call with that error and the model AS IT IS AT THAT MOMENT (nothing is rolled
     back); `None[:] = ...` is a TypeError *)
  Fixpoint run_setter (evs : list setter_event) (md : model) (p : pname)
           (values : list (xval F)) : model * option verr :=
    match evs with
    | [] => (md, None)
    | EvGuardNone :: rest =>
        match get_prop md p with
        | None => (md, Some ErrNone)
        | Some _ => run_setter rest md p values
        end
    | EvCheckValues :: rest =>
        match check_pf (m_map md) (Some (get_prop md p)) p values with
        | Some e => (md, Some e)
        | None => run_setter rest md p values
        end
    | EvCheckStored :: rest =>
        match get_prop md p with
        | None => (md, Some ErrNone)
        | Some st =>
            match check_pf (m_map md) (Some (Some st)) p st with
            | Some e => (md, Some e)
            | None => run_setter rest md p values
            end
        end
    | EvStore :: rest =>
        match get_prop md p with
        | None => (md, Some ErrType)
        | Some _ => run_setter rest (set_prop md p (Some values)) p values
        end
    end.

  (* anisotropy case: 0 isotropic, 1 HTI, 2 VTI, 3 triaxial *)
  Definition case_of (md : model) : Z :=
    match m_y md, m_z md with
    | None, None => 0%Z
    | Some _, None => 1%Z
    | None, Some _ => 2%Z
    | Some _, Some _ => 3%Z
    end.
End Validation.

(* ------------------------------------------------------------------------ *)
(* VolumeModel coefficients of one cell as a function of the MAPPED values.
   [inj] embeds real conductivities into the coefficient field (C for the
   frequency domain, R for the Laplace domain). *)
Section Coefficients.
  Context {F : Type} {O : FOps F}.
  Variable inj : R -> F.
  Variables smu0 sval eps0 : F.

  Definition cell_coeffs (m : mapid) (case : Z) (has_eps has_mu : bool)
             (vol epsr mur : F) (px py pz : R) : F * F * F * F :=
    let ex := eta_of smu0 sval eps0 has_eps vol (inj (backward m px)) epsr in
    let ey := eta_of smu0 sval eps0 has_eps vol (inj (backward m py)) epsr in
    let ez := eta_of smu0 sval eps0 has_eps vol (inj (backward m pz)) epsr in
    (ex, eta_y_sel case ex ey, eta_z_sel case ex ez, zeta_of has_mu vol mur).
End Coefficients.

(* ------------------------------------------------------------------------ *)
(* Instances of the validation model. *)
Definition no_ovf {F : Type} : mapid -> F -> option (xval F) := fun _ _ => None.
Definition Rpos0 (x : R) : bool := if Rlt_dec 0 x then true else false.
Definition Risz (x : R) : bool := if Req_EM_T x 0 then true else false.

(* Executable instance: the rational maps are the generated twins; for the four
   log/exp maps the finite part of backward is replaced by the constant 1 --
   acceptance only depends on the SIGN of backward (theorem check_pf_ext), and
   backward is positive everywhere for these maps (theorem backward_pos_log). *)
Section ExecInst.
  Context {F : Type} {O : FOps F}.
  Definition bw_exec (m : mapid) (x : F) : F :=
    match m with
    | MConductivity => backwardF_Conductivity x
    | MResistivity => backwardF_Resistivity x
    | _ => F1
    end.
End ExecInst.

(* decisions on Q for executing the validation model *)
From Coq Require Import QArith.
From V Require Import Base.ExecQ.
Definition Qpos0 (q : Q) : bool := match Qnum q with Zpos _ => true | _ => false end.
Definition Qisz (q : Q) : bool := Z.eqb (Qnum q) 0.
(* IEEE double range of 10**x and exp(x), by hand (tied by correspondence; the
   generators stay 2 away from the thresholds): 10**x = inf for x >= 309,
   = 0.0 for x <= -324; exp(x) = inf for x >= 710, = 0.0 for x <= -746; the
   resistivity maps exponentiate -x. *)
Definition ovf_range (hi lo : Q) (y : Q) : option (xval Q) :=
  if Qle_bool hi y then Some PInf
  else if Qle_bool y lo then Some (Fin 0%Q) else None.
Definition ovf_exec (m : mapid) (x : Q) : option (xval Q) :=
  match m with
  | MLgConductivity => ovf_range 309 (-324) x
  | MLgResistivity => ovf_range 309 (-324) (- x)
  | MLnConductivity => ovf_range 710 (-746) x
  | MLnResistivity => ovf_range 710 (-746) (- x)
  | _ => None
  end%Q.
Definition check_pf_Q := @check_pf Q Qpos0 Qisz (@bw_exec Q QOps) ovf_exec 0%Q.
Definition model_init_Q := @model_init Q Qpos0 Qisz (@bw_exec Q QOps) ovf_exec 0%Q.
Definition model_set_Q := @model_set Q Qpos0 Qisz (@bw_exec Q QOps) ovf_exec 0%Q.

(* harness helpers for the correspondence (run a history of assignments) *)
Definition model_aug_Q := @model_aug Q Qpos0 Qisz (@bw_exec Q QOps) ovf_exec 0%Q.
(* an op is (augmented?, property, values) *)
Definition run_sets (md : model (F:=Q)) (ops : list (bool * pname * list (xval Q)))
  : list (option verr) * model (F:=Q) :=
  fold_left (fun (acc : list (option verr) * model (F:=Q))
                 (op : bool * pname * list (xval Q)) =>
               if fst (fst op)
               then let r := model_aug_Q (snd acc) (snd (fst op)) (snd op) in
                    (fst acc ++ [snd r], fst r)
               else match model_set_Q (snd acc) (snd (fst op)) (snd op) with
                    | inl md' => (fst acc ++ [None], md')
                    | inr e => (fst acc ++ [Some e], snd acc)
                    end) ops ([], md).
Definition verr_code (e : option verr) : Z :=
  match e with None => 0 | Some ErrNone => 1 | Some ErrPositive => 2
          | Some ErrFinite => 3 | Some ErrMap => 4 | Some ErrType => 5 end%Z.
Definition xval_code (v : xval Q) : Z * Z * Z :=
  match v with
  | Fin q => (0, Qnum (Qred q), Zpos (Qden (Qred q)))
  | NegZero => (1, 0, 1) | PInf => (2, 0, 1) | NInf => (3, 0, 1) | NaN => (4, 0, 1)
  end%Z.
Definition prop_code (o : option (list (xval Q))) : Z * list (Z * Z * Z) :=
  match o with None => (0%Z, []) | Some l => (1%Z, map xval_code l) end.
Definition model_code (md : model (F:=Q)) :=
  (case_of md, [prop_code (m_x md); prop_code (m_y md); prop_code (m_z md);
                prop_code (m_mu md); prop_code (m_eps md)]).
(* whole history: construct, then assign; codes of every step and final state *)
Definition run_history (mapping : string) (x y z mu eps : option (list (xval Q)))
           (ops : list (bool * pname * list (xval Q))) :=
  match model_init_Q mapping x y z mu eps with
  | inr e => (verr_code (Some e), [], (0%Z, []))
  | inl md => let r := run_sets md ops in
              (0%Z, map verr_code (fst r), model_code (snd r))
  end.
