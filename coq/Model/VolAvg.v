(* Model/VolAvg.v -- C15.  Hand model (definitions only) of
     emg3d.maps._volume_average_weights   (va_weights: np.unique of the merged
         nodes, the for loop over merged intervals, centre test, the two
         while scans carried across iterations, clamped indices),
     emg3d.maps.interp_volume_average     (interp_va: triple loop, += into the
         output, division by the new volumes),
     the linear map it represents and its explicit transpose (what
         _interp_volume_average_adj applies through discretize's matrix),
     maps.interpolate(method='volume', log=True) over the reals.
   Numbers: any type with FOps and a boolean [leb]; executed on Q, reasoned
   about on R.  Tied to the code by correspondence (py/props/c15.py). *)
From Coq Require Import ZArith Bool List Arith.
From V Require Import Base.FieldSig.
Import ListNotations.

Section VolAvg.
  Context {F : Type} {O : FOps F}.
  Variable leb : F -> F -> bool.          (* x <= y *)
  Local Open Scope F_scope.

  Definition half : F := 1 / (1 + 1).

  (* np.unique(np.concatenate((x_i, x_o))): sorted, duplicates removed *)
  Fixpoint uinsert (x : F) (l : list F) : list F :=
    match l with
    | [] => [x]
    | y :: t => if leb x y then (if leb y x then y :: t else x :: y :: t)
                else y :: uinsert x t
    end.
  Definition usort (l : list F) : list F := fold_right uinsert [] l.

  (* while i < n-1 and c >= x[i]: i += 1       (at most n iterations) *)
  Fixpoint scan (fuel : nat) (x : list F) (n : nat) (c : F) (i : nat) : nat :=
    match fuel with
    | 0%nat => i
    | S f => if (Nat.ltb i (n - 1) && leb (nth i x 0) c)%bool
             then scan f x n c (i + 1)%nat else i
    end.

  (* min(max(i-1, 0), n-1) on Python ints; i >= 0 so nat subtraction agrees *)
  Definition clampi (i n : nat) : nat := Nat.min (Nat.max (i - 1) 0) (n - 1).

  (* the for loop: one step per merged interval [a, b]; i1, i2 are carried *)
  Fixpoint va_loop (x_i x_o : list F) (n1 n2 : nat) (lo hi : F)
           (xs : list F) (i1 i2 : nat) : list (F * nat * nat) :=
    match xs with
    | a :: t =>
        match t with
        | b :: _ =>
            let c := half * (a + b) in
            if (leb lo c && leb c hi)%bool then
              let i1' := scan n1 x_i n1 c i1 in
              let i2' := scan n2 x_o n2 c i2 in
              (b - a, clampi i1' n1, clampi i2' n2)
                :: va_loop x_i x_o n1 n2 lo hi t i1' i2'
            else va_loop x_i x_o n1 n2 lo hi t i1 i2
        | [] => []
        end
    | [] => []
    end.

  (* _volume_average_weights(x_i, x_o): list of (weight, index in, index out) *)
  Definition va_weights (x_i x_o : list F) : list (F * nat * nat) :=
    let n1 := length x_i in
    let n2 := length x_o in
    va_loop x_i x_o n1 n2 (nth 0 x_o 0) (nth (n2 - 1) x_o 0)
            (usort (x_i ++ x_o)) 0 0.

  (* ---- the stateless description the proofs reduce the loop to ---------- *)
  (* number of nodes <= c, capped at n-1: what a scan ends at *)
  Definition capcount (x : list F) (c : F) : nat :=
    Nat.min (length x - 1) (length (filter (fun y => leb y c) x)).
  Definition cell_of (x : list F) (c : F) : nat := clampi (capcount x c) (length x).
  Fixpoint va_pairs (x_i x_o : list F) (lo hi : F) (xs : list F) : list (F * nat * nat) :=
    match xs with
    | a :: t =>
        match t with
        | b :: _ =>
            let c := half * (a + b) in
            if (leb lo c && leb c hi)%bool
            then (b - a, cell_of x_i c, cell_of x_o c) :: va_pairs x_i x_o lo hi t
            else va_pairs x_i x_o lo hi t
        | [] => []
        end
    | [] => []
    end.

  (* ---- linear maps given by a list of (weight, in index, out index) ----- *)
  Section Triples.
    Context {I J : Type}.
    Variable ieqb : I -> I -> bool.
    Variable jeqb : J -> J -> bool.
    Definition sumF (l : list F) : F := fold_right Fadd 0 l.

    (* sum over the triples that write output cell o of w * v(in) *)
    Definition accum (T : list (F * I * J)) (v : I -> F) (o : J) : F :=
      sumF (map (fun t => if jeqb (snd t) o then fst (fst t) * v (snd (fst t)) else 0) T).
    (* total weight written to output cell o / read from input cell i *)
    Definition wsum_out (T : list (F * I * J)) (o : J) : F :=
      sumF (map (fun t => if jeqb (snd t) o then fst (fst t) else 0) T).
    Definition wsum_in (T : list (F * I * J)) (i : I) : F :=
      sumF (map (fun t => if ieqb (snd (fst t)) i then fst (fst t) else 0) T).
    (* interp_volume_average: new_values += ...; new_values /= new_vol *)
    Definition apply_va (T : list (F * I * J)) (vol : J -> F) (init : J -> F)
               (v : I -> F) (o : J) : F :=
      (init o + accum T v o) / vol o.
    (* the transpose:  (A^T u)(i) = sum over triples reading i of w/vol(out) * u(out) *)
    Definition apply_va_T (T : list (F * I * J)) (vol : J -> F) (u : J -> F) (i : I) : F :=
      sumF (map (fun t => if ieqb (snd (fst t)) i
                          then fst (fst t) / vol (snd t) * u (snd t) else 0) T).
    (* matrix entry A[o, i] *)
    Definition va_matrix (T : list (F * I * J)) (vol : J -> F) (o : J) (i : I) : F :=
      sumF (map (fun t => if (jeqb (snd t) o && ieqb (snd (fst t)) i)%bool
                          then fst (fst t) / vol o else 0) T).
  End Triples.

  (* 3-D: the triple loop iz, iy, ix with w_zy = w_z*w_y, weight w_zy*w_x *)
  Definition idx3 : Type := (nat * nat * nat)%type.
  Definition idx3_eqb (a b : idx3) : bool :=
    (Nat.eqb (fst (fst a)) (fst (fst b)) && Nat.eqb (snd (fst a)) (snd (fst b))
     && Nat.eqb (snd a) (snd b))%bool.
  Definition trip3 (wx wy wz : list (F * nat * nat)) : list (F * idx3 * idx3) :=
    flat_map (fun tz =>
      flat_map (fun ty =>
        map (fun tx =>
               ((fst (fst tz) * fst (fst ty)) * fst (fst tx),
                (snd (fst tx), snd (fst ty), snd (fst tz)),
                (snd tx, snd ty, snd tz))) wx) wy) wz.

  Definition widths (x : list F) : list F :=
    map (fun p => snd p - fst p) (combine x (tl x)).

  (* interp_volume_average(nodes, values, new_nodes, new_values = init, new_vol) *)
  Definition interp_va (nx ny nz nnx nny nnz : list F) (vol : idx3 -> F)
             (init : idx3 -> F) (v : idx3 -> F) (o : idx3) : F :=
    apply_va idx3_eqb (trip3 (va_weights nx nnx) (va_weights ny nny) (va_weights nz nnz))
             vol init v o.
  (* the transpose used for gradients (discretize: volume_average(o, n).T) *)
  Definition interp_va_T (nx ny nz nnx nny nnz : list F) (vol : idx3 -> F)
             (u : idx3 -> F) (i : idx3) : F :=
    apply_va_T idx3_eqb (trip3 (va_weights nx nnx) (va_weights ny nny) (va_weights nz nnz))
               vol u i.
  (* cell volumes of a tensor grid *)
  Definition vol3 (nx ny nz : list F) (o : idx3) : F :=
    nth (fst (fst o)) (widths nx) 0 * nth (snd (fst o)) (widths ny) 0
    * nth (snd o) (widths nz) 0.

  (* all cell indices of a tensor grid with the given node lists *)
  Definition cells3 (nx ny nz : list F) : list idx3 :=
    flat_map (fun i => flat_map (fun j => map (fun k => (i, j, k))
                 (seq 0 (length nz - 1))) (seq 0 (length ny - 1))) (seq 0 (length nx - 1)).
End VolAvg.

(* ---- the real instance (proofs) and the log mode of maps.interpolate ---- *)
From Coq Require Import Reals.
#[global] Instance ROps : FOps R := {
  F0 := 0%R; F1 := 1%R; Fadd := Rplus; Fmul := Rmult; Fsub := Rminus;
  Fopp := Ropp; Fdiv := Rdiv; Finv := Rinv }.
Definition Rleb (x y : R) : bool := if Rle_dec x y then true else false.

(* interpolate(..., method='volume', log=True): 10 ** A(log10 v) *)
Definition log10R (x : R) : R := (ln x / ln 10)%R.
Definition pow10R (x : R) : R := exp (x * ln 10)%R.
Definition apply_va_log {I J : Type} (jeqb : J -> J -> bool) (T : list (R * I * J))
           (vol : J -> R) (v : I -> R) (o : J) : R :=
  pow10R (apply_va jeqb T vol (fun _ => 0%R) (fun i => log10R (v i)) o).
