(* Model/Interp.v -- C09.  Hand model (definitions only, no proofs) of

     scipy.interpolate.RegularGridInterpolator(method='linear',
         bounds_error=False, fill_value=nan)        [lin_interp, trilinear]
       as emg3d.maps.interpolate calls it for a receiver: cell search
       (find_interval_ascending = searchsorted-1 clamped to [0, n-2]),
       normalised distance, the 2^d hypercube sum, NaN outside the hull;
     emg3d.maps._points_from_grids                   [on_centers, cg, cn]
       which picks nodes or cell centres per dimension from the array shape
       (Ex lives on (centres x, nodes y, nodes z), Hx on (nodes, centres,
       centres), ...);
     emg3d.fields.get_receiver(method='linear')     [get_receiver]
       rotation factors x per-component interpolation, the 1e-10 component
       skip, NaN for the outermost cells;
     emg3d.fields._point_vector                     [point_source, point_vector]
       cell search with max(0, first-1), get_index_and_strength with its
       `ic == nc-1` branch, the eight ASSIGNING writes in source order, the
       ValueError outside the grid, the final scaling by the rotation factors;
     the bilinear edge/face inner product            [inner3]
       sum over the index boxes of the three staggered components.

   Numbers: any type with FOps and a boolean comparison [leb]; executed on Q
   (py/props/c09.py, correspondence against the implementation on every run),
   reasoned about for a generic field (algebra) and on R (order).
   NaN is [None].  Complex fields: all weights are real, so a complex field is
   the pair of its real and imaginary part and the model is applied to each
   ([get_receiver_c]); the correspondence checks exactly that reading.

   Rotation factors (scipy cosdg/sindg of the two angles) are inputs. *)
From Coq Require Import ZArith Bool List.
From V Require Import Base.FieldSig Base.Arr Base.Loops.
Local Open Scope Z_scope.

(* ------------------------------------------------------------ finite sums *)
Section Sums.
  Context {F : Type} {O : FOps F}.
  (* sum_{lo <= i < hi} f i *)
  Definition Zsum (lo hi : Z) (f : Z -> F) : F :=
    Zfold lo hi (fun i s => (s + f i)%F) 0%F.
  (* sum over the box [0,n1) x [0,n2) x [0,n3) *)
  Definition sum3 (n1 n2 n3 : Z) (f : Z -> Z -> Z -> F) : F :=
    Zsum 0 n1 (fun i => Zsum 0 n2 (fun j => Zsum 0 n3 (fun k => f i j k))).
End Sums.

Section Interp.
  Context {F : Type} {O : FOps F}.
  Variable leb : F -> F -> bool.                (* x <= y *)
  Local Open Scope F_scope.

  Definition ltb (a b : F) : bool := negb (leb b a).          (* a < b *)
  Definition Fabs (a : F) : F := if leb 0 a then a else - a.

  (* np.where(x < np.r_[g, inf])[0][0]: first index i in [0,n) with x < g[i],
     n if there is none (for sorted g: searchsorted(g, x, 'right')). *)
  Fixpoint first_gt_from (g : Z -> F) (x : F) (fuel : nat) (i : Z) : Z :=
    match fuel with
    | 0%nat => i
    | S f => if ltb x (g i) then i else first_gt_from g x f (i + 1)%Z
    end.
  Definition first_gt (g : Z -> F) (n : Z) (x : F) : Z :=
    first_gt_from g x (Z.to_nat n) 0%Z.

  (* ------------------------------------------------ scipy linear, 1-D part *)
  (* find_interval_ascending with extrapolate=1: the i with g[i] <= x < g[i+1],
     n-2 for x = g[n-1], clamped into [0, n-2] outside. *)
  Definition rgi_index (g : Z -> F) (n : Z) (x : F) : Z :=
    Z.min (n - 2) (Z.max 0 (first_gt g n x - 1)).
  Definition rgi_dist (g : Z -> F) (n : Z) (x : F) : F :=
    let i := rgi_index g n x in (x - g i) / (g (i + 1)%Z - g i).
  (* _prepare_xi: out of bounds <=> x < g[0] or x > g[-1] *)
  Definition rgi_oob (g : Z -> F) (n : Z) (x : F) : bool :=
    ltb x (g 0%Z) || ltb (g (n - 1)%Z) x.

  Definition lin_interp (g : Z -> F) (n : Z) (u : Z -> F) (x : F) : option F :=
    if rgi_oob g n x then None
    else let i := rgi_index g n x in
         let w := rgi_dist g n x in
         Some (u i * (1 - w) + u (i + 1)%Z * w).

  (* _evaluate_linear: the eight vertices in itertools.product order *)
  Definition trilinear (gx : Z -> F) (nx : Z) (gy : Z -> F) (ny : Z)
             (gz : Z -> F) (nz : Z) (v : Z -> Z -> Z -> F) (x y z : F) : option F :=
    if (rgi_oob gx nx x || rgi_oob gy ny y || rgi_oob gz nz z)%bool then None
    else
      let i := rgi_index gx nx x in let a := rgi_dist gx nx x in
      let j := rgi_index gy ny y in let b := rgi_dist gy ny y in
      let k := rgi_index gz nz z in let c := rgi_dist gz nz z in
      let i1 := (i + 1)%Z in let j1 := (j + 1)%Z in let k1 := (k + 1)%Z in
      Some (v i j k * ((1 - a) * (1 - b) * (1 - c))
            + v i j k1 * ((1 - a) * (1 - b) * c)
            + v i j1 k * ((1 - a) * b * (1 - c))
            + v i j1 k1 * ((1 - a) * b * c)
            + v i1 j k * (a * (1 - b) * (1 - c))
            + v i1 j k1 * (a * (1 - b) * c)
            + v i1 j1 k * (a * b * (1 - c))
            + v i1 j1 k1 * (a * b * c)).

  (* ------------------------------------------- _point_vector, 1-D part *)
  (* ix = max(0, np.where(coo < np.r_[xx, inf])[0][0] - 1) *)
  Definition pv_index (g : Z -> F) (n : Z) (x : F) : Z :=
    Z.max 0 (first_gt g n x - 1).
  (* get_index_and_strength(ic, nc, csrc, cc) -> (rc, ec, ic1) *)
  Definition idx_strength (ic nc : Z) (csrc : F) (cc : Z -> F) : F * F * Z :=
    if (ic =? nc - 1)%Z then (1, 1, ic)
    else let ic1 := (ic + 1)%Z in
         let rc := (csrc - cc ic) / (cc ic1 - cc ic) in
         (rc, 1 - rc, ic1).
  (* the 1-D analogue of point_source: s[ic] = ec; s[ic1] = rc (assignments) *)
  Definition s1d (g : Z -> F) (n : Z) (x : F) : Z -> F :=
    let ic := pv_index g n x in
    let t := idx_strength ic n x g in
    upd1 (upd1 (fun _ => 0) ic (snd (fst t))) (snd t) (fst (fst t)).

  (* point_source(xx, yy, zz, coo, s): nx,ny,nz = s.shape = lengths of xx,yy,zz *)
  Definition point_source (gx : Z -> F) (nx : Z) (gy : Z -> F) (ny : Z)
             (gz : Z -> F) (nz : Z) (x y z : F) (s : Z -> Z -> Z -> F)
    : Z -> Z -> Z -> F :=
    let ix := pv_index gx nx x in
    let iy := pv_index gy ny y in
    let iz := pv_index gz nz z in
    let tx := idx_strength ix nx x gx in
    let ty := idx_strength iy ny y gy in
    let tz := idx_strength iz nz z gz in
    let rx := fst (fst tx) in let ex := snd (fst tx) in let ix1 := snd tx in
    let ry := fst (fst ty) in let ey := snd (fst ty) in let iy1 := snd ty in
    let rz := fst (fst tz) in let ez := snd (fst tz) in let iz1 := snd tz in
    let s := upd3 s ix iy iz (ex * ey * ez) in
    let s := upd3 s ix1 iy iz (rx * ey * ez) in
    let s := upd3 s ix iy1 iz (ex * ry * ez) in
    let s := upd3 s ix1 iy1 iz (rx * ry * ez) in
    let s := upd3 s ix iy iz1 (ex * ey * rz) in
    let s := upd3 s ix1 iy iz1 (rx * ey * rz) in
    let s := upd3 s ix iy1 iz1 (ex * ry * rz) in
    let s := upd3 s ix1 iy1 iz1 (rx * ry * rz) in
    s.

  (* the eight write targets of point_source, in source order *)
  Definition pv_targets (gx : Z -> F) (nx : Z) (gy : Z -> F) (ny : Z)
             (gz : Z -> F) (nz : Z) (x y z : F) : list (Z * Z * Z) :=
    let ix := pv_index gx nx x in
    let iy := pv_index gy ny y in
    let iz := pv_index gz nz z in
    let ix1 := snd (idx_strength ix nx x gx) in
    let iy1 := snd (idx_strength iy ny y gy) in
    let iz1 := snd (idx_strength iz nz z gz) in
    (ix, iy, iz) :: (ix1, iy, iz) :: (ix, iy1, iz) :: (ix1, iy1, iz) ::
    (ix, iy, iz1) :: (ix1, iy, iz1) :: (ix, iy1, iz1) :: (ix1, iy1, iz1) :: nil.

  (* --------------------------------------------------------------- grid *)
  (* A tensor grid is given by its three node vectors (n+1 entries each);
     cell centres are (nodes[1:] + nodes[:-1]) / 2. *)
  Variables (nx ny nz : Z) (ndx ndy ndz : Z -> F).

  Definition centers (nd : Z -> F) : Z -> F :=
    fun i => (nd (i + 1)%Z + nd i) / (1 + 1).

  (* component c in {0,1,2} of an electric (el = true: edges) or magnetic
     (el = false: faces) field, dimension d: centres or nodes? *)
  Definition on_centers (el : bool) (c d : Z) : bool :=
    if el then (c =? d)%Z else negb (c =? d)%Z.
  Definition cg (el : bool) (c d : Z) (nd : Z -> F) : Z -> F :=
    if on_centers el c d then centers nd else nd.
  Definition cn (el : bool) (c d : Z) (n : Z) : Z :=
    if on_centers el c d then n else (n + 1)%Z.

  Definition comp_interp (el : bool) (c : Z) (v : Z -> Z -> Z -> F) (x y z : F)
    : option F :=
    trilinear (cg el c 0 ndx) (cn el c 0 nx) (cg el c 1 ndy) (cn el c 1 ny)
              (cg el c 2 ndz) (cn el c 2 nz) v x y z.

  (* ------------------------------------------------------- get_receiver *)
  Variable eps : F.                              (* the literal 1e-10 *)
  Definition used (f : F) : bool := ltb eps (Fabs f).   (* abs(f) > 1e-10 *)

  Definition oadd (a b : option F) : option F :=
    match a, b with Some p, Some q => Some (p + q) | _, _ => None end.
  Definition oscale (c : F) (a : option F) : option F :=
    match a with Some p => Some (c * p) | None => None end.

  (* xi < nodes[1] or xi > nodes[-2], any direction *)
  Definition outer_mask (x y z : F) : bool :=
    (ltb x (ndx 1%Z) || ltb (ndx (nx - 1)%Z) x ||
     ltb y (ndy 1%Z) || ltb (ndy (ny - 1)%Z) y ||
     ltb z (ndz 1%Z) || ltb (ndz (nz - 1)%Z) z)%bool.

  (* u1,u2,u3: which components pass the `np.any(abs(factors[i]) > 1e-10)`
     test (the test is over ALL receivers of the call) *)
  Definition get_receiver_u (u1 u2 u3 : bool) (el : bool)
             (fx fy fz : Z -> Z -> Z -> F) (x y z f1 f2 f3 : F) : option F :=
    let r := Some 0 in
    let r := if u1 then oadd r (oscale f1 (comp_interp el 0 fx x y z)) else r in
    let r := if u2 then oadd r (oscale f2 (comp_interp el 1 fy x y z)) else r in
    let r := if u3 then oadd r (oscale f3 (comp_interp el 2 fz x y z)) else r in
    if outer_mask x y z then None else r.

  (* one receiver per call *)
  Definition get_receiver (el : bool) (fx fy fz : Z -> Z -> Z -> F)
             (x y z f1 f2 f3 : F) : option F :=
    get_receiver_u (used f1) (used f2) (used f3) el fx fy fz x y z f1 f2 f3.

  (* several receivers ((x,y,z),(f1,f2,f3)) in one call, as Simulation does *)
  Definition rx_f1 (r : (F * F * F) * (F * F * F)) : F := fst (fst (snd r)).
  Definition rx_f2 (r : (F * F * F) * (F * F * F)) : F := snd (fst (snd r)).
  Definition rx_f3 (r : (F * F * F) * (F * F * F)) : F := snd (snd r).
  Definition get_receiver_batch (el : bool) (fx fy fz : Z -> Z -> Z -> F)
             (rs : list ((F * F * F) * (F * F * F))) : list (option F) :=
    let u1 := existsb (fun r => used (rx_f1 r)) rs in
    let u2 := existsb (fun r => used (rx_f2 r)) rs in
    let u3 := existsb (fun r => used (rx_f3 r)) rs in
    map (fun r => get_receiver_u u1 u2 u3 el fx fy fz
                    (fst (fst (fst r))) (snd (fst (fst r))) (snd (fst r))
                    (rx_f1 r) (rx_f2 r) (rx_f3 r)) rs.

  (* complex field = (real part, imaginary part) *)
  Definition get_receiver_c (el : bool) (fxr fyr fzr fxi fyi fzi : Z -> Z -> Z -> F)
             (x y z f1 f2 f3 : F) : option (F * F) :=
    match get_receiver el fxr fyr fzr x y z f1 f2 f3,
          get_receiver el fxi fyi fzi x y z f1 f2 f3 with
    | Some a, Some b => Some (a, b)
    | _, _ => None
    end.

  (* ------------------------------------------------------- _point_vector *)
  Definition pv_outside (x y z : F) : bool :=
    (ltb x (ndx 0%Z) || ltb (ndx nx) x ||
     ltb y (ndy 0%Z) || ltb (ndy ny) y ||
     ltb z (ndz 0%Z) || ltb (ndz nz) z)%bool.

  Definition zero3 : Z -> Z -> Z -> F := fun _ _ _ => 0.
  Definition scale3 (c : F) (a : Z -> Z -> Z -> F) : Z -> Z -> Z -> F :=
    fun i j k => a i j k * c.

  Definition comp_source (el : bool) (c : Z) (x y z : F) : Z -> Z -> Z -> F :=
    point_source (cg el c 0 ndx) (cn el c 0 nx) (cg el c 1 ndy) (cn el c 1 ny)
                 (cg el c 2 ndz) (cn el c 2 nz) x y z zero3.

  Definition comp_targets (el : bool) (c : Z) (x y z : F) : list (Z * Z * Z) :=
    pv_targets (cg el c 0 ndx) (cn el c 0 nx) (cg el c 1 ndy) (cn el c 1 ny)
               (cg el c 2 ndz) (cn el c 2 nz) x y z.

  (* None = ValueError("Provided source outside grid").  el = true is
     emg3d.fields._point_vector; el = false is the same construction on the
     three face grids (the rows of discretize's faces interpolation matrix,
     used by _point_vector_magnetic; tied numerically). *)
  Definition point_vector_gen (el : bool) (x y z f1 f2 f3 : F)
    : option ((Z -> Z -> Z -> F) * (Z -> Z -> Z -> F) * (Z -> Z -> Z -> F)) :=
    if pv_outside x y z then None
    else Some (scale3 f1 (comp_source el 0 x y z),
               scale3 f2 (comp_source el 1 x y z),
               scale3 f3 (comp_source el 2 x y z)).
  Definition point_vector := point_vector_gen true.
  Definition face_vector := point_vector_gen false.

  (* --------------------------------------------------- inner product *)
  Definition inner3 (el : bool) (ax ay az bx by_ bz : Z -> Z -> Z -> F) : F :=
    sum3 (cn el 0 0 nx) (cn el 0 1 ny) (cn el 0 2 nz) (fun i j k => ax i j k * bx i j k)
    + sum3 (cn el 1 0 nx) (cn el 1 1 ny) (cn el 1 2 nz) (fun i j k => ay i j k * by_ i j k)
    + sum3 (cn el 2 0 nx) (cn el 2 1 ny) (cn el 2 2 nz) (fun i j k => az i j k * bz i j k).
End Interp.
