(* Model/SimFault.v -- operations of Model/SimMachine.v that RAISE mid-way
   (property C12, fault paths).  Definitions only.

   A public operation may be interrupted by an exception raised at a seam of the
   code; the simulation is used afterwards.  [fstep fin q w (k, o, Some fl)] is
   the operation [o] on simulation [k] during which the fault [fl] is armed:

     FBatch kd  the FIRST batch of solves of kind kd issued by the operation
                (emg3d._multiprocessing.process_map called with 'Compute efields'
                / 'Back-propagate' / 'Compute jvec') raises on entry: its inputs
                were collected (solver_opts['tol'] was set for that kind; a fresh
                `_bcompute` created its still empty dictionaries), no solve of the
                batch ran, nothing of it was stored;
     FWarn      the 3D gradient computation raises at its start, after the misfit
                was ensured and before the back-propagation (warnings turned into
                errors: receiver_interpolation='cubic' warns there);
     FIo        to_file raises in io AFTER the simulation was serialised (the
                target cannot be written): to_dict's side effect
                solver_opts['tol'] = tol_forward took place, no simulation is made.

   An armed fault that the operation never reaches (value cached, no batch of that
   kind) does not fire: the operation completes as in Model/SimMachine.v.
   A fault that fires ends the operation with [RErr EInj] ([RErr EFile] for FIo);
   the state left behind is what the statements executed so far wrote -- EXCEPT in
   jtvec, whose try/finally restores data.residual and the gradient cache and
   drops the back-propagated fields also when the body raises.  [fin = false] is
   the variant "restore only when the body finishes" (no finally): refuted.

   `_dict_bfield` existing with all entries None (a `_bcompute` that raised before
   it stored anything) is identified with `_dict_bfield` not existing: both make
   the next back-propagation start cold and create/keep the dictionaries
   ([s_bfield] = the dictionaries hold fields).                                   *)
From Coq Require Import ZArith List Bool Arith.
From V Require Import Model.SimMachine.
Import ListNotations.

Inductive fault := FWarn | FBatch (kd : skind) | FIo.

(* the forward batch for the slots [sl] raises on entry: collect phase done
   (a missing file raises before), tol := tol_forward, nothing stored *)
Definition fwd_fault (file : bool) (store : nat -> option tag) (s : sim) (sl : list nat) : res :=
  if existsb (missing file store s) sl then compute_slots file store s sl
  else mkRes (match sl with [] => s | _ => set_tol s TFwd end) store [] (Some EInj).

Definition is_fwd (fl : fault) : bool := match fl with FBatch KF => true | _ => false end.

Definition do_compute_f (fl : fault) (n : nat) (file : bool) (store : nat -> option tag) (s : sim) : res :=
  if is_fwd fl then fwd_fault file store s (seq 0 n) else do_compute n file store s.

Definition do_misfit_f (fl : fault) (n : nat) (file : bool) (store : nat -> option tag) (s : sim) : res :=
  if is_fwd fl && negb (isSome (s_misfit s)) && negb (s_computed s)
  then fwd_fault file store s (seq 0 n) else do_misfit n file store s.

Definition ensure_slot_f (fl : fault) (file : bool) (store : nat -> option tag) (s : sim) (i : nat) : res :=
  match eff file store s i with
  | None => if is_fwd fl then fwd_fault file store s [i] else ensure_slot file store s i
  | _ => ensure_slot file store s i
  end.

(* does the loop `for slot: get_efield(slot)` issue a forward batch (before it
   completes or hits a missing file)? *)
Definition first_todo (n : nat) (file : bool) (store : nat -> option tag) (s : sim) : bool :=
  let stop := find (missing file store s) (seq 0 n) in
  let upto := match stop with Some k => k | None => n end in
  match filter (fun i => negb (isSome (s_efield s i))) (seq 0 upto) with [] => false | _ => true end.

(* the part of `gradient` after `_ = self.misfit` with a fault armed *)
Definition grad_core_f (fl : fault) (q : quirks) (n : nat) (file : bool) (store : nat -> option tag) (s1 : sim) : res :=
  if q_keep q then grad_core q n file store s1 else
  match fl with
  | FWarn => mkRes s1 store [] (Some EInj)
  | FBatch KB => mkRes (set_tol (set_grad s1 None (s_bfield s1)) TGrad) store [] (Some EInj)
  | FBatch KF =>
      let s2 := set_tol (set_grad s1 None true) TGrad in
      if first_todo n file store s2
      then mkRes (set_tol s2 TFwd) store (bsolves n (s_bfield s1) (s_model s1)) (Some EInj)
      else grad_core q n file store s1
  | _ => grad_core q n file store s1
  end.

Definition do_gradient_f (fl : fault) (q : quirks) (n : nat) (file : bool) (store : nat -> option tag) (s : sim) : res :=
  match s_gradient s with
  | Some _ => mkRes s store [] None
  | None =>
    let r := do_misfit_f fl n file store s in
    match r_err r with
    | Some _ => r
    | None =>
      let r2 := grad_core_f fl q n file (r_store r) (r_sim r) in
      mkRes (r_sim r2) (r_store r2) (r_trace r ++ r_trace r2) (r_err r2)
    end
  end.

(* the part of `jvec` after `_ = self.misfit` with a fault armed *)
Definition jvec_core_f (fl : fault) (q : quirks) (n : nat) (file : bool) (store : nat -> option tag) (s1 : sim) (v : nat) : res :=
  if q_keep q then jvec_core q n file store s1 v else
  match fl with
  | FBatch KF =>
      if first_todo n file store s1 then mkRes (set_tol s1 TFwd) store [] (Some EInj)
      else jvec_core q n file store s1 v
  | FBatch KG =>
      let r2 := ensure_all n file store s1 in
      match r_err r2, n with
      | None, S _ => mkRes (set_tol (r_sim r2) TGrad) (r_store r2) (r_trace r2) (Some EInj)
      | _, _ => jvec_core q n file store s1 v
      end
  | _ => jvec_core q n file store s1 v
  end.

Definition do_jvec_f (fl : fault) (q : quirks) (n : nat) (file : bool) (store : nat -> option tag) (s : sim) (v : nat) : res :=
  let r := do_misfit_f fl n file store s in
  match r_err r with
  | Some _ => r
  | None =>
    let r2 := jvec_core_f fl q n file (r_store r) (r_sim r) v in
    mkRes (r_sim r2) (r_store r2) (r_trace r ++ r_trace r2) (r_err r2)
  end.

(* jtvec (repaired): ensure misfit; save residual and gradient; try: replace,
   compute; finally (fin) / on success only (negb fin): restore, drop bfields *)
Definition do_jtvec_f (fin : bool) (fl : fault) (n : nat) (q : quirks) (file : bool) (store : nat -> option tag) (s : sim) (w : nat) : res * ret :=
  let r0 := do_misfit_f fl n file store s in
  match r_err r0 with
  | Some e => (r0, RErr e)
  | None =>
    let s0 := r_sim r0 in
    let saved_r := s_residual s0 in
    let saved_g := s_gradient s0 in
    let s1 := set_grad (set_residual s0 (wow s0 w)) None false in
    let r := do_gradient_f fl q n file (r_store r0) s1 in
    let restore := match r_err r with None => true | Some _ => fin end in
    let s2 := if restore then set_grad (set_residual (r_sim r) saved_r) saved_g false else r_sim r in
    (mkRes s2 (r_store r) (r_trace r0 ++ r_trace r) (r_err r),
     match r_err r with Some e => RErr e
                      | None => match s_gradient (r_sim r) with Some t => RVal t | None => RNone end end)
  end.

(* ---- one step of the world with an optional armed fault ---- *)
Definition fstep (fin : bool) (q : quirks) (w : world) (kof : nat * sop * option fault) : world * obs :=
  let '(k, o, f) := kof in
  match f with
  | None => step q w (k, o)
  | Some fl =>
    match nth_error (w_sims w) k with
    | None => (w, mkObs RNone [])
    | Some s =>
      let n := w_n w in let file := w_file w in let store := w_store w in
      match o with
      | OCompute => of_res w k (do_compute_f fl n file store s) RNone
      | OMisfit => let r := do_misfit_f fl n file store s in of_res w k r (misfit_ret q (r_sim r))
      | OGradient =>
          let r := do_gradient_f fl q n file store s in
          of_res w k r (match s_gradient (r_sim r) with Some t => RVal t | None => RNone end)
      | OJvec v =>
          let r := do_jvec_f fl q n file store s v in
          of_res w k r (match s_jvec (r_sim r) with Some t => RVal t | None => RNone end)
      | OJtvec wi =>
          if q_jtvec q then step q w (k, o)
          else let (r, v) := do_jtvec_f fin fl n q file store s wi in of_res w k r v
      | OGetE i =>
          let r := ensure_slot_f fl file store s i in
          of_res w k r (match eff file (r_store r) (r_sim r) i with Some t => RVal t | None => RNone end)
      | OGetH i =>
          let r := ensure_slot_f fl file store s i in
          of_res w k r (match eff file (r_store r) (r_sim r) i with Some t => RVal (hof t) | None => RNone end)
      | OExport x d =>
          match fl with
          | FIo => if via_file x && negb (json_fails q s x)
                   then (put w k (set_tol s TFwd) store, mkObs (RErr EFile) [])
                   else step q w (k, o)
          | _ => step q w (k, o)
          end
      | OClean _ | OSetModel _ _ _ => step q w (k, o)
      end
    end
  end.

Definition frun (fin : bool) (q : quirks) (w : world) (ops : list (nat * sop * option fault)) : world :=
  fold_left (fun w o => fst (fstep fin q w o)) ops w.

(* did the fault fire? *)
Definition fired (ob : obs) : bool :=
  match o_ret ob with RErr EInj => true | _ => false end.

(* run a history with faults, dumping observation and world after every step *)
Fixpoint frun_dump (fin : bool) (q : quirks) (w : world) (ops : list (nat * sop * option fault))
  : list (list Z * list (list Z)) :=
  match ops with
  | [] => []
  | o :: rest => let (w', ob) := fstep fin q w o in (enc_obs ob, enc_world w') :: frun_dump fin q w' rest
  end.
