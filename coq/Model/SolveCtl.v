(* Model/SolveCtl.v -- hand model of the control / bookkeeping of emg3d.solver.solve,
   multigrid (outer loop over fine-grid cycles) and krylov (property C01).
   Definitions only.  The decision logic (terminate_chain, good_enough, zero_source,
   exit_status_of, krylov_exit_message, abort_code, ..., and the three flags saying what
   the zero-source branch and krylov() do) comes from Gen/SolveCtl.v, regenerated from
   emg3d/solver.py on every run.

   Numbers are an abstract type [num] with the comparisons of the code as boolean
   parameters (ltb = Python `<`, leb = `<=`; `a > b` is ltb b a), so NaN/inf semantics
   are whatever the instance says.  Fields are an abstract type [fld] with oracles:
     resnorm e   norm of the residual of e for the given source (emg3d.solver.residual(.., True))
     zero        the all-zero field          pec e   e with tangential boundary edges zeroed
     mg_init e   field after the nu_init smoothing   mg_cycle k e   field after fine-grid cycle k
   and the Krylov solver is an ARBITRARY finite event trace. *)
From Coq Require Import ZArith QArith String Bool List.
From V Require Import Gen.SolveCtl.
Import ListNotations.
Local Open Scope Z_scope.
Local Open Scope string_scope.

(* What the source does at the three places where the pinned commit deviates from
   the property; [src_variant] is read off the CURRENT source by the generator. *)
Record variant : Type := {
  v_zero_inplace : bool;   (* zero-source branch zeroes the field object in place *)
  v_zero_l2 : bool;        (* ... and sets var.l2 = 0 *)
  v_recompute : bool;      (* krylov() recomputes var.l2 from the returned field *)
  v_kmap : string -> Z -> string -> string   (* exit-code mapping of krylov() *)
}.

Definition src_variant : variant :=
  {| v_zero_inplace := zero_branch_inplace; v_zero_l2 := zero_branch_sets_l2;
     v_recompute := krylov_recomputes_l2; v_kmap := krylov_exit_message |}.

(* exit-code mapping as in the pinned commit (6b21621): a negative scipy code keeps
   whatever message a preconditioner run left behind, including "CONVERGED" *)
Definition kmap_unfixed (name : string) (i : Z) (m : string) : string :=
  if Z.ltb i 0 then (if String.eqb m "" then "Error in " ++ name ++ " (" ++ zstr i ++ ")" else m)
  else if Z.ltb 0 i then "MAX. ITERATION REACHED, NOT CONVERGED" else "CONVERGED".
Definition kmap_fixed (name : string) (i : Z) (m : string) : string :=
  if Z.ltb i 0 then (if (String.eqb m "" || String.eqb m "CONVERGED")%bool
                  then "Error in " ++ name ++ " (" ++ zstr i ++ ")" else m)
  else if Z.ltb 0 i then "MAX. ITERATION REACHED, NOT CONVERGED" else "CONVERGED".

Definition fixed_variant : variant :=
  {| v_zero_inplace := true; v_zero_l2 := true; v_recompute := true; v_kmap := kmap_fixed |}.
(* the explicitly named UNFIXED variants (each undoes one repair) *)
Definition unfixed_zero : variant :=
  {| v_zero_inplace := false; v_zero_l2 := false; v_recompute := true; v_kmap := kmap_fixed |}.
Definition unfixed_krylov : variant :=
  {| v_zero_inplace := true; v_zero_l2 := true; v_recompute := false; v_kmap := kmap_fixed |}.
Definition unfixed_negcode : variant :=
  {| v_zero_inplace := true; v_zero_l2 := true; v_recompute := true; v_kmap := kmap_unfixed |}.
Definition pinned_variant : variant :=
  {| v_zero_inplace := false; v_zero_l2 := false; v_recompute := false; v_kmap := kmap_unfixed |}.

Definition upd_nth {A} (l : list A) (i : nat) (v : A) : list A :=
  firstn i l ++ v :: skipn (S i) l.

Section Ctl.
  Variable num : Type.
  Variables (ltb leb : num -> num -> bool) (isfinite : num -> bool)
            (mul : num -> num -> num) (nofZ : Z -> num).
  Variables (tiny100 nan : num).
  Variable fld : Type.
  Variables (resnorm : fld -> num) (zero : fld) (pec : fld -> fld).
  Variables (mg_init : fld -> fld) (mg_cycle : nat -> fld -> fld).
  Variable VV : variant.

  Definition tchain := terminate_chain num ltb leb isfinite mul nofZ.
  Definition traises := terminate_raises.

  (* solver settings after MGParameters.__post_init__ *)
  Record cfg : Type := {
    c_ssl : bool;           (* an sslsolver is used *)
    c_ssl_name : string;    (* its name *)
    c_cycle : bool;         (* cycle is not None *)
    c_tol : num;
    c_maxit : Z;            (* the user's maxit *)
    c_maxcycle : Z;         (* max(len(sc pattern), len(lr pattern)) >= 1 *)
    c_return_info : bool;
    c_always_return : bool
  }.
  (* var.maxit as seen by _terminate (MGParameters._solver_and_cycle) *)
  Definition mg_maxit (c : cfg) : Z :=
    if (c_ssl c && c_cycle c)%bool then c_maxcycle c else c_maxit c.

  (* ---- one pass of the `while` body of multigrid() at level 0, given the norm
     of the residual after the cycle ------------------------------------------- *)
  Record mgst : Type := {
    m_it : Z;            (* local iteration counter `it` *)
    m_varit : Z;         (* var.it *)
    m_l2 : num;          (* l2_last *)
    m_stag : list num;   (* l2_stag, length maxcycle *)
    m_msg : string;      (* var.exit_message *)
    m_errs : list num    (* var.error_at_cycle *)
  }.
  Definition stag_ix (c : cfg) (it : Z) : nat := Z.to_nat ((it - 1) mod c_maxcycle c).

  Definition mg_step (ssl : bool) (c : cfg) (l2_refe : num) (s : mgst) (n : num)
      : mgst * bool * bool :=       (* (new state, finished, _ConvergenceError raised) *)
    let stag1 := upd_nth (m_stag s) (stag_ix c (m_it s)) (m_l2 s) in
    let it1 := m_it s + 1 in
    let t := tchain ssl (c_tol c) l2_refe (mg_maxit c) n (nth (stag_ix c it1) stag1 n) it1 (m_msg s) in
    ({| m_it := it1; m_varit := m_varit s + 1; m_l2 := n; m_stag := stag1;
        m_msg := fst (fst t); m_errs := m_errs s ++ [n] |},
     snd (fst t), traises ssl (snd (fst t)) (snd t)).

  (* multigrid() as the solver: cycles produce fields; fuel = maxit *)
  Fixpoint mg_outer (fuel : nat) (k : nat) (c : cfg) (l2_refe : num) (e : fld) (s : mgst)
      : fld * mgst * bool :=
    match fuel with
    | O => (e, s, false)
    | S f =>
        let e1 := mg_cycle k e in
        let r := mg_step false c l2_refe s (resnorm e1) in
        if snd (fst r) then (e1, fst (fst r), true)
        else mg_outer f (S k) c l2_refe e1 (fst (fst r))
    end.

  Definition mg_start (c : cfg) (n0 : num) (varit : Z) (msg : string) (errs : list num) : mgst :=
    {| m_it := 0; m_varit := varit; m_l2 := n0; m_stag := repeat n0 (Z.to_nat (c_maxcycle c));
       m_msg := msg; m_errs := errs |}.

  (* l2_last is computed BEFORE the nu_init smoothing; var.l2 = l2_last at the end *)
  Definition mg_solve (c : cfg) (l2_refe : num) (e0 : fld) (msg : string) (errs : list num)
      : fld * mgst * bool :=
    mg_outer (Z.to_nat (c_maxit c)) 0 c l2_refe (mg_init e0) (mg_start c (resnorm e0) 0 msg errs).

  (* multigrid() as preconditioner: only the observed norms matter *)
  Fixpoint mg_list (ns : list num) (c : cfg) (l2_refe : num) (s : mgst) : mgst * bool * bool * nat :=
    match ns with
    | [] => (s, false, false, O)
    | n :: ns' =>
        let r := mg_step true c l2_refe s n in
        if snd (fst r) then (fst (fst r), true, snd r, length ns')
        else mg_list ns' c l2_refe (fst (fst r))
    end.

  (* ---- krylov(): whatever scipy does, as an event trace ----------------------- *)
  Inductive kev : Type :=
  | Callback (x : fld)                    (* callback(x) *)
  | Precond (n0 : num) (ns : list num) (lr : num)
      (* M.matvec: multigrid on a zero field; initial norm, norm after each cycle; lr: the value the
         coarse-grid recursion left in var.l2 (multigrid() ends with var.l2 = l2_last on EVERY level),
         visible only when the fine-grid call raises before its own var.l2 = l2_last *)
  | Return (x : fld) (code : Z).          (* return x, info *)

  Record kst : Type := {
    k_l2 : num; k_ssl_it : Z; k_varit : Z; k_msg : string; k_errs : list num
  }.
  Inductive kout : Type :=
  | KReturn (x : fld) (code : Z) (s : kst)
  | KAbort (s : kst)            (* _ConvergenceError propagated out of scipy *)
  | KIll.                       (* not a possible trace (no return, preconditioner without cycle, ...) *)

  Fixpoint krylov_run (tr : list kev) (c : cfg) (l2_refe : num) (s : kst) : kout :=
    match tr with
    | [] => KIll
    | Callback x :: tr' =>
        let l2 := resnorm x in
        krylov_run tr' c l2_refe
          {| k_l2 := l2; k_ssl_it := k_ssl_it s + 1; k_varit := k_varit s; k_msg := k_msg s;
             k_errs := k_errs s ++ [l2] |}
    | Precond n0 ns lr :: tr' =>
        if c_cycle c then
          let r := mg_list ns c l2_refe (mg_start c n0 (k_varit s) (k_msg s) (k_errs s)) in
          let s' := fst (fst (fst r)) in
          if negb (snd (fst (fst r))) then KIll
          else if negb (Nat.eqb (snd r) 0) then KIll
          else if snd (fst r)
            then (* raised inside _terminate: `var.l2 = l2_last` is not reached *)
              KAbort {| k_l2 := lr; k_ssl_it := k_ssl_it s; k_varit := m_varit s';
                        k_msg := m_msg s'; k_errs := m_errs s' |}
            else krylov_run tr' c l2_refe
              {| k_l2 := m_l2 s'; k_ssl_it := k_ssl_it s; k_varit := m_varit s';
                 k_msg := m_msg s'; k_errs := m_errs s' |}
        else KIll
    | Return x code :: _ => KReturn x code s
    end.

  (* returns the content of the field object afterwards and the bookkeeping *)
  Definition krylov_ctl (c : cfg) (l2_refe : num) (e0 : fld) (tr : list kev) (s0 : kst)
      : option (fld * kst) :=
    match krylov_run tr c l2_refe s0 with
    | KIll => None
    | KAbort s =>
        let msg := k_msg s ++ abort_suffix in
        Some (e0, {| k_l2 := if v_recompute VV then resnorm e0 else k_l2 s;
                     k_ssl_it := k_ssl_it s; k_varit := k_varit s;
                     k_msg := v_kmap VV (c_ssl_name c) abort_code msg; k_errs := k_errs s |})
    | KReturn x code s =>
        Some (x, {| k_l2 := if v_recompute VV then resnorm x else k_l2 s;
                    k_ssl_it := k_ssl_it s; k_varit := k_varit s;
                    k_msg := v_kmap VV (c_ssl_name c) code (k_msg s); k_errs := k_errs s |})
    end.

  (* ---- solve() ----------------------------------------------------------------- *)
  Record src : Type := { s_norm : num; s_complex : bool; s_has_freq : bool }.
  Record sup : Type := { u_fld : fld; u_complex : bool }.
  Inductive err : Type := ErrConfig | ErrFreq | ErrDtype.
  Inductive branch : Type := BGood | BZero | BKrylov | BMG.

  Record result : Type := {
    r_branch : branch;
    r_obj : fld;               (* content of the object the local name `efield` refers to at the end *)
    r_same : bool;             (* that object is still the caller's (if one was supplied) *)
    r_caller : option fld;     (* content of the caller's object at the end *)
    r_returned : option fld;   (* the field returned, if any *)
    r_complex : bool;          (* dtype tag of r_obj *)
    r_info : bool;             (* info dict returned *)
    r_exit : Z; r_msg : string; r_l2 : num; r_l2_refe : num;
    r_it : Z; r_ssl_it : Z; r_errs : list num
  }.
  Inductive outcome : Type := Err (e : err) | Done (r : result) | Stuck.

  Definition olist {A} (o : option A) : list A := match o with Some a => [a] | None => [] end.
  (* the fields the caller ends up holding *)
  Definition held (r : result) : list fld := olist (r_caller r) ++ olist (r_returned r).

  (* the pieces of solve() before the dispatch, named so that theorems can refer to them *)
  Definition e0_of (supplied : option sup) : fld :=        (* content of the field object before the solve *)
    match supplied with
    | Some u => if supplied_field_pec_zeroed then pec (u_fld u) else u_fld u
    | None => zero end.
  Definition tag0_of (s : src) (supplied : option sup) : bool :=
    match supplied with Some u => u_complex u | None => s_complex s end.
  Definition do_return_of (c : cfg) (supplied : option sup) : bool :=
    match supplied with Some _ => c_always_return c | None => true end.
  Definition l2_0_of (supplied : option sup) : num :=      (* var.l2 before the solve *)
    match supplied with Some _ => resnorm (e0_of supplied) | None => nofZ 1 end.
  Definition good_of (c : cfg) (s : src) (supplied : option sup) : bool :=
    match supplied with
    | Some _ => good_enough num ltb mul (c_tol c) (s_norm s) (l2_0_of supplied) | None => false end.
  Definition zs_of (s : src) : bool := zero_source num ltb tiny100 (s_norm s).
  Definition kst0 (s : src) (supplied : option sup) : kst :=
    {| k_l2 := l2_0_of supplied; k_ssl_it := 0; k_varit := 0; k_msg := ""; k_errs := [s_norm s] |}.
  Definition caller_of (supplied : option sup) (same : bool) (obj : fld) : option fld :=
    match supplied with Some _ => Some (if same then obj else e0_of supplied) | None => None end.

  Definition solve_ctl (c : cfg) (s : src) (supplied : option sup) (tr : list kev) : outcome :=
    if (negb (c_ssl c) && negb (c_cycle c))%bool then Err ErrConfig     (* MGParameters *)
    else if negb (s_has_freq s) then Err ErrFreq
    else if match supplied with
            | Some u => negb (Bool.eqb (u_complex u) (s_complex s)) | None => false end
    then Err ErrDtype
    else
    let e0 := e0_of supplied in
    let tag0 := tag0_of s supplied in
    let do_return := do_return_of c supplied in
    let l2_0 := l2_0_of supplied in
    let errs := [s_norm s] in
    if zs_of s then
      (* zero source: l2_refe = nan, both solvers off, zero field *)
      let same := match supplied with Some _ => v_zero_inplace VV | None => true end in
      let msg := zero_source_message in
      Done {| r_branch := BZero; r_obj := zero; r_same := same;
              r_caller := caller_of supplied same zero;
              r_returned := if do_return then Some zero else None;
              r_complex := if same then tag0 else s_complex s; r_info := c_return_info c;
              r_exit := exit_status_of msg; r_msg := msg;
              r_l2 := if v_zero_l2 VV then nofZ 0 else l2_0; r_l2_refe := nan;
              r_it := 0; r_ssl_it := 0; r_errs := errs |}
    else if good_of c s supplied then
      let msg := good_enough_message in
      Done {| r_branch := BGood; r_obj := e0; r_same := true;
              r_caller := caller_of supplied true e0;
              r_returned := if do_return then Some e0 else None;
              r_complex := tag0; r_info := c_return_info c;
              r_exit := exit_status_of msg; r_msg := msg; r_l2 := l2_0; r_l2_refe := s_norm s;
              r_it := 0; r_ssl_it := 0; r_errs := errs |}
    else if c_ssl c then
      match krylov_ctl c (s_norm s) e0 tr (kst0 s supplied) with
      | None => Stuck
      | Some xk =>
          let x := fst xk in let k := snd xk in
          Done {| r_branch := BKrylov; r_obj := x; r_same := true;
                  r_caller := caller_of supplied true x;
                  r_returned := if do_return then Some x else None;
                  r_complex := tag0; r_info := c_return_info c;
                  r_exit := exit_status_of (k_msg k); r_msg := k_msg k; r_l2 := k_l2 k;
                  r_l2_refe := s_norm s; r_it := k_varit k; r_ssl_it := k_ssl_it k;
                  r_errs := k_errs k |}
      end
    else (* c_cycle c holds here: MGParameters rejected the other case *)
      let r := mg_solve c (s_norm s) e0 "" errs in
      if snd r then
        let m := snd (fst r) in let x := fst (fst r) in
        Done {| r_branch := BMG; r_obj := x; r_same := true;
                r_caller := caller_of supplied true x;
                r_returned := if do_return then Some x else None;
                r_complex := tag0; r_info := c_return_info c;
                r_exit := exit_status_of (m_msg m); r_msg := m_msg m; r_l2 := m_l2 m;
                r_l2_refe := s_norm s; r_it := m_varit m; r_ssl_it := 0; r_errs := m_errs m |}
      else Stuck.

  (* ---- vocabulary of the theorems (Props/C01.v) -------------------------------------- *)
  (* oracle contracts *)
  Definition krylov_contract (c : cfg) (s : src) (tr : list kev) : Prop :=
    forall x, In (Return x 0) tr -> leb (resnorm x) (mul (c_tol c) (s_norm s)) = true.
  Definition krylov_pec (tr : list kev) : Prop :=
    forall x code, In (Return x code) tr -> pec x = x.
  Definition pec_laws : Prop :=
    (forall x, pec (pec x) = pec x) /\ pec zero = zero /\
    (forall x, pec x = x -> pec (mg_init x) = mg_init x) /\
    (forall k x, pec x = x -> pec (mg_cycle k x) = mg_cycle k x).
  (* what a successful run guarantees for a field [e] the caller holds *)
  Definition certified (c : cfg) (s : src) (r : result) (e : fld) : Prop :=
    match r_branch r with
    | BZero => zero_source num ltb tiny100 (s_norm s) = true /\ e = zero
    | BGood | BMG => ltb (resnorm e) (mul (c_tol c) (s_norm s)) = true
    | BKrylov => leb (resnorm e) (mul (c_tol c) (s_norm s)) = true
    end.
  Definition error_describes (r : result) (e : fld) : Prop :=
    match r_branch r with
    | BZero => r_l2 r = nofZ 0
    | _ => r_l2 r = resnorm e
    end.
End Ctl.

(* ---- executable number type for the correspondence: finite rationals (every
   finite float), infinities, NaN, with IEEE comparison semantics ---------------- *)
Inductive xnum : Type := XF (q : Q) | XInf (neg : bool) | XNaN.
Definition Qlt_bool (p q : Q) : bool := negb (Qle_bool q p).
Definition xltb (a b : xnum) : bool :=
  match a, b with
  | XNaN, _ | _, XNaN => false
  | XF p, XF q => Qlt_bool p q
  | XF _, XInf neg => negb neg
  | XInf neg, XF _ => neg
  | XInf n1, XInf n2 => (n1 && negb n2)%bool
  end.
Definition xleb (a b : xnum) : bool :=
  match a, b with
  | XNaN, _ | _, XNaN => false
  | XF p, XF q => Qle_bool p q
  | XF _, XInf neg => negb neg
  | XInf neg, XF _ => neg
  | XInf n1, XInf n2 => (n1 || negb n2)%bool
  end.
Definition xisfinite (a : xnum) : bool := match a with XF _ => true | _ => false end.
Definition qsign (q : Q) : Z := Z.sgn (Qnum q).
Definition xmul_exact (a b : xnum) : xnum :=
  match a, b with
  | XNaN, _ | _, XNaN => XNaN
  | XF p, XF q => XF (Qred (p * q))
  | XF p, XInf n | XInf n, XF p =>
      if Z.eqb (qsign p) 0 then XNaN else XInf (if Z.ltb (qsign p) 0 then negb n else n)
  | XInf n1, XInf n2 => XInf (xorb n1 n2)
  end.
Definition xeq (a b : xnum) : bool :=
  match a, b with
  | XF p, XF q => Qeq_bool p q
  | XInf n1, XInf n2 => Bool.eqb n1 n2
  | XNaN, XNaN => true
  | _, _ => false
  end.
(* products are rounded by the float unit: the harness supplies the observed
   rounded products (only tol*l2_refe and 10*l2_refe occur) *)
Definition xmul (tbl : list (xnum * xnum * xnum)) (a b : xnum) : xnum :=
  match find (fun t => (xeq (fst (fst t)) a && xeq (snd (fst t)) b)%bool) tbl with
  | Some t => snd t
  | None => xmul_exact a b
  end.
Definition xofZ (z : Z) : xnum := XF (inject_Z z).
