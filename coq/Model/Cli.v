(* Model/Cli.v -- executable hand model of emg3d's command-line front end:
     emg3d.cli.parser.parse_config_file   ->  [parse_with] / [parse]
     emg3d.cli.run.simulation (routing)   ->  [run_with]  / [run]
   The model INTERPRETS the option tables (which key of which section is read
   with which typed reader, where the value is stored, defaults, which
   terminal argument overrides which option, which sections reject unknown
   keys, the key translations applied before the API call); [parse]/[run] are
   the instances for the tables regenerated from the current sources
   (Gen/CliTable.v).  Definitions only; proofs are in Proofs/Cli.v.

   Oracles (Section variables): [abspath] = os.path.abspath.  configparser is
   outside the model: a configuration is what ConfigParser(inline_comment_
   prefixes='#') returns, a list of sections with (lower-cased key, stripped
   text) pairs. *)
From Coq Require Import String Ascii List ZArith Bool.
From V Require Import Model.CliTypes Gen.CliTable.
Import ListNotations.
Local Open Scope string_scope.
Local Open Scope Z_scope.
Local Open Scope list_scope.
Notation "a +++ b" := (String.append a b) (at level 60, right associativity).

(* ------------------------------------------------------------------ text *)
Definition is_space (c : ascii) : bool :=
  let n := N_of_ascii c in
  (N.eqb n 32 || (N.leb 9 n && N.leb n 13))%bool.

Fixpoint ltrim (s : string) : string :=
  match s with
  | String c r => if is_space c then ltrim r else s
  | EmptyString => EmptyString
  end.

Fixpoint rev_acc (s acc : string) : string :=
  match s with
  | EmptyString => acc
  | String c r => rev_acc r (String c acc)
  end.
Definition srev (s : string) : string := rev_acc s EmptyString.
Definition trim (s : string) : string := srev (ltrim (srev (ltrim s))).

Definition lower_ascii (c : ascii) : ascii :=
  let n := N_of_ascii c in
  if (N.leb 65 n && N.leb n 90)%bool then ascii_of_N (n + 32) else c.
Fixpoint lower (s : string) : string :=
  match s with
  | EmptyString => EmptyString
  | String c r => String (lower_ascii c) (lower r)
  end.

(* Python str.split(sep) for a one-character separator. *)
Fixpoint split (sep : ascii) (s : string) : list string :=
  match s with
  | EmptyString => [EmptyString]
  | String c r =>
      if Ascii.eqb c sep then EmptyString :: split sep r
      else match split sep r with
           | [] => [String c EmptyString]
           | h :: t => String c h :: t
           end
  end.

(* pat in s *)
Fixpoint contains (pat s : string) : bool :=
  (String.prefix pat s ||
   match s with String _ r => contains pat r | EmptyString => false end)%bool.

(* first occurrence of c: (before, after) *)
Fixpoint break_at (c : ascii) (s : string) : option (string * string) :=
  match s with
  | EmptyString => None
  | String d r =>
      if Ascii.eqb d c then Some (EmptyString, r)
      else match break_at c r with
           | Some (a, b) => Some (String d a, b)
           | None => None
           end
  end.
(* last occurrence of c: (before, after) *)
Definition rbreak_at (c : ascii) (s : string) : option (string * string) :=
  match break_at c (srev s) with
  | Some (a, b) => Some (srev b, srev a)
  | None => None
  end.

(* --------------------------------------------------------------- numbers *)
Definition digit_of (c : ascii) : option Z :=
  let n := N_of_ascii c in
  if (N.leb 48 n && N.leb n 57)%bool then Some (Z.of_N (n - 48)) else None.

Fixpoint digits_acc (s : string) (acc : Z) : option Z :=
  match s with
  | EmptyString => Some acc
  | String c r => match digit_of c with
                  | Some d => digits_acc r (acc * 10 + d)
                  | None => None
                  end
  end.
(* possibly empty string of decimal digits *)
Definition digits0 (s : string) : option Z := digits_acc s 0.
(* non-empty string of decimal digits *)
Definition digits1 (s : string) : option Z :=
  match s with EmptyString => None | _ => digits_acc s 0 end.

Definition strip_sign (s : string) : bool * string :=
  match s with
  | String "-"%char r => (true, r)
  | String "+"%char r => (false, r)
  | _ => (false, s)
  end.

(* int(text): optional sign, digits (surrounding blanks allowed).
   NOT modelled: '_' digit separators. *)
Definition parse_int (s : string) : option Z :=
  let '(neg, r) := strip_sign (trim s) in
  match digits1 r with
  | Some n => Some (if neg then - n else n)
  | None => None
  end.

(* A decimal float literal, kept exact: (-1)^neg * m * 10^e10, or inf / nan.
   The correspondence compares float(text) with the correctly rounded value of
   this rational. *)
Inductive fl : Type :=
| FNum (neg : bool) (m : Z) (e10 : Z)
| FInf (neg : bool)
| FNan.

Definition parse_exp (s : string) : option Z :=
  let '(neg, r) := strip_sign s in
  match digits1 r with
  | Some n => Some (if neg then - n else n)
  | None => None
  end.

Definition parse_mant (s : string) : option (Z * Z) :=   (* digits, #fraction digits *)
  match break_at "."%char s with
  | None => match digits1 s with Some m => Some (m, 0) | None => None end
  | Some (ip, fp) =>
      match ip, fp with
      | EmptyString, EmptyString => None
      | _, _ => match digits0 (ip +++ fp) with
                | Some m => Some (m, Z.of_nat (String.length fp))
                | None => None
                end
      end
  end.

(* float(text).  NOT modelled: '_' digit separators. *)
Definition parse_float (s : string) : option fl :=
  let '(neg, r) := strip_sign (trim s) in
  let l := lower r in
  if (String.eqb l "inf" || String.eqb l "infinity")%bool then Some (FInf neg)
  else if String.eqb l "nan" then Some FNan
  else
    let '(mant, ex) := match break_at "e"%char l with
                       | Some (a, b) => (a, Some b)
                       | None => (l, None)
                       end in
    match parse_mant mant with
    | None => None
    | Some (m, nf) =>
        match ex with
        | None => Some (FNum neg m (- nf))
        | Some b => match parse_exp b with
                    | Some e => Some (FNum neg m (e - nf))
                    | None => None
                    end
        end
    end.

(* ---------------------------------------------------------------- values *)
Inductive item : Type := INone | ITrue | IFalse | IFloats (l : list fl).

Inductive value : Type :=
| VBool (b : bool)
| VInt (z : Z)
| VFloat (f : fl)
| VStr (s : string)
| VFloats (l : list fl)
| VLoL1 (i : item)                 (* one part: the part itself *)
| VLoL3 (x y z : item)             (* three parts: {'x':..,'y':..,'z':..} *)
| VStrs (l : list string).

Inductive err : Type :=
| ETypeError (what : string)       (* "Unexpected parameter in [what]" *)
| EValueError                      (* a typed reader rejected the text *)
| EIndexError                      (* list of lists with two parts *)
| EUnbound.                        (* log file name never defined *)

Inductive res (A : Type) : Type := Ok (a : A) | Err (e : err).
Arguments Ok {A} a.
Arguments Err {A} e.

Definition bool_true : list string := ["1"; "yes"; "true"; "on"].
Definition bool_false : list string := ["0"; "no"; "false"; "off"].

(* ConfigParser.getboolean *)
Definition read_bool (s : string) : res bool :=
  let l := lower s in
  if str_mem l bool_true then Ok true
  else if str_mem l bool_false then Ok false
  else Err EValueError.

Definition read_int (s : string) : res Z :=
  match parse_int s with Some z => Ok z | None => Err EValueError end.
Definition read_float (s : string) : res fl :=
  match parse_float s with Some f => Ok f | None => Err EValueError end.

Fixpoint read_floats (ps : list string) : res (list fl) :=
  match ps with
  | [] => Ok []
  | p :: r => match read_float p with
              | Err e => Err e
              | Ok f => match read_floats r with
                        | Err e => Err e
                        | Ok fs => Ok (f :: fs)
                        end
              end
  end.

Definition read_item (p : string) : res item :=
  let l := lower p in
  if contains "none" l then Ok INone
  else if contains "true" l then Ok ITrue
  else if contains "false" l then Ok IFalse
  else match read_floats (split ","%char p) with
       | Ok fs => Ok (IFloats fs)
       | Err e => Err e
       end.

Fixpoint read_items (ps : list string) : res (list item) :=
  match ps with
  | [] => Ok []
  | p :: r => match read_item p with
              | Err e => Err e
              | Ok i => match read_items r with
                        | Err e => Err e
                        | Ok is_ => Ok (i :: is_)
                        end
              end
  end.

Definition read_lol (s : string) : res value :=
  match read_items (split ";"%char s) with
  | Err e => Err e
  | Ok [i] => Ok (VLoL1 i)
  | Ok (x :: y :: z :: _) => Ok (VLoL3 x y z)
  | Ok _ => Err EIndexError
  end.

(* The typed reading of the text of an option; [None]: nothing is stored. *)
Definition read_value (t : ty) (s : string) : res (option value) :=
  match t with
  | TBool => match read_bool s with Ok b => Ok (Some (VBool b)) | Err e => Err e end
  | TInt => match read_int s with Ok z => Ok (Some (VInt z)) | Err e => Err e end
  | TFloat => match read_float s with Ok f => Ok (Some (VFloat f)) | Err e => Err e end
  | TStr => Ok (Some (VStr s))
  | TFloatList => match read_floats (split ","%char s) with
                  | Ok fs => Ok (Some (VFloats fs))
                  | Err e => Err e
                  end
  | TLoL => match read_lol s with Ok v => Ok (Some v) | Err e => Err e end
  | TStrList => match s with
                | EmptyString => Ok None
                | _ => Ok (Some (VStrs (map trim (split ","%char s))))
                end
  end.

(* ------------------------------------------------------- inputs / outputs *)
Definition section : Type := list (string * string).
Definition config : Type := list (string * section).

Definition cfg_section (c : config) (sec : string) : section :=
  match assoc sec c with Some kvs => kvs | None => [] end.
Definition cfg_get (c : config) (sec key : string) : option string :=
  assoc key (cfg_section c sec).

(* The dictionary produced by argparse (emg3d.cli.main.main). *)
Record term : Type := Term {
  t_verbosity : Z;
  t_nproc : option Z;
  t_dry_run : bool;
  t_clean : bool;
  t_layered : option bool;
  t_forward : bool; t_misfit : bool; t_gradient : bool;
  t_path : option string;
  t_survey : option string; t_model : option string; t_output : option string;
  t_save : option string; t_load : option string; t_cache : option string;
  t_extra : bool                   (* an unexpected key is left in the dict *)
}.

Definition term_file (t : term) (dest : string) : option string :=
  if String.eqb dest "path" then t_path t
  else if String.eqb dest "survey" then t_survey t
  else if String.eqb dest "model" then t_model t
  else if String.eqb dest "output" then t_output t
  else if String.eqb dest "save" then t_save t
  else if String.eqb dest "load" then t_load t
  else if String.eqb dest "cache" then t_cache t
  else None.

(* Typed value a terminal argument contributes to the simulation options. *)
Definition term_value (t : term) (dest : string) : option value :=
  if String.eqb dest "nproc" then
    match t_nproc t with Some n => Some (VInt (Z.max n 1)) | None => None end
  else if String.eqb dest "layered" then
    match t_layered t with Some b => Some (VBool b) | None => None end
  else None.

(* for key in [forward, misfit, gradient]: if set: function = key *)
Definition term_function (t : term) : string :=
  if t_gradient t then "gradient"
  else if t_misfit t then "misfit"
  else "forward".

Definition opt : Type := (string * string * value)%type.   (* path, key, value *)

Record output : Type := Output {
  o_function : string;
  o_verbosity : Z;
  o_dry_run : bool;
  o_clean : bool;
  o_files : list (string * option string);   (* None = False *)
  o_opts : list opt;                         (* later entries override *)
  o_warn : bool                              (* FutureWarning: noise keys in [simulation] *)
}.

Definition opt_is (path key : string) (o : opt) : bool :=
  (String.eqb (fst (fst o)) path && String.eqb (snd (fst o)) key)%bool.

(* value stored at path.key: the LAST matching entry *)
Definition opt_lookup (os : list opt) (path key : string) : option value :=
  match filter (opt_is path key) (rev os) with
  | o :: _ => Some (snd o)
  | [] => None
  end.

(* entries without the overridden earlier duplicates, in first-seen order *)
Fixpoint opt_dedup (os : list opt) : list opt :=
  match os with
  | [] => []
  | o :: r =>
      if existsb (opt_is (fst (fst o)) (snd (fst o))) r then opt_dedup r
      else o :: opt_dedup r
  end.

Section WithTables.
  Variable tbl : list pentry.
  Variable defs : list pdefault.
  Variable tovs : list toverride.
  Variable rej : list string.
  Variable order : list string.
  Variable fkeys : list string.                       (* keys of the files loop *)
  Variable fdefs : list (string * option string).     (* their defaults *)
  Variable abspath : string -> string.                (* oracle: os.path.abspath *)

  (* ----------------------------------------------------------- [files] *)
  Definition join (path fname : string) : string :=
    match fname with
    | String "/"%char _ => fname
    | _ => path +++ "/" +++ fname
    end.

  (* pathlib suffix of the last component ('' if none) *)
  Definition name_suffix (name : string) : string :=
    match rbreak_at "."%char name with
    | Some (a, b) =>
        match a, b with
        | EmptyString, _ => EmptyString
        | _, EmptyString => EmptyString
        | _, _ => String "."%char b
        end
    | None => EmptyString
    end.

  Definition split_dir (p : string) : string * string :=   (* dir with '/', name *)
    match rbreak_at "/"%char p with
    | Some (d, n) => (d +++ "/", n)
    | None => (EmptyString, p)
    end.

  Definition with_suffix (p suf : string) : string :=
    let '(d, n) := split_dir p in
    let s := name_suffix n in
    d +++ String.substring 0 (String.length n - String.length s) n +++ suf.

  Definition known_suffix (s : string) : bool := str_mem s [".h5"; ".json"; ".npz"].

  Definition fix_suffix (p : string) : string :=
    if known_suffix (name_suffix (snd (split_dir p))) then p else with_suffix p ".h5".

  Definition files_path (c : config) (t : term) : string :=
    abspath (match t_path t with
             | Some p => p
             | None => match cfg_get c "files" "path" with
                       | Some p => p
                       | None => "."
                       end
             end).

  Definition file_default (key : string) : option string :=
    match assoc key fdefs with Some d => d | None => None end.

  (* chosen text for one key of the loop: terminal, else file, else default *)
  Definition file_choice (c : config) (t : term) (key : string) : option string :=
    match term_file t key with
    | Some f => Some f
    | None => match cfg_get c "files" key with
              | Some v => Some v
              | None => file_default key
              end
    end.

  Definition file_entry (c : config) (t : term) (key : string) : option string :=
    match file_choice c t key with
    | None | Some EmptyString => file_default key        (* `continue`: default stays *)
    | Some f => Some (fix_suffix (join (files_path c t) f))
    end.

  Definition files_unknown (c : config) : bool :=
    negb (forallb (fun kv => (String.eqb (fst kv) "path" || str_mem (fst kv) fkeys)%bool)
                  (cfg_section c "files")).

  Definition parse_files (c : config) (t : term) : res (list (string * option string)) :=
    let raw := map (fun k => (k, file_entry c t k)) fkeys in
    match file_choice c t "output" with
    | None | Some EmptyString => Err EUnbound
    | Some _ =>
        let log := match assoc "output" raw with
                   | Some (Some f) => Some (with_suffix f ".log")
                   | _ => None
                   end in
        let cache := match assoc "cache" raw with Some (Some f) => Some f | _ => None end in
        let no_cache := filter (fun kv => negb (String.eqb (fst kv) "cache")) raw in
        let lsd := match cache with
                   | Some f => map (fun kv => if (String.eqb (fst kv) "load"
                                                  || String.eqb (fst kv) "save")%bool
                                              then (fst kv, Some f) else kv) no_cache
                   | None => no_cache
                   end in
        if (files_unknown c && str_mem "files" rej)%bool then Err (ETypeError "files")
        else Ok (lsd ++ [("log", log)])
    end.

  (* ------------------------------------------------- table-driven sections *)
  Definition sec_entries (sec : string) : list pentry :=
    filter (fun e => String.eqb (p_sec e) sec) tbl.

  Definition override_dest (e : pentry) : option string :=
    match filter (fun o => (String.eqb (o_sec o) (p_sec e)
                            && String.eqb (o_key o) (p_key e))%bool) tovs with
    | o :: _ => Some (o_dest o)
    | [] => None
    end.

  Definition default_for (fn : string) (e : pentry) : option value :=
    match filter (fun d => (String.eqb (d_path d) (p_path e) && String.eqb (d_key d) (p_key e)
                            && match d_when d with
                               | None => true
                               | Some f => String.eqb f fn
                               end)%bool) defs with
    | d :: _ => Some (VStr (d_val d))
    | [] => None
    end.

  Definition from_cfg (fn : string) (kvs : section) (e : pentry) : res (option value) :=
    match assoc (p_key e) kvs with
    | Some s => read_value (p_ty e) s
    | None => Ok (default_for fn e)
    end.

  (* terminal argument first, then the file, then the default *)
  Definition entry_value (t : term) (fn : string) (kvs : section) (e : pentry)
    : res (option value) :=
    match override_dest e with
    | Some dest => match term_value t dest with
                   | Some v => Ok (Some v)
                   | None => from_cfg fn kvs e
                   end
    | None => from_cfg fn kvs e
    end.

  Fixpoint read_entries (t : term) (fn : string) (kvs : section) (es : list pentry)
    : res (list opt) :=
    match es with
    | [] => Ok []
    | e :: r =>
        match entry_value t fn kvs e with
        | Err x => Err x
        | Ok ov =>
            match read_entries t fn kvs r with
            | Err x => Err x
            | Ok os => Ok (match ov with
                           | Some v => (p_path e, p_key e, v) :: os
                           | None => os
                           end)
            end
        end
    end.

  Definition known_key (sec key : string) : bool :=
    existsb (fun e => String.eqb (p_key e) key) (sec_entries sec).

  Definition section_unknown (sec : string) (kvs : section) : bool :=
    negb (forallb (fun kv => known_key sec (fst kv)) kvs).

  Definition parse_section (c : config) (t : term) (fn sec : string) : res (list opt) :=
    let kvs := cfg_section c sec in
    match read_entries t fn kvs (sec_entries sec) with
    | Err x => Err x
    | Ok os => if (section_unknown sec kvs && str_mem sec rej)%bool
               then Err (ETypeError sec) else Ok os
    end.

  Fixpoint parse_sections (c : config) (t : term) (fn : string) (secs : list string)
    : res (list opt) :=
    match secs with
    | [] => Ok []
    | s :: r =>
        match parse_section c t fn s with
        | Err x => Err x
        | Ok os => match parse_sections c t fn r with
                   | Err x => Err x
                   | Ok os' => Ok (os ++ os')
                   end
        end
    end.

  Definition deprecated_noise (c : config) : bool :=
    existsb (fun e => (String.eqb (p_sec e) "simulation" && String.eqb (p_path e) "noise_kwargs"
                       && match cfg_get c "simulation" (p_key e) with
                          | Some _ => true | None => false end)%bool) tbl.

  Definition parse_with (c : config) (t : term) : res output :=
    if t_extra t then Err (ETypeError "args_dict")
    else
      let fn := term_function t in
      match parse_files c t with
      | Err x => Err x
      | Ok fs =>
          match parse_sections c t fn order with
          | Err x => Err x
          | Ok os =>
              Ok {| o_function := fn;
                    o_verbosity := Z.min (Z.max (t_verbosity t) (-1)) 2;
                    o_dry_run := t_dry_run t;
                    o_clean := t_clean t;
                    o_files := fs;
                    o_opts := os;
                    o_warn := deprecated_noise c |}
          end
      end.

  (* ------------------------------------------------------------ run.py *)
  Variable trans : list (string * string * string).    (* path, old key, new key *)
  Variable cmode : string.        (* the `what` run.py passes to sim.clean in the --clean branch *)

  Definition translate_opt (o : opt) : opt :=
    match filter (fun tr => (String.eqb (fst (fst tr)) (fst (fst o))
                             && String.eqb (snd (fst tr)) (snd (fst o)))%bool) trans with
    | tr :: _ => (fst (fst o), snd tr, snd o)
    | [] => o
    end.

  Definition under (prefix : string) (o : opt) : bool :=
    let p := fst (fst o) in
    (String.eqb p prefix || String.prefix (prefix +++ ".") p)%bool.

  (* API calls the front end makes, in order. *)
  Inductive call : Type :=
  | CExit                                  (* sys.exit: a file or directory is missing *)
  | CLoadSim (f : string)
  | CClean (what : string)
  | CLoadModel (f : string)
  | CSetModel
  | CExpandModel (expand : value) (seasurface : option value)
  | CSetLayered (b : bool)
  | CLoadSurvey (f : string)
  | CSelect (d : list opt)
  | CNewSim (opts : list opt) (tqdm_off : bool)
  | CCompute (observed : bool) (noise : list opt)
  | CGetObserved | CGetSynthetic | CGetMisfit | CGetCount | CGetGradient
  | CZeroData | CZeroMisfit | CZeroGradient
  | CSaveSim (f : string)
  | CSaveOut (f : string) (keys : list string).

  Definition file_of (o : output) (k : string) : option string :=
    match assoc k (o_files o) with Some f => f | None => None end.
  Definition file_str (o : output) (k : string) : string :=
    match file_of o k with Some f => f | None => EmptyString end.

  Definition sim_opts (o : output) : list opt :=
    map translate_opt (filter (under "simulation_options") (opt_dedup (o_opts o))).
  Definition noise_opts (o : output) : list opt :=
    filter (under "noise_kwargs") (opt_dedup (o_opts o)).
  Definition data_opts (o : output) : list opt :=
    filter (under "data") (opt_dedup (o_opts o)).

  Definition wants_layered (o : output) : bool :=
    match opt_lookup (o_opts o) "simulation_options" "layered" with
    | Some (VBool b) => b
    | _ => false
    end.

  Definition gopt (o : output) (k : string) : option value :=
    opt_lookup (o_opts o) "simulation_options.gridding_opts" k.

  (* files_ok: every input file and output directory exists;
     sim_layered: the `layered` flag of the simulation read from `load`. *)
  Definition setup_calls (o : output) (sim_layered : bool) : list call :=
    match file_of o "load" with
    | Some f =>
        [CLoadSim f]
        ++ (if o_clean o then
              [CClean cmode; CLoadModel (file_str o "model"); CSetModel]
              ++ match gopt o "expand" with
                 | Some e => [CExpandModel e (gopt o "seasurface")]
                 | None => []
                 end
            else [])
        ++ (if Bool.eqb sim_layered (wants_layered o) then []
            else [CSetLayered (wants_layered o)])
    | None =>
        [CLoadSurvey (file_str o "survey"); CLoadModel (file_str o "model")]
        ++ match data_opts o with [] => [] | d => [CSelect d] end
        ++ [CNewSim (sim_opts o) (o_verbosity o <? 1)]
    end.

  Definition is_misfit_fn (fn : string) : bool :=
    (String.eqb fn "misfit" || String.eqb fn "gradient")%bool.

  Definition compute_calls (o : output) : list call :=
    let fn := o_function o in
    (if o_dry_run o then [CZeroData]
     else if String.eqb fn "forward" then [CCompute true (noise_opts o); CGetObserved]
     else [CCompute false []; CGetSynthetic])
    ++ (if is_misfit_fn fn
        then (if o_dry_run o then [CZeroMisfit] else [CGetMisfit]) ++ [CGetCount]
        else [])
    ++ (if String.eqb fn "gradient"
        then (if o_dry_run o then [CZeroGradient] else [CGetGradient])
        else []).

  Definition out_keys (fn : string) : list string :=
    ["configuration"; "data"]
    ++ (if is_misfit_fn fn then ["misfit"; "n_observations"] else [])
    ++ (if String.eqb fn "gradient" then ["gradient"] else []).

  Definition save_calls (o : output) : list call :=
    match file_of o "save" with Some f => [CSaveSim f] | None => [] end
    ++ [CSaveOut (file_str o "output") (out_keys (o_function o))].

  Definition run_with (o : output) (files_ok sim_layered : bool) : list call :=
    if files_ok then setup_calls o sim_layered ++ compute_calls o ++ save_calls o
    else [CExit].
End WithTables.

(* The instances for the tables extracted from the current sources. *)
Definition parse (abspath : string -> string) (c : config) (t : term) : res output :=
  parse_with parser_table parser_defaults term_overrides rejecting_sections section_order
             files_keys files_defaults abspath c t.

Definition run (o : output) (files_ok sim_layered : bool) : list call :=
  run_with key_translation clean_mode o files_ok sim_layered.

(* --------------------------------------------------- Simulation.clean *)
(* Results a Simulation holds that belong to the model they were computed
   with: fields, responses at the receivers, residual and weights, the
   computed flag, misfit and gradient (names as in emg3d/simulations.py;
   `data.x` = data variable x of the survey). *)
Definition old_results : list string :=
  ["_dict_efield"; "_dict_efield_info"; "_dict_bfield"; "_dict_bfield_info";
   "_computed"; "data.synthetic"; "data.residual"; "data.weights"; "_gradient"; "_misfit"].

(* [resets]: for each mode of Simulation.clean, what it resets (regenerated
   from the source: Gen.CliTable.clean_resets). *)
Definition resets_of (resets : list (string * list string)) (mode : string) : list string :=
  match assoc mode resets with Some l => l | None => [] end.

(* the cached state (names of what is held) after clean(mode) *)
Definition apply_clean (resets : list (string * list string)) (mode : string)
           (st : list string) : list string :=
  filter (fun n => negb (str_mem n (resets_of resets mode))) st.
