(* Model/Source.v -- C10.  Hand model (definitions only) of
     emg3d.fields._dipole_vector   (cell search min_max_ind, per-cell clipping
         al/ar of the segment parameter, centre of gravity, trilinear spread,
         the `min(...) >= 0 and |ar-al| > 0` guard, the bounding index ranges,
         the per-component normalisation guard, the segment loop for wires),
     emg3d.fields._point_vector    (cell search, get_index_and_strength, the
         eight ordered assignments, multiplication by rotation(az, el)),
     emg3d.fields.get_source_field (strength and -s mu0 scaling; dtype rule),
     emg3d.electrodes.rotation / point_to_dipole / dipole_to_point /
         point_to_square_loop and Dipole.__init__ (three coordinate formats).
   Numbers: any type with FOps and a boolean [leb]; executed on Q
   (Qle_bool), reasoned about on R and on abstract fields.  cosdg/sindg,
   sqrt, np.angle, pi are Section variables (oracles).  Tied to the code by
   correspondence (py/props/c10.py).

   NOT modelled: np.round(., 9) of nodes and points (inputs are taken as
   already rounded); IEEE rounding; x_len = ||xmax-xmin|| / ||p1-p0|| is
   modelled by its exact value |ar - al| (homogeneity of the Euclidean norm).

   [clamp] selects between the code as pinned (false) and the proposed repair
   of min_max_ind (true): the lower cell index is clamped to the last cell. *)
From Coq Require Import ZArith Bool List.
From V Require Import Base.FieldSig Base.Arr.
Import ListNotations.
Local Open Scope Z_scope.

Record P3 (F : Type) : Type := mkP3 { px : F; py : F; pz : F }.
Arguments mkP3 {F} _ _ _.
Arguments px {F} _.
Arguments py {F} _.
Arguments pz {F} _.

(* one axis of a TensorMesh: number of cells, nodes 0..n, widths 0..n-1 *)
Record Axis (F : Type) : Type := mkAxis { an : Z; anode : Z -> F; ah : Z -> F }.
Arguments mkAxis {F} _ _ _.
Arguments an {F} _.
Arguments anode {F} _ _.
Arguments ah {F} _ _.

Record Grid (F : Type) : Type := mkGrid { gx : Axis F; gy : Axis F; gz : Axis F }.
Arguments mkGrid {F} _ _ _.
Arguments gx {F} _.
Arguments gy {F} _.
Arguments gz {F} _.

(* one `+=` of the triple loop: component (0,1,2), edge index, value *)
Record Contrib (F : Type) : Type := mkC { cc : Z; ci : Z; cj : Z; ck : Z; cv : F }.
Arguments mkC {F} _ _ _ _ _.
Arguments cc {F} _.
Arguments ci {F} _.
Arguments cj {F} _.
Arguments ck {F} _.
Arguments cv {F} _.

Inductive SrcRes (F : Type) : Type :=
| SErr (code : Z)                 (* 1 = outside grid, 2 = no length (ValueError) *)
| SOk (l : list (Contrib F)) (stat : list (Z * Z * Z)).
    (* stat: per segment and component 0 = untouched, 1 = warned and
       normalised, 2 = warned and divided by zero (NaN) *)
Arguments SErr {F} _.
Arguments SOk {F} _ _.

Definition zrange (lo hi : Z) : list Z :=
  map (fun k => lo + Z.of_nat k) (seq 0 (Z.to_nat (hi - lo))).

Section Source.
  Context {F : Type} {FO : FOps F}.
  Variable leb : F -> F -> bool.          (* x <= y *)
  Local Open Scope F_scope.

  Definition fltb (a b : F) : bool := negb (leb b a).
  Definition feqb (a b : F) : bool := leb a b && leb b a.
  Definition fmax (a b : F) : F := if leb a b then b else a.
  Definition fmin (a b : F) : F := if leb a b then a else b.
  Definition fabs (a : F) : F := if leb 0 a then a else - a.
  Definition two : F := 1 + 1.

  (* ---------------------------------------------------------- cell search *)
  (* np.where(v < np.r_[vec, np.inf])[0][0] for a vector of m entries *)
  Fixpoint first_gt_aux (fuel : nat) (i : Z) (v : F) (vec : Z -> F) : Z :=
    match fuel with
    | O => i
    | S f => if fltb v (vec i) then i else first_gt_aux f (i + 1)%Z v vec
    end.
  Definition first_gt (v : F) (vec : Z -> F) (m : Z) : Z :=
    first_gt_aux (Z.to_nat m) 0%Z v vec.
  (* max(0, np.where(...)[0][0] - 1) *)
  Definition cell_ind (v : F) (vec : Z -> F) (m : Z) : Z :=
    Z.max 0 (first_gt v vec m - 1).

  (* ------------------------------------------------- one axis, one segment *)
  Definition nzd (q0 q1 : F) : bool := negb (feqb (q1 - q0) 0).
  (* id_xyz: 1/d where d != 0, d (= 0) elsewhere *)
  Definition idd (q0 q1 : F) : F := if nzd q0 q1 then 1 / (q1 - q0) else q1 - q0.
  (* a1[i] = (nodes[i] - p0) * id *)
  Definition afrac (A : Axis F) (q0 q1 : F) (i : Z) : F :=
    (anode A i - q0) * idd q0 q1.
  Definition alo (A : Axis F) (q0 q1 : F) (i : Z) : F :=
    fmin (afrac A q0 q1 i) (afrac A q0 q1 (i + 1)%Z).
  Definition ahi (A : Axis F) (q0 q1 : F) (i : Z) : F :=
    fmax (afrac A q0 q1 i) (afrac A q0 q1 (i + 1)%Z).
  (* min_max_ind and the loop bounds range(r[0], min(r[1]+1, a.size-1)) *)
  Definition rlo (clamp : bool) (A : Axis F) (q0 q1 : F) : Z :=
    let r : Z := cell_ind (fmin q0 q1) (anode A) (an A + 1) in
    if clamp then Z.min (an A - 1) r else r.
  Definition rhi (A : Axis F) (q0 q1 : F) : Z :=
    Z.min (cell_ind (fmax q0 q1) (anode A) (an A + 1) + 1) (an A).

  (* aa[dxdydz != 0, :] ; aa[:,0].max() / aa[:,1].min() folded into max(0,.) / min(1,.) *)
  Definition sel_max (b : bool) (acc v : F) : F := if b then fmax acc v else acc.
  Definition sel_min (b : bool) (acc v : F) : F := if b then fmin acc v else acc.

  Definition cell_al (G : Grid F) (p0 p1 : P3 F) (ix iy iz : Z) : F :=
    sel_max (nzd (pz p0) (pz p1))
      (sel_max (nzd (py p0) (py p1))
         (sel_max (nzd (px p0) (px p1)) 0 (alo (gx G) (px p0) (px p1) ix))
         (alo (gy G) (py p0) (py p1) iy))
      (alo (gz G) (pz p0) (pz p1) iz).
  Definition cell_ar (G : Grid F) (p0 p1 : P3 F) (ix iy iz : Z) : F :=
    sel_min (nzd (pz p0) (pz p1))
      (sel_min (nzd (py p0) (py p1))
         (sel_min (nzd (px p0) (px p1)) 1 (ahi (gx G) (px p0) (px p1) ix))
         (ahi (gy G) (py p0) (py p1) iy))
      (ahi (gz G) (pz p0) (pz p1) iz).

  (* x_c component: ((p0 + al d) + (p0 + ar d)) / 2 ; r = (x_c - node)/h *)
  Definition xc1 (q0 q1 al ar : F) : F :=
    ((q0 + al * (q1 - q0)) + (q0 + ar * (q1 - q0))) / two.
  Definition rfrac (A : Axis F) (q0 q1 al ar : F) (i : Z) : F :=
    (xc1 q0 q1 al ar - anode A i) / ah A i.

  Definition cell_guard (rx ry rz al ar : F) : bool :=
    let m : F := fmin (fmin (fmin (fmin (fmin rx (1 - rx)) ry) (1 - ry)) rz) (1 - rz) in
    leb 0 m && fltb 0 (fabs (ar - al)).

  Definition cell_contribs (G : Grid F) (p0 p1 : P3 F) (c : Z * Z * Z)
    : list (Contrib F) :=
    let ix : Z := fst (fst c) in
    let iy : Z := snd (fst c) in
    let iz : Z := snd c in
    let al : F := cell_al G p0 p1 ix iy iz in
    let ar : F := cell_ar G p0 p1 ix iy iz in
    let xl : F := fabs (ar - al) in
    let rx : F := rfrac (gx G) (px p0) (px p1) al ar ix in
    let ry : F := rfrac (gy G) (py p0) (py p1) al ar iy in
    let rz : F := rfrac (gz G) (pz p0) (pz p1) al ar iz in
    let ex : F := 1 - rx in
    let ey : F := 1 - ry in
    let ez : F := 1 - rz in
    if cell_guard rx ry rz al ar then
      [ mkC 0 ix iy iz (ey * ez * xl); mkC 0 ix (iy + 1) iz (ry * ez * xl);
        mkC 0 ix iy (iz + 1) (ey * rz * xl); mkC 0 ix (iy + 1) (iz + 1) (ry * rz * xl);
        mkC 1 ix iy iz (ex * ez * xl); mkC 1 (ix + 1) iy iz (rx * ez * xl);
        mkC 1 ix iy (iz + 1) (ex * rz * xl); mkC 1 (ix + 1) iy (iz + 1) (rx * rz * xl);
        mkC 2 ix iy iz (ex * ey * xl); mkC 2 (ix + 1) iy iz (rx * ey * xl);
        mkC 2 ix (iy + 1) iz (ex * ry * xl); mkC 2 (ix + 1) (iy + 1) iz (rx * ry * xl) ]
    else [].

  (* for iz: for iy: for ix *)
  Definition seg_cells (clamp : bool) (G : Grid F) (p0 p1 : P3 F) : list (Z * Z * Z) :=
    flat_map (fun iz : Z =>
      flat_map (fun iy : Z =>
        map (fun ix : Z => (ix, iy, iz))
            (zrange (rlo clamp (gx G) (px p0) (px p1)) (rhi (gx G) (px p0) (px p1))))
        (zrange (rlo clamp (gy G) (py p0) (py p1)) (rhi (gy G) (py p0) (py p1))))
      (zrange (rlo clamp (gz G) (pz p0) (pz p1)) (rhi (gz G) (pz p0) (pz p1))).

  Definition seg_raw (clamp : bool) (G : Grid F) (p0 p1 : P3 F) : list (Contrib F) :=
    flat_map (cell_contribs G p0 p1) (seg_cells clamp G p0 p1).

  (* field.sum() of one component = sum of its contributions *)
  Definition csum (c : Z) (l : list (Contrib F)) : F :=
    fold_right (fun e acc => if Z.eqb (cc e) c then cv e + acc else acc) 0 l.
  (* value of component c at (i,j,k) *)
  Definition cfield (l : list (Contrib F)) (c i j k : Z) : F :=
    fold_right (fun e acc =>
      if (Z.eqb (cc e) c && Z.eqb (ci e) i && Z.eqb (cj e) j && Z.eqb (ck e) k)%bool
      then cv e + acc else acc) 0 l.

  (* Ensure unity: sum_s = |sum|; if |sum_s - 1| > 1e-6: warn; field /= sum_s *)
  Definition tol6 : F := Flit 1 1000000.
  Definition norm_warn (s : F) : bool := fltb tol6 (fabs (fabs s - 1)).
  Definition norm_stat (s : F) : Z :=
    if norm_warn s then (if feqb (fabs s) 0 then 2%Z else 1%Z) else 0%Z.
  Definition norm_div (s v : F) : F := if norm_warn s then v / fabs s else v.

  Definition comp_d (p0 p1 : P3 F) (c : Z) : F :=
    if Z.eqb c 0 then px p1 - px p0 else if Z.eqb c 1 then py p1 - py p0 else pz p1 - pz p0.

  (* the finished vector of one segment *)
  Definition sel3 (c : Z) (s0 s1 s2 : F) : F :=
    if Z.eqb c 0 then s0 else if Z.eqb c 1 then s1 else s2.
  Definition seg_vec (clamp : bool) (G : Grid F) (p0 p1 : P3 F) : list (Contrib F) :=
    let raw : list (Contrib F) := seg_raw clamp G p0 p1 in
    let s0 : F := csum 0 raw in
    let s1 : F := csum 1 raw in
    let s2 : F := csum 2 raw in
    map (fun e => mkC (cc e) (ci e) (cj e) (ck e)
                      (norm_div (sel3 (cc e) s0 s1 s2) (cv e) * comp_d p0 p1 (cc e))) raw.
  Definition seg_stat (clamp : bool) (G : Grid F) (p0 p1 : P3 F) : Z * Z * Z :=
    let raw : list (Contrib F) := seg_raw clamp G p0 p1 in
    (norm_stat (csum 0 raw), norm_stat (csum 1 raw), norm_stat (csum 2 raw)).

  Fixpoint segs (pts : list (P3 F)) : list (P3 F * P3 F) :=
    match pts with
    | a :: t => match t with b :: _ => (a, b) :: segs t | [] => [] end
    | [] => []
    end.

  Definition out1 (A : Axis F) (q : F) : bool :=
    fltb q (anode A 0%Z) || fltb (anode A (an A)) q.
  Definition outside (G : Grid F) (p : P3 F) : bool :=
    out1 (gx G) (px p) || out1 (gy G) (py p) || out1 (gz G) (pz p).
  Definition nolen (s : P3 F * P3 F) : bool :=
    negb (nzd (px (fst s)) (px (snd s)) || nzd (py (fst s)) (py (snd s))
          || nzd (pz (fst s)) (pz (snd s))).

  Definition dipole_vector (clamp : bool) (G : Grid F) (pts : list (P3 F)) : SrcRes F :=
    if existsb (outside G) pts then SErr 1
    else if existsb nolen (segs pts) then SErr 2
    else SOk (flat_map (fun s => seg_vec clamp G (fst s) (snd s)) (segs pts))
             (map (fun s => seg_stat clamp G (fst s) (snd s)) (segs pts)).

  (* ------------------------------------------------------------ rotation *)
  Variables cosd sind : F -> F.            (* scipy.special.cosdg / sindg *)
  Definition rotation (az el : F) : P3 F :=
    mkP3 (cosd az * cosd el) (sind az * cosd el) (sind el).

  (* --------------------------------------------------------- point vector *)
  Definition zero3 : Z -> Z -> Z -> F := fun _ _ _ => 0.
  (* get_index_and_strength -> (rc, ec, ic1) *)
  Definition gis_r (ic nc : Z) (csrc : F) (cvec : Z -> F) : F :=
    if Z.eqb ic (nc - 1) then 1 else (csrc - cvec ic) / (cvec (ic + 1)%Z - cvec ic).
  Definition gis_e (ic nc : Z) (csrc : F) (cvec : Z -> F) : F :=
    if Z.eqb ic (nc - 1) then 1 else 1 - gis_r ic nc csrc cvec.
  Definition gis_i1 (ic nc : Z) : Z := if Z.eqb ic (nc - 1) then ic else (ic + 1)%Z.

  (* point_source(xx, yy, zz, coo, s) with s.shape = (mx, my, mz): the eight
     assignments in source order (later ones overwrite earlier ones) *)
  Definition point_source (xx yy zz : Z -> F) (mx my mz : Z) (p : P3 F)
    : Z -> Z -> Z -> F :=
    let ix : Z := cell_ind (px p) xx mx in
    let iy : Z := cell_ind (py p) yy my in
    let iz : Z := cell_ind (pz p) zz mz in
    let rx : F := gis_r ix mx (px p) xx in
    let ex : F := gis_e ix mx (px p) xx in
    let ix1 : Z := gis_i1 ix mx in
    let ry : F := gis_r iy my (py p) yy in
    let ey : F := gis_e iy my (py p) yy in
    let iy1 : Z := gis_i1 iy my in
    let rz : F := gis_r iz mz (pz p) zz in
    let ez : F := gis_e iz mz (pz p) zz in
    let iz1 : Z := gis_i1 iz mz in
    upd3 (upd3 (upd3 (upd3 (upd3 (upd3 (upd3 (upd3 zero3
      ix iy iz (ex * ey * ez))
      ix1 iy iz (rx * ey * ez))
      ix iy1 iz (ex * ry * ez))
      ix1 iy1 iz (rx * ry * ez))
      ix iy iz1 (ex * ey * rz))
      ix1 iy iz1 (rx * ey * rz))
      ix iy1 iz1 (ex * ry * rz))
      ix1 iy1 iz1 (rx * ry * rz).

  Definition acentre (A : Axis F) (i : Z) : F := (anode A (i + 1)%Z + anode A i) / two.

  (* _point_vector: None = ValueError (outside); else (fx, fy, fz) *)
  Definition point_vector (G : Grid F) (p : P3 F) (az el : F)
    : option ((Z -> Z -> Z -> F) * (Z -> Z -> Z -> F) * (Z -> Z -> Z -> F)) :=
    if outside G p then None else
    let nx : Z := an (gx G) in
    let ny : Z := an (gy G) in
    let nz : Z := an (gz G) in
    let sx := point_source (acentre (gx G)) (anode (gy G)) (anode (gz G)) nx (ny + 1) (nz + 1) p in
    let sy := point_source (anode (gx G)) (acentre (gy G)) (anode (gz G)) (nx + 1) ny (nz + 1) p in
    let sz := point_source (anode (gx G)) (anode (gy G)) (acentre (gz G)) (nx + 1) (ny + 1) nz p in
    let r : P3 F := rotation az el in
    Some (fun i j k => sx i j k * px r, fun i j k => sy i j k * py r,
          fun i j k => sz i j k * pz r).

  (* ------------------------------------------------ get_source_field scaling *)
  (* Numbers are pairs (re, im).  freq = None: frequency-free call.
     sval = -f (f < 0, Laplace, real dtype) | 2j*pi*f (f > 0, complex dtype).
     A complex strength on a real-dtype field raises (UFuncTypeError): None.
     frequency == 0 raises ValueError: None. *)
  Variables pi mu0 : F.
  Definition cmul (a b : F * F) : F * F :=
    (fst a * fst b - snd a * snd b, fst a * snd b + snd a * fst b).
  Definition sval (f : F) : F * F :=
    if fltb f 0 then (- f, 0) else cmul (cmul (0, two) (pi, 0)) (f, 0).
  Definition smu0 (f : F) : F * F := cmul (sval f) (mu0, 0).
  Definition source_scale (freq : option F) (strength : F * F) (st_complex : bool) (v : F)
    : option (F * F) :=
    match freq with
    | None => if st_complex then None else Some (cmul (v, 0) strength)
    | Some f =>
        if feqb f 0 then None
        else if (fltb f 0 && st_complex)%bool then None
        else Some (cmul (cmul (v, 0) strength) (- fst (smu0 f), - snd (smu0 f)))
    end.

  (* ------------------------------------------------------------ electrodes *)
  Variable sqrt : F -> F.                  (* np.sqrt *)
  Variable angle : F -> F -> F.            (* np.angle(x + 1j*y, deg=True) *)

  Definition padd (a b : P3 F) : P3 F := mkP3 (px a + px b) (py a + py b) (pz a + pz b).
  Definition psub (a b : P3 F) : P3 F := mkP3 (px a - px b) (py a - py b) (pz a - pz b).
  Definition pscale (a : P3 F) (s : F) : P3 F := mkP3 (px a * s) (py a * s) (pz a * s).
  Definition pneg (a : P3 F) : P3 F := mkP3 (- px a) (- py a) (- pz a).

  (* point_to_dipole: xyz = rotation(az, el)*length/2; point[:3] + [-xyz, xyz] *)
  Definition point_to_dipole (c : P3 F) (az el len : F) : P3 F * P3 F :=
    let xyz : P3 F := pscale (pscale (rotation az el) len) (1 / two) in
    (padd c (pneg xyz), padd c xyz).

  (* dipole_to_point -> (azimuth, elevation, length) *)
  Definition norm3 (dx dy dz : F) : F := sqrt (dx * dx + dy * dy + dz * dz).
  Definition dipole_to_point (p0 p1 : P3 F) : F * F * F :=
    let dx : F := px p1 - px p0 in
    let dy : F := py p1 - py p0 in
    let dz : F := pz p1 - pz p0 in
    (angle dx dy, angle (sqrt (dx * dx + dy * dy)) dz, norm3 dx dy dz).

  Definition ninety : F := Flit 90 1.
  (* point_to_square_loop(source, area) *)
  Definition point_to_square_loop (c : P3 F) (az el area : F) : list (P3 F) :=
    let hd : F := sqrt (area / two) in
    let hor : P3 F := pscale (rotation (az + ninety) 0) hd in
    let ver : P3 F := pscale (rotation az (el + ninety)) hd in
    [padd c hor; padd c ver; padd c (pneg hor); padd c (pneg ver); padd c hor].

  (* coordinates.reshape((2, 3), order='F') of (x1, x2, y1, y2, z1, z2) *)
  Definition flat_to_points (x1 x2 y1 y2 z1 z2 : F) : P3 F * P3 F :=
    (mkP3 x1 y1 z1, mkP3 x2 y2 z2).
  Definition points_to_flat (p : P3 F * P3 F) : list F :=
    [px (fst p); px (snd p); py (fst p); py (snd p); pz (fst p); pz (snd p)].

  Definition peqb (a b : P3 F) : bool :=
    feqb (px a) (px b) && feqb (py a) (py b) && feqb (pz a) (pz b).

  (* Dipole.__init__: the three coordinate formats, electric / magnetic.
     None = ValueError (identical electrodes). *)
  Inductive DipIn : Type :=
  | DPoint (c : P3 F) (az el : F)          (* (x, y, z, azimuth, elevation) + length *)
  | DFlat (x1 x2 y1 y2 z1 z2 : F)          (* (x1, x2, y1, y2, z1, z2) *)
  | DPair (p0 p1 : P3 F).                  (* [[x1,y1,z1],[x2,y2,z2]] *)

  Definition half_sum (p0 p1 : P3 F) : P3 F := pscale (padd p0 p1) (1 / two).

  Definition dipole_points (magnetic : bool) (inp : DipIn) (len : F) : option (list (P3 F)) :=
    match inp with
    | DPoint c az el =>
        if magnetic then Some (point_to_square_loop c az el len)
        else Some [fst (point_to_dipole c az el len); snd (point_to_dipole c az el len)]
    | _ =>
        let pp : P3 F * P3 F :=
          match inp with
          | DFlat x1 x2 y1 y2 z1 z2 => flat_to_points x1 x2 y1 y2 z1 z2
          | DPair p0 p1 => (p0, p1)
          | DPoint c _ _ => (c, c)
          end in
        let pts : list (P3 F) :=
          if magnetic then
            let apl : F * F * F := dipole_to_point (fst pp) (snd pp) in
            point_to_square_loop (half_sum (fst pp) (snd pp)) (fst (fst apl)) (snd (fst apl)) (snd apl)
          else [fst pp; snd pp] in
        match pts with
        | a :: b :: _ => if peqb a b then None else Some pts
        | _ => None
        end
    end.

  (* get_source_field: plain coordinates (tuple / list / ndarray) -> Tx* instance.
     source.size == 5: the `length` keyword is forwarded; size > 6: TxElectricWire
     (whatever `electric` says); otherwise TxElectricDipole / TxMagneticDipole. *)
  Inductive PlainIn : Type :=
  | PI_dip (inp : DipIn)                   (* size 5 or 6 *)
  | PI_wire (pts : list (P3 F)).           (* size > 6: (n, 3) electrodes *)

  Definition plain_points (electric : bool) (inp : PlainIn) (length : F) : option (list (P3 F)) :=
    match inp with
    | PI_wire pts => Some pts
    | PI_dip d => dipole_points (negb electric) d
                    (match d with DPoint _ _ _ => length | _ => 1 end)
    end.

  (* the keyword arguments of get_source_field: `kwargs.get(key, default)`.
     Missing -> default; an explicit value -> THAT value (also when it is
     falsy: strength 0 / 0.0 / 0j / False stays zero); an explicit None is
     passed on and makes the Tx* constructor raise (strength: format of None;
     length: float * None), except that `length` is read only for size 5 and
     that `electric` is only tested for truth (None counts as False). *)
  Inductive Kw (A : Type) : Type := KwMissing | KwNone | KwVal (v : A).
  Arguments KwMissing {A}.
  Arguments KwNone {A}.
  Arguments KwVal {A} _.

  Definition kw_electric (k : Kw bool) : bool :=
    match k with KwMissing => true | KwNone => false | KwVal b => b end.

  (* None = the call raises; else (electrodes, strength) of the Tx* instance *)
  Definition gsf_plain (kstrength : Kw (F * F)) (klength : Kw F) (kelectric : Kw bool) (inp : PlainIn)
    : option (list (P3 F) * (F * F)) :=
    let is5 : bool := match inp with PI_dip (DPoint _ _ _) => true | _ => false end in
    match kstrength with
    | KwNone => None
    | _ =>
      let st : F * F := match kstrength with KwVal v => v | _ => (1, 0) end in
      match klength with
      | KwNone => if is5 then None
                  else option_map (fun p => (p, st)) (plain_points (kw_electric kelectric) inp 1)
      | _ =>
        let len : F := match klength with KwVal v => v | _ => 1 end in
        option_map (fun p => (p, st)) (plain_points (kw_electric kelectric) inp len)
      end
    end.
End Source.
Arguments KwMissing {A}.
Arguments KwNone {A}.
Arguments KwVal {A} _.
