(* Model/Gridding.v -- C16.  Hand model (definitions only) of the automatic
   gridding in emg3d/meshes.py:
     good_mg_cell_nr                         (over Z, exact)
     cell_width                              (three forms of `limits`)
     _stretch                                (geometric widths, nl/nr, remain, use_up)
     _seasurface                             (shift / squeeze factors / brentq / isclose)
     origin_and_widths                       (domain priority, vector cut, buffer modes,
                                              the triple search loop, error / None's)
     construct_mesh                          (routing of properties and of
                                              direction-specific arguments)
   Numbers: any type with FOps, a boolean [leb] (x <= y) and [floorZ]; executed
   on Q, reasoned about on R.  Third-party / floating behaviour enters as
   Section variables (oracles): [brentq] (scipy root finder; the code re-checks
   its answer), [argsort13] (numpy's unstable argsort on float keys that are
   exact ties), skin depths (sqrt) and 2*pi.
   Tied to the code by correspondence (py/props/c16.py). *)
From Coq Require Import ZArith Bool List Arith.
From V Require Import Base.FieldSig.
Import ListNotations.

(* ------------------------------------------------------------------ integers *)
Definition lowest_all : list Z := [2;3;5;7;9;11;13;15;17;19]%Z.

(* np.unique on integers: sorted, duplicates removed *)
Fixpoint zinsert (x : Z) (l : list Z) : list Z :=
  match l with
  | [] => [x]
  | y :: t => if (x <? y)%Z then x :: y :: t
              else if (x =? y)%Z then y :: t else y :: zinsert x t
  end.
Definition zusort (l : list Z) : list Z := fold_right zinsert [] l.

(* np.arange(lo, hi) *)
Definition zrange (lo hi : Z) : list Z :=
  map (fun i => (lo + Z.of_nat i)%Z) (seq 0 (Z.to_nat (hi - lo))).

(* good_mg_cell_nr(max_nr, max_lowest, min_div); None = ValueError
   (max_lowest > 19, or 2**negative on numpy integers) *)
Definition good_mg_cell_nr (max_nr max_lowest min_div : Z) : option (list Z) :=
  if (19 <? max_lowest)%Z then None
  else if (min_div <? 0)%Z then None
  else
    let lowest := filter (fun p => (p <=? max_lowest)%Z) lowest_all in
    let numbers := flat_map (fun p => map (fun n => (p * 2 ^ n)%Z) (zrange min_div 30)) lowest in
    Some (filter (fun x => (x <=? max_nr)%Z) (zusort numbers)).

(* generic helpers *)
Fixpoint first_some {A B : Type} (f : A -> option B) (l : list A) : option B :=
  match l with
  | [] => None
  | a :: t => match f a with Some b => Some b | None => first_some f t end
  end.

Fixpoint idx_where_from {A : Type} (p : A -> bool) (i : nat) (l : list A) : list nat :=
  match l with
  | [] => []
  | a :: t => if p a then i :: idx_where_from p (S i) t else idx_where_from p (S i) t
  end.
(* np.where(cond)[0] *)
Definition idx_where {A : Type} (p : A -> bool) (l : list A) : list nat := idx_where_from p 0 l.

Definition t1 {A B C : Type} (t : A * B * C) : A := fst (fst t).
Definition t2 {A B C : Type} (t : A * B * C) : B := snd (fst t).
Definition t3 {A B C : Type} (t : A * B * C) : C := snd t.

Section Gridding.
  Context {F : Type} {O : FOps F}.
  Variable leb : F -> F -> bool.          (* x <= y *)
  Variable floorZ : F -> Z.               (* floor *)
  Local Open Scope F_scope.

  Definition ltb (x y : F) : bool := negb (leb y x).
  Definition fmax (x y : F) : F := if leb x y then y else x.
  Definition fmin (x y : F) : F := if leb x y then x else y.
  Definition fabs (x : F) : F := if leb 0 x then x else - x.
  Definition lsum (l : list F) : F := fold_right Fadd 0 l.
  Definition half (x : F) : F := x / (1 + 1).

  Fixpoint cumsum_from (acc : F) (l : list F) : list F :=
    match l with [] => [] | a :: t => (acc + a) :: cumsum_from (acc + a) t end.
  Definition cumsum (l : list F) : list F := cumsum_from 0 l.

  (* a ** np.arange(1, n+1) *)
  Fixpoint pows_from (cur a : F) (n : nat) : list F :=
    match n with 0%nat => [] | S m => cur :: pows_from (cur * a) a m end.
  Definition pows (a : F) (n : nat) : list F := pows_from a a n.

  Definition count (p : F -> bool) (l : list F) : nat := length (filter p l).
  Definition hd0 (l : list F) : F := hd 0 l.
  Definition last0 (l : list F) : F := last l 0.
  (* np.diff *)
  Definition diffs (x : list F) : list F := map (fun p => snd p - fst p) (combine x (tl x)).

  (* np.linspace(a, b, n) *)
  Definition linspace (a b : F) (n : Z) : list F :=
    if (n <=? 1)%Z then (if (n <=? 0)%Z then [] else [a])
    else map (fun i => a + FofZ (Z.of_nat i) * ((b - a) / FofZ (n - 1))) (seq 0 (Z.to_nat n)).

  (* ---------------------------------------------------------------- cell_width *)
  Inductive Limits : Type := LimNone | LimOne (v : F) | LimTwo (lo hi : F).

  (* cell_width(skin_depth, pps, limits); np.clip(x, lo, hi) = min(max(x, lo), hi) *)
  Definition cell_width (sd pps : F) (lim : Limits) : F :=
    match lim with
    | LimNone => sd / pps
    | LimOne v => v
    | LimTwo lo hi => fmin (fmax (sd / pps) lo) hi
    end.

  (* ------------------------------------------------------------------ _stretch *)
  (* result: None = (False, False, False) *)
  Definition stretch (edges : F * F) (widths : list F) (alpha : F) (nx : Z)
             (dom : F * F) (use_up : bool) : option ((F * F) * list F * Z) :=
    let sf := pows alpha (Z.to_nat nx) in
    let shxl := map (fun s => hd0 widths * s) sf in
    let shxr := map (fun s => last0 widths * s) sf in
    let nl := if leb (fst edges) (fst dom) then 0%nat
              else S (count (fun c => ltb (fst dom) (fst edges - c)) (cumsum shxl)) in
    let nr := if leb (snd dom) (snd edges) then 0%nat
              else S (count (fun c => ltb (snd edges + c) (snd dom)) (cumsum shxr)) in
    let remain := (nx - Z.of_nat (length widths) - Z.of_nat nl - Z.of_nat nr)%Z in
    let ext0 := fst edges - lsum (firstn nl shxl) in
    let ext1 := snd edges + lsum (firstn nr shxr) in
    if (leb ext0 (fst dom) && leb (snd dom) ext1 && (0 <=? remain)%Z)%bool then
      let nl' := if use_up then (nl + Z.to_nat (remain / 2))%nat else nl in
      let nr' := if use_up then (nr + Z.to_nat ((remain + 1) / 2))%nat else nr in
      Some ((fst edges - lsum (firstn nl' shxl), snd edges + lsum (firstn nr' shxr)),
            rev (firstn nl' shxl) ++ widths ++ firstn nr' shxr,
            if use_up then 0%Z else remain)
    else None.

  (* ---------------------------------------------------------------- _seasurface *)
  Variable brentq : F -> F -> Z -> F.         (* tdmin delta n |-> alph (oracle) *)
  Variable argsort13 : list F -> list nat.    (* np.argsort(abs(frange-1)) (oracle) *)

  Definition c07 : F := Flit 7 10.
  Definition c13 : F := Flit 13 10.
  Definition c11 : F := Flit 11 10.
  Definition c125 : F := Flit 5 4.

  (* the list of squeeze/stretch factors tried *)
  Definition sea_frange (widths : list F) (has_vector : bool) (lim : Limits) : list F :=
    match has_vector, lim with
    | true, _ => [1]
    | false, LimOne _ => [1]
    | false, _ =>
        let w := hd0 widths in
        let fmn := match lim with LimTwo lo _ => fmax c07 (lo / w) | _ => c07 end in
        let fmx := match lim with LimTwo _ hi => fmin c13 (hi / w) | _ => c13 end in
        let fr := linspace fmn fmx 13 in
        let keys := map (fun f => fabs (f - 1)) fr in
        let srt := map (fun i => nth i fr 1) (argsort13 keys) in
        if (leb (hd 0 srt) 1 && leb 1 (hd 0 srt))%bool then srt else 1 :: srt
    end.

  (* the oracle's permutation really sorts the keys (checked by the tie) *)
  Fixpoint nondecr (l : list F) : bool :=
    match l with
    | a :: t => match t with b :: _ => (leb a b && nondecr t)%bool | [] => true end
    | [] => true
    end.
  Definition perm_ok (keys : list F) : bool :=
    let p := argsort13 keys in
    (Nat.eqb (length p) (length keys)
     && forallb (fun i => existsb (Nat.eqb i) p) (seq 0 (length keys))
     && nondecr (map (fun i => nth i keys 0) p))%bool.

  (* one iteration of `for fact in frange`; Some = break with new (edges, widths) *)
  Definition sea_try (edges : F * F) (widths : list F) (center sea : F) (s0 s1 : F)
             (has_vector : bool) (fact : F) : option ((F * F) * list F) :=
    let tdmin := if has_vector then last0 widths else fact * hd0 widths in
    let cedge := if has_vector then snd edges else center + half tdmin in
    let alphmax := if has_vector then c125 * s0 else c11 * s0 in
    let delta := sea - cedge in
    let n := floorZ (delta / tdmin) in
    if (n <? 1)%Z then None
    else
      let alph := brentq tdmin delta n in
      if ltb alph (fmin alphmax s1) then
        let hx := map (fun s => tdmin * s) (pows alph (Z.to_nat n)) in
        let widths' := if has_vector then widths ++ hx else tdmin :: hx in
        let e0 := if has_vector then fst edges else center - half tdmin in
        Some ((e0, e0 + lsum widths'), widths')
      else None.

  Definition c1em8 : F := Flit 1 100000000.
  Definition c1em5 : F := Flit 1 100000.
  (* np.isclose(0.0, check): |0 - check| <= atol + rtol*|check| *)
  Definition isclose0 (check : F) : bool := leb (fabs check) (c1em8 + c1em5 * fabs check).

  Definition nodes_of (x0 : F) (widths : list F) : list F :=
    x0 :: map (fun c => x0 + c) (cumsum widths).

  Fixpoint lmin (d : F) (l : list F) : F :=
    match l with [] => d | a :: t => fmin a (lmin d t) end.

  (* _seasurface(...): (edges, widths, warned) *)
  Definition seasurface_adjust (edges : F * F) (widths : list F) (center sea : F)
             (s0 s1 : F) (has_vector : bool) (lim : Limits) : (F * F) * list F * bool :=
    let ew :=
      if (negb has_vector && leb (fabs (sea - snd edges)) (half (hd0 widths)))%bool then
        ((fst edges + (sea - snd edges), snd edges + (sea - snd edges)), widths)
      else
        match first_some (sea_try edges widths center sea s0 s1 has_vector)
                         (sea_frange widths has_vector lim) with
        | Some r => r
        | None => (edges, widths)
        end in
    let nv := nodes_of (fst (fst ew)) (snd ew) in
    let check := lmin (fabs (fst (fst ew) - sea)) (map (fun v => fabs (v - sea)) nv) in
    (ew, negb (isclose0 check)).

  (* --------------------------------------------------------- origin_and_widths *)
  Variable twopi : F.                         (* 2*np.pi *)

  Record OawIn : Type := mkOawIn {
    i_sds : list F;                  (* skin depths of the mapped properties (oracle) *)
    i_center : F;
    i_domain : option (F * F);
    i_distance : option (F * F);
    i_vector : option (list F);
    i_sea : option F;
    i_stretching : F * F;
    i_limits : Limits;
    i_pps : F;
    i_lambda_factor : F;
    i_max_buffer : F;
    i_lambda_from_center : bool;
    i_cell_numbers : list Z;
    i_center_on_edge : option bool;  (* None = "notset" *)
    i_raise_error : bool
  }.

  Inductive Warn : Type := WFuture | WSea.
  Inductive OawRes : Type :=
  | RErrNoDomain        (* ValueError: at least one of domain/distance/vector *)
  | RErrSea             (* ValueError: seasurface must be bigger than center *)
  | RErrRuntime         (* RuntimeError: no suitable grid found *)
  | RNone               (* raise_error=False: (None, None, msg) *)
  | ROk (x0 : F) (hx : list F) (nx : Z) (sa ca : F) (nhxo : nat).
  Record OawOut : Type := mkOawOut { o_warns : list Warn; o_res : OawRes }.

  Definition lmin0 (l : list F) : F := match l with [] => 0 | a :: t => lmin a t end.
  Fixpoint lmax (d : F) (l : list F) : F :=
    match l with [] => d | a :: t => fmax a (lmax d t) end.
  Definition lmax0 (l : list F) : F := match l with [] => 0 | a :: t => lmax a t end.

  (* cut the vector to the domain; None when fewer than 3 nodes remain *)
  Definition vector_cut (v : list F) (dom : F * F) : option (list F) :=
    let vmin := idx_where (fun x => leb x (fst dom)) v in
    let v1 := if (1 <? length vmin)%nat then skipn (last vmin 0%nat) v else v in
    let vmax := idx_where (fun x => leb (snd dom) x) v1 in
    let v2 := if (1 <? length vmax)%nat then firstn (nth 1 vmax 0%nat) v1 else v1 in
    if (length v2 <? 3)%nat then None else Some v2.

  (* survey domain: priority domain > distance > vector *)
  Definition domain_of (i : OawIn) : option (F * F) :=
    match i_domain i with
    | Some d => Some d
    | None =>
        match i_distance i with
        | Some d => Some (i_center i - fabs (fst d), i_center i + fabs (snd d))
        | None =>
            match i_vector i with
            | Some v => Some (lmin0 v, lmax0 v)
            | None => None
            end
        end
    end.

  Definition sd_at (i : OawIn) (k : nat) : F :=
    nth (Nat.min (length (i_sds i) - 1) k) (i_sds i) 0.

  (* computational domain, both buffer modes *)
  Definition comp_domain (i : OawIn) (dom : F * F) : F * F :=
    let wl0 := i_lambda_factor i * (twopi * sd_at i 1) in
    let wl1 := i_lambda_factor i * (twopi * sd_at i 2) in
    let c := i_center i in
    if i_lambda_from_center i then
      let b0 := fmax 0 (half ((1 + 1) * wl0 - fabs (fst dom - c))) in
      let b1 := fmax 0 (half ((1 + 1) * wl1 - fabs (snd dom - c))) in
      (fmax (fst dom - b0) (c - i_max_buffer i), fmin (snd dom + b1) (c + i_max_buffer i))
    else
      (fst dom - fmin wl0 (i_max_buffer i), snd dom + fmin wl1 (i_max_buffer i)).

  Definition c001 : F := Flit 1 1000.
  (* max(1, min(100, int((b - a) / 0.001))) *)
  Definition nsteps (a b : F) : Z := Z.max 1 (Z.min 100 (floorZ ((b - a) / c001))).

  (* the triple loop: first admissible (nx, sa, ca) in lexicographic order *)
  Definition search (cedges : F * F) (cwidths : list F) (s0 s1 : F) (cells : list Z)
             (dom cdom : F * F) : option (F * list F * Z * F * F * nat) :=
    first_some (fun nx =>
      first_some (fun sa =>
        match stretch cedges cwidths sa nx dom false with
        | None => None
        | Some sd =>
            first_some (fun ca =>
              match stretch (fst (fst sd)) (snd (fst sd)) ca nx cdom true with
              | None => None
              | Some cd => Some (fst (fst (fst cd)), snd (fst cd), nx, sa, ca,
                                 length (snd (fst sd)))
              end) (linspace sa s1 (nsteps sa s1))
        end) (linspace 1 s0 (nsteps 1 s0))) (zusort cells).

  (* the centre part handed to the search: (warnings, (centre edges, centre widths));
     [dom] is the survey domain BEFORE the sea surface widens it *)
  Definition center_part (i : OawIn) (dom : F * F)
    : list Warn * ((F * F) * list F) :=
    let c := i_center i in
    let dmin := cell_width (sd_at i 0) (i_pps i) (i_limits i) in
    let coe := match i_center_on_edge i with Some b => b | None => true end in
    let vec0 := match i_vector i with Some v => vector_cut v dom | None => None end in
    let vec := match vec0 with
               | Some v => Some v
               | None => if coe then Some [c - dmin; c; c + dmin] else None
               end in
    let ce := match vec with
              | Some v => (hd0 v, last0 v)
              | None => (c - half dmin, c + half dmin) end in
    let cw := match vec with Some v => diffs v | None => [dmin] end in
    match i_sea i with
    | None => ([], (ce, cw))
    | Some sea =>
        let r := seasurface_adjust ce cw c sea (fst (i_stretching i)) (snd (i_stretching i))
                   (match vec with Some _ => true | None => false end) (i_limits i) in
        ((if snd r then [WSea] else []), fst r)
    end.

  Definition origin_and_widths (i : OawIn) : OawOut :=
    let w0 := match i_center_on_edge i, i_vector i with
              | None, None => [WFuture] | _, _ => [] end in
    match domain_of i with
    | None => mkOawOut w0 RErrNoDomain
    | Some dom0 =>
        if match i_sea i with Some s => leb s (i_center i) | None => false end
        then mkOawOut w0 RErrSea
        else
          (* NB the vector is cut against the domain BEFORE the sea surface widens it *)
          let dom := match i_sea i with
                     | Some s => (fst dom0, fmax (snd dom0) s) | None => dom0 end in
          let cp := center_part i dom0 in
          let cdom := comp_domain i dom in
          let ws := (w0 ++ fst cp)%list in
          match search (fst (snd cp)) (snd (snd cp)) (fst (i_stretching i))
                       (snd (i_stretching i)) (i_cell_numbers i) dom cdom with
          | Some r =>
              mkOawOut ws (ROk (fst (fst (fst (fst (fst r))))) (snd (fst (fst (fst (fst r)))))
                               (snd (fst (fst (fst r)))) (snd (fst (fst r))) (snd (fst r)) (snd r))
          | None => mkOawOut ws (if i_raise_error i then RErrRuntime else RNone)
          end
    end.

  (* ------------------------------------------------------------ construct_mesh *)
  (* a small universe of Python argument values *)
  Inductive Val : Type :=
  | VNone
  | VBool (b : bool)
  | VNum (x : F)
  | VArr (l : list F)                  (* 1-D ndarray *)
  | VSeq (l : list Val)                (* tuple / list *)
  | VDict (x y z : Val).               (* {'x':..,'y':..,'z':..} *)

  Definition vlen (v : Val) : option nat :=
    match v with VArr l => Some (length l) | VSeq l => Some (length l) | _ => None end.
  Definition vitem (v : Val) (k : nat) : Val :=
    match v with
    | VArr l => match nth_error l k with Some x => VNum x | None => VNone end
    | VSeq l => nth k l VNone
    | _ => VNone
    end.

  (* `domain` / `vector`: None or ndarray -> all; dict / len 3 -> per direction *)
  Definition route_dv (v : Val) : Val * Val * Val :=
    match v with
    | VNone => (VNone, VNone, VNone)
    | VArr _ => (v, v, v)
    | VDict x y z => (x, y, z)
    | _ => match vlen v with
           | Some 3%nat => (vitem v 0, vitem v 1, vitem v 2)
           | _ => (v, v, v)
           end
    end.
  (* the kwargs loop: bool -> all; number -> np.array([value]) for all; dict /
     len 3 -> per direction; else all *)
  Definition route_kw (v : Val) : Val * Val * Val :=
    match v with
    | VNone => (VNone, VNone, VNone)
    | VBool _ => (v, v, v)
    | VNum x => (VArr [x], VArr [x], VArr [x])
    | VDict x y z => (x, y, z)
    | _ => match vlen v with
           | Some 3%nat => (vitem v 0, vitem v 1, vitem v 2)
           | _ => (v, v, v)
           end
    end.

  (* properties: which entries go to x, y, z *)
  Definition route_props (p : list F) : list F * list F * list F :=
    let g := fun k => nth k p 0 in
    match length p with
    | 3%nat => ([g 0; g 2; g 2], [g 0; g 2; g 2], [g 0; g 1; g 2])%nat
    | 4%nat => ([g 0; g 1; g 1], [g 0; g 1; g 1], [g 0; g 2; g 3])%nat
    | 7%nat => ([g 0; g 1; g 2], [g 0; g 3; g 4], [g 0; g 5; g 6])%nat
    | _ => (p, p, p)
    end.

  (* interpretation of one direction's values by origin_and_widths *)
  Definition as_pair (v : Val) : option (F * F) :=
    match v with
    | VArr [a; b] => Some (a, b)
    | VSeq [VNum a; VNum b] => Some (a, b)
    | _ => None
    end.
  Definition as_limits (v : Val) : option Limits :=
    match v with
    | VNone => Some LimNone
    | VNum a => Some (LimOne a)
    | VArr [a] => Some (LimOne a)
    | VSeq [VNum a] => Some (LimOne a)
    | VArr [a; b] => Some (LimTwo a b)
    | VSeq [VNum a; VNum b] => Some (LimTwo a b)
    | _ => None
    end.
  Definition as_num (d : F) (v : Val) : option F :=
    match v with
    | VNone => Some d | VNum a => Some a | VArr [a] => Some a | _ => None
    end.
  Definition as_vec (v : Val) : option (option (list F)) :=
    match v with VNone => Some None | VArr l => Some (Some l) | _ => None end.
  Definition as_coe (v : Val) : option (option bool) :=
    match v with VNone => Some None | VBool b => Some (Some b) | _ => None end.
  Definition as_opt_pair (v : Val) : option (option (F * F)) :=
    match v with
    | VNone => Some None
    | _ => match as_pair v with Some p => Some (Some p) | None => None end
    end.

  Record CmIn : Type := mkCmIn {
    c_props : list F;                (* properties (already a list) *)
    c_center : F * F * F;
    c_domain : Val; c_vector : Val; c_distance : Val; c_stretching : Val;
    c_limits : Val; c_pps : Val; c_coe : Val;
    c_sea : option F;
    c_lambda_factor : F; c_max_buffer : F; c_lambda_from_center : bool;
    c_cell_numbers : list Z
  }.

  Variable skin : F -> F.            (* property value |-> skin depth (oracle) *)
  Definition c15 : F := Flit 3 2.
  Definition c3 : F := 1 + 1 + 1.

  (* the OawIn of one direction; None = argument form outside the model *)
  Definition dir_input (c : CmIn) (props : list F) (center : F) (sea : option F)
             (dom vec dist str lim pps coe : Val) : option OawIn :=
    match as_opt_pair dom, as_vec vec, as_opt_pair dist,
          (match str with VNone => Some (1, c15) | _ => as_pair str end),
          as_limits lim, as_num c3 pps, as_coe coe with
    | Some d, Some v, Some ds, Some st, Some l, Some p, Some ce =>
        Some (mkOawIn (map skin props) center d ds v sea st l p (c_lambda_factor c)
                      (c_max_buffer c) (c_lambda_from_center c) (c_cell_numbers c) ce false)
    | _, _, _, _, _, _, _ => None
    end.

  Definition cm_inputs (c : CmIn) : option OawIn * option OawIn * option OawIn :=
    let pr := route_props (c_props c) in
    let d := route_dv (c_domain c) in
    let v := route_dv (c_vector c) in
    let ds := route_kw (c_distance c) in
    let st := route_kw (c_stretching c) in
    let l := route_kw (c_limits c) in
    let p := route_kw (c_pps c) in
    let ce := route_kw (c_coe c) in
    (dir_input c (t1 pr) (t1 (c_center c)) None (t1 d) (t1 v) (t1 ds) (t1 st) (t1 l) (t1 p) (t1 ce),
     dir_input c (t2 pr) (t2 (c_center c)) None (t2 d) (t2 v) (t2 ds) (t2 st) (t2 l) (t2 p) (t2 ce),
     dir_input c (t3 pr) (t3 (c_center c)) (c_sea c) (t3 d) (t3 v) (t3 ds) (t3 st) (t3 l) (t3 p) (t3 ce)).

  Inductive CmRes : Type :=
  | CErrValue (dir : nat)            (* a ValueError raised while gridding direction dir *)
  | CErrRuntime                      (* some direction found no grid *)
  | CMalformed
  | COk (origin : F * F * F) (hx hy hz : list F).
  Record CmOut : Type := mkCmOut { cm_warns : list Warn; cm_res : CmRes }.

  Definition is_value_err (r : OawRes) : bool :=
    match r with RErrNoDomain | RErrSea => true | _ => false end.

  (* x, y, z are gridded in this order; a ValueError stops at once; missing
     grids raise RuntimeError only after all three directions ran *)
  Definition construct_mesh (c : CmIn) : CmOut :=
    match cm_inputs c with
    | (Some ix, Some iy, Some iz) =>
        let ox := origin_and_widths ix in
        if is_value_err (o_res ox) then mkCmOut (o_warns ox) (CErrValue 0) else
        let oy := origin_and_widths iy in
        let w2 := (o_warns ox ++ o_warns oy)%list in
        if is_value_err (o_res oy) then mkCmOut w2 (CErrValue 1) else
        let oz := origin_and_widths iz in
        let w3 := (w2 ++ o_warns oz)%list in
        if is_value_err (o_res oz) then mkCmOut w3 (CErrValue 2) else
        match o_res ox, o_res oy, o_res oz with
        | ROk x0 hx _ _ _ _, ROk y0 hy _ _ _ _, ROk z0 hz _ _ _ _ =>
            mkCmOut w3 (COk (x0, y0, z0) hx hy hz)
        | _, _, _ => mkCmOut w3 CErrRuntime
        end
    | _ => mkCmOut [] CMalformed
    end.
End Gridding.
