(* Model/Codec.v -- hand model of emg3d/io.py (property C17): the pure
   dictionary transformations behind save / load / convert.  Definitions only.

   Python value universe ([val]).  A Python dict is its list of
   (str(key), value) pairs in iteration order; every place where io.py builds a
   dict by assignment ([out[key] = value], [dict(list)], [tmp[part] = ...]) is
   modelled by [dset] (overwrite in place, else append), so key collisions
   behave as in Python.  Errors (any exception) are [None].

   io.py                       here
   _dict_serialize             ser
   _nonetype_to_none           nn
   _dict_flatten               flatten        (npz)
   _dict_unflatten             unflatten      (npz)
   _dict_dearray_decomp        jenc           (json)
   _dict_array_comp            jdec           (json)
   _hdf5_dump / _hdf5_load     h5_file        (h5; leaf store = oracle)
   np.savez / np.load          npz_store      (leaf store = oracle)
   json.dump / json.load       json_text      (oracle)
   save;load                   save_load_npz / _h5 / _json
   _dict_deserialize / to_dict of the registered classes are NOT modelled
   (identity on plain dictionaries); they are exercised end to end.           *)
From Coq Require Import ZArith List Bool Ascii String DecimalString.
Import ListNotations.
Local Open Scope string_scope.

(* ------------------------------------------------------------------ values *)
Inductive dtype : Type :=
  DBool | DI8 | DI16 | DI32 | DI64 | DU8 | DU16 | DU32 | DU64
| DF16 | DF32 | DF64 | DC64 | DC128.

Definition dtype_name (d : dtype) : string :=
  match d with
  | DBool => "bool" | DI8 => "int8" | DI16 => "int16" | DI32 => "int32" | DI64 => "int64"
  | DU8 => "uint8" | DU16 => "uint16" | DU32 => "uint32" | DU64 => "uint64"
  | DF16 => "float16" | DF32 => "float32" | DF64 => "float64"
  | DC64 => "complex64" | DC128 => "complex128"
  end.
Definition all_dtypes : list dtype :=
  [DBool; DI8; DI16; DI32; DI64; DU8; DU16; DU32; DU64; DF16; DF32; DF64; DC64; DC128].
(* getattr(np, name) restricted to the dtypes above; anything else = AttributeError *)
Definition dtype_of_name (s : string) : option dtype :=
  find (fun d => String.eqb (dtype_name d) s) all_dtypes.

Inductive dkind : Type := KBool | KInt | KFloat | KCplx.
Definition kind_of (d : dtype) : dkind :=
  match d with
  | DBool => KBool
  | DI8 | DI16 | DI32 | DI64 | DU8 | DU16 | DU32 | DU64 => KInt
  | DF16 | DF32 | DF64 => KFloat
  | DC64 | DC128 => KCplx
  end.
Definition is_complex_dt (d : dtype) : bool :=
  match kind_of d with KCplx => true | _ => false end.
(* dtype of z.real / z.imag *)
Definition real_dt (d : dtype) : dtype :=
  match d with DC64 => DF32 | DC128 => DF64 | _ => d end.
(* dtype of  a + 1j*b  for real arrays a, b of dtype d (NEP 50: 1j is weak) *)
Definition cplx_dt (d : dtype) : dtype :=
  match d with DF16 | DF32 | DC64 => DC64 | _ => DC128 end.

(* A float is its exact value (dyadic n/d; -0.0 and 0.0 identified) or one of
   the three specials.  No arithmetic happens in io.py except a + 1j*b. *)
Inductive fl : Type := FFin (n : Z) (d : positive) | FNaN | FPInf | FNInf.
Inductive num : Type := NB (b : bool) | NI (z : Z) | NF (x : fl) | NC (re im : fl).

Inductive val : Type :=
| VNone
| VBool (b : bool)                    (* Python bool *)
| VInt (z : Z)                        (* Python int *)
| VFloat (x : fl)                     (* Python float *)
| VCplx (re im : fl)                  (* Python complex *)
| VStr (s : string)                   (* Python str *)
| VStr0 (s : string)                  (* 0-d numpy unicode array (what np.load returns for a str) *)
| VBytes (s : string)                 (* bytes (what h5py returns for a str) *)
| VNps (dt : dtype) (x : num)         (* numpy scalar, e.g. np.float64(1.5) *)
| VArr (dt : dtype) (sh : list nat) (data : list num)   (* ndarray; data in C order *)
| VList (l : list val)                (* Python list (json) *)
| VDict (kvs : list (string * val)).

Definition dict : Type := list (string * val).

(* ------------------------------------------------------------- dict basics *)
Section Assoc.
  Context {A : Type}.
  Fixpoint lookup (k : string) (l : list (string * A)) : option A :=
    match l with
    | [] => None
    | (k', v) :: t => if String.eqb k k' then Some v else lookup k t
    end.
  (* d[k] = v *)
  Fixpoint dset (k : string) (v : A) (l : list (string * A)) : list (string * A) :=
    match l with
    | [] => [(k, v)]
    | (k', v') :: t => if String.eqb k k' then (k, v) :: t else (k', v') :: dset k v t
    end.
  (* dict(list_of_pairs)  /  out = {}; for k, v in ...: out[k] = v *)
  Definition dict_of_list (l : list (string * A)) : list (string * A) :=
    fold_left (fun acc kv => dset (fst kv) (snd kv) acc) l [].
End Assoc.

Section MapM.
  Context {A B : Type} (f : A -> option B).
  Fixpoint mapM (l : list A) : option (list B) :=
    match l with
    | [] => Some []
    | a :: t => match f a, mapM t with
                | Some b, Some t' => Some (b :: t')
                | _, _ => None
                end
    end.
End MapM.

Definition obind {A B} (o : option A) (f : A -> option B) : option B :=
  match o with Some a => f a | None => None end.
Notation "x <- o ;; k" := (obind o (fun x => k)) (at level 61, o at next level, right associativity).

Definition is_dict (v : val) : bool := match v with VDict _ => true | _ => false end.

(* the same leaf function applied to every non-dict value of a dict tree *)
Fixpoint map_leaves (f : val -> val) (v : val) : val :=
  match v with
  | VDict kvs => VDict (map (fun kv => (fst kv, map_leaves f (snd kv))) kvs)
  | _ => f v
  end.

(* ------------------------------------------- _dict_serialize / _nonetype_.. *)
Definition NONE_MARK : string := "NoneType".

Fixpoint ser (v : val) : val :=
  match v with
  | VNone => VStr NONE_MARK
  | VDict kvs => VDict (dict_of_list (map (fun kv => (fst kv, ser (snd kv))) kvs))
  | _ => v
  end.

(* bool(np.squeeze(v)): defined for exactly one element *)
Definition squeeze_bool (data : list num) : option val :=
  match data with
  | [NB b] => Some (VBool b)
  | _ => None
  end.

Fixpoint nn (v : val) : option val :=
  match v with
  | VDict kvs =>
      option_map VDict (mapM (fun kv => option_map (pair (fst kv)) (nn (snd kv))) kvs)
  | VStr s => if String.eqb s NONE_MARK then Some VNone else Some v
  | VNps DBool (NB b) => Some (VBool b)
  | VArr DBool _ data => squeeze_bool data
  | _ => Some v
  end.

(* ------------------------------------------------- _dict_flatten/_unflatten *)
Definition SEP : string := ">".
Definition SEPC : ascii := ">"%char.

Fixpoint flat_raw (v : val) : dict :=
  match v with
  | VDict kvs =>
      flat_map (fun kv =>
                  match snd kv with
                  | VDict _ => map (fun kv' => (fst kv ++ SEP ++ fst kv', snd kv'))
                                   (dict_of_list (flat_raw (snd kv)))
                  | _ => [kv]
                  end) kvs
  | _ => []
  end.
Definition flatten (v : val) : dict := dict_of_list (flat_raw v).

(* str.split(c) for a one-character separator *)
Fixpoint split_on (c : ascii) (s : string) : list string :=
  match s with
  | EmptyString => [EmptyString]
  | String a r =>
      if Ascii.eqb a c then EmptyString :: split_on c r
      else match split_on c r with
           | h :: t => String a h :: t
           | [] => [String a EmptyString]
           end
  end.

(* the walk  tmp = out; for part in parts[:-1]: ...; tmp[parts[-1]] = value *)
Fixpoint uins (parts : list string) (v : val) (out : dict) : option dict :=
  match parts with
  | [] => None
  | [p] => Some (dset p v out)
  | p :: ps =>
      match lookup p out with
      | None => sub <- uins ps v [] ;; Some (dset p (VDict sub) out)
      | Some (VDict sub) => sub' <- uins ps v sub ;; Some (dset p (VDict sub') out)
      | Some _ => None          (* indexing a leaf with a str *)
      end
  end.

(* numpy str arrays -> str *)
Definition unconv (v : val) : val := match v with VStr0 s => VStr s | _ => v end.

Definition unflatten (l : dict) : option dict :=
  fold_left (fun acc kv => o <- acc ;; uins (split_on SEPC (fst kv)) (unconv (snd kv)) o)
            l (Some []).

(* ---------------------------------------------------- strings for the json keys *)
Fixpoint contains (pat s : string) : bool :=
  if prefix pat s then true
  else match s with EmptyString => false | String _ r => contains pat r end.
Fixpoint drop (n : nat) (s : string) : string :=
  match n, s with
  | O, _ => s
  | S n', String _ r => drop n' r
  | S _, EmptyString => EmptyString
  end.
Definition nonempty (s : string) : bool := match s with EmptyString => false | _ => true end.
(* s.split(pat), pat non-empty: leftmost, non-overlapping *)
Fixpoint split_aux (pat : string) (skip : nat) (s : string) : list string :=
  match s with
  | EmptyString => [EmptyString]
  | String a r =>
      match skip with
      | S k => split_aux pat k r
      | O => if nonempty pat && prefix pat s
             then EmptyString :: split_aux pat (String.length pat - 1) r
             else match split_aux pat 0 r with
                  | h :: t => String a h :: t
                  | [] => [String a EmptyString]
                  end
      end
  end.
Definition split_str (pat s : string) : list string := split_aux pat 0 s.
(* s.replace(pat, ''), pat non-empty *)
Fixpoint remove_aux (pat : string) (skip : nat) (s : string) : string :=
  match s with
  | EmptyString => EmptyString
  | String a r =>
      match skip with
      | S k => remove_aux pat k r
      | O => if nonempty pat && prefix pat s
             then remove_aux pat (String.length pat - 1) r
             else String a (remove_aux pat 0 r)
      end
  end.
Definition remove_all (pat s : string) : string := remove_aux pat 0 s.

(* ------------------------------------------------------ _dict_dearray_decomp *)
Definition fzero : fl := FFin 0 1.
Definition re_of (x : num) : num := match x with NC a _ => NF a | _ => x end.
Definition im_of (x : num) : num := match x with NC _ b => NF b | _ => NF fzero end.
Definition py_of_num (x : num) : val :=
  match x with NB b => VBool b | NI z => VInt z | NF f => VFloat f | NC a b => VCplx a b end.

Definition prod (sh : list nat) : nat := fold_right Nat.mul 1 sh.
Fixpoint chunks (n m : nat) (l : list num) : list (list num) :=
  match n with
  | O => []
  | S n' => firstn m l :: chunks n' m (skipn m l)
  end.
(* ndarray.tolist() *)
Fixpoint tolist (sh : list nat) (data : list num) : val :=
  match sh with
  | [] => match data with x :: _ => py_of_num x | [] => VNone end
  | n :: sh' => VList (map (tolist sh') (chunks n (prod sh') data))
  end.

Definition str_of_Z (z : Z) : string := NilZero.string_of_int (Z.to_int z).
Definition str_of_nat (n : nat) : string := NilZero.string_of_uint (Nat.to_uint n).
Definition TAG_C : string := "__complex".
Definition TAG_A : string := "__array".

(* int(value) / float(value) / bool(value) of numpy scalars *)
Definition strip_nps (v : val) : val :=
  match v with
  | VNps _ (NI z) => VInt z
  | VNps _ (NF f) => VFloat f
  | VNps _ (NB b) => VBool b
  | x => x
  end.

(* one non-dict item of _dict_dearray_decomp *)
Definition enc_leaf (k : string) (v : val) : string * val :=
  let kv1 :=
    match v with
    | VCplx a b => (k ++ TAG_C, VArr DF64 [2] [NF a; NF b])
    | VNps dt (NC a b) =>
        if is_complex_dt dt then (k ++ TAG_C, VArr (real_dt dt) [2] [NF a; NF b]) else (k, v)
    | VArr dt sh data =>
        if is_complex_dt dt
        then (k ++ TAG_C, VArr (real_dt dt) (2 :: sh) (map re_of data ++ map im_of data))
        else (k, v)
    | _ => (k, v)
    end in
  let kv2 :=
    match snd kv1 with
    | VArr dt sh data => (fst kv1 ++ TAG_A ++ "-" ++ dtype_name dt, tolist sh data)
    | VStr0 s =>       (* dtype.name of '<Un' is 'str<32n>' (n >= 1) *)
        (fst kv1 ++ TAG_A ++ "-str" ++ str_of_nat (32 * Nat.max 1 (String.length s)), VStr s)
    | _ => kv1
    end in
  let v3 := strip_nps (snd kv2) in
  (fst kv2, v3).

Fixpoint jenc (v : val) : val :=
  match v with
  | VDict kvs =>
      VDict (dict_of_list
               (map (fun kv => match snd kv with
                               | VDict _ => (fst kv, jenc (snd kv))
                               | _ => enc_leaf (fst kv) (snd kv)
                               end) kvs))
  | _ => v
  end.

(* ---------------------------------------------------------- _dict_array_comp *)
Fixpoint shape_of (v : val) : list nat :=
  match v with
  | VList l => List.length l :: match l with x :: _ => shape_of x | [] => [] end
  | _ => []
  end.
Fixpoint regular (sh : list nat) (v : val) : bool :=
  match sh, v with
  | [], VList _ => false
  | [], _ => true
  | n :: sh', VList l => Nat.eqb (List.length l) n && forallb (regular sh') l
  | _ :: _, _ => false
  end.
Fixpoint flat_nested (v : val) : list val :=
  match v with
  | VList l => flat_map flat_nested l
  | _ => [v]
  end.
Definition b2z (b : bool) : Z := if b then 1%Z else 0%Z.
(* element conversion of np.asarray(list, dtype=dt) *)
Definition int_range (dt : dtype) : Z * Z :=
  match dt with
  | DI8 => (-(2^7), 2^7) | DI16 => (-(2^15), 2^15) | DI32 => (-(2^31), 2^31)
  | DU8 => (0, 2^8) | DU16 => (0, 2^16) | DU32 => (0, 2^32) | DU64 => (0, 2^64)
  | _ => (-(2^63), 2^63)
  end%Z.
Definition in_range (dt : dtype) (z : Z) : bool :=
  (Z.leb (fst (int_range dt)) z && Z.ltb z (snd (int_range dt)))%Z.
Definition cast_num (dt : dtype) (v : val) : option num :=
  match kind_of dt, v with
  | KBool, VBool b => Some (NB b)
  | KInt, VInt z => if in_range dt z then Some (NI z) else None   (* OverflowError *)
  | KInt, VBool b => Some (NI (b2z b))
  | KInt, VFloat (FFin n d) =>                       (* truncation toward zero *)
      let z := Z.quot n (Zpos d) in if in_range dt z then Some (NI z) else None
  | KBool, VInt z => Some (NB (negb (Z.eqb z 0)))
  | KBool, VFloat (FFin n _) => Some (NB (negb (Z.eqb n 0)))
  | KFloat, VFloat f => Some (NF f)
  | KFloat, VInt z =>                               (* exact below 2^53; rounding not modelled *)
      if Z.leb (Z.abs z) (2^53) then Some (NF (FFin z 1)) else None
  | KFloat, VBool b => Some (NF (FFin (b2z b) 1))
  | _, _ => None
  end.
Definition asarray (v : val) (dt : dtype) : option val :=
  let sh := shape_of v in
  if regular sh v
  then data <- mapM (cast_num dt) (flat_nested v) ;; Some (VArr dt sh data)
  else None.

Definition finite (x : fl) : bool := match x with FFin _ _ => true | _ => false end.
(* a + 1j*b in IEEE arithmetic: 1j*b has real part 0*b - 0, NaN unless b is finite *)
Definition to_fl (a : num) : option fl :=
  match a with
  | NF x => Some x
  | NI z => Some (FFin z 1)
  | NB b => Some (FFin (b2z b) 1)
  | NC _ _ => None
  end.
Definition cmk (a b : num) : option num :=
  x <- to_fl a ;; y <- to_fl b ;; Some (NC (if finite y then x else FNaN) y).
Fixpoint zipM (l1 l2 : list num) : option (list num) :=
  match l1, l2 with
  | [], [] => Some []
  | a :: t1, b :: t2 => c <- cmk a b ;; t <- zipM t1 t2 ;; Some (c :: t)
  | _, _ => None
  end.
(* np.asarray(v)[0, ...] + 1j*np.asarray(v)[1, ...] *)
Definition compose (v : val) : option val :=
  match v with
  | VArr dt (S (S n) :: sh) data =>
      let m := prod sh in
      cs <- zipM (firstn m data) (firstn m (skipn m data)) ;;
      match sh, cs with
      | [], [c] => Some (VNps (cplx_dt dt) c)
      | [], _ => None
      | _, _ => Some (VArr (cplx_dt dt) sh cs)
      end
  | _ => None
  end.

Definition dec_item (k : string) (v : val) : option (string * val) :=
  kv1 <- (if contains TAG_A k
          then let atype := last (split_str "__" k) EmptyString in
               dt <- dtype_of_name (drop 6 atype) ;;
               a <- asarray v dt ;;
               Some (remove_all ("__" ++ atype) k, a)
          else Some (k, v)) ;;
  if contains TAG_C (fst kv1)
  then c <- compose (snd kv1) ;; Some (remove_all TAG_C (fst kv1), c)
  else Some kv1.

Fixpoint jdec (v : val) : option val :=
  match v with
  | VDict kvs =>
      option_map (fun l => VDict (dict_of_list l))
        (mapM (fun kv => x <- match snd kv with VDict _ => jdec (snd kv) | y => Some y end ;;
                         dec_item (fst kv) x) kvs)
  | _ => Some v
  end.

(* ------------------------------------------------------------ leaf stores *)
(* Concrete executable instances of the store oracles; the theorems are proved
   for ANY oracle meeting the contracts in Proofs/Codec.v, these instances are
   shown to meet them and are what the correspondence runs against numpy,
   h5py and json. *)
Definition in_i64 (z : Z) : bool := (Z.leb (-(2^63)) z && Z.ltb z (2^63))%Z.
Definition in_u64 (z : Z) : bool := (Z.leb 0 z && Z.ltb z (2^64))%Z.

(* np.savez_compressed of the flat dict ; np.load: every value goes through np.asarray *)
Definition npz_leaf_c (v : val) : option val :=
  match v with
  | VBool b => Some (VArr DBool [] [NB b])
  | VInt z => if in_i64 z then Some (VArr DI64 [] [NI z])
              else if in_u64 z then Some (VArr DU64 [] [NI z]) else None
  | VFloat f => Some (VArr DF64 [] [NF f])
  | VCplx a b => Some (VArr DC128 [] [NC a b])
  | VStr s => Some (VStr0 s)
  | VStr0 s => Some (VStr0 s)
  | VNps dt x => Some (VArr dt [] [x])
  | VArr dt sh data => Some v
  | _ => None
  end.

(* create_dataset(key, data=v) ; ds[()] *)
Definition h5_leaf_c (v : val) : option val :=
  match v with
  | VBool b => Some (VNps DBool (NB b))
  | VInt z => if in_i64 z then Some (VNps DI64 (NI z))
              else if in_u64 z then Some (VNps DU64 (NI z)) else None
  | VFloat f => Some (VNps DF64 (NF f))
  | VCplx a b => Some (VNps DC128 (NC a b))
  | VStr s => Some (VBytes s)
  | VBytes s => Some (VBytes s)
  | VNps dt x => Some v
  | VArr dt [] [x] => Some (VNps dt x)
  | VArr dt sh data => Some v
  | _ => None
  end.

(* json.load(json.dump(v)) *)
Fixpoint jsonable (v : val) : bool :=
  match v with
  | VNone | VBool _ | VInt _ | VFloat _ | VStr _ => true
  | VList l => forallb jsonable l
  | VDict kvs => forallb (fun kv => jsonable (snd kv)) kvs
  | _ => false
  end.
Definition json_text_c (v : val) : option val := if jsonable v then Some v else None.

(* ------------------------------------------------------------ h5 structure *)
Definition h5_post (v : val) : val := match v with VBytes s => VStr s | _ => v end.
(* names h5py accepts as ONE link name *)
Definition SLASH : string := "/".
Definition h5_key_ok (k : string) : bool :=
  nonempty k && negb (contains SLASH k) && negb (String.eqb k ".").

Fixpoint insert_key (kv : string * val) (l : dict) : dict :=
  match l with
  | [] => [kv]
  | kv' :: t => if String.leb (fst kv) (fst kv') then kv :: l else kv' :: insert_key kv t
  end.
(* iteration order of a group created without track_order: by name *)
Definition sort_keys (l : dict) : dict := fold_right insert_key [] l.

Section Stores.
  Variable npz_leaf : val -> option val.
  Variable h5_leaf : val -> option val.
  Variable json_text : val -> option val.

  (* groups below the root are created with track_order=True *)
  Fixpoint h5_tree (v : val) : option val :=
    match v with
    | VDict kvs =>
        option_map VDict
          (mapM (fun kv => if h5_key_ok (fst kv)
                           then option_map (pair (fst kv)) (h5_tree (snd kv))
                           else None) kvs)
    | _ => option_map h5_post (h5_leaf v)
    end.
  (* _hdf5_load(_hdf5_dump(data)) : the root group is not order-tracked *)
  Definition h5_file (v : val) : option val :=
    t <- h5_tree v ;;
    match t with VDict kvs => Some (VDict (sort_keys kvs)) | _ => None end.

  Definition npz_store (l : dict) : option dict :=
    mapM (fun kv => option_map (pair (fst kv)) (npz_leaf (snd kv))) l.

  (* load after save of d without the three meta entries and without class
     de-serialisation *)
  Definition save_load_npz (d : val) : option val :=
    st <- npz_store (flatten (ser d)) ;;
    u <- unflatten st ;;
    nn (VDict u).
  Definition save_load_h5 (d : val) : option val :=
    t <- h5_file (ser d) ;; nn t.
  Definition save_load_json (d : val) : option val :=
    j <- json_text (jenc (ser d)) ;;
    r <- jdec j ;;
    nn r.
End Stores.

Inductive fmt : Type := H5 | NPZ | JSON.
Definition save_load (f : fmt) : val -> option val :=
  match f with
  | H5 => save_load_h5 h5_leaf_c
  | NPZ => save_load_npz npz_leaf_c
  | JSON => save_load_json json_text_c
  end.
(* convert(f1 -> f2) then load: load_f2 (save_f2 (load_f1 (save_f1 d))) *)
Definition convert_load (f1 f2 : fmt) (d : val) : option val :=
  x <- save_load f1 d ;; save_load f2 x.

(* ----------------------------------------------------------------- render *)
Definition nl : string := String (ascii_of_nat 10) EmptyString.
Definition r_str (s : string) : string := str_of_nat (String.length s) ++ ":" ++ s.
Definition r_fl (x : fl) : string :=
  match x with
  | FFin n d => str_of_Z n ++ "/" ++ str_of_Z (Zpos d)
  | FNaN => "nan" | FPInf => "+inf" | FNInf => "-inf"
  end.
Definition r_num (x : num) : string :=
  match x with
  | NB b => if b then "b1" else "b0"
  | NI z => "i" ++ str_of_Z z
  | NF f => "f" ++ r_fl f
  | NC a b => "c" ++ r_fl a ++ "," ++ r_fl b
  end.
Definition join (sep : string) (l : list string) : string :=
  match l with
  | [] => ""
  | h :: t => fold_left (fun acc s => acc ++ sep ++ s) t h
  end.
Fixpoint render (v : val) : string :=
  match v with
  | VNone => "N"
  | VBool b => if b then "T" else "F"
  | VInt z => "i" ++ str_of_Z z
  | VFloat f => "f" ++ r_fl f
  | VCplx a b => "c" ++ r_fl a ++ "," ++ r_fl b
  | VStr s => "s" ++ r_str s
  | VStr0 s => "u" ++ r_str s
  | VBytes s => "y" ++ r_str s
  | VNps dt x => "p" ++ dtype_name dt ++ "(" ++ r_num x ++ ")"
  | VArr dt sh data =>
      "a" ++ dtype_name dt ++ "[" ++ join "," (map str_of_nat sh) ++ "]("
          ++ join ";" (map r_num data) ++ ")"
  | VList l => "l[" ++ join ";" (map render l) ++ "]"
  | VDict kvs =>
      "{" ++ join ";" (map (fun kv => r_str (fst kv) ++ "=" ++ render (snd kv)) kvs) ++ "}"
  end.
Definition render_o (o : option val) : string :=
  match o with Some v => "OK " ++ render v | None => "ERR" end.
Definition render_d (o : option dict) : string := render_o (option_map VDict o).
