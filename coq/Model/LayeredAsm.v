(* Model/LayeredAsm.v -- C19.  Hand model (definitions ONLY) of the RESULT ASSEMBLY of the
   layered mode: which response ends up in which slot of the output.

     emg3d._multiprocessing.layered (forward branch)
         out = np.full((len(receivers), frequencies.size), nan)
         for i, (rkey, rec) in enumerate(receivers.items()):
             fi = isfinite(observed.loc[rkey, :])     (all True if observed is None)
             if fi.sum() == 0: continue
             out[i, fi] = _empymod_fwd(.., freqtime=frequencies[fi])
     emg3d.simulations.Simulation._compute_1d (forward branch)
         has_data = isfinite(observed).sum() > 0
         out = process_map(layered, [inputs(source) for source in sources.keys()])
             inputs(source)['observed'] = observed.loc[source, :, :] if has_data else None
         for i, src in enumerate(sources.keys()): synthetic.loc[src, :, :] = out[i]

   Unlike Model/Layered.v (layered_fwd builds the rows by structural recursion) this model is
   IMPERATIVE: the output array is pre-allocated with NaN ([None]), the loop carries the
   enumerate index [i], `continue` advances the index without writing, the mask is looked up
   by receiver LABEL (observed.loc[rkey]), and the responses are written INTO row [i]
   (boolean-mask assignment).  The positional book-keeping between the receiver dict, the
   observed array and the rows of [out] is therefore part of the model.

   Oracle (Section variable): [resp k fs] = the 1D reference response of the receiver with
   label [k] at the frequencies [fs] (Model/Layered.v says which layers it is called with).
   [assemble_filtered] is NOT the code: it is the variant in which receivers without data are
   filtered out first and the index within the filtered list is used as the row (kept to show
   that the theorems distinguish it: Props/C19.v assemble_filtered_refuted).
   Tied to the code by correspondence (py/props/c19.py, stream (M)). *)
From Coq Require Import Bool List String Arith.
From V Require Import Model.Layered.
Import ListNotations.

Section Assembly.
  Variable D : Type.                        (* a response *)
  Variable A : Type.                        (* a frequency *)
  Variable freqs : list A.
  Variable resp : string -> list A -> list D.

  Definition orow : Type := list (option D).
  Definition nan_row : orow := map (fun _ => None) freqs.

  (* observed.loc[rkey, :] on the finite flags: lookup by LABEL *)
  Fixpoint loc {T} (obs : list (string * list T)) (k : string) : list T :=
    match obs with
    | [] => []
    | (k', m) :: t => if String.eqb k' k then m else loc t k
    end.

  (* fi of a receiver: observed is None -> np.ones(frequencies.size, bool) *)
  Definition mask_for (observed : option (list (string * list bool))) (k : string) : list bool :=
    match observed with
    | Some o => loc o k
    | None => map (fun _ => true) freqs
    end.

  (* row[fi] = r : boolean-mask assignment INTO an existing row *)
  Fixpoint assign (old : orow) (fi : list bool) (r : list D) : orow :=
    match old, fi with
    | o :: old', true :: t => match r with
                              | x :: r' => Some x :: assign old' t r'
                              | [] => o :: assign old' t []
                              end
    | o :: old', false :: t => o :: assign old' t r
    | _, _ => old
    end.

  (* out[i, ...] = f(out[i, ...]) *)
  Fixpoint upd_row (out : list orow) (i : nat) (f : orow -> orow) : list orow :=
    match out, i with
    | [], _ => []
    | r :: t, 0 => f r :: t
    | r :: t, Datatypes.S i' => r :: upd_row t i' f
    end.

  (* one pass of the receiver loop; state = (enumerate index, out) *)
  Definition asm_step (observed : option (list (string * list bool)))
             (st : nat * list orow) (k : string) : nat * list orow :=
    let fi := mask_for observed k in
    if Nat.eqb (count_true fi) 0 then (Datatypes.S (fst st), snd st)        (* continue *)
    else (Datatypes.S (fst st),
          upd_row (snd st) (fst st) (fun old => assign old fi (resp k (select fi freqs)))).

  (* layered(inp), gradient=False: [keys] = list(receivers.keys()) *)
  Definition assemble (keys : list string) (observed : option (list (string * list bool)))
    : list orow :=
    snd (fold_left (asm_step observed) keys (0, map (fun _ => nan_row) keys)).

  (* NOT the code: dataless receivers filtered out first, index of the filtered list = row *)
  Definition has_any (observed : option (list (string * list bool))) (k : string) : bool :=
    negb (Nat.eqb (count_true (mask_for observed k)) 0).
  Definition assemble_filtered (keys : list string) (observed : option (list (string * list bool)))
    : list orow :=
    snd (fold_left (asm_step observed) (filter (has_any observed) keys)
                   (0, map (fun _ => nan_row) keys)).
End Assembly.

(* ---- _compute_1d: all sources -------------------------------------------- *)
Section AllSources.
  Variable D : Type.
  Variable A : Type.
  Variable freqs : list A.
  (* source label -> receiver label -> frequencies -> responses *)
  Variable resp : string -> string -> list A -> list D.

  (* np.isfinite(self.data.observed.data).sum() > 0 *)
  Definition has_data (obs : list (string * list (string * list bool))) : bool :=
    existsb (fun s => existsb (fun r => existsb (fun b => b) (snd r)) (snd s)) obs.

  (* data['observed'] = self.data.observed.loc[source, :, :] if has_data else None *)
  Definition src_observed (obs : list (string * list (string * list bool))) (s : string)
    : option (list (string * list bool)) :=
    if has_data obs then Some (loc obs s) else None.

  (* out[i] per source, in the order of sources.keys(); `synthetic.loc[src] = out[i]` walks the
     same key list, so source i of the result is source i of the survey *)
  Definition compute_1d (srcs keys : list string) (obs : list (string * list (string * list bool)))
    : list (list (orow D)) :=
    map (fun s => assemble D A freqs (resp s) keys (src_observed obs s)) srcs.
End AllSources.
