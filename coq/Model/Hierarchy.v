(* Model/Hierarchy.v -- hand model of the multigrid control flow of
   emg3d.solver (MGParameters._max_level / _semicoarsening / _linerelaxation,
   multigrid() recursion, outer cycling).  It CALLS the decision helpers of
   Gen/SolverHelpers.v, which are regenerated from solver.py on every run.
   Definitions only; theorems in Proofs/Hierarchy.v; tie to the code by trace
   correspondence against the solver's own verb=5 log (py/props/c05.py). *)
From Coq Require Import ZArith List Bool.
From V Require Import Gen.SolverHelpers.
Import ListNotations.
Local Open Scope Z_scope.

Definition shape : Type := (Z * Z * Z)%type.
Definition sx (s : shape) : Z := fst (fst s).
Definition sy (s : shape) : Z := snd (fst s).
Definition sz (s : shape) : Z := snd s.

(* --- MGParameters._max_level ------------------------------------------- *)
(* while n % 2 == 0 and n > 2: clevel += 1; n /= 2   (fuel: log2 n + 1) *)
Fixpoint halv_count (fuel : nat) (n : Z) : Z :=
  match fuel with
  | O => 0
  | S f => if halvable n then 1 + halv_count f (n / 2) else 0
  end.
Definition fuel_of (n : Z) : nat := S (Z.to_nat (Z.log2 n)).
Definition count1 (n : Z) : Z := halv_count (fuel_of n) n.

(* per-direction table after the user cap, and the four maxima *)
Definition cap3 (user : Z) (s : shape) : Z * Z * Z :=
  (cap_level user (count1 (sx s)), cap_level user (count1 (sy s)),
   cap_level user (count1 (sz s))).
Definition clevel_tab (user : Z) (s : shape) : Z * Z * Z * Z :=
  let c := cap3 user s in clevel_table (fst (fst c)) (snd (fst c)) (snd c).
Definition tab_get (t : Z * Z * Z * Z) (sc : Z) : Z :=
  if sc =? 0 then fst (fst (fst t))
  else if sc =? 1 then snd (fst (fst t))
  else if sc =? 2 then snd (fst t)
  else snd t.
(* shape of the "Coarsest grid" line of the header: n / 2^clevel per direction *)
Definition repr_coarsest (user : Z) (s : shape) : shape :=
  let c := cap3 user s in
  (sx s / 2 ^ fst (fst c), sy s / 2 ^ snd (fst c), sz s / 2 ^ snd c).

(* --- restriction(): coarse cell count = len(nodes[::r]) - 1 -------------- *)
Definition coarse_cells (n r : Z) : Z := (n + r) / r - 1.
Definition halve (s : shape) (c_sc : Z) : shape :=
  let f := restrict_factors c_sc in
  (coarse_cells (sx s) (fst (fst f)), coarse_cells (sy s) (snd (fst f)),
   coarse_cells (sz s) (snd f)).

(* --- configuration of one fine-grid cycle -------------------------------- *)
Record cfg := {
  cyc : Z;            (* 'F' = 70, 'V' = 86, 'W' = 87 *)
  sc : Z;             (* current semicoarsening direction 0..3 *)
  lr : Z;             (* current line-relaxation direction 0..7 *)
  user : Z;           (* clevel argument (-1 = automatic) *)
  pre_on : bool;      (* nu_pre > 0 *)
  post_on : bool;     (* nu_post > 0 *)
  shape0 : shape      (* fine-grid shape *)
}.

Inductive ev :=
| EPre (level : Z) (s : shape) (c_lr : Z)
| ECoarse (level : Z) (s : shape) (c_lr : Z)
| EPost (level : Z) (s : shape) (c_lr : Z)
| ERestrict (level : Z) (c_sc : Z)
| EProlong (level : Z).

Definition c_lr_of (c : cfg) (s : shape) : Z := current_lr_dir (lr c) (sx s) (sy s) (sz s).
Definition c_sc_of (c : cfg) (s : shape) : Z := current_sc_dir (sc c) (sx s) (sy s) (sz s).
Definition bottom (c : cfg) : Z := tab_get (clevel_tab (user c) (shape0 c)) (sc c).

Definition pre_ev (c : cfg) (l : Z) (s : shape) : list ev :=
  if pre_on c then [EPre l s (c_lr_of c s)] else [].
Definition post_ev (c : cfg) (l : Z) (s : shape) : list ev :=
  if post_on c then [EPost l s (c_lr_of c s)] else [].

Definition zrange (n : Z) : list Z := map Z.of_nat (seq 0 (Z.to_nat n)).

Fixpoint opt_concat {A} (l : list (option (list A))) : option (list A) :=
  match l with
  | [] => Some []
  | None :: _ => None
  | Some x :: r => match opt_concat r with None => None | Some y => Some (x ++ y) end
  end.

(* One pass of the body of multigrid()'s while loop at [level], given the
   recursive call [rec] for the next level. *)
Definition mg_body (rec : Z -> shape -> Z -> option (list ev))
           (c : cfg) (level : Z) (s : shape) (cycmax cy : Z) : option (list ev) :=
  if level =? bottom c then Some [ECoarse level s (c_lr_of c s)]
  else
    let csc := c_sc_of c s in
    let ho := mg_handover level cycmax cy in   (* (level+1, cycmax-cyc), from the source *)
    match rec (fst ho) (halve s csc) (snd ho) with
    | None => None
    | Some sub =>
        Some (pre_ev c level s ++ [ERestrict level csc] ++ sub
              ++ [EProlong level] ++ post_ev c level s)
    end.

(* multigrid(level > 0): it = cyc runs 0 .. cycmax-1.  Out of fuel = None. *)
Fixpoint mg_call (fuel : nat) (c : cfg) (level : Z) (s : shape) (new_cycmax : Z)
  : option (list ev) :=
  match fuel with
  | O => None
  | S f =>
      let cycmax := mg_cycmax level new_cycmax (bottom c) (cyc c) (cycmax_of_cycle (cyc c)) in
      opt_concat (map (fun cy => mg_body (mg_call f c) c level s cycmax cy) (zrange cycmax))
  end.

(* One fine-grid cycle (one pass of the while loop at level 0; cyc stays 0).
   [c1] is the configuration of the FIRST cycle: the level-0 cycmax is computed
   before the loop from the initial sc_dir; only if the source re-computes it
   inside the loop (flag extracted from solver.py) does the current cycle's
   configuration count. *)
Definition fine_cycle_from (c1 : cfg) (fuel : nat) (c : cfg) : option (list ev) :=
  let c0 := if level0_cycmax_recomputed then c else c1 in
  let cycmax := mg_cycmax 0 0 (bottom c0) (cyc c0) (cycmax_of_cycle (cyc c0)) in
  mg_body (mg_call fuel c) c 0 (shape0 c) cycmax 0.
Definition fine_cycle (fuel : nat) (c : cfg) : option (list ev) := fine_cycle_from c fuel c.
(* the variant with the level-0 cycmax always taken from the first cycle (what
   solver.py did before it re-computed it inside the loop) *)
Definition fine_cycle_stale (c1 : cfg) (fuel : nat) (c : cfg) : option (list ev) :=
  let cycmax := mg_cycmax 0 0 (bottom c1) (cyc c1) (cycmax_of_cycle (cyc c1)) in
  mg_body (mg_call fuel c) c 0 (shape0 c) cycmax 0.

Definition fuel_for (c : cfg) : nat := S (Z.to_nat (bottom c)).

(* --- cycling patterns (itertools.cycle over the digits) ------------------ *)
Fixpoint digits_rev (fuel : nat) (n : Z) : list Z :=
  match fuel with
  | O => []
  | S f => if n <? 10 then [n] else (n mod 10) :: digits_rev f (n / 10)
  end.
Definition digits (n : Z) : list Z := rev (digits_rev (S (Z.to_nat (Z.log2 (Z.abs n)))) (Z.abs n)).

(* is_true: the Python value True; lim: 3 for semicoarsening, 7 for linerelaxation *)
Definition parse_pattern (is_true : bool) (v lim : Z) (true_pat : list Z)
  : option (list Z) :=
  if is_true then Some true_pat
  else if ((0 <=? v) && (v <=? lim))%bool then Some [v]
  else let d := digits v in
       if forallb (fun x => (0 <=? x) && (x <=? lim))%bool d then Some d else None.

(* direction used in fine-grid cycle k (0-based) *)
Definition dir_at (pat : list Z) (k : Z) : Z :=
  nth (Z.to_nat (k mod Z.of_nat (length pat))) pat 0.

(* events of the first n fine-grid cycles, sc/lr advancing once per cycle *)
Definition cfg_at (c : cfg) (pat_sc pat_lr : list Z) (k : Z) : cfg :=
  {| cyc := cyc c; sc := dir_at pat_sc k; lr := dir_at pat_lr k; user := user c;
     pre_on := pre_on c; post_on := post_on c; shape0 := shape0 c |}.
Definition outer_cycles (c : cfg) (pat_sc pat_lr : list Z) (n : Z)
  : list (option (list ev)) :=
  map (fun k => let ck := cfg_at c pat_sc pat_lr k in
              fine_cycle_from (cfg_at c pat_sc pat_lr 0) (fuel_for ck) ck) (zrange n).

(* The same n cycles run as CALLS of m cycles each (multigrid as preconditioner:
   every call ends through the cycle limit).  Whether the directions advance in
   the last cycle of a call is read off solver.py: flag
   [dirs_advance_before_terminate] (the hand-over statements precede the
   `if _terminate(..): break`).  If they did not, global cycle k would use
   pattern index k - k/m. *)
Definition dir_index_of (advance_always : bool) (m k : Z) : Z :=
  if advance_always then k else k - k / m.
Definition dir_index (m k : Z) : Z := dir_index_of dirs_advance_before_terminate m k.
Definition outer_cycles_calls (c : cfg) (pat_sc pat_lr : list Z) (m n : Z)
  : list (option (list ev)) :=
  map (fun k => let ck := cfg_at c pat_sc pat_lr (dir_index m k) in
              fine_cycle_from (cfg_at c pat_sc pat_lr 0) (fuel_for ck) ck) (zrange n).

(* --- smoother dispatch --------------------------------------------------- *)
(* does the smoother selected for shape s relax lines along direction d ? *)
Definition lines_along (c_lr : Z) : bool * bool * bool :=
  let k := smoothing_kernels c_lr in (snd (fst (fst k)), snd (fst k), snd k).
