(* Model/Sched.v -- property C11: a process pool that completes tasks in an
   arbitrary order on an arbitrary number of workers, the collection
   primitives used by emg3d._multiprocessing.process_map, the positional
   store loop of Simulation._compute/_bcompute/jvec, and the file hand-over.
   Definitions ONLY.

   The vocabulary of the first section (collector, guard, branch, store_site,
   product_shape) is what the PREBUILD hook of py/props/c11.py emits into
   Gen/MpShape.v after reading the CURRENT emg3d sources with ast. *)
From Coq Require Import List Arith Bool String Ascii ZArith DecimalString.
Import ListNotations.

(* ------------------------------------------------------------------ *)
(* Shape vocabulary                                                    *)
(* ------------------------------------------------------------------ *)
Inductive collector : Type :=
| CExecutorMap            (* list(ProcessPoolExecutor(...).map(fn, *iterables)) *)
| CTqdmProcessMap         (* tqdm.contrib.concurrent.process_map(fn, *iterables, ...) *)
| CBuiltinMap             (* list(map(fn, *iterables)) *)
| CTqdmOverMap            (* list(tqdm.auto.tqdm(iterable=map(fn, *iterables), ...)) *)
| CAsCompleted            (* as_completed / imap_unordered style: completion order *)
| COther (what : string). (* anything the extractor does not recognise *)

Definition is_ordered (c : collector) : bool :=
  match c with
  | CExecutorMap | CTqdmProcessMap | CBuiltinMap | CTqdmOverMap => true
  | CAsCompleted | COther _ => false
  end.

Definition is_parallel (c : collector) : bool :=
  match c with
  | CExecutorMap | CTqdmProcessMap | CAsCompleted => true
  | _ => false
  end.

(* guards of the if/elif chain of process_map *)
Inductive guard : Type :=
| GWorkersGt (n : Z)      (* max_workers > n *)
| GTqdmNone               (* tqdm is None *)
| GAnd (a b : guard)
| GElse.

Fixpoint guard_holds (g : guard) (max_workers : Z) (tqdm_none : bool) : bool :=
  match g with
  | GWorkersGt n => Z.ltb n max_workers
  | GTqdmNone => tqdm_none
  | GAnd a b => guard_holds a max_workers tqdm_none && guard_holds b max_workers tqdm_none
  | GElse => true
  end.

Record branch : Type := mkBranch { br_guard : guard; br_collector : collector }.

Fixpoint select_branch (bs : list branch) (max_workers : Z) (tqdm_none : bool)
  : option branch :=
  match bs with
  | [] => None
  | b :: rest => if guard_holds (br_guard b) max_workers tqdm_none then Some b
                 else select_branch rest max_workers tqdm_none
  end.

(* One call site  out = process_map(worker, list(map(collect, TASKS)), ...)
   followed by  for i, (a, b) in enumerate(LOOP): ... out[i][c] ...        *)
Record store_site : Type := mkSite {
  ss_fn : string;                 (* method of Simulation *)
  ss_worker : string;             (* function handed to process_map *)
  ss_tasks_over : string;         (* source text of TASKS *)
  ss_loop_over : string;          (* source text of LOOP *)
  ss_tasks_mapped_in_order : bool;(* task list is list(map(collect, TASKS)) *)
  ss_index_is_enum : bool;        (* every use of out is out[<enumerate index>][0|1] inside that loop *)
  ss_keys_are_loop_vars : bool;   (* every slot written/read in the loop is keyed [a][b] / .loc[a, :, b] *)
  ss_file_key_ok : bool           (* collect() unpacks (source, freq) = inp and names the file from them *)
}.

Definition store_by_position (s : store_site) : bool :=
  String.eqb (ss_tasks_over s) (ss_loop_over s)
  && ss_tasks_mapped_in_order s && ss_index_is_enum s
  && ss_keys_are_loop_vars s && ss_file_key_ok s.

Inductive product_shape : Type :=
| ProdSourcesFrequencies  (* list(itertools.product(sources.keys(), frequencies.keys())) *)
| ProdOther (what : string).

Definition is_product (p : product_shape) : bool :=
  match p with ProdSourcesFrequencies => true | ProdOther _ => false end.

(* File name pattern of Simulation._data_or_file: a list of pieces.
   PSource / PFrequency: the key itself (str(key));
   PSourceIdx / PFrequencyIdx: list(survey.<dict>.keys()).index(key), in decimal. *)
Inductive fpiece : Type :=
| PLit (s : string) | PWhat | PSource | PFrequency | PSourceIdx | PFrequencyIdx.

(* str(n) for a non-negative int *)
Definition dec (n : nat) : string := NilEmpty.string_of_uint (Nat.to_uint n).

Fixpoint render (ps : list fpiece) (what src freq : string) (isrc ifreq : nat) : string :=
  match ps with
  | [] => EmptyString
  | PLit s :: r => String.append s (render r what src freq isrc ifreq)
  | PWhat :: r => String.append what (render r what src freq isrc ifreq)
  | PSource :: r => String.append src (render r what src freq isrc ifreq)
  | PFrequency :: r => String.append freq (render r what src freq isrc ifreq)
  | PSourceIdx :: r => String.append (dec isrc) (render r what src freq isrc ifreq)
  | PFrequencyIdx :: r => String.append (dec ifreq) (render r what src freq isrc ifreq)
  end.

(* list.index (first position; the length if absent -- Python raises then) *)
Fixpoint index_of (k : string) (l : list string) : nat :=
  match l with
  | [] => O
  | x :: r => if String.eqb x k then O else S (index_of k r)
  end.

(* the hand-over file of (source, frequency) in a survey *)
Definition fname_of (pattern : list fpiece) (what : string) (sources freqs : list string)
           (k : string * string) : string :=
  render pattern what (fst k) (snd k) (index_of (fst k) sources) (index_of (snd k) freqs).

(* emg3d before the fix: f"{what}_{source}_{frequency}.h5" *)
Definition fname_unfixed_pattern : list fpiece :=
  [PWhat; PLit "_"; PSource; PLit "_"; PFrequency; PLit ".h5"].
(* after the fix: f"{what}_{isrc}_{ifreq}.h5" *)
Definition fname_fixed_pattern : list fpiece :=
  [PWhat; PLit "_"; PSourceIdx; PLit "_"; PFrequencyIdx; PLit ".h5"].

(* ------------------------------------------------------------------ *)
(* The pool                                                            *)
(* ------------------------------------------------------------------ *)
Section Pool.
  Context {T R : Type}.
  Variable f : T -> R.      (* the task function: pure oracle *)

  (* submission index and payload *)
  Definition item : Type := (nat * T)%type.

  Record pool : Type := mkPool {
    pending : list item;                 (* submitted, not started (FIFO) *)
    running : list (nat * item);         (* (worker, item) *)
    completed : list (nat * R)           (* (submission index, result) in COMPLETION order *)
  }.

  Inductive step : Type :=
  | Start (w : nat)       (* idle worker w takes the head of the queue *)
  | Finish (w : nat).     (* the task on worker w completes *)

  Definition submit_all (tasks : list T) : pool :=
    mkPool (combine (seq 0 (List.length tasks)) tasks) [] [].

  Definition busy (w : nat) (rs : list (nat * item)) : bool :=
    existsb (fun r => Nat.eqb (fst r) w) rs.

  Fixpoint take (w : nat) (rs : list (nat * item))
    : option (item * list (nat * item)) :=
    match rs with
    | [] => None
    | r :: rest =>
        if Nat.eqb (fst r) w then Some (snd r, rest)
        else match take w rest with
             | None => None
             | Some (it, rest') => Some (it, r :: rest')
             end
    end.

  Definition do_step (nworkers : nat) (p : pool) (s : step) : option pool :=
    match s with
    | Start w =>
        if Nat.ltb w nworkers && negb (busy w (running p)) then
          match pending p with
          | [] => None
          | it :: rest => Some (mkPool rest ((w, it) :: running p) (completed p))
          end
        else None
    | Finish w =>
        match take w (running p) with
        | None => None
        | Some (it, rest) =>
            Some (mkPool (pending p) rest (completed p ++ [(fst it, f (snd it))]))
        end
    end.

  Fixpoint run (nworkers : nat) (p : pool) (tr : list step) : option pool :=
    match tr with
    | [] => Some p
    | s :: rest => match do_step nworkers p s with
                   | None => None
                   | Some p' => run nworkers p' rest
                   end
    end.

  Definition quiescent (p : pool) : bool :=
    match pending p, running p with [], [] => true | _, _ => false end.

  (* ---- collectors ---- *)
  Fixpoint lookup (i : nat) (l : list (nat * R)) : option R :=
    match l with
    | [] => None
    | (j, r) :: rest => if Nat.eqb j i then Some r else lookup i rest
    end.

  (* Executor.map contract: the k-th value is the result of the k-th submission *)
  Definition collect_ordered (n : nat) (done : list (nat * R)) : list (option R) :=
    map (fun i => lookup i done) (seq 0 n).

  (* contrast: results as they complete *)
  Definition collect_as_completed (done : list (nat * R)) : list (option R) :=
    map (fun x => Some (snd x)) done.

  Definition sequential (tasks : list T) : list (option R) :=
    map (fun t => Some (f t)) tasks.

  Definition collect (c : collector) (tasks : list T) (done : list (nat * R))
    : list (option R) :=
    match c with
    | CExecutorMap | CTqdmProcessMap => collect_ordered (List.length tasks) done
    | CBuiltinMap | CTqdmOverMap => sequential tasks
    | CAsCompleted => collect_as_completed done
    | COther _ => []
    end.

  (* the sequential schedule on worker 0, and "all started, finished in order sigma" *)
  Fixpoint seq_trace (n : nat) : list step :=
    match n with O => [] | S m => Start 0 :: Finish 0 :: seq_trace m end.

  Definition perm_trace (n : nat) (sigma : list nat) : list step :=
    map Start (seq 0 n) ++ map Finish sigma.
End Pool.

(* ------------------------------------------------------------------ *)
(* The store loop and a whole compute()                                *)
(* ------------------------------------------------------------------ *)
Section Store.
  Context {K V : Type}.
  Variable keqb : K -> K -> bool.

  Definition dict : Type := K -> option V.

  Definition dset (d : dict) (k : K) (v : V) : dict :=
    fun k' => if keqb k' k then Some v else d k'.

  (* for i, k in enumerate(keys): d[k] = out[i] *)
  Definition store (keys : list K) (out : list (option V)) (d : dict) : dict :=
    fold_left (fun d ik => match nth (fst ik) out None with
                           | Some v => dset d (snd ik) v
                           | None => d
                           end)
              (combine (seq 0 (List.length keys)) keys) d.

  Context {T : Type}.
  Variable f : T -> V.
  (* the task of key k, given what the slot currently holds (initial guess) *)
  Variable mk : K -> option V -> T.

  Definition tasks_of (keys : list K) (d : dict) : list T :=
    map (fun k => mk k (d k)) keys.

  (* one compute(): build tasks from the keys, run them on the pool under the
     trace [tr], collect with [c], store by position *)
  Definition compute (c : collector) (nworkers : nat) (tr : list (@step))
             (keys : list K) (d : dict) : option dict :=
    let tasks := tasks_of keys d in
    match run f nworkers (submit_all tasks) tr with
    | None => None
    | Some p => if quiescent p
                then Some (store keys (collect f c tasks (completed p)) d)
                else None
    end.
End Store.

(* ------------------------------------------------------------------ *)
(* File hand-over                                                      *)
(* ------------------------------------------------------------------ *)
Section Files.
  Context {K T B : Type}.
  Variable name : K -> string.         (* file name of the task of key k *)
  Variable enc : T -> B.               (* io.save *)
  Variable dec : B -> T.               (* io.load *)

  Definition fs : Type := string -> option B.

  Definition fwrite (s : fs) (n : string) (b : B) : fs :=
    fun n' => if String.eqb n' n then Some b else s n'.

  (* list(map(collect_inputs, keys)) in file mode: one file per key, written
     in list order; later writes to the same name overwrite earlier ones *)
  Definition write_all (mk : K -> T) (keys : list K) (s : fs) : fs :=
    fold_left (fun s k => fwrite s (name k) (enc (mk k))) keys s.

  (* what the worker of key k reads *)
  Definition read_task (s : fs) (k : K) : option T :=
    match s (name k) with Some b => Some (dec b) | None => None end.
End Files.

Definition srcfreq {S Fq : Type} (sources : list S) (freqs : list Fq) : list (S * Fq) :=
  list_prod sources freqs.

(* keys whose text contains the separator of the file-name pattern *)
Fixpoint has_us (s : string) : bool :=
  match s with
  | EmptyString => false
  | String c r => if Ascii.eqb c "_"%char then true else has_us r
  end.

(* ------------------------------------------------------------------ *)
(* Kinds of runs and the tolerance their tasks carry                   *)
(* ------------------------------------------------------------------ *)
(* _compute solves with solver_opts['tol'] = tol_forward, _bcompute and jvec
   with tol_gradient: a property of the KIND of run, not of what ran before
   and not of the hand-over mode. *)
Inductive run_kind : Type := KForward | KBackprop | KJvec.

Definition tol_of {A : Type} (tol_forward tol_gradient : A) (k : run_kind) : A :=
  match k with KForward => tol_forward | KBackprop | KJvec => tol_gradient end.

Definition kind_code (k : run_kind) : Z :=
  match k with KForward => 0%Z | KBackprop => 1%Z | KJvec => 2%Z end.

(* the tolerance seen by the tasks of the LAST run of a history of runs *)
Definition last_run_tol {A : Type} (tf tg : A) (history : list run_kind) (k : run_kind) : A :=
  tol_of tf tg (last (history ++ [k]) k).

(* ------------------------------------------------------------------ *)
(* Histories of operations on ONE simulation: the tolerance of every   *)
(* task, including tasks computed ON DEMAND inside another operation   *)
(* ------------------------------------------------------------------ *)
(* compute / clean('keepresults') / clean('computed') / get_efield(slot k) /
   jvec / jtvec / gradient / misfit.  The state keeps which forward fields are
   stored and the `_computed` flag (misfit calls compute() only when it is
   unset).  The cached gradient is NOT modelled: `gradient` always emits its
   tasks, so the task lists of the model are a superset of the real ones. *)
Inductive hop : Type :=
| HCompute | HCleanKeep | HCleanComputed | HGet (k : nat)
| HJvec | HJtvec | HGradient | HMisfit.

Record hstate : Type := mkHS { hs_stored : list bool; hs_computed : bool }.

(* What a collector does with the SHARED solver_opts['tol'] right before it
   hands its task over: TWrite k = writes the tolerance of kind k
   (self.tol_forward / self.tol_gradient); TTrust = uses what is there. *)
Inductive tol_write : Type := TWrite (k : run_kind) | TTrust.
Definition tol_writes : Type := run_kind -> tol_write.

(* requests of one operation in COLLECTION order: a task of a kind for a slot,
   or the shared register being set to the tolerance of a kind around a stage *)
Inductive req : Type := RTask (k : run_kind) (i : nat) | RSet (k : run_kind).

Definition all_slots (stored : list bool) : list nat := seq 0 (List.length stored).

(* get_efield inside a collector: a forward task for a slot that is not stored *)
Definition need (stored : list bool) (i : nat) : list req :=
  if nth i stored false then [] else [RTask KForward i].

Definition forward_all (stored : list bool) : list req :=
  map (RTask KForward) (all_slots stored).

(* [wrap] = the adjoint stages set the register to tol_gradient on entry and
   back to tol_forward on exit (a context manager around their process_map) *)
Definition wrapped (wrap : bool) (k : run_kind) (body : list req) : list req :=
  if wrap then RSet k :: body ++ [RSet KForward] else body.

Definition op_requests (wrap : bool) (st : hstate) (o : hop) : list req :=
  let s := hs_stored st in
  match o with
  | HCompute => forward_all s
  | HCleanKeep | HCleanComputed => []
  | HGet k => if Nat.ltb k (List.length s) then need s k else []
  | HJvec => wrapped wrap KJvec
               (flat_map (fun i => need s i ++ [RTask KJvec i]) (all_slots s))
  | HJtvec | HGradient =>
      (if hs_computed st then flat_map (need s) (all_slots s) else forward_all s)
      ++ wrapped wrap KBackprop (map (RTask KBackprop) (all_slots s))
  | HMisfit => if hs_computed st then [] else forward_all s
  end.

Definition set_true (k : nat) (l : list bool) : list bool :=
  map (fun p => if Nat.eqb (fst p) k then true else snd p) (combine (seq 0 (List.length l)) l).

Definition op_state (st : hstate) (o : hop) : hstate :=
  let s := hs_stored st in
  match o with
  | HCompute => mkHS (map (fun _ => true) s) true
  | HCleanKeep => mkHS (map (fun _ => false) s) (hs_computed st)
  | HCleanComputed => mkHS (map (fun _ => false) s) false
  | HGet k => mkHS (set_true k s) (hs_computed st)
  | HJvec => mkHS (map (fun _ => true) s) (hs_computed st)
  | HJtvec | HGradient => mkHS (map (fun _ => true) s) true
  | HMisfit => if hs_computed st then st else mkHS (map (fun _ => true) s) true
  end.

Definition task_tol {A : Type} (tf tg : A) (tw : tol_writes) (reg : A) (k : run_kind) : A :=
  match tw k with TWrite k' => tol_of tf tg k' | TTrust => reg end.

(* thread the shared register through the requests; a task carries what the
   register holds when its collector hands it over (file mode: what is written
   to the hand-over file; memory mode: the dict is shared, and with collectors
   that write their own tolerance the last write before dispatch is the same) *)
Fixpoint carry {A : Type} (tf tg : A) (tw : tol_writes) (reg : A) (rq : list req)
  : A * list (run_kind * nat * A) :=
  match rq with
  | [] => (reg, [])
  | RSet k :: r => carry tf tg tw (tol_of tf tg k) r
  | RTask k i :: r =>
      let t := task_tol tf tg tw reg k in
      (fst (carry tf tg tw t r), (k, i, t) :: snd (carry tf tg tw t r))
  end.

Fixpoint run_hist {A : Type} (tf tg : A) (tw : tol_writes) (wrap : bool)
         (st : hstate) (reg : A) (ops : list hop) : list (run_kind * nat * A) :=
  match ops with
  | [] => []
  | o :: r =>
      snd (carry tf tg tw reg (op_requests wrap st o))
      ++ run_hist tf tg tw wrap (op_state st o)
                  (fst (carry tf tg tw reg (op_requests wrap st o))) r
  end.

Definition task_ok {A : Type} (tf tg : A) (t : run_kind * nat * A) : Prop :=
  snd t = tol_of tf tg (fst (fst t)).

(* the seeded variant: no collector writes, the adjoint stages wrap *)
Definition trusting : tol_writes := fun _ => TTrust.
