(* Model/GriddingSession.v -- C16.  Hand model (definitions only) of ONE Python
   session (process) that uses the automatic gridding of emg3d/meshes.py through
   a HISTORY of public calls, with the arrays the caller holds.

   State  = the caller's heap: the arrays the caller created or was handed back
            (tables returned by good_mg_cell_nr, widths returned by
            origin_and_widths / construct_mesh, own node vectors and cell-number
            lists).  There is deliberately NOTHING else: emg3d.meshes keeps no
            table, no cache, no module-level state between calls -- the table of
            permitted cell numbers is the FUNCTION [good_mg_cell_nr], evaluated
            afresh by every request that does not bring its own list
            ([default_cells]).
   Ops    = good_mg_cell_nr(max_nr, max_lowest, min_div)   -> a NEW array on the heap
            in-place edit of a heap array                   (arr += k, arr *= k,
                                                             arr[i] = v, arr[arr > t] = v, arr[:] = v)
            own array put on the heap                       (np.array([...]))
            origin_and_widths(...)                          cell_numbers: default / literal / heap array
                                                            vector:       literal / heap array
                                                            -> the returned widths are a NEW heap array
            construct_mesh(...)                             -> mesh.h[0..2] are NEW heap arrays
   A request never writes to an existing heap array, and its result depends on
   the heap only through the CURRENT content of the arrays it is handed.

   Definitions only; proofs in Proofs/GriddingSession.v; tied to emg3d/meshes.py by
   the history stream of py/props/c16.py (the outcome of every step and the whole
   heap after the history are compared, all in one process). *)
From Coq Require Import ZArith Bool List.
From V Require Import Base.FieldSig Model.Gridding.
Import ListNotations.

Inductive Edit : Type :=
| EAdd (k : Z)                 (* arr += k *)
| EMul (k : Z)                 (* arr *= k *)
| ESetAt (idx : nat) (v : Z)   (* arr[idx] = v   (idx < len) *)
| EClampAbove (t v : Z)        (* arr[arr > t] = v *)
| EFill (v : Z).               (* arr[:] = v *)

Inductive CellsArg : Type :=
| CDefault                     (* cell_numbers not given *)
| CList (l : list Z)           (* a literal list *)
| CHandle (h : nat).           (* an integer array of the caller's heap *)

Inductive VecArg : Type :=
| VGiven                       (* the vector written in the request (or None) *)
| VHandle (h : nat).           (* a float array of the caller's heap *)

Fixpoint set_nth {A : Type} (n : nat) (v : A) (l : list A) : list A :=
  match l, n with
  | [], _ => []
  | _ :: t, O => v :: t
  | a :: t, S m => a :: set_nth m v t
  end.

Definition edit_int (e : Edit) (l : list Z) : list Z :=
  match e with
  | EAdd k => map (fun x => (x + k)%Z) l
  | EMul k => map (fun x => (x * k)%Z) l
  | ESetAt i v => set_nth i v l
  | EClampAbove t v => map (fun x => if (t <? x)%Z then v else x) l
  | EFill v => map (fun _ => v) l
  end.

(* the table used when a request brings no cell_numbers: good_mg_cell_nr() *)
Definition default_cells : list Z :=
  match good_mg_cell_nr 1024 5 3 with Some l => l | None => [] end.

Section Session.
  Context {F : Type} {O : FOps F}.
  Variable leb : F -> F -> bool.
  Variable floorZ : F -> Z.
  Variable brentq : F -> F -> Z -> F.
  Variable argsort13 : list F -> list nat.
  Variable twopi : F.
  Variable skin : F -> F.
  Local Open Scope F_scope.

  Definition edit_num (e : Edit) (l : list F) : list F :=
    match e with
    | EAdd k => map (fun x => x + FofZ k) l
    | EMul k => map (fun x => x * FofZ k) l
    | ESetAt i v => set_nth i (FofZ v) l
    | EClampAbove t v => map (fun x => if ltb leb (FofZ t) x then FofZ v else x) l
    | EFill v => map (fun _ => FofZ v) l
    end.

  Inductive Obj : Type := OInt (l : list Z) | ONum (l : list F).
  Definition Heap : Type := list Obj.

  Inductive Op : Type :=
  | OGood (max_nr max_lowest min_div : Z)
  | OAlloc (o : Obj)
  | OEdit (h : nat) (e : Edit)
  | OOaw (i : @OawIn F) (cells : CellsArg) (vec : VecArg)
  | OCm (c : @CmIn F) (cells : CellsArg).

  Inductive Outcome : Type :=
  | Done
  | BadHandle                  (* the history names an array that does not exist / has the wrong kind *)
  | ValueErr                   (* good_mg_cell_nr raised ValueError *)
  | RInts (l : list Z)
  | ROaw (o : @OawOut F)
  | RCm (o : @CmOut F).

  Definition resolve_cells (s : Heap) (a : CellsArg) : option (list Z) :=
    match a with
    | CDefault => Some default_cells
    | CList l => Some l
    | CHandle h => match nth_error s h with Some (OInt l) => Some l | _ => None end
    end.

  Definition resolve_vec (s : Heap) (i : @OawIn F) (a : VecArg) : option (option (list F)) :=
    match a with
    | VGiven => Some (i_vector i)
    | VHandle h => match nth_error s h with Some (ONum l) => Some (Some l) | _ => None end
    end.

  Definition oaw_with (i : @OawIn F) (cells : list Z) (vec : option (list F)) : @OawIn F :=
    mkOawIn (i_sds i) (i_center i) (i_domain i) (i_distance i) vec (i_sea i) (i_stretching i)
            (i_limits i) (i_pps i) (i_lambda_factor i) (i_max_buffer i) (i_lambda_from_center i)
            cells (i_center_on_edge i) (i_raise_error i).

  Definition cm_with (c : @CmIn F) (cells : list Z) : @CmIn F :=
    mkCmIn (c_props c) (c_center c) (c_domain c) (c_vector c) (c_distance c) (c_stretching c)
           (c_limits c) (c_pps c) (c_coe c) (c_sea c) (c_lambda_factor c) (c_max_buffer c)
           (c_lambda_from_center c) cells.

  Definition step (s : Heap) (op : Op) : Heap * Outcome :=
    match op with
    | OGood m p d =>
        match good_mg_cell_nr m p d with
        | Some l => ((s ++ [OInt l])%list, RInts l)
        | None => (s, ValueErr)
        end
    | OAlloc o => ((s ++ [o])%list, Done)
    | OEdit h e =>
        match nth_error s h with
        | Some (OInt l) => (set_nth h (OInt (edit_int e l)) s, Done)
        | Some (ONum l) => (set_nth h (ONum (edit_num e l)) s, Done)
        | None => (s, BadHandle)
        end
    | OOaw i cells vec =>
        match resolve_cells s cells, resolve_vec s i vec with
        | Some l, Some v =>
            let o := origin_and_widths leb floorZ brentq argsort13 twopi (oaw_with i l v) in
            (match o_res o with
             | ROk _ hx _ _ _ _ => (s ++ [ONum hx])%list
             | _ => s
             end, ROaw o)
        | _, _ => (s, BadHandle)
        end
    | OCm c cells =>
        match resolve_cells s cells with
        | Some l =>
            let o := construct_mesh leb floorZ brentq argsort13 twopi skin (cm_with c l) in
            (match cm_res o with
             | COk _ hx hy hz => (s ++ [ONum hx; ONum hy; ONum hz])%list
             | _ => s
             end, RCm o)
        | None => (s, BadHandle)
        end
    end.

  Fixpoint run (ops : list Op) (s : Heap) : Heap * list Outcome :=
    match ops with
    | [] => (s, [])
    | op :: t =>
        let r := step s op in
        let r' := run t (fst r) in
        (fst r', snd r :: snd r')
    end.

  (* a request that names no heap array *)
  Definition closed_op (op : Op) : bool :=
    match op with
    | OGood _ _ _ => true
    | OAlloc _ => false
    | OEdit _ _ => false
    | OOaw _ (CHandle _) _ => false
    | OOaw _ _ (VHandle _) => false
    | OOaw _ _ _ => true
    | OCm _ (CHandle _) => false
    | OCm _ _ => true
    end.

  Definition is_edit (op : Op) : bool := match op with OEdit _ _ => true | _ => false end.
End Session.
