(* Model/SurveyMachine.v -- hand model of emg3d.surveys.Survey as far as the
   noise model / data weights are concerned (property C13).  DEFINITIONS ONLY.

   What is modelled (emg3d/surveys.py, emg3d/simulations.py misfit):
   * the data set: 'observed' plus further named data sets, each an
     nsrc x nrec x nfreq cube of complex cells (NaN or a value);
   * noise_floor / relative_error STORAGE exactly as the code does it: the
     attribute is None, a float, or the string flag 'data._noise_floor' that
     refers to a full-shape array living in the data set ([nf_arr]); an array
     given to the setter is broadcast to the full shape AT SET TIME
     (np.ones(shape)*value), a one-element array becomes a float; the old
     array stays in the data set when a float is assigned later (stale);
   * explicit standard deviation = data['standard_deviation'] ([std_arr]);
   * REFERENCES: arrays live in two heaps (setting arrays / data arrays) and
     surveys hold indices into them, because the code shares numpy arrays
     between surveys (to_dict()/from_dict without copy, select() without
     arguments) and updates arrays in place (add_noise);
   * add_noise: creation of the add_to data set, amplitude cut, offset cut,
     noise added where a standard deviation exists; the realised noise is an
     ORACLE (argument [noise]); [inplace = true] is the behaviour of the
     unrepaired code (min_amplitude = self.noise_floor; min_amplitude /= 2.0
     halves the stored array), [inplace = false] the repaired one;
   * select (label selection in the given order, sharing when nothing is
     selected, remove_empty recursion), copy / to_dict / from_dict / save+load;
   * standard deviation (squared, to stay inside a field) and misfit.

   Number type: any [FOps] plus a strict comparison [ltb]; executed on Q. *)
From Coq Require Import ZArith List Bool Arith.
From V Require Import Base.FieldSig.
Import ListNotations.

Section SurveyMachine.
  Context {F : Type} {FO : FOps F}.
  Variable ltb : F -> F -> bool.           (* x < y on the number type *)
  Variable off2 : Z -> Z -> F.             (* geometry oracle: squared offset
                                              of (source key, receiver key) *)

  (* ------------------------------------------------------------ cubes *)
  Inductive cell : Type := NaN | V (a b : F).       (* complex a + i b *)
  Definition cube : Type := list (list (list cell)).

  Definition cget (c : cube) (i j k : nat) : cell :=
    nth k (nth j (nth i c nil) nil) NaN.
  Definition ltab {A} (n : nat) (f : nat -> A) : list A := map f (seq 0 n).
  Definition ctab (n1 n2 n3 : nat) (f : nat -> nat -> nat -> cell) : cube :=
    ltab n1 (fun i => ltab n2 (fun j => ltab n3 (fun k => f i j k))).
  Definition sel3 (c : cube) (Is Js Ks : list nat) : cube :=
    map (fun i => map (fun j => map (fun k => cget c i j k) Ks) Js) Is.
  Definition cdims (c : cube) : nat * nat * nat :=
    (length c, length (hd nil c), length (hd nil (hd nil c))).
  Definition cmap (f : cell -> cell) (c : cube) : cube :=
    map (map (map f)) c.
  Definition call (p : cell -> bool) (c : cube) : bool :=
    forallb (forallb (forallb p)) c.
  Definition cany (p : cell -> bool) (c : cube) : bool :=
    existsb (existsb (existsb p)) c.
  Definition is_val (c : cell) : bool := match c with NaN => false | V _ _ => true end.

  Fixpoint upd_nth {A} (n : nat) (x : A) (l : list A) : list A :=
    match l, n with
    | nil, _ => nil
    | _ :: t, O => x :: t
    | h :: t, S m => h :: upd_nth m x t
    end.

  (* ------------------------------------------------- cell arithmetic *)
  Local Open Scope F_scope.
  Definition zero : cell := V 0 0.
  Definition cadd (x y : cell) : cell :=
    match x, y with V a b, V c d => V (a + c) (b + d) | _, _ => NaN end.
  Definition sq_real (c : cell) : cell :=           (* x**2 of a real array *)
    match c with NaN => NaN | V a _ => V (a * a) 0 end.
  Definition abs2_scaled (r o : cell) : cell :=     (* abs(r*o)**2, r real *)
    match r, o with
    | V r _, V a b => V ((r * a) * (r * a) + (r * b) * (r * b)) 0
    | _, _ => NaN
    end.
  Definition halve (c : cell) : cell :=
    match c with NaN => NaN | V a b => V (a / (1 + 1)) (b / (1 + 1)) end.
  (* x > 0 as numpy sees it in `np.any(value <= 0.0)`: NaN passes *)
  Definition pos_cell (c : cell) : bool :=
    match c with NaN => true | V a _ => ltb 0 a end.

  (* --------------------------------------------------------- surveys *)
  Inductive attr : Type := ANone | AScal (q : F) | AData.

  Record survey : Type := mkS {
    src : list Z; rec : list Z; frq : list Z;   (* keys, in order *)
    obs : nat;                                  (* ref into hdat: data.observed *)
    named : list (Z * nat);                     (* other data sets: name id -> ref into hdat *)
    nf_attr : attr; re_attr : attr;             (* data.attrs['noise_floor'/'relative_error'] *)
    nf_arr : option nat;                        (* data['_noise_floor']      -> ref into hset *)
    re_arr : option nat;                        (* data['_relative_error']   -> ref into hset *)
    std_arr : option nat                        (* data['standard_deviation']-> ref into hset *)
  }.

  Record world : Type := mkW {
    hset : list cube;        (* heap of setting arrays *)
    hdat : list cube;        (* heap of data arrays *)
    svs : list survey        (* the surveys created so far *)
  }.

  Definition shape (sv : survey) : nat * nat * nat :=
    (length (src sv), length (rec sv), length (frq sv)).
  Definition deref (h : list cube) (r : nat) : cube := nth r h nil.
  Definition deref_o (h : list cube) (r : option nat) : cube :=
    match r with Some r => deref h r | None => nil end.

  (* settings BY VALUE (what the user reads back) *)
  Inductive sval : Type := SNone | SScal (q : F) | SCube (c : cube).
  Definition view (h : list cube) (a : attr) (r : option nat) : sval :=
    match a with ANone => SNone | AScal q => SScal q | AData => SCube (deref_o h r) end.
  Definition nf_view (h : list cube) (sv : survey) : sval := view h (nf_attr sv) (nf_arr sv).
  Definition re_view (h : list cube) (sv : survey) : sval := view h (re_attr sv) (re_arr sv).
  Definition std_view (h : list cube) (sv : survey) : option cube :=
    match std_arr sv with Some r => Some (deref h r) | None => None end.
  Definition settings (h : list cube) (sv : survey) : sval * sval * option cube :=
    (nf_view h sv, re_view h sv, std_view h sv).
  Definition settings_at (w : world) (i : nat) : option (sval * sval * option cube) :=
    match nth_error (svs w) i with Some sv => Some (settings (hset w) sv) | None => None end.

  Definition sval_at (v : sval) (i j k : nat) : option cell :=
    match v with SNone => None | SScal q => Some (V q 0) | SCube c => Some (cget c i j k) end.

  (* -------------------------------------- standard deviation (squared) *)
  (* the getter: std = 0; std += nf**2; std += abs(re*observed)**2 *)
  Definition std2_cell (nf re : option cell) (o : cell) : cell :=
    let z1 := match nf with None => zero | Some n => cadd zero (sq_real n) end in
    match re with None => z1 | Some r => cadd z1 (abs2_scaled r o) end.

  Definition std2 (w : world) (sv : survey) : option cube :=
    let '(n1, n2, n3) := shape sv in
    match std_arr sv with
    | Some r => Some (ctab n1 n2 n3 (fun i j k => sq_real (cget (deref (hset w) r) i j k)))
    | None =>
      match nf_view (hset w) sv, re_view (hset w) sv with
      | SNone, SNone => None
      | nfv, rev =>
        let ob := deref (hdat w) (obs sv) in
        Some (ctab n1 n2 n3 (fun i j k =>
                std2_cell (sval_at nfv i j k) (sval_at rev i j k) (cget ob i j k)))
      end
    end.

  (* ------------------------------------------------------------ misfit *)
  (* one summand: |syn - obs|^2 / std^2; None = skipped by the NaN-skipping sum *)
  Definition term (o s sd2 : cell) : option F :=
    match o, s, sd2 with
    | V a b, V c d, V v _ => Some (((c - a) * (c - a) + (d - b) * (d - b)) / v)
    | _, _, _ => None
    end.
  Definition osum (l : list (option F)) : F :=
    fold_right (fun t acc => match t with Some x => x + acc | None => acc end) 0 l.
  Definition misfit_of (l : list (option F)) : F := osum l / (1 + 1).
  (* summands in the order given by three index lists *)
  Definition terms_idx (ob sy sd : cube) (Is Js Ks : list nat) : list (option F) :=
    flat_map (fun i => flat_map (fun j => map (fun k =>
      term (cget ob i j k) (cget sy i j k) (cget sd i j k)) Ks) Js) Is.
  Definition lookup (n : Z) (l : list (Z * nat)) : option nat :=
    match find (fun p => Z.eqb (fst p) n) l with Some p => Some (snd p) | None => None end.
  (* Simulation.misfit with data set [syn] as synthetic data; None = ValueError *)
  Definition misfit (w : world) (sv : survey) (syn : Z) : option F :=
    let '(n1, n2, n3) := shape sv in
    match std2 w sv, lookup syn (named sv) with
    | Some sd, Some r =>
      Some (misfit_of (terms_idx (deref (hdat w) (obs sv)) (deref (hdat w) r) sd
                                 (seq 0 n1) (seq 0 n2) (seq 0 n3)))
    | _, _ => None
    end.

  (* --------------------------------------------------------- operations *)
  Inductive inval : Type := INone | IScal (q : F) | IArr (c : cube).
  Inductive minamp : Type := MHalfNf | MNoCut | MVal (q : F).
  Inductive target : Type := TObs | TNamed (n : Z).
  Record anp : Type := mkP {
    a_minoff : F; a_maxoff : option F; a_minamp : minamp; a_to : target }.

  Inductive op : Type :=
  | OSetNf (s : nat) (v : inval)
  | OSetRe (s : nat) (v : inval)
  | OSetStd (s : nat) (v : option cube)
  | OAddNoise (s : nat) (p : anp) (noise : cube)
  | OSelect (s : nat) (sS sR sF : option (list Z)) (rm : bool)
  | ODict (s : nat) (kind : Z).   (* 0: from_dict(to_dict()) -- shares arrays;
                                     1: copy(); 2..4: save+load (h5/npz/json) -- deep copies *)

  Inductive outcome : Type :=
  | OutOk
  | OutErr (kind : Z)                 (* 1 ValueError, 2 KeyError/selection error, 9 no such survey *)
  | OutNoise (sd : option cube).      (* add_noise: the std^2 it used (None: no noise added) *)

  Definition is_setter_on (i : nat) (o : op) : bool :=
    match o with
    | OSetNf s _ | OSetRe s _ | OSetStd s _ => Nat.eqb s i
    | _ => false
    end.

  Definition set_svs (w : world) (l : list survey) : world := mkW (hset w) (hdat w) l.

  (* --- setters: _set_nf_re *)
  Definition with_nf (sv : survey) (a : attr) (r : option nat) : survey :=
    mkS (src sv) (rec sv) (frq sv) (obs sv) (named sv) a (re_attr sv) r (re_arr sv) (std_arr sv).
  Definition with_re (sv : survey) (a : attr) (r : option nat) : survey :=
    mkS (src sv) (rec sv) (frq sv) (obs sv) (named sv) (nf_attr sv) a (nf_arr sv) r (std_arr sv).
  Definition with_std (sv : survey) (r : option nat) : survey :=
    mkS (src sv) (rec sv) (frq sv) (obs sv) (named sv) (nf_attr sv) (re_attr sv)
        (nf_arr sv) (re_arr sv) r.

  Definition dim_ok (d n : nat) : bool := Nat.eqb d 1 || Nat.eqb d n.
  (* np.ones(shape) * value for a 3-D value whose dimensions are 1 or n *)
  Definition bcast (c : cube) (n1 n2 n3 : nat) : cube :=
    let '(d1, d2, d3) := cdims c in
    ctab n1 n2 n3 (fun i j k =>
      cget c (if Nat.eqb d1 1 then 0 else i) (if Nat.eqb d2 1 then 0 else j)
             (if Nat.eqb d3 1 then 0 else k)).

  Definition set_nfre (isnf : bool) (s : nat) (v : inval) (w : world) : world * outcome :=
    match nth_error (svs w) s with
    | None => (w, OutErr 9)
    | Some sv =>
      let put (a : attr) (r : option nat) : survey :=
        if isnf then with_nf sv a r else with_re sv a r in
      let old : option nat := if isnf then nf_arr sv else re_arr sv in
      match v with
      | INone => (set_svs w (upd_nth s (put ANone old) (svs w)), OutOk)
      | IScal q =>
        if ltb 0 q then (set_svs w (upd_nth s (put (AScal q) old) (svs w)), OutOk)
        else (w, OutErr 1)
      | IArr c =>
        let '(d1, d2, d3) := cdims c in
        let '(n1, n2, n3) := shape sv in
        if negb (call pos_cell c) then (w, OutErr 1)
        else if Nat.eqb (d1 * d2 * d3) 1 then
          match cget c 0 0 0 with
          | V q _ => (set_svs w (upd_nth s (put (AScal q) old) (svs w)), OutOk)
          | NaN => (w, OutErr 1)
          end
        else if negb (dim_ok d1 n1 && dim_ok d2 n2 && dim_ok d3 n3) then (w, OutErr 1)
        else
          (mkW (hset w ++ [bcast c n1 n2 n3]) (hdat w)
               (upd_nth s (put AData (Some (length (hset w)))) (svs w)), OutOk)
      end
    end.

  (* --- standard_deviation setter *)
  Definition set_std (s : nat) (v : option cube) (w : world) : world * outcome :=
    match nth_error (svs w) s with
    | None => (w, OutErr 9)
    | Some sv =>
      match v with
      | None => (set_svs w (upd_nth s (with_std sv None) (svs w)), OutOk)
      | Some c =>
        let '(d1, d2, d3) := cdims c in
        let '(n1, n2, n3) := shape sv in
        if negb (call pos_cell c) then (w, OutErr 1)
        else if negb (Nat.eqb d1 n1 && Nat.eqb d2 n2 && Nat.eqb d3 n3) then (w, OutErr 1)
        else (mkW (hset w ++ [c]) (hdat w)
                  (upd_nth s (with_std sv (Some (length (hset w)))) (svs w)), OutOk)
      end
    end.

  (* --- add_noise *)
  Definition cut_amp_cell (m : option cell) (o : cell) : bool :=   (* abs(o) < m *)
    match m, o with
    | Some (V m _), V a b => ltb 0 m && ltb (a * a + b * b) (m * m)
    | _, _ => false
    end.
  Definition off_cut (p : anp) (ks kr : Z) : bool :=   (* off < min_offset or off > max_offset *)
    let o2 := off2 ks kr in
    (ltb 0 (a_minoff p) && ltb o2 (a_minoff p * a_minoff p))
    || match a_maxoff p with
       | None => false
       | Some M => ltb M 0 || ltb (M * M) o2
       end.
  Definition with_named (sv : survey) (l : list (Z * nat)) : survey :=
    mkS (src sv) (rec sv) (frq sv) (obs sv) l (nf_attr sv) (re_attr sv)
        (nf_arr sv) (re_arr sv) (std_arr sv).

  (* the threshold of the amplitude cut and the setting heap after computing it *)
  Definition amp_threshold (inplace : bool) (hs : list cube) (sv : survey) (m : minamp)
    : list cube * sval :=
    match m with
    | MNoCut => (hs, SNone)
    | MVal q => (hs, SScal q)
    | MHalfNf =>
      match nf_attr sv with
      | ANone => (hs, SNone)
      | AScal q => (hs, SScal (q / (1 + 1)))
      | AData =>
        let hc := cmap halve (deref_o hs (nf_arr sv)) in
        (* unrepaired code: `min_amplitude = self.noise_floor; min_amplitude /= 2.0`
           writes the halved values into the stored array *)
        ((if inplace then match nf_arr sv with Some r => upd_nth r hc hs | None => hs end
          else hs), SCube hc)
      end
    end.

  Definition cut_mask (p : anp) (thr : sval) (ob : cube) (sv : survey) (i j k : nat) : bool :=
    cut_amp_cell (sval_at thr i j k) (cget ob i j k)
    || off_cut p (nth i (src sv) 0%Z) (nth j (rec sv) 0%Z).

  Definition add_noise (inplace : bool) (s : nat) (p : anp) (noise : cube) (w : world)
    : world * outcome :=
    match nth_error (svs w) s with
    | None => (w, OutErr 9)
    | Some sv =>
      let '(n1, n2, n3) := shape sv in
      (* 1. the data set the noise is added to *)
      let '(hd1, sv1, tgt) :=
        match a_to p with
        | TObs => (hdat w, sv, obs sv)
        | TNamed n =>
          match lookup n (named sv) with
          | Some r => (hdat w, sv, r)
          | None => (hdat w ++ [ctab n1 n2 n3 (fun _ _ _ => zero)],
                     with_named sv (named sv ++ [(n, length (hdat w))]), length (hdat w))
          end
        end in
      (* 2./3. amplitude and offset cuts (decided on data.observed) *)
      let '(hs1, thr) := amp_threshold inplace (hset w) sv1 (a_minamp p) in
      let ob := deref hd1 (obs sv1) in
      let t0 := deref hd1 tgt in
      let t1 := ctab n1 n2 n3 (fun i j k =>
                  if cut_mask p thr ob sv1 i j k then NaN else cget t0 i j k) in
      let w2 := mkW hs1 (upd_nth tgt t1 hd1) (upd_nth s sv1 (svs w)) in
      (* 4. noise where a standard deviation exists *)
      match std2 w2 sv1 with
      | None => (w2, OutNoise None)
      | Some sd =>
        let t2 := ctab n1 n2 n3 (fun i j k =>
                    match cget sd i j k with
                    | NaN => NaN
                    | V _ _ => cadd (cget t1 i j k) (cget noise i j k)
                    end) in
        (mkW hs1 (upd_nth tgt t2 (hdat w2)) (svs w2), OutNoise (Some sd))
      end
    end.

  (* --- select / copy *)
  Fixpoint pos_of (keys : list Z) (k : Z) : option nat :=
    match keys with
    | nil => None
    | h :: t => if Z.eqb h k then Some 0%nat
                else match pos_of t k with Some n => Some (S n) | None => None end
    end.
  Fixpoint map_opt {A B} (f : A -> option B) (l : list A) : option (list B) :=
    match l with
    | nil => Some nil
    | h :: t => match f h, map_opt f t with
                | Some x, Some r => Some (x :: r)
                | _, _ => None
                end
    end.
  Fixpoint nodupb (l : list Z) : bool :=
    match l with
    | nil => true
    | h :: t => negb (existsb (Z.eqb h) t) && nodupb t
    end.
  (* keys and positions of one axis of a selection *)
  Definition sel_axis (keys : list Z) (s : option (list Z)) : option (list Z * list nat) :=
    match s with
    | None => Some (keys, seq 0 (length keys))
    | Some l => if nodupb l
                then match map_opt (pos_of keys) l with
                     | Some ps => Some (l, ps)
                     | None => None
                     end
                else None
    end.

  Definition copy_arr (f : cube -> cube) (h : list cube) (r : nat) : list cube * nat :=
    (h ++ [f (deref h r)], length h).
  Definition copy_opt (f : cube -> cube) (h : list cube) (r : option nat)
    : list cube * option nat :=
    match r with
    | None => (h, None)
    | Some r => (h ++ [f (deref h r)], Some (length h))
    end.
  Fixpoint copy_named (f : cube -> cube) (h : list cube) (l : list (Z * nat))
    : list cube * list (Z * nat) :=
    match l with
    | nil => (h, nil)
    | (n, r) :: t =>
      let '(h2, t2) := copy_named f (h ++ [f (deref h r)]) t in
      (h2, (n, length h) :: t2)
    end.
  (* a new survey whose arrays are fresh copies f(old array) *)
  Definition copy_survey (f : cube -> cube) (ks kr kf : list Z) (w : world) (sv : survey)
    : world * survey :=
    let '(hd1, o1) := copy_arr f (hdat w) (obs sv) in
    let '(hd2, nm) := copy_named f hd1 (named sv) in
    let '(hs1, a1) := copy_opt f (hset w) (nf_arr sv) in
    let '(hs2, a2) := copy_opt f hs1 (re_arr sv) in
    let '(hs3, a3) := copy_opt f hs2 (std_arr sv) in
    (mkW hs3 hd2 (svs w), mkS ks kr kf o1 nm (nf_attr sv) (re_attr sv) a1 a2 a3).

  Definition all_none (a b c : option (list Z)) : bool :=
    match a, b, c with None, None, None => true | _, _, _ => false end.

  (* one pass of Survey.select (without the remove_empty recursion).  The new
     survey is returned, not yet registered.  Nothing selected: the arrays are
     SHARED with the original (xarray .sel() without indexers). *)
  Definition select_once (w : world) (sv : survey) (sS sR sF : option (list Z))
    : option (world * survey) :=
    match sel_axis (src sv) sS, sel_axis (rec sv) sR, sel_axis (frq sv) sF with
    | Some (ks, Is), Some (kr, Js), Some (kf, Ks) =>
      if all_none sS sR sF then Some (w, sv)
      else Some (copy_survey (fun c => sel3 c Is Js Ks) ks kr kf w sv)
    | _, _, _ => None
    end.

  Definition keep_keys (p : nat -> bool) (keys : list Z) : list Z :=
    map snd (filter (fun ik => p (fst ik)) (combine (seq 0 (length keys)) keys)).
  Definition src_nonempty (c : cube) (n2 n3 i : nat) : bool :=
    existsb (fun j => existsb (fun k => is_val (cget c i j k)) (seq 0 n3)) (seq 0 n2).
  Definition rec_nonempty (c : cube) (n1 n3 j : nat) : bool :=
    existsb (fun i => existsb (fun k => is_val (cget c i j k)) (seq 0 n3)) (seq 0 n1).
  Definition frq_nonempty (c : cube) (n1 n2 k : nat) : bool :=
    existsb (fun i => existsb (fun j => is_val (cget c i j k)) (seq 0 n2)) (seq 0 n1).

  (* np.isfinite(data).any() for data of shape (n1, n2, n3) *)
  Definition any_finite (c : cube) (n1 n2 n3 : nat) : bool :=
    existsb (fun i => src_nonempty c n2 n3 i) (seq 0 n1).

  Definition select (s : nat) (sS sR sF : option (list Z)) (rm : bool) (w : world)
    : world * outcome :=
    match nth_error (svs w) s with
    | None => (w, OutErr 9)
    | Some sv =>
      match select_once w sv sS sR sF with
      | None => (w, OutErr 2)
      | Some (w1, sv1) =>
        let ob := deref (hdat w1) (obs sv1) in
        let '(n1, n2, n3) := shape sv1 in
        if rm && any_finite ob n1 n2 n3 then
          let ks := keep_keys (src_nonempty ob n2 n3) (src sv1) in
          let kr := keep_keys (rec_nonempty ob n1 n3) (rec sv1) in
          let kf := keep_keys (frq_nonempty ob n1 n2) (frq sv1) in
          match select_once w1 sv1 (Some ks) (Some kr) (Some kf) with
          | None => (w, OutErr 2)
          | Some (w2, sv2) => (set_svs w2 (svs w2 ++ [sv2]), OutOk)
          end
        else (set_svs w1 (svs w1 ++ [sv1]), OutOk)
      end
    end.

  Definition dict (s : nat) (kind : Z) (w : world) : world * outcome :=
    match nth_error (svs w) s with
    | None => (w, OutErr 9)
    | Some sv =>
      if Z.eqb kind 0 then (set_svs w (svs w ++ [sv]), OutOk)
      else let '(w1, sv1) := copy_survey (fun c => c) (src sv) (rec sv) (frq sv) w sv in
           (set_svs w1 (svs w1 ++ [sv1]), OutOk)
    end.

  (* ------------------------------------------------------- the machine *)
  Definition step (inplace : bool) (o : op) (w : world) : world * outcome :=
    match o with
    | OSetNf s v => set_nfre true s v w
    | OSetRe s v => set_nfre false s v w
    | OSetStd s v => set_std s v w
    | OAddNoise s p n => add_noise inplace s p n w
    | OSelect s a b c rm => select s a b c rm w
    | ODict s k => dict s k w
    end.

  Fixpoint run (inplace : bool) (ops : list op) (w : world) : world :=
    match ops with
    | nil => w
    | o :: t => run inplace t (fst (step inplace o w))
    end.

  Fixpoint trace (inplace : bool) (ops : list op) (w : world) : list (outcome * world) :=
    match ops with
    | nil => nil
    | o :: t => let '(w1, r) := step inplace o w in (r, w1) :: trace inplace t w1
    end.

  (* ------------------------------------- specification vocabulary (C13) *)
  (* access BY LABEL: the entry of an array that belongs to source key a,
     receiver key b, frequency key d (None: some key is not in the survey) *)
  Definition lget (c : cube) (ks kr kf : list Z) (a b d : Z) : option cell :=
    match pos_of ks a, pos_of kr b, pos_of kf d with
    | Some i, Some j, Some k => Some (cget c i j k)
    | _, _, _ => None
    end.
  Definition sv_lget (h : list cube) (sv : survey) (r : nat) (a b d : Z) : option cell :=
    lget (deref h r) (src sv) (rec sv) (frq sv) a b d.
  Definition is_val_o (c : option cell) : bool :=
    match c with Some (V _ _) => true | _ => false end.

  (* array r1 of survey sv1 (heap h1) agrees with array r of sv (heap h) on
     every label triple of sv1 *)
  Definition same_by_label (h1 : list cube) (sv1 : survey) (r1 : nat)
                           (h : list cube) (sv : survey) (r : nat) : Prop :=
    forall a b d, In a (src sv1) -> In b (rec sv1) -> In d (frq sv1) ->
                  sv_lget h1 sv1 r1 a b d = sv_lget h sv r a b d.
  Definition same_by_label_o (h1 : list cube) (sv1 : survey) (r1 : option nat)
                             (h : list cube) (sv : survey) (r : option nat) : Prop :=
    match r1, r with
    | Some r1, Some r => same_by_label h1 sv1 r1 h sv r
    | None, None => True
    | _, _ => False
    end.
  (* survey sv1 (in world w1) is the restriction BY LABEL of sv (in w): its keys
     are keys of sv, and observed data, every named data set, noise-floor /
     relative-error arrays and explicit std agree on all its label triples;
     the attributes are the same *)
  Definition sub_by_label (w1 : world) (sv1 : survey) (w : world) (sv : survey) : Prop :=
    incl (src sv1) (src sv) /\ incl (rec sv1) (rec sv) /\ incl (frq sv1) (frq sv) /\
    same_by_label (hdat w1) sv1 (obs sv1) (hdat w) sv (obs sv) /\
    Forall2 (fun p1 p => fst p1 = fst p /\
                         same_by_label (hdat w1) sv1 (snd p1) (hdat w) sv (snd p))
            (named sv1) (named sv) /\
    nf_attr sv1 = nf_attr sv /\ re_attr sv1 = re_attr sv /\
    same_by_label_o (hset w1) sv1 (nf_arr sv1) (hset w) sv (nf_arr sv) /\
    same_by_label_o (hset w1) sv1 (re_arr sv1) (hset w) sv (re_arr sv) /\
    same_by_label_o (hset w1) sv1 (std_arr sv1) (hset w) sv (std_arr sv).

  Definition chosen (keys : list Z) (s : option (list Z)) : list Z :=
    match s with None => keys | Some l => l end.
  (* selecting s2 from a selection s1 *)
  Definition compose_sel (s1 s2 : option (list Z)) : option (list Z) :=
    match s2 with Some l => Some l | None => s1 end.

  (* remove_empty, by label: a source key survives iff some chosen receiver /
     frequency has a value for it, etc. *)
  Definition src_has_data (h : list cube) (sv : survey) (kr kf : list Z) (a : Z) : bool :=
    existsb (fun b => existsb (fun d => is_val_o (sv_lget h sv (obs sv) a b d)) kf) kr.
  Definition rec_has_data (h : list cube) (sv : survey) (ks kf : list Z) (b : Z) : bool :=
    existsb (fun a => existsb (fun d => is_val_o (sv_lget h sv (obs sv) a b d)) kf) ks.
  Definition frq_has_data (h : list cube) (sv : survey) (ks kr : list Z) (d : Z) : bool :=
    existsb (fun a => existsb (fun b => is_val_o (sv_lget h sv (obs sv) a b d)) kr) ks.
  Definition any_data (h : list cube) (sv : survey) (ks kr kf : list Z) : bool :=
    existsb (fun a => src_has_data h sv kr kf a) ks.

  (* add_noise: the array it writes to, its previous content, and the value
     every entry must have afterwards *)
  Definition std2_at (w : world) (sv : survey) (i j k : nat) : option cell :=
    match std2 w sv with Some c => Some (cget c i j k) | None => None end.
  Definition an_tgt (w : world) (sv : survey) (p : anp) : nat :=
    match a_to p with
    | TObs => obs sv
    | TNamed n => match lookup n (named sv) with Some r => r | None => length (hdat w) end
    end.
  Definition an_t0 (w : world) (sv : survey) (p : anp) (i j k : nat) : cell :=
    match a_to p with
    | TObs => cget (deref (hdat w) (obs sv)) i j k
    | TNamed n => match lookup n (named sv) with
                  | Some r => cget (deref (hdat w) r) i j k
                  | None => zero
                  end
    end.
  Definition an_spec_cell (cut : bool) (sd : option cell) (t0 nz : cell) : cell :=
    if cut then NaN
    else match sd with
         | None => t0                      (* no standard deviation: untouched *)
         | Some NaN => NaN
         | Some (V _ _) => cadd t0 nz
         end.

  (* invariants *)
  Definition drefs_ok (n : nat) (sv : survey) : Prop :=
    obs sv < n /\ Forall (fun p => snd p < n) (named sv).
  Definition wfd (w : world) : Prop := Forall (drefs_ok (length (hdat w))) (svs w).
  Definition keys_ok (sv : survey) : Prop :=
    NoDup (src sv) /\ NoDup (rec sv) /\ NoDup (frq sv).
  Definition wfk (w : world) : Prop := Forall keys_ok (svs w).

  (* well-formed: every setting reference of every survey points into hset *)
  Definition opt_lt (r : option nat) (n : nat) : Prop :=
    match r with Some r => r < n | None => True end.
  Definition refs_ok (n : nat) (sv : survey) : Prop :=
    opt_lt (nf_arr sv) n /\ opt_lt (re_arr sv) n /\ opt_lt (std_arr sv) n.
  Definition wf (w : world) : Prop := Forall (refs_ok (length (hset w))) (svs w).
  Definition wf_all (w : world) : Prop := wf w /\ wfd w /\ wfk w.
End SurveyMachine.
