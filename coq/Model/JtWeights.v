(* Model/JtWeights.v -- C08 (round 6).  Hand model (definitions only) of the
   WEIGHT BOOK-KEEPING around Simulation.jtvec, as a state machine over the
   public operations of one Simulation object:

     survey.standard_deviation   always derived from the CURRENT noise model
                                 (noise_floor, relative_error, |observed|, or the
                                 explicitly set array)               -> [st_sd]
     data['weights']             std**-2, stored by the FIRST misfit evaluation
                                 and kept until clean('computed')    -> [st_w]
     _misfit                     cached misfit (None / value)        -> [st_mis]

     misfit    : if _misfit is None: if 'weights' not in data: data['weights'] = std**-2
     gradient  : evaluates misfit first
     jvec      : evaluates misfit first (`_ = self.misfit`), hence caches the weights too
     noise-model change (survey.noise_floor = / .relative_error = /
                 .standard_deviation = / new observed data / compute(observed=True)):
                 only the survey changes; the cached weights stay
     clean('computed') : deletes data['weights'], _misfit = None
     jtvec(y)  : _ = misfit;  residual := y / data.weights  (the CACHED array);
                 _get_rfield: strength = conj(residual * data.weights / -smu0)
                 (the same cached array); residual restored afterwards.
                 Fails (AttributeError) if _misfit is cached but there are no weights.

   The outcome of jtvec that matters for C08 is the residual source handed to the
   back-propagation solve ([rsource] of Model/Adjoint.v with [jt_residual]): the
   returned array is the gradient pipeline of that solve. *)
From Coq Require Import ZArith List Bool.
From V Require Import Base.FieldSig Base.Sums Model.Adjoint.
Import ListNotations.

Section JtWeights.
  Context {K : Type} {O : FOps K}.
  Variable conj : K -> K.
  Local Open Scope F_scope.
  Context {IE ID : Type}.
  Variable Dt : list ID.           (* data of one source-frequency pair *)
  Variable s : K.                  (* smu0 *)
  Variable p : ID -> IE -> K.      (* receiver rows *)
  Variable fin : ID -> bool.       (* datum carries a finite (non-NaN) weight *)

  Record wstate : Type := {
    st_sd : ID -> K;               (* survey.standard_deviation, current noise model *)
    st_w : option (ID -> K);       (* data['weights'] if stored *)
    st_mis : bool                  (* _misfit is not None *)
  }.

  Inductive wop : Type :=
  | OpMisfit | OpGradient | OpJvec
  | OpNoise (sd : ID -> K)         (* any change of the noise model: new std *)
  | OpClean                        (* clean('computed') *)
  | OpJtvec (y : ID -> K).

  Inductive outcome : Type :=
  | Silent
  | Rsource (f : IE -> K)          (* source of the back-propagation solve *)
  | Raises.

  (* std**-2 *)
  Definition weights_of (sd : ID -> K) : ID -> K := fun j => 1 / (sd j * sd j).

  Definition fresh (sd : ID -> K) : wstate :=
    {| st_sd := sd; st_w := None; st_mis := false |}.

  Definition do_misfit (st : wstate) : wstate :=
    if st_mis st then st
    else {| st_sd := st_sd st;
            st_w := match st_w st with
                    | Some w => Some w
                    | None => Some (weights_of (st_sd st))
                    end;
            st_mis := true |}.

  (* what jtvec hands to the solver for the vector y when data.weights = w *)
  Definition jt_source (w y : ID -> K) : IE -> K :=
    rsource conj Dt s p fin w (jt_residual w y).

  Definition step (st : wstate) (o : wop) : wstate * outcome :=
    match o with
    | OpMisfit => (do_misfit st, Silent)
    | OpGradient => (do_misfit st, Silent)
    | OpJvec => (do_misfit st, Silent)
    | OpNoise sd => ({| st_sd := sd; st_w := st_w st; st_mis := st_mis st |}, Silent)
    | OpClean => ({| st_sd := st_sd st; st_w := None; st_mis := false |}, Silent)
    | OpJtvec y =>
        let st' := do_misfit st in
        match st_w st' with
        | Some w => (st', Rsource (jt_source w y))
        | None => (st', Raises)
        end
    end.

  (* a history: the state after it, and the trace of (state, outcome) *)
  Definition final (ops : list wop) (st : wstate) : wstate :=
    fold_left (fun a o => fst (step a o)) ops st.

  Fixpoint run (ops : list wop) (st : wstate) : list (wstate * outcome) :=
    match ops with
    | [] => []
    | o :: r => let q := step st o in q :: run r (fst q)
    end.

  (* the history-independent value: - P^T conj(y) on the data with finite weights *)
  Definition jt_source_ideal (y : ID -> K) : IE -> K :=
    fun i => - PT Dt p (fun j => if fin j then conj (y j) else 0) i.

  (* the CLASS of defect of seed C08-6, as a model variant (used only by the
     sensitivity Example): the vector is scaled with weights derived afresh from
     the survey while _get_rfield multiplies by the cached ones *)
  Definition jt_source_afresh (st : wstate) (y : ID -> K) : IE -> K :=
    match st_w (do_misfit st) with
    | Some w => rsource conj Dt s p fin w (jt_residual (weights_of (st_sd st)) y)
    | None => fun _ => 0
    end.

  (* ---- predicates used by the theorems -------------------------------- *)
  (* finite, real, non-zero on the data that count *)
  Definition good_sd (sd : ID -> K) : Prop :=
    forall j, fin j = true -> conj (sd j) = sd j /\ sd j <> 0.
  Definition good_w (w : ID -> K) : Prop :=
    forall j, fin j = true -> conj (w j) = w j /\ w j <> 0.
  Definition good_state (st : wstate) : Prop :=
    good_sd (st_sd st)
    /\ (forall w, st_w st = Some w -> good_w w)
    /\ (st_mis st = true -> st_w st <> None).
  Definition good_op (o : wop) : Prop :=
    match o with OpNoise sd => good_sd sd | _ => True end.

  (* executable trace for the correspondence: after every operation the cached
     weights (on the data list; None = not stored) and, for jtvec, the source
     on the listed edges *)
  Definition obs_weights (st : wstate) : option (list K) :=
    match st_w st with Some w => Some (map w Dt) | None => None end.
  Definition obs_outcome (El : list IE) (o : outcome) : option (list K) :=
    match o with Rsource f => Some (map f El) | _ => None end.
  Definition is_raise (o : outcome) : bool :=
    match o with Raises => true | _ => false end.
  Definition trace (El : list IE) (ops : list wop) (st : wstate)
    : list (option (list K) * option (list K) * bool) :=
    map (fun q => (obs_weights (fst q), obs_outcome El (snd q), is_raise (snd q))) (run ops st).
End JtWeights.
