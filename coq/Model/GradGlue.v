(* Model/GradGlue.v -- C14 (round 7).  Definitions only.
   The GLUE in Simulation.gradient / jtvec / jvec (emg3d/simulations.py) between the gradient
   with respect to conductivity and the gradient with respect to the mapped parameter:
   the array handed to map.derivative_chain has one ROW per INDEPENDENT direction of the
   anisotropy case and every row is converted with the property array of ITS OWN direction
   (the code selects `self.model.property_x / _y / _z` BY NAME, per case; anchor
   anchor_gradient_glue in py/props/c14.py fails closed when it stops doing so).
   One cell is modelled (derivative_chain acts cell-wise). *)
From Coq Require Import Reals ZArith Bool List.
From V Require Import Gen.MapsMap Model.Maps.
Import ListNotations.
Open Scope R_scope.

Inductive dirn : Type := DX | DY | DZ.
Inductive acase : Type := CIso | CHTI | CVTI | CTri.

(* rows of gradient / jvec-vector: the independent directions, in this order *)
Definition rows_of (c : acase) : list dirn :=
  match c with
  | CIso => [DX] | CHTI => [DX; DY] | CVTI => [DX; DZ] | CTri => [DX; DY; DZ]
  end.

(* is property_<d> given (not None) in this case *)
Definition given (c : acase) (d : dirn) : bool :=
  match d, c with
  | DX, _ => true
  | DY, (CHTI | CTri) => true
  | DZ, (CVTI | CTri) => true
  | _, _ => false
  end.

(* the code: row of direction d is multiplied by chain(m)(property_d) *)
Definition glue_by_name (m : mapid) (c : acase) (prop : dirn -> R) (g : list R) : list R :=
  map (fun dg => snd dg * chain m (prop (fst dg))) (combine (rows_of c) g).

(* the variant that pairs BY POSITION with [property_x; property_y or x; property_z or x]
   (the fallback list of the VolumeModel) *)
Definition fallback_list (c : acase) (prop : dirn -> R) : list R :=
  [prop DX; if given c DY then prop DY else prop DX; if given c DZ then prop DZ else prop DX].
Definition glue_by_position (m : mapid) (c : acase) (prop : dirn -> R) (g : list R) : list R :=
  map (fun pg => snd pg * chain m (fst pg)) (combine (fallback_list c prop) g).

Definition dcode (d : dirn) : Z := match d with DX => 0 | DY => 1 | DZ => 2 end.
Definition all_cases : list acase := [CIso; CHTI; CVTI; CTri].
