(* Model/FIT.v -- the finite-integration discretisation written structurally:
   discrete curl on faces, face mass (two-cell average of zeta = V/mu_r),
   transposed curl on edges, edge mass (four-cell average of eta).
   This is the specification the generated kernel [amat_x] is proved against
   (Proofs/AmatFIT.v).  ~50 lines, no proofs.

   Index conventions (as in emg3d): an x-edge (i;j,k) lies in cell column i and
   on node lines j,k; an x-face (i;j,k) lies on node plane i and in cell rows
   j,k; similarly for y, z.  nx,ny,nz are cell counts. *)
From Coq Require Import ZArith.
From V Require Import Base.FieldSig.
Local Open Scope Z_scope.

Section FIT.
  Context {F : Type} {O : FOps F}.
  Variables (ex ey ez : Z -> Z -> Z -> F).
  Variables (eta_x eta_y eta_z zeta : Z -> Z -> Z -> F).
  Variables (hx hy hz : Z -> F).

  (* discrete curl of the edge field, one value per face *)
  Definition curl_x i j k : F :=
    ((ez i (j+1) k - ez i j k) / hy j - (ey i j (k+1) - ey i j k) / hz k)%F.
  Definition curl_y i j k : F :=
    ((ex i j (k+1) - ex i j k) / hz k - (ez (i+1) j k - ez i j k) / hx i)%F.
  Definition curl_z i j k : F :=
    ((ey (i+1) j k - ey i j k) / hx i - (ex i (j+1) k - ex i j k) / hy j)%F.

  (* face mass: average of zeta over the two cells sharing the face *)
  Definition Mf_x i j k : F := ((zeta (i-1) j k + zeta i j k) / (1+1))%F.
  Definition Mf_y i j k : F := ((zeta i (j-1) k + zeta i j k) / (1+1))%F.
  Definition Mf_z i j k : F := ((zeta i j (k-1) + zeta i j k) / (1+1))%F.

  (* edge mass: average of eta over the four cells sharing the edge; at the
     lower boundary the missing cells are replaced by their neighbours
     (clamped index), exactly as the kernel does -- irrelevant under PEC,
     where the edge value it multiplies is zero. *)
  Definition pm (i : Z) : Z := Z.max 0 (i - 1).
  Definition Me_x i j k : F :=
    ((eta_x i (pm j) (pm k) + eta_x i (pm j) k + eta_x i j (pm k) + eta_x i j k)
     / ((1+1)*(1+1)))%F.
  Definition Me_y i j k : F :=
    ((eta_y (pm i) j (pm k) + eta_y i j (pm k) + eta_y (pm i) j k + eta_y i j k)
     / ((1+1)*(1+1)))%F.
  Definition Me_z i j k : F :=
    ((eta_z (pm i) (pm j) k + eta_z i (pm j) k + eta_z (pm i) j k + eta_z i j k)
     / ((1+1)*(1+1)))%F.
End FIT.

Section FITop.
  Context {F : Type} {O : FOps F}.
  (* transposed curl of a face field (ux,uy,uz), one value per edge *)
  Definition curlT_x (uy uz : Z -> Z -> Z -> F) (hy hz : Z -> F) i j k : F :=
    (uz i j k / hy j - uz i (j-1)%Z k / hy (j-1)%Z
     - uy i j k / hz k + uy i j (k-1)%Z / hz (k-1)%Z)%F.
  Definition curlT_y (ux uz : Z -> Z -> Z -> F) (hx hz : Z -> F) i j k : F :=
    (ux i j k / hz k - ux i j (k-1)%Z / hz (k-1)%Z
     - uz i j k / hx i + uz (i-1)%Z j k / hx (i-1)%Z)%F.
  Definition curlT_z (ux uy : Z -> Z -> Z -> F) (hx hy : Z -> F) i j k : F :=
    (uy i j k / hx i - uy (i-1)%Z j k / hx (i-1)%Z
     - ux i j k / hy j + ux i (j-1)%Z k / hy (j-1)%Z)%F.

  Variables (ex ey ez eta_x eta_y eta_z zeta : Z -> Z -> Z -> F).
  Variables (hx hy hz : Z -> F).
  (* u = M_f curl e *)
  Definition u_x i j k := (Mf_x zeta i j k * curl_x ey ez hy hz i j k)%F.
  Definition u_y i j k := (Mf_y zeta i j k * curl_y ex ez hx hz i j k)%F.
  Definition u_z i j k := (Mf_z zeta i j k * curl_z ex ey hx hy i j k)%F.

  (* A e = curlT (M_f curl e) - M_e e   (eta = -s mu0 V sigma~, so the second
     term is + s mu0 M_e(V sigma~) e); the curl-curl part is masked on the
     lower tangential boundary edges, which the kernel visits. *)
  Definition A_x i j k : F :=
    ((if ((j =? 0) || (k =? 0))%bool then 0 else curlT_x u_y u_z hy hz i j k)
     - Me_x eta_x i j k * ex i j k)%F.
  Definition A_y i j k : F :=
    ((if ((i =? 0) || (k =? 0))%bool then 0 else curlT_y u_x u_z hx hz i j k)
     - Me_y eta_y i j k * ey i j k)%F.
  Definition A_z i j k : F :=
    ((if ((i =? 0) || (j =? 0))%bool then 0 else curlT_z u_x u_y hx hy i j k)
     - Me_z eta_z i j k * ez i j k)%F.
End FITop.
