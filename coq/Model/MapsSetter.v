(* Model/MapsSetter.v -- C14 (round 6).  Definitions only.
   Assignment to a parameter of a Model as a step that can FAIL:
     set_param : model -> pname -> values -> model * outcome
   is the interpretation (Model/Maps.v, run_setter) of the event list of the setter
   as it stands in emg3d/models.py -- Gen/MapsSetter.v, re-extracted with `ast` on
   every run.  A failing event ends the call and leaves the model as it is at that
   moment, so the ORDER check / store decides what a refused assignment leaves
   behind.  Histories: construction followed by any sequence of plain assignments
   (accepted or refused) and augmented assignments `model.p op= k` (model_aug). *)
From Coq Require Import ZArith Bool List String QArith.
From V Require Import Base.FieldSig Base.ExecQ Gen.MapsMap Model.Maps Gen.MapsSetter.
Import ListNotations.

Section SetParam.
  Context {F : Type}.
  Variable pos0 : F -> bool.
  Variable isz : F -> bool.
  Variable bwF : mapid -> F -> F.
  Variable ovf : mapid -> F -> option (xval F).
  Variable zero : F.

  Definition set_param (md : model (F:=F)) (p : pname) (values : list (xval F))
    : model (F:=F) * option verr :=
    run_setter pos0 isz bwF ovf zero (setter_order p) md p values.

  (* one operation on an existing model *)
  Inductive mop : Type :=
    | OpSet (p : pname) (values : list (xval F))     (* model.p = values *)
    | OpAug (p : pname) (values : list (xval F)).    (* model.p op= k; values = op(stored, k) *)

  Definition step (md : model (F:=F)) (o : mop) : model (F:=F) * option verr :=
    match o with
    | OpSet p vs => set_param md p vs
    | OpAug p vs => model_aug pos0 isz bwF ovf zero md p vs
    end.

  (* the states a history goes through (the one after every operation) *)
  Fixpoint trace (md : model (F:=F)) (ops : list mop) : list (model (F:=F)) :=
    match ops with
    | [] => []
    | o :: rest => fst (step md o) :: trace (fst (step md o)) rest
    end.
  Fixpoint outcomes (md : model (F:=F)) (ops : list mop) : list (option verr) :=
    match ops with
    | [] => []
    | o :: rest => snd (step md o) :: outcomes (fst (step md o)) rest
    end.
  Definition run_ops (md : model (F:=F)) (ops : list mop) : model (F:=F) :=
    fold_left (fun m o => fst (step m o)) ops md.

  (* side condition on augmented assignments: numpy has operated on the stored array
     BEFORE the setter sees it, so a refused `model.p op= k` cannot be undone by the
     setter.  [aug_clean]: no augmented assignment of the history is refused by the
     validation (TypeError on a None property is fine: nothing was touched). *)
  Definition aug_ok (md : model (F:=F)) (o : mop) : Prop :=
    match o with
    | OpSet _ _ => True
    | OpAug _ _ => snd (step md o) = None \/ snd (step md o) = Some ErrType
    end.
  Fixpoint aug_clean (md : model (F:=F)) (ops : list mop) : Prop :=
    match ops with
    | [] => True
    | o :: rest => aug_ok md o /\ aug_clean (fst (step md o)) rest
    end.
End SetParam.

Arguments OpSet {F} p values.
Arguments OpAug {F} p values.

(* executable instance for the correspondence *)
Definition set_param_Q := @set_param Q Qpos0 Qisz (@bw_exec Q QOps) ovf_exec 0%Q.
Definition step_Q := @step Q Qpos0 Qisz (@bw_exec Q QOps) ovf_exec 0%Q.

(* construct, then run the operations through the setters AS GENERATED; codes of
   every outcome and of the state after every operation *)
Definition run_history_sp (mapping : string) (x y z mu eps : option (list (xval Q)))
           (ops : list (mop (F:=Q))) :=
  match model_init_Q mapping x y z mu eps with
  | inr e => (verr_code (Some e), [], [])
  | inl md => (0%Z, map verr_code (outcomes Qpos0 Qisz (@bw_exec Q QOps) ovf_exec 0%Q md ops),
               map model_code (trace Qpos0 Qisz (@bw_exec Q QOps) ovf_exec 0%Q md ops))
  end.
