(* Model/SurveyMachineExec.v -- executable instance of Model/SurveyMachine.v on
   exact rationals, and dump functions that turn model states into plain
   Z / list / option / tuple terms for the correspondence harness
   (py/props/c13.py).  DEFINITIONS ONLY. *)
From Coq Require Import ZArith QArith List Bool.
From V Require Import Base.FieldSig Base.ExecQ Model.SurveyMachine.
Import ListNotations.

Definition qltb (x y : Q) : bool := negb (Qle_bool y x).     (* x < y *)

(* squared offsets as a finite table keyed by (source key, receiver key) *)
Definition off_tab (t : list (Z * Z * Q)) (ks kr : Z) : Q :=
  match find (fun e => Z.eqb (fst (fst e)) ks && Z.eqb (snd (fst e)) kr) t with
  | Some e => snd e
  | None => 0%Q
  end.

Definition qcell : Type := @cell Q.
Definition qcube : Type := @cube Q.
Definition qworld : Type := @world Q.

Definition d_cell (c : qcell) : option ((Z * Z) * (Z * Z)) :=
  match c with NaN => None | V a b => Some (out_q a, out_q b) end.
Definition d_cube (c : qcube) : list (list (list (option ((Z * Z) * (Z * Z))))) :=
  map (map (map d_cell)) c.
Definition d_ref (r : option nat) : Z :=
  match r with Some r => Z.of_nat r | None => (-1)%Z end.
Definition d_sval (v : @sval Q) : Z * list (Z * Z) * list (list (list (option ((Z * Z) * (Z * Z))))) :=
  match v with
  | SNone => (0%Z, [], [])
  | SScal q => (1%Z, [out_q q], [])
  | SCube c => (2%Z, [], d_cube c)
  end.
Definition d_ocube (c : option qcube) :=
  match c with Some c => Some (d_cube c) | None => None end.

Definition d_survey (w : qworld) (sv : @survey Q) :=
  (src sv, rec sv, frq sv,
   (Z.of_nat (obs sv), d_cube (deref (hdat w) (obs sv))),
   map (fun p => (fst p, Z.of_nat (snd p), d_cube (deref (hdat w) (snd p)))) (named sv),
   (d_sval (nf_view (hset w) sv), d_sval (re_view (hset w) sv),
    d_ocube (std_view (hset w) sv)),
   (* raw storage: references and the arrays kept in the data set (stale ones too) *)
   ((d_ref (nf_arr sv), d_cube (deref_o (hset w) (nf_arr sv))),
    (d_ref (re_arr sv), d_cube (deref_o (hset w) (re_arr sv))),
    d_ref (std_arr sv))).

Definition d_world (w : qworld) := map (d_survey w) (svs w).

Definition d_outcome (o : @outcome Q) :=
  match o with
  | OutOk => (0%Z, 0%Z, None)
  | OutErr k => (1%Z, k, None)
  | OutNoise sd => (2%Z, 0%Z, d_ocube sd)
  end.

Definition d_trace (t : list (@outcome Q * qworld)) :=
  map (fun p => (d_outcome (fst p), d_world (snd p))) t.

Definition d_oq (x : option Q) : option (Z * Z) :=
  match x with Some q => Some (out_q q) | None => None end.

(* end-of-history queries: std^2 and misfit (data set 0 = 'synthetic') of every survey *)
Definition d_final (w : qworld) :=
  map (fun sv => (d_ocube (std2 w sv), d_oq (misfit w sv 0%Z))) (svs w).
