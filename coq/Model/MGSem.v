(* Model/MGSem.v -- data-flow semantics of one multigrid cycle (solver.multigrid).

   Model/Hierarchy.v describes WHICH operations multigrid() performs and in
   which order (an event list, compared with the real solver's call trace by
   py/props/c05.py).  This file says what each event DOES to the data: a stack
   machine over (field, source) frames, one frame per level that is currently
   open, with the four numerical operations of solver.py as parameters:

     EPre / EPost / ECoarse l s c_lr : efield := smoothing(model_l, sfield, efield, nu, c_lr)
     ERestrict l c_sc               : res := residual(model_l, sfield, efield);
                                      push (cefield := zeros, csfield := restrict(res))
     EProlong l                     : pop (cefield, _);  efield := prolongation(efield, cefield)

   (multigrid(): "(B.2) res = residual(...); cmodel, csfield, cefield =
   restriction(model, sfield, res, sc_dir)", "(B.3) multigrid(cmodel, csfield,
   cefield, ...)", "(B.4) prolongation(efield, cefield, sc_dir)"; restriction()
   returns a fresh all-zero cefield.)  The data flow (which array is handed to
   which call) is compared with the real solver by the data-flow stream of
   py/props/c05.py.  Definitions only; proofs in Proofs/MGSem.v. *)
From Coq Require Import ZArith List Bool.
From V Require Import Gen.SolverHelpers Model.Hierarchy.
Import ListNotations.
Local Open Scope Z_scope.

Section MGSem.
  Variable fld : Type.                 (* the three edge arrays of one level *)
  Variable zero : fld.                 (* Field(cgrid): all zeros *)
  (* smoothing(model_l, sfield, efield, nu, c_lr): level, c_lr, which of the three
     smoothing calls (0 pre, 1 coarsest, 2 post: they differ in nu), e, s *)
  Variable smooth : Z -> Z -> Z -> fld -> fld -> fld.
  (* residual(model_l, sfield, efield) = sfield - A_l efield: level, s, e *)
  Variable resid : Z -> fld -> fld -> fld.
  (* core.restrict(...) with the weights of level l and pattern c_sc *)
  Variable restr : Z -> Z -> fld -> fld.
  (* prolongation(efield, cefield, sc_dir): level, fine e, coarse e *)
  Variable prol : Z -> fld -> fld -> fld.

  Definition frame : Type := (fld * fld)%type.      (* (efield, sfield) *)

  Fixpoint run (tr : list ev) (st : list frame) : option (list frame) :=
    match tr with
    | [] => Some st
    | EPre l _ clr :: t =>
        match st with
        | (e, s) :: r => run t ((smooth l clr 0 e s, s) :: r)
        | [] => None
        end
    | ECoarse l _ clr :: t =>
        match st with
        | (e, s) :: r => run t ((smooth l clr 1 e s, s) :: r)
        | [] => None
        end
    | EPost l _ clr :: t =>
        match st with
        | (e, s) :: r => run t ((smooth l clr 2 e s, s) :: r)
        | [] => None
        end
    | ERestrict l csc :: t =>
        match st with
        | (e, s) :: r => run t ((zero, restr l csc (resid l s e)) :: (e, s) :: r)
        | [] => None
        end
    | EProlong l :: t =>
        match st with
        | (ce, _) :: (e, s) :: r => run t ((prol l e ce, s) :: r)
        | _ => None
        end
    end.

  (* one fine-grid cycle applied to (efield, sfield) *)
  Definition cycle_result (c1 : cfg) (fuel : nat) (c : cfg) (e s : fld) : option (list frame) :=
    match fine_cycle_from c1 fuel c with
    | Some tr => run tr [(e, s)]
    | None => None
    end.
End MGSem.
