(* Props/C04.v -- property C04: restriction is the transpose of prolongation;
   the coarse model conserves volumes.  ONLY statements.

   [restrict], [restrict_weights]: Gen/CoreRestrict.v, regenerated from
   emg3d/core.py on every run; [coars]: read off the regenerated
   restrict_factors (Gen/SolverHelpers.v).  Model/Prolong.v: tensor-product
   specification of the restriction, hand model of prolongation and of the model
   restriction (tied by correspondence, py/props/c04.py).  F: any field, 1+1<>0. *)
From Coq Require Import ZArith Bool Field.
From V Require Import Base.Loops Base.Loops3 Base.Arr Base.FieldSig.
From V Require Import Gen.SolverHelpers Gen.CoreRestrict Model.Prolong.
From V Require Import Proofs.RestrictW Proofs.RestrictTensor Proofs.Prolong.
Local Open Scope Z_scope.

Section C04.
  Context {F : Type} {O : FOps F}.
  Hypothesis Fth : field_theory F0 F1 Fadd Fmul Fsub Fopp Fdiv Finv (@eq F).
  Hypothesis two_nz : (1 + 1)%F <> 0%F.

  (* --- the generated restriction kernel, all seven patterns ---------------- *)
  (* For every pattern 0..6, every coarse/fine shape, every weights and fields:
     each coarse edge in the visited box receives exactly the tensor product of
     the 1-D maps (S1 across the edge: weights w0/wl/wr on fine nodes 2I, 2I-1,
     2I+1; E1 along the edge: sum of the two children; identity in directions
     the pattern does not coarsen); nothing else is written. *)
  Theorem restrict_is_tensor_product
    (rx ry rz : Z -> Z -> Z -> F) (wx wy wz : (Z -> F) * (Z -> F) * (Z -> F))
    (cnx cny cnz nx ny nz scd : Z) (crx cry crz : Z -> Z -> Z -> F) :
    0 <= scd <= 6 -> 0 <= cnx -> 0 <= cny -> 0 <= cnz -> forall i j k,
    get3 (restrict cnx cny cnz nx ny nz crx cry crz rx ry rz wx wy wz scd) i j k
    = if in_box cnx cny cnz i j k
      then (if i <? cnx - 1 then Rx_spec scd nx ny nz wy wz rx i j k else crx i j k,
            if j <? cny - 1 then Ry_spec scd nx ny nz wx wz ry i j k else cry i j k,
            if k <? cnz - 1 then Rz_spec scd nx ny nz wx wy rz i j k else crz i j k)
      else (crx i j k, cry i j k, crz i j k).
  Proof.
    exact (restrict_eq (Field_theory.F_R Fth) rx ry rz wx wy wz cnx cny cnz nx ny nz scd crx cry crz).
  Qed.

  (* --- the generated weights on a tensor mesh ----------------------------- *)
  Variables (nodes cell_centers h cnodes ccell_centers ch : Z -> F).
  Variables (n lh lch ln : Z).
  Hypothesis hpair_nz : forall i, (h (2*i-2) + h (2*i-1))%F <> 0%F.
  Hypothesis cc_def : forall j, cell_centers j = (nodes j + h j / (1+1))%F.
  Hypothesis node_step : forall j, nodes (j+1) = (nodes j + h j)%F.
  Hypothesis cnode_def : forall I, cnodes I = nodes (2*I).
  Hypothesis ch_def : forall I, ch I = (h (2*I) + h (2*I+1))%F.
  Hypothesis ccc_def : forall I, ccell_centers I = (cnodes I + ch I / (1+1))%F.
  Notation RW := (restrict_weights n lh lch ln nodes cell_centers h cnodes ccell_centers ch).

  Theorem weight_left_closed_form I : 1 <= I < n ->
    fst (fst RW) I = (h (2*I-2) / (h (2*I-2) + h (2*I-1)))%F.
  Proof. exact (rw_left_closed Fth two_nz nodes cell_centers h cnodes ccell_centers ch
                  n lh lch ln hpair_nz cc_def node_step cnode_def ch_def ccc_def I). Qed.
  Theorem weight_right_closed_form I : 0 <= I < n - 1 ->
    snd RW I = (h (2*I+1) / (h (2*I) + h (2*I+1)))%F.
  Proof. exact (rw_right_closed Fth two_nz nodes cell_centers h cnodes ccell_centers ch
                  n lh lch ln hpair_nz cc_def cnode_def ch_def ccc_def I). Qed.
  Theorem weight_centre_is_one I : snd (fst RW) I = 1%F.
  Proof. exact (rw_center nodes cell_centers h cnodes ccell_centers ch n lh lch ln I). Qed.

  (* --- restriction weight = interpolation weight (1-D transpose) ---------- *)
  Theorem restriction_weight_is_interpolation_weight I j : 1 <= I < n - 1 ->
    R1 RW I j = P1 nodes j I.
  Proof. exact (transpose1d Fth two_nz nodes cell_centers h cnodes ccell_centers ch
                  n lh lch ln hpair_nz cc_def node_step cnode_def ch_def ccc_def I j). Qed.

  (* prolongation weights of an odd fine node sum to one; an even node copies *)
  Theorem interpolation_weights_sum_to_one m :
    (P1 nodes (2*m+1) m + P1 nodes (2*m+1) (m+1)%Z)%F = 1%F.
  Proof. exact (prolong_partition_of_unity Fth nodes h hpair_nz node_step m). Qed.
  Theorem even_node_copies_coarse_node (cf : Z -> F) m :
    prolong1 true nodes cf (2*m) = cf m.
  Proof. exact (prolong_even_copies nodes cf m). Qed.
End C04.

(* --- coarse material parameters are sums of their children ---------------- *)
Section C04b.
  Context {F : Type} {O : FOps F}.
  Theorem coarse_parameter_is_sum_of_8_children (p : Z -> Z -> Z -> F) I J K :
    restrict_param 0 p I J K =
    (((p (2*I)%Z (2*J)%Z (2*K)%Z + p (2*I)%Z (2*J)%Z (2*K+1)%Z)
      + (p (2*I)%Z (2*J+1)%Z (2*K)%Z + p (2*I)%Z (2*J+1)%Z (2*K+1)%Z))
     + ((p (2*I+1)%Z (2*J)%Z (2*K)%Z + p (2*I+1)%Z (2*J)%Z (2*K+1)%Z)
        + (p (2*I+1)%Z (2*J+1)%Z (2*K)%Z + p (2*I+1)%Z (2*J+1)%Z (2*K+1)%Z)))%F.
  Proof. exact (restrict_param_full p I J K). Qed.
End C04b.

Print Assumptions restrict_is_tensor_product.
Print Assumptions weight_left_closed_form.
Print Assumptions weight_right_closed_form.
Print Assumptions weight_centre_is_one.
Print Assumptions restriction_weight_is_interpolation_weight.
Print Assumptions interpolation_weights_sum_to_one.
Print Assumptions even_node_copies_coarse_node.
Print Assumptions coarse_parameter_is_sum_of_8_children.
