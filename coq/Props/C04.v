(* Props/C04.v -- property C04: restriction is the transpose of prolongation;
   the coarse model conserves volumes.  ONLY statements.

   [restrict], [restrict_weights]: Gen/CoreRestrict.v, regenerated from
   emg3d/core.py on every run; [coars]: read off the regenerated
   restrict_factors (Gen/SolverHelpers.v).  Model/Prolong.v: tensor-product
   specification of the restriction, hand model of prolongation and of the model
   restriction (tied by correspondence, py/props/c04.py).  F: any field, 1+1<>0. *)
From Coq Require Import ZArith Bool Field.
From V Require Import Base.Loops Base.Loops3 Base.Arr Base.FieldSig.
From V Require Import Gen.SolverHelpers Gen.CoreRestrict Model.Prolong.
From V Require Import Model.Interp Proofs.RestrictW Proofs.RestrictTensor Proofs.Prolong Proofs.RestrictAdjoint.
Local Open Scope Z_scope.

Section C04.
  Context {F : Type} {O : FOps F}.
  Hypothesis Fth : field_theory F0 F1 Fadd Fmul Fsub Fopp Fdiv Finv (@eq F).
  Hypothesis two_nz : (1 + 1)%F <> 0%F.

  (* --- the generated restriction kernel, all seven patterns ---------------- *)
  (* For every pattern 0..6, every coarse/fine shape, every weights and fields:
     each coarse edge in the visited box receives exactly the tensor product of
     the 1-D maps (S1 across the edge: weights w0/wl/wr on fine nodes 2I, 2I-1,
     2I+1; E1 along the edge: sum of the two children; identity in directions
     the pattern does not coarsen); nothing else is written. *)
  Theorem restrict_is_tensor_product
    (rx ry rz : Z -> Z -> Z -> F) (wx wy wz : (Z -> F) * (Z -> F) * (Z -> F))
    (cnx cny cnz nx ny nz scd : Z) (crx cry crz : Z -> Z -> Z -> F) :
    0 <= scd <= 6 -> 0 <= cnx -> 0 <= cny -> 0 <= cnz -> forall i j k,
    get3 (restrict cnx cny cnz nx ny nz crx cry crz rx ry rz wx wy wz scd) i j k
    = if in_box cnx cny cnz i j k
      then (if i <? cnx - 1 then Rx_spec scd nx ny nz wy wz rx i j k else crx i j k,
            if j <? cny - 1 then Ry_spec scd nx ny nz wx wz ry i j k else cry i j k,
            if k <? cnz - 1 then Rz_spec scd nx ny nz wx wy rz i j k else crz i j k)
      else (crx i j k, cry i j k, crz i j k).
  Proof.
    exact (restrict_eq (Field_theory.F_R Fth) rx ry rz wx wy wz cnx cny cnz nx ny nz scd crx cry crz).
  Qed.

  (* --- the generated weights on a tensor mesh ----------------------------- *)
  Variables (nodes cell_centers h cnodes ccell_centers ch : Z -> F).
  Variables (n lh lch ln : Z).
  Hypothesis hpair_nz : forall i, (h (2*i-2) + h (2*i-1))%F <> 0%F.
  Hypothesis cc_def : forall j, cell_centers j = (nodes j + h j / (1+1))%F.
  Hypothesis node_step : forall j, nodes (j+1) = (nodes j + h j)%F.
  Hypothesis cnode_def : forall I, cnodes I = nodes (2*I).
  Hypothesis ch_def : forall I, ch I = (h (2*I) + h (2*I+1))%F.
  Hypothesis ccc_def : forall I, ccell_centers I = (cnodes I + ch I / (1+1))%F.
  Notation RW := (restrict_weights n lh lch ln nodes cell_centers h cnodes ccell_centers ch).

  Theorem weight_left_closed_form I : 1 <= I < n ->
    fst (fst RW) I = (h (2*I-2) / (h (2*I-2) + h (2*I-1)))%F.
  Proof. exact (rw_left_closed Fth two_nz nodes cell_centers h cnodes ccell_centers ch
                  n lh lch ln hpair_nz cc_def node_step cnode_def ch_def ccc_def I). Qed.
  Theorem weight_right_closed_form I : 0 <= I < n - 1 ->
    snd RW I = (h (2*I+1) / (h (2*I) + h (2*I+1)))%F.
  Proof. exact (rw_right_closed Fth two_nz nodes cell_centers h cnodes ccell_centers ch
                  n lh lch ln hpair_nz cc_def cnode_def ch_def ccc_def I). Qed.
  Theorem weight_centre_is_one I : snd (fst RW) I = 1%F.
  Proof. exact (rw_center nodes cell_centers h cnodes ccell_centers ch n lh lch ln I). Qed.

  (* --- restriction weight = interpolation weight (1-D transpose) ---------- *)
  Theorem restriction_weight_is_interpolation_weight I j : 1 <= I < n - 1 ->
    R1 RW I j = P1 nodes j I.
  Proof. exact (transpose1d Fth two_nz nodes cell_centers h cnodes ccell_centers ch
                  n lh lch ln hpair_nz cc_def node_step cnode_def ch_def ccc_def I j). Qed.

  (* prolongation weights of an odd fine node sum to one; an even node copies *)
  Theorem interpolation_weights_sum_to_one m :
    (P1 nodes (2*m+1) m + P1 nodes (2*m+1) (m+1)%Z)%F = 1%F.
  Proof. exact (prolong_partition_of_unity Fth nodes h hpair_nz node_step m). Qed.
  Theorem even_node_copies_coarse_node (cf : Z -> F) m :
    prolong1 true nodes cf (2*m) = cf m.
  Proof. exact (prolong_even_copies nodes cf m). Qed.
End C04.

(* --- coarse material parameters are sums of their children ---------------- *)
Section C04b.
  Context {F : Type} {O : FOps F}.
  Theorem coarse_parameter_is_sum_of_8_children (p : Z -> Z -> Z -> F) I J K :
    restrict_param 0 p I J K =
    (((p (2*I)%Z (2*J)%Z (2*K)%Z + p (2*I)%Z (2*J)%Z (2*K+1)%Z)
      + (p (2*I)%Z (2*J+1)%Z (2*K)%Z + p (2*I)%Z (2*J+1)%Z (2*K+1)%Z))
     + ((p (2*I+1)%Z (2*J)%Z (2*K)%Z + p (2*I+1)%Z (2*J)%Z (2*K+1)%Z)
        + (p (2*I+1)%Z (2*J+1)%Z (2*K)%Z + p (2*I+1)%Z (2*J+1)%Z (2*K+1)%Z)))%F.
  Proof. exact (restrict_param_full p I J K). Qed.
End C04b.

(* --- the summed identity: restriction = transpose of prolongation ---------- *)
(* <R r, g> over all interior coarse edges = <r, P g> over all interior fine
   edges, for every fine residual r and every coarse field g with vanishing
   tangential boundary values; P g = what the prolongation ADDS (prolong_* with a
   zero fine field).  All seven patterns scd (coars scd d: direction d is
   coarsened), all shapes with >= 2 coarse nodes per direction.  Hypotheses W*:
   in a coarsened direction the weights are the transposed interpolation weights
   -- discharged for the generated restrict_weights on a tensor mesh by
   [restriction_weight_is_interpolation_weight] above.  Rx_spec/Ry_spec/Rz_spec
   are what the generated kernel computes ([restrict_is_tensor_product]). *)
Section C04adj.
  Context {F : Type} {O : FOps F}.
  Hypothesis Fth : field_theory F0 F1 Fadd Fmul Fsub Fopp Fdiv Finv (@eq F).
  Variable scd : Z.
  Variables cnx cny cnz nx ny nz : Z.          (* coarse / fine node counts *)
  Variables wx wy wz : (Z -> F) * (Z -> F) * (Z -> F).
  Variables xn yn zn : Z -> F.                 (* fine node coordinates *)
  Hypothesis Hcx : 2 <= cnx.
  Hypothesis Hcy : 2 <= cny.
  Hypothesis Hcz : 2 <= cnz.
  Hypothesis Hnx : nx = if coars scd 0 then 2*cnx - 1 else cnx.
  Hypothesis Hny : ny = if coars scd 1 then 2*cny - 1 else cny.
  Hypothesis Hnz : nz = if coars scd 2 then 2*cnz - 1 else cnz.
  Hypothesis Wx : coars scd 0 = true -> forall I j, 1 <= I < cnx - 1 -> R1 wx I j = P1 xn j I.
  Hypothesis Wy : coars scd 1 = true -> forall I j, 1 <= I < cny - 1 -> R1 wy I j = P1 yn j I.
  Hypothesis Wz : coars scd 2 = true -> forall I j, 1 <= I < cnz - 1 -> R1 wz I j = P1 zn j I.

  Theorem restriction_is_transpose_of_prolongation_x (rx g : Z -> Z -> Z -> F) :
    (forall I J K, (J <= 0 \/ cny - 1 <= J \/ K <= 0 \/ cnz - 1 <= K) -> g I J K = 0%F) ->
    Zsum 0 (cnx - 1) (fun I => Zsum 1 (cny - 1) (fun J => Zsum 1 (cnz - 1) (fun K =>
      (Rx_spec scd nx ny nz wy wz rx I J K * g I J K)%F)))
    = Zsum 0 (nx - 1) (fun i => Zsum 1 (ny - 1) (fun j => Zsum 1 (nz - 1) (fun k =>
      (rx i j k * prolong_x scd yn zn nx ny nz g (fun _ _ _ => 0%F) i j k)%F))).
  Proof. exact (restrict_x_adjoint Fth scd cnx cny cnz nx ny nz wy wz yn zn
                  Hcx Hcy Hcz Hnx Hny Hnz Wy Wz rx g). Qed.

  Theorem restriction_is_transpose_of_prolongation_y (ry g : Z -> Z -> Z -> F) :
    (forall I J K, (I <= 0 \/ cnx - 1 <= I \/ K <= 0 \/ cnz - 1 <= K) -> g I J K = 0%F) ->
    Zsum 1 (cnx - 1) (fun I => Zsum 0 (cny - 1) (fun J => Zsum 1 (cnz - 1) (fun K =>
      (Ry_spec scd nx ny nz wx wz ry I J K * g I J K)%F)))
    = Zsum 1 (nx - 1) (fun i => Zsum 0 (ny - 1) (fun j => Zsum 1 (nz - 1) (fun k =>
      (ry i j k * prolong_y scd xn zn nx ny nz g (fun _ _ _ => 0%F) i j k)%F))).
  Proof. exact (restrict_y_adjoint Fth scd cnx cny cnz nx ny nz wx wz xn zn
                  Hcx Hcy Hcz Hnx Hny Hnz Wx Wz ry g). Qed.

  Theorem restriction_is_transpose_of_prolongation_z (rz g : Z -> Z -> Z -> F) :
    (forall I J K, (I <= 0 \/ cnx - 1 <= I \/ J <= 0 \/ cny - 1 <= J) -> g I J K = 0%F) ->
    Zsum 1 (cnx - 1) (fun I => Zsum 1 (cny - 1) (fun J => Zsum 0 (cnz - 1) (fun K =>
      (Rz_spec scd nx ny nz wx wy rz I J K * g I J K)%F)))
    = Zsum 1 (nx - 1) (fun i => Zsum 1 (ny - 1) (fun j => Zsum 0 (nz - 1) (fun k =>
      (rz i j k * prolong_z scd xn yn nx ny nz g (fun _ _ _ => 0%F) i j k)%F))).
  Proof. exact (restrict_z_adjoint Fth scd cnx cny cnz nx ny nz wx wy xn yn
                  Hcx Hcy Hcz Hnx Hny Hnz Wx Wy rz g). Qed.
End C04adj.

(* --- conservation, every pattern: the coarse parameters have the same total -- *)
Section C04c.
  Context {F : Type} {O : FOps F}.
  Hypothesis Fth : field_theory F0 F1 Fadd Fmul Fsub Fopp Fdiv Finv (@eq F).
  Theorem coarse_parameters_conserve_the_total scd cx cy cz nx ny nz (p : Z -> Z -> Z -> F) :
    0 <= cx -> 0 <= cy -> 0 <= cz ->
    nx = (if coars scd 0 then 2*cx else cx) ->
    ny = (if coars scd 1 then 2*cy else cy) ->
    nz = (if coars scd 2 then 2*cz else cz) ->
    sum3 cx cy cz (fun I J K => restrict_param scd p I J K) = sum3 nx ny nz p.
  Proof. intros H1 H2 H3 H4 H5 H6. exact (restrict_param_conserves_total Fth scd cx cy cz nx ny nz H1 H2 H3 H4 H5 H6 p). Qed.
End C04c.

(* --- signs: over the REAL numbers, on a mesh with positive widths ---------- *)
(* (order statements cannot be made over an abstract field; these two theorems
   use Coq's axiomatised reals -- see Print Assumptions below) *)
From Coq Require Import Reals.
From V Require Import Proofs.Interp Proofs.ProlongR.
Section C04R.
  (* every interpolation weight lies in [0,1] *)
  Theorem interpolation_weights_are_in_the_unit_interval (x h : Z -> R) :
    (forall j, (0 < h j)%R) -> (forall j, x (j + 1)%Z = (x j + h j)%R) ->
    forall j I, (0 <= P1 x j I <= 1)%R.
  Proof. exact (P1_bounds x h). Qed.

  (* ... and so does every weight the generated restrict_weights computes *)
  Theorem restriction_weights_are_in_the_unit_interval
    (nodes cell_centers h cnodes ccell_centers ch : Z -> R) (n lh lch ln : Z) :
    (forall j, (0 < h j)%R) ->
    (forall j, cell_centers j = (nodes j + h j / (1+1))%R) ->
    (forall j, nodes (j+1)%Z = (nodes j + h j)%R) ->
    (forall I, cnodes I = nodes (2*I)%Z) ->
    (forall I, ch I = (h (2*I)%Z + h (2*I+1)%Z)%R) ->
    (forall I, ccell_centers I = (cnodes I + ch I / (1+1))%R) ->
    forall I,
    let RW := restrict_weights n lh lch ln nodes cell_centers h cnodes ccell_centers ch in
    ((1 <= I < n)%Z -> (0 <= fst (fst RW) I <= 1)%R) /\
    snd (fst RW) I = 1%R /\
    ((0 <= I < n - 1)%Z -> (0 <= snd RW I <= 1)%R).
  Proof. exact (restrict_weights_bounds nodes cell_centers h cnodes ccell_centers ch n lh lch ln). Qed.
End C04R.

Print Assumptions restrict_is_tensor_product.
Print Assumptions weight_left_closed_form.
Print Assumptions weight_right_closed_form.
Print Assumptions weight_centre_is_one.
Print Assumptions restriction_weight_is_interpolation_weight.
Print Assumptions interpolation_weights_sum_to_one.
Print Assumptions even_node_copies_coarse_node.
Print Assumptions coarse_parameter_is_sum_of_8_children.
Print Assumptions restriction_is_transpose_of_prolongation_x.
Print Assumptions restriction_is_transpose_of_prolongation_y.
Print Assumptions restriction_is_transpose_of_prolongation_z.
Print Assumptions coarse_parameters_conserve_the_total.
Print Assumptions interpolation_weights_are_in_the_unit_interval.
Print Assumptions restriction_weights_are_in_the_unit_interval.
