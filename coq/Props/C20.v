(* Props/C20.v -- property C20: emg3d.time.Fourier partitions and fills the
   required frequencies consistently.  ONLY statements, each closed by [exact]
   of a lemma from Proofs/, with Print Assumptions beneath.

   Model: Model/Fourier.v (hand model, tied to emg3d/time.py by the
   correspondence of py/props/c20.py on every run).  [leb] is the comparison
   x <= y of an arbitrary totally ordered number type (executed on Q, theorems
   instantiated for R below); every finite float is such a number, NaN is not.
   Oracles: [logf], the spline [spline1], PCHIP [pchip1] (its FIRST interval is
   modelled explicitly: pchip_first), the reference transform [tem]. *)
From Coq Require Import List Bool ZArith Arith Reals.
From V Require Import Base.FieldSig Model.Fourier Proofs.Fourier Proofs.FourierR.
Import ListNotations.

Section C20_order.
  Context {F : Type} {O : FOps F}.
  Variable leb : F -> F -> bool.
  Hypothesis leb_total : forall x y, leb x y = true \/ leb y x = true.
  Hypothesis leb_trans : forall x y z, leb x y = true -> leb y z = true -> leb x z = true.

  (* Every required frequency is in exactly one of the three groups
     (below fmin / within / above fmax), for every list and every band
     fmin <= fmax; the masks are what the code computes. *)
  Theorem freq_partition fmin fmax (req : list F) d i :
    leb fmin fmax = true -> i < List.length req ->
    let x := nth i req d in
    nth i (mask_extrapolate leb fmin req) false = ltb leb x fmin /\
    nth i (mask_interpolate leb fmin fmax req) false = in_band leb fmin fmax x /\
    nth i (mask_above leb fmax req) false = ltb leb fmax x /\
    (let e := nth i (mask_extrapolate leb fmin req) false in
     let m := nth i (mask_interpolate leb fmin fmax req) false in
     let a := nth i (mask_above leb fmax req) false in
     e && m = false /\ m && a = false /\ e && a = false /\ e || m || a = true).
  Proof. exact (freq_partition_lemma leb leb_total leb_trans fmin fmax req d i). Qed.

  (* what interpolate() never writes (stays 0) is exactly the group f > fmax *)
  Theorem zero_group_is_above fmin fmax (req : list F) :
    leb fmin fmax = true -> mask_zero leb fmin fmax req = mask_above leb fmax req.
  Proof. exact (zero_is_above_lemma leb leb_total leb_trans fmin fmax req). Qed.

  (* computed frequencies lie in the requested band (and come from freq_coarse),
     for every coarse option *)
  Theorem compute_in_band fmin fmax every_x input_freq (req : list F) x :
    In x (freq_compute leb fmin fmax (freq_coarse every_x input_freq req)) ->
    leb fmin x = true /\ leb x fmax = true /\ In x (freq_coarse every_x input_freq req).
  Proof. exact (compute_in_band_lemma leb fmin fmax every_x input_freq req x). Qed.

  Theorem coarse_every_is_subset k inp (req : list F) x :
    In x (freq_coarse (Some k) inp req) -> In x req.
  Proof. exact (coarse_every_sub k inp req x). Qed.

  Variable logf : F -> F.
  Variable spline1 : list F -> list F -> F -> F.
  Variable pchip1 : list F -> list F -> F -> F.
  Variable tiny : F.

  Theorem above_is_zero fmin fmax ex inp req fdata out i d :
    leb fmin fmax = true ->
    interpolate leb logf spline1 pchip1 tiny fmin fmax ex inp req fdata = Some out ->
    i < List.length req -> ltb leb fmax (nth i req d) = true ->
    nth i out czero = czero.
  Proof. exact (above_is_zero_lemma leb leb_total leb_trans logf spline1 pchip1 tiny
                  (list_eqb leb) fmin fmax ex inp req fdata out i d). Qed.

  (* freq_coarse = freq_required (no coarse option; also every_x_freq = 1 or an
     input_freq that IS the required list): the value at the j-th in-band required
     frequency is fdata[j], unchanged, and that frequency IS freq_compute[j] *)
  Theorem passthrough fmin fmax ex inp req fdata out i d :
    freq_coarse ex inp req = req ->
    interpolate leb logf spline1 pchip1 tiny fmin fmax ex inp req fdata = Some out ->
    List.length fdata = List.length (freq_compute leb fmin fmax req) ->
    i < List.length req -> in_band leb fmin fmax (nth i req d) = true ->
    let j := rank (mask_interpolate leb fmin fmax req) i in
    nth i out czero = nth j fdata czero /\
    nth j (freq_compute leb fmin fmax req) d = nth i req d /\
    j < List.length fdata.
  Proof. exact (passthrough_lemma leb leb_total logf spline1 pchip1 tiny fmin fmax ex inp req
                  fdata out i d). Qed.

  (* ... and ONLY then: whenever freq_coarse differs from freq_required (whatever
     its length) every in-band value is the spline through the computed data,
     evaluated at that required frequency -- data are never written at a
     frequency they were not computed for. *)
  Theorem differing_coarse_is_interpolated fmin fmax ex inp req fdata out i d :
    list_eqb leb (freq_coarse ex inp req) req = false ->
    interpolate leb logf spline1 pchip1 tiny fmin fmax ex inp req fdata = Some out ->
    i < List.length req -> in_band leb fmin fmax (nth i req d) = true ->
    let fc := freq_compute leb fmin fmax (freq_coarse ex inp req) in
    nth i out czero = (spline1 (map logf fc) (map fst fdata) (logf (nth i req d)),
                       spline1 (map logf fc) (map snd fdata) (logf (nth i req d))).
  Proof. exact (differing_coarse_lemma leb logf spline1 pchip1 tiny fmin fmax ex inp req
                  fdata out i d). Qed.

  (* the test is equality of the frequency lists (np.array_equal) *)
  Theorem pass_test_is_equality :
    (forall x y, leb x y = true -> leb y x = true -> x = y) ->
    forall a b : list F, list_eqb leb a b = true <-> a = b.
  Proof.
    exact (fun anti a b => conj (list_eqb_eq leb anti a b)
             (fun E => eq_ind a (fun b => list_eqb leb a b = true)
                         (list_eqb_refl leb leb_total a) b E)).
  Qed.

  (* below fmin: PCHIP through (tiny, Re fdata[0] - tiny j), (freq_compute, fdata) *)
  Theorem extrapolated_is_pchip_of_extended fmin fmax ex inp req fdata out i d d0 rest :
    interpolate leb logf spline1 pchip1 tiny fmin fmax ex inp req fdata = Some out ->
    fdata = d0 :: rest ->
    i < List.length req -> ltb leb (nth i req d) fmin = true ->
    let fc := freq_compute leb fmin fmax (freq_coarse ex inp req) in
    nth i out czero = (pchip1 (tiny :: fc) (fst d0 :: map fst fdata) (nth i req d),
                       pchip1 (tiny :: fc) ((- tiny)%F :: map snd fdata) (nth i req d)).
  Proof. exact (extrap_value_lemma leb logf spline1 pchip1 tiny (list_eqb leb) fmin fmax ex inp
                  req fdata out i d d0 rest). Qed.

  (* History (DESIGN section 10): emg3d before "fix: Fourier.interpolate passed data
     through whenever input_freq had the size of freq_required" selected the
     pass-through branch by the LENGTH of freq_coarse alone (interpolate_unfixed).
     input_freq with the length of freq_required: ValueError when the in-band
     counts differ ... *)
  Theorem interpolate_unfixed_same_length_raises fmin fmax inp req fdata :
    List.length inp = List.length req ->
    List.length fdata <> List.length (freq_interpolate leb fmin fmax req) ->
    List.length fdata <> 1 ->
    interpolate_unfixed leb logf spline1 pchip1 tiny fmin fmax None (Some inp) req fdata = None.
  Proof. exact (unfixed_same_length_error leb logf spline1 pchip1 tiny fmin fmax inp req
                  fdata). Qed.

  (* ... and silently misplaced data when they agree: values computed at
     input_freq were written, uninterpolated, at the in-band REQUIRED frequencies. *)
  Theorem interpolate_unfixed_same_length_misplaces fmin fmax inp req fdata out i d :
    List.length inp = List.length req ->
    interpolate_unfixed leb logf spline1 pchip1 tiny fmin fmax None (Some inp) req fdata
      = Some out ->
    List.length fdata = List.length (freq_interpolate leb fmin fmax req) ->
    i < List.length req -> in_band leb fmin fmax (nth i req d) = true ->
    nth i out czero = nth (rank (mask_interpolate leb fmin fmax req) i) fdata czero.
  Proof. exact (unfixed_same_length_misplaced leb logf spline1 pchip1 tiny fmin fmax inp req
                  fdata out i d). Qed.

  Context {TD : Type}.
  Variable tem : list (F * F) -> list F -> TD.

  (* the time-domain result is the reference transform of the filled spectrum *)
  Theorem freq2time_is_reference_of_filled fmin fmax ex inp req fdata filled :
    interpolate leb logf spline1 pchip1 tiny fmin fmax ex inp req fdata = Some filled ->
    freq2time leb logf spline1 pchip1 tiny tem fmin fmax ex inp req fdata
    = Some (tem filled req).
  Proof. exact (freq2time_lemma leb logf spline1 pchip1 tiny tem fmin fmax ex inp req
                  fdata filled). Qed.
End C20_order.

Print Assumptions freq_partition.
Print Assumptions zero_group_is_above.
Print Assumptions compute_in_band.
Print Assumptions coarse_every_is_subset.
Print Assumptions above_is_zero.
Print Assumptions passthrough.
Print Assumptions differing_coarse_is_interpolated.
Print Assumptions pass_test_is_equality.
Print Assumptions extrapolated_is_pchip_of_extended.
Print Assumptions interpolate_unfixed_same_length_raises.
Print Assumptions interpolate_unfixed_same_length_misplaces.
Print Assumptions freq2time_is_reference_of_filled.

(* ------------------------------------------------------------------ *)
(* Histories on one instance (public setters between the calls)        *)
(* ------------------------------------------------------------------ *)
Section C20_history.
  Context {F : Type} {O : FOps F}.
  Variable leb : F -> F -> bool.
  Hypothesis leb_total : forall x y, leb x y = true \/ leb y x = true.
  Hypothesis leb_trans : forall x y z, leb x y = true -> leb y z = true -> leb x z = true.
  Variable logf : F -> F.
  Variable spline1 : list F -> list F -> F -> F.
  Variable pchip1 : list F -> list F -> F -> F.
  Variable tiny : F.

  (* interpolate() after a history is interpolate() of the CURRENT parameters:
     two histories that end in the same parameters give the same spectrum *)
  Theorem interpolate_history_independent (s1 s2 : @fstate F) ops1 ops2 fdata :
    frun s1 ops1 = frun s2 ops2 ->
    interpolate_state leb logf spline1 pchip1 tiny (frun s1 ops1) fdata
    = interpolate_state leb logf spline1 pchip1 tiny (frun s2 ops2) fdata.
  Proof. exact (fun E => f_equal (fun s => interpolate_state leb logf spline1 pchip1 tiny s fdata) E). Qed.

  (* in particular: whatever was computed before, above the CURRENT fmax the
     spectrum is 0+0j (nothing stale survives a lowered fmax) *)
  Theorem above_is_zero_after_any_history (s0 : @fstate F) ops fdata out i d :
    let s := frun s0 ops in
    leb (s_fmin s) (s_fmax s) = true ->
    interpolate_state leb logf spline1 pchip1 tiny s fdata = Some out ->
    i < List.length (s_req s) -> ltb leb (s_fmax s) (nth i (s_req s) d) = true ->
    nth i out czero = czero.
  Proof. exact (above_is_zero_history leb leb_total leb_trans logf spline1 pchip1 tiny
                  s0 ops fdata out i d). Qed.

  (* the band setters: the last value wins, nothing else changes *)
  Theorem set_fmax_last_wins (s : @fstate F) ops x :
    s_fmax (frun s (ops ++ [SetFmax x])) = x /\
    s_fmin (frun s (ops ++ [SetFmax x])) = s_fmin (frun s ops) /\
    s_req (frun s (ops ++ [SetFmax x])) = s_req (frun s ops).
  Proof. exact (set_fmax_last_wins_lemma s ops x). Qed.

  (* every_x_freq and input_freq are never both set, after any history *)
  Theorem coarse_options_exclusive fmin fmax e i (req : list F) ops :
    exclusive (frun (finit fmin fmax e i req) ops).
  Proof. exact (coarse_exclusive_lemma fmin fmax e i req ops). Qed.
End C20_history.

Print Assumptions interpolate_history_independent.
Print Assumptions above_is_zero_after_any_history.
Print Assumptions set_fmax_last_wins.
Print Assumptions coarse_options_exclusive.

(* The sine/cosine filter an instance without an explicit 'kind' uses is decided by
   ITS OWN signal (switch-off: cosine; impulse and switch-on: sine) -- the
   correspondence compares the 'kind' of every instance, created in any order from
   shared user dictionaries, with [dlf_kind] of its own setting. *)
Theorem dlf_kind_of_own_setting (signal : Z) :
  dlf_kind signal None = if Z.ltb signal 0 then Cos else Sin.
Proof. exact (dlf_kind_default_lemma signal). Qed.
Print Assumptions dlf_kind_of_own_setting.

Section C20_pchip.
  Context {F : Type} {O : FOps F}.
  Hypothesis Fth : field_theory F0 F1 Fadd Fmul Fsub Fopp Fdiv Finv (@eq F).
  Variable leb : F -> F -> bool.
  Hypothesis leb_total : forall x y, leb x y = true \/ leb y x = true.
  Hypothesis leb_antisym : forall x y, leb x y = true -> leb y x = true -> x = y.

  (* Real part below fmin: the extra point carries Re fdata[0], so on PCHIP's
     first interval both end values are equal; scipy's end-slope and
     interior-slope rules then give zero slopes and the cubic is CONSTANT. *)
  Theorem extrap_real_constant x0 x1 x2 y y2 x :
    (x1 - x0)%F <> 0%F -> pchip_first leb x0 x1 x2 y y y2 x = y.
  Proof. exact (pchip_first_flat Fth leb leb_total leb_antisym x0 x1 x2 y y2 x). Qed.

  Theorem extrap_real_constant_two_knots x0 x1 y x :
    (x1 - x0)%F <> 0%F -> pchip_two x0 x1 y y x = y.
  Proof. exact (pchip_two_flat Fth x0 x1 y x). Qed.
End C20_pchip.

Print Assumptions extrap_real_constant.
Print Assumptions extrap_real_constant_two_knots.

(* Imaginary part below fmin, over R: a Hermite cubic whose end slopes lie in the
   Fritsch-Carlson box [0, 3 delta] is monotone between its end values, so |Im|
   shrinks monotonically from Im fdata[0] at freq_compute[0] to -1e-100 ~ 0 at
   1e-100 Hz.
   PARTIAL: that scipy's PCHIP slopes (edge_slope / interior_slope of the model)
   always lie in that box is validated against scipy by the correspondence, not
   proved.  Full statement (not proved):
     forall x0 < x1 < x2, y0 y1 y2, t1 <= t2 in [0,1],
       (pchip_first Rleb x0 x1 x2 y0 y1 y2) is monotone on [x0, x1]. *)
Theorem extrap_imag_monotone_partial y0 y1 d0 d1 h t1 t2 :
  (0 <= h * d0 <= 3 * (y1 - y0))%R -> (0 <= h * d1 <= 3 * (y1 - y0))%R ->
  (0 <= t1)%R -> (t1 <= t2)%R -> (t2 <= 1)%R ->
  (hermite (O := ROps) y0 y1 d0 d1 h t1 <= hermite (O := ROps) y0 y1 d0 d1 h t2)%R.
Proof. exact (hermite_monotone_up y0 y1 d0 d1 h t1 t2). Qed.
Print Assumptions extrap_imag_monotone_partial.

Theorem extrap_imag_monotone_down_partial y0 y1 d0 d1 h t1 t2 :
  (3 * (y1 - y0) <= h * d0 <= 0)%R -> (3 * (y1 - y0) <= h * d1 <= 0)%R ->
  (0 <= t1)%R -> (t1 <= t2)%R -> (t2 <= 1)%R ->
  (hermite (O := ROps) y0 y1 d0 d1 h t2 <= hermite (O := ROps) y0 y1 d0 d1 h t1)%R.
Proof. exact (hermite_monotone_down y0 y1 d0 d1 h t1 t2). Qed.
Print Assumptions extrap_imag_monotone_down_partial.

Theorem hermite_hits_end_values y0 y1 d0 d1 h :
  hermite (O := ROps) y0 y1 d0 d1 h 0%R = y0 /\ hermite (O := ROps) y0 y1 d0 d1 h 1%R = y1.
Proof. exact (hermite_endpoints y0 y1 d0 d1 h). Qed.
Print Assumptions hermite_hits_end_values.

Example monotone_hypotheses_satisfiable :
  (0 <= 2 * 1 <= 3 * (5 - 1))%R /\ (0 <= 2 * 3 <= 3 * (5 - 1))%R /\
  (hermite (O := ROps) 1 5 1 3 2 0 < hermite (O := ROps) 1 5 1 3 2 1)%R.
Proof. exact hermite_monotone_nonvacuous. Qed.
Print Assumptions monotone_hypotheses_satisfiable.

(* the order hypotheses of the sections above hold for R (hence for every float) *)
Theorem order_hypotheses_hold_R :
  (forall x y, Rleb x y = true \/ Rleb y x = true) /\
  (forall x y z, Rleb x y = true -> Rleb y z = true -> Rleb x z = true) /\
  (forall x y, Rleb x y = true -> Rleb y x = true -> x = y).
Proof. exact (conj Rleb_total (conj Rleb_trans Rleb_antisym)). Qed.
Print Assumptions order_hypotheses_hold_R.
