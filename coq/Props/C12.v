(* Props/C12.v -- property C12: simulation results are a function of (model,
   survey), not of the call history.  ONLY statements; proofs in
   Proofs/SimMachine.v; the machine is Model/SimMachine.v (tied to
   emg3d/simulations.py by the step-by-step correspondence of py/props/c12.py).

   [fixed]    = behaviour after the three proposed repairs (docs/fix_C12*.diff)
   [as_found] = behaviour of the code as found; [step_unfixed = step as_found].
   Operations range over ALL lists of
     compute, misfit, gradient, jvec v, jtvec w, get_efield i, get_hfield i,
     clean(computed|keepresults|all), copy/to_dict+from_dict/to_file+from_file
     (h5,npz,json) x (computed|results|all|plain), model update + clean(computed|all)
   addressed to ANY simulation of the world (original or derived), for any
   number n of source-frequency slots.  In-memory mode ([init_world n false]). *)
From Coq Require Import ZArith List Bool Arith.
From V Require Import Model.SimMachine Proofs.SimMachine Model.SimFault Proofs.SimFault.
Import ListNotations.

(* --- coherence invariant: every cached tag is the quantity of the CURRENT
       model that its accessor promises (definition: Proofs.SimMachine.Inv_sim) *)
Theorem inv_init : forall n m, Inv (init_world n false m).
Proof. exact inv_init. Qed.
Print Assumptions inv_init.

Theorem inv_step : forall w ko, Inv w -> Inv (fst (step fixed w ko)).
Proof. exact inv_step_proof. Qed.
Print Assumptions inv_step.

Theorem inv_reachable : forall n m ops, Inv (run fixed (init_world n false m) ops).
Proof. intros n m ops. exact (inv_reachable_proof ops _ (inv_init n m)). Qed.
Print Assumptions inv_reachable.

(* --- history independence: after ANY operation list, asking ANY simulation k
       of the world for synthetic data (after compute), misfit or gradient
       gives what a freshly created simulation with k's current model gives *)
Theorem history_independence : forall n m0 ops k s qu,
  nth_error (w_sims (run fixed (init_world n false m0) ops)) k = Some s ->
  ask fixed (run fixed (init_world n false m0) ops) k qu
  = ask fixed (init_world n false (s_model s)) 0 qu.
Proof. exact history_independence_proof. Qed.
Print Assumptions history_independence.

(* ... and that value is the quantity of the current model (not merely "the same") *)
Theorem query_values : forall w k s qu, Inv w -> nth_error (w_sims w) k = Some s ->
  ask fixed w k qu = match qu with
                     | QSynthetic => (RNone, map (Syn (s_model s)) (seq 0 (w_n w)))
                     | QMisfit => (RVal (Misfit (s_model s)), [])
                     | QGradient => (RVal (Grad (s_model s)), [])
                     end.
Proof. exact ask_expected. Qed.
Print Assumptions query_values.

Example history_independence_nonvacuous :
  let w := run fixed (init_world 2 false 0)
             [(0, OGradient); (0, OJtvec 1); (0, OExport VCopy DResults); (1, OSetModel 1 false false);
              (1, OJvec 0); (0, OClean CKeep)] in
  length (w_sims w) = 2 /\
  ask fixed w 0 QGradient = (RVal (Grad 0), []) /\
  ask fixed w 1 QGradient = (RVal (Grad 1), []) /\
  ask fixed w 1 QSynthetic = (RNone, [Syn 1 0; Syn 1 1]).
Proof. exact ex_reachable_nontrivial. Qed.
Print Assumptions history_independence_nonvacuous.

(* --- jtvec (repaired) returns J^T w and leaves gradient/residual alone *)
Example jtvec_fixed_restores :
  let w := run fixed (init_world 2 false 0) [(0, OMisfit); (0, OJtvec 0)] in
  o_ret (snd (step fixed (run fixed (init_world 2 false 0) [(0, OMisfit)]) (0, OJtvec 0))) = RVal (Jt 0 0)
  /\ ask fixed w 0 QGradient = (RVal (Grad 0), []).
Proof. exact ex_jtvec_fixed_restores. Qed.
Print Assumptions jtvec_fixed_restores.

(* --- copies / reloads are independent: an operation on simulation k leaves the
       record of every other simulation j unchanged (any variant of the code);
       in memory mode the record is all there is ([enc_sim] ignores the store) *)
Theorem copies_independent : forall q w k o j, j <> k -> j < length (w_sims w) ->
  nth_error (w_sims (fst (step q w (k, o)))) j = nth_error (w_sims w) j.
Proof. exact copies_independent_proof. Qed.
Print Assumptions copies_independent.

Theorem memory_view_is_record : forall n st st' s, enc_sim n false st s = enc_sim n false st' s.
Proof. exact enc_sim_store_irrelevant. Qed.
Print Assumptions memory_view_is_record.

(* --- every solve is issued with the tolerance its kind requires (forward:
       tol; back-propagation and jvec: tol_gradient), whatever ran before, in
       every mode and every variant of the code *)
Theorem tol_always_set_before_use : forall q w ko,
  Forall (fun so => so_tol so = match so_kind so with KF => TFwd | _ => TGrad end)
         (o_trace (snd (step q w ko))).
Proof. exact tol_always_proof. Qed.
Print Assumptions tol_always_set_before_use.

(* --- every solve issued by an operation on simulation k is handed the model
       version simulation k has when the operation is called (any mode, any
       variant): no solve ever runs with a stale model, in particular not after
       a model update (in place or by replacement) followed by clean *)
Theorem solves_use_current_model : forall q w k o s, nth_error (w_sims w) k = Some s ->
  Forall (fun so => so_model so = s_model s) (o_trace (snd (step q w (k, o)))).
Proof. exact solves_model_proof. Qed.
Print Assumptions solves_use_current_model.

Theorem setmodel_sets_version : forall q w k m all repl s,
  nth_error (w_sims w) k = Some s ->
  exists s', nth_error (w_sims (fst (step q w (k, OSetModel m all repl)))) k = Some s' /\ s_model s' = m.
Proof. exact setmodel_sets_version. Qed.
Print Assumptions setmodel_sets_version.

Example solves_after_update_use_new_model :
  let w := run fixed (init_world 2 false 0) [(0, OCompute); (0, OSetModel 1 false true)] in
  map so_model (o_trace (snd (step fixed w (0, OGradient)))) = [1; 1; 1; 1]
  /\ ask fixed w 0 QSynthetic = (RNone, [Syn 1 0; Syn 1 1]).
Proof. exact ex_solves_after_update. Qed.
Print Assumptions solves_after_update_use_new_model.

(* --- computing ONE source-frequency slot (get_efield / get_hfield on a missing field, any
       state, any mode, any variant) leaves the synthetic data of every other slot unchanged *)
Theorem single_slot_recompute_frame : forall q w k i (geth : bool) s s',
  nth_error (w_sims w) k = Some s ->
  nth_error (w_sims (fst (step q w (k, if geth then OGetH i else OGetE i)))) k = Some s' ->
  forall j, j <> i -> s_syn s' j = s_syn s j.
Proof. exact single_slot_frame_proof. Qed.
Print Assumptions single_slot_recompute_frame.

(* the state "results kept, fields dropped, one slot recomputed" (4 slots) is reachable; all
   synthetic data survive and misfit / gradient are those of a fresh simulation *)
Example results_kept_one_slot_recomputed :
  let w := run fixed (init_world 4 false 0) [(0, OCompute); (0, OClean CKeep); (0, OGetE 2)] in
  (match nth_error (w_sims w) 0 with
   | Some s => (map (s_syn s) (seq 0 4), map (s_efield s) (seq 0 4), s_computed s, s_misfit s)
   | None => (@nil tag, @nil (option tag), false, @None tag) end)
  = ([Syn 0 0; Syn 0 1; Syn 0 2; Syn 0 3], [None; None; Some (Efield 0 2); None], true, None)
  /\ ask fixed w 0 QMisfit = (RVal (Misfit 0), [])
  /\ ask fixed w 0 QGradient = (RVal (Grad 0), []).
Proof. exact (proj2 ex_results_kept_one_slot). Qed.
Print Assumptions results_kept_one_slot_recomputed.

Example tol_trace_nonempty :
  o_trace (snd (step fixed (init_world 2 false 0) (0, OGradient))) =
  [mkSolve KF 0 TFwd false 0; mkSolve KF 1 TFwd false 0; mkSolve KB 0 TGrad false 0; mkSolve KB 1 TGrad false 0].
Proof. exact ex_trace_nonempty. Qed.
Print Assumptions tol_trace_nonempty.

(* ===================== the code AS FOUND violates the property ============== *)
(* witness [misfit; jtvec w] then gradient: J^T w instead of the gradient *)
Theorem history_independence_refuted : exists ops k qu,
  ask as_found (fold_left (fun w o => fst (step_unfixed w o)) ops (init_world 2 false 0)) k qu
  <> ask as_found (init_world 2 false 0) 0 qu.
Proof. exact refuted_unfixed. Qed.
Print Assumptions history_independence_refuted.

(* each of the three defects alone suffices *)
Theorem jtvec_quirk_refuted :
  ask (mkQ true false false) (run (mkQ true false false) (init_world 2 false 0)
                                  [(0, OMisfit); (0, OJtvec 0)]) 0 QGradient
  <> ask (mkQ true false false) (init_world 2 false 0) 0 QGradient.
Proof. exact refuted_jtvec. Qed.
Print Assumptions jtvec_quirk_refuted.

Theorem jtvec_on_fresh_raises :
  o_ret (snd (step (mkQ true false false) (init_world 2 false 0) (0, OJtvec 0))) = RErr EAttr.
Proof. exact refuted_jtvec_fresh. Qed.
Print Assumptions jtvec_on_fresh_raises.

Theorem misfit_quirk_refuted :
  ask (mkQ false true false) (run (mkQ false true false) (init_world 2 false 0)
                                  [(0, OMisfit); (0, OExport VH5 DComputed)]) 1 QMisfit
  <> ask (mkQ false true false) (init_world 2 false 0) 0 QMisfit.
Proof. exact refuted_misfit. Qed.
Print Assumptions misfit_quirk_refuted.

Theorem misfit_quirk_json_raises :
  o_ret (snd (step (mkQ false true false)
                   (run (mkQ false true false) (init_world 2 false 0) [(0, OMisfit)])
                   (0, OExport VJson DAll))) = RErr EType.
Proof. exact refuted_misfit_json. Qed.
Print Assumptions misfit_quirk_json_raises.

Theorem keepresults_quirk_refuted :
  ask (mkQ false false true) (run (mkQ false false true) (init_world 2 false 0)
                                  [(0, OMisfit); (0, OClean CKeep)]) 0 QGradient
  <> ask (mkQ false false true) (init_world 2 false 0) 0 QGradient.
Proof. exact refuted_keep. Qed.
Print Assumptions keepresults_quirk_refuted.

(* ===================== file_dir mode ======================================== *)
(* Even after the repairs, simulations derived from one with file_dir share its
   field files: independence of copies and history independence FAIL there.
   (A finding, not repaired; see docs/C12.md.)  The positive theorems above are
   therefore stated for in-memory worlds only; for file mode with a single
   simulation the statement
       history_independence_file_single : no OExport in ops ->
         ask fixed (run fixed (init_world n true m0) ops) 0 qu = ask fixed (init_world n true m) 0 qu
   is NOT proved (gap; covered by the correspondence only). *)
Theorem copies_independent_file_refuted :
  ask fixed (run fixed (init_world 2 true 0)
                 [(0, OCompute); (0, OExport VCopy DComputed); (1, OSetModel 1 false false); (1, OCompute)])
      0 QGradient
  <> ask fixed (init_world 2 true 0) 0 QGradient.
Proof. exact refuted_file_copy. Qed.
Print Assumptions copies_independent_file_refuted.

Theorem copy_step_changes_original_file_refuted :
  let w := run fixed (init_world 2 true 0) [(0, OCompute); (0, OExport VCopy DComputed)] in
  enc_world w <> firstn 1 (enc_world (fst (step fixed w (1, OClean CComputed)))) ++
                 skipn 1 (enc_world w).
Proof. exact refuted_file_copy_step. Qed.
Print Assumptions copy_step_changes_original_file_refuted.

(* ===================== operations that RAISE mid-way (Model/SimFault.v) ===== *)
(* [fstep fin q w (k, o, Some fl)]: operation o on simulation k during which the
   fault fl is armed (FBatch kd: the first batch of solves of kind kd raises on
   entry; FWarn: the gradient computation raises at its start; FIo: to_file
   raises in io after serialising).  [fin = true]: jtvec restores data.residual,
   the gradient cache and drops the back-propagated fields in a `finally`.
   Histories below mix completed and failed operations on any simulation. *)

(* --- the coherence invariant survives every operation, completed or failed *)
Theorem inv_step_faults : forall w kof, Inv w -> Inv (fst (fstep true fixed w kof)).
Proof. exact inv_fstep_proof. Qed.
Print Assumptions inv_step_faults.

(* --- history independence for histories that include failed operations: whatever
       raised on the way, every simulation afterwards reports the synthetic data,
       misfit and gradient of a freshly created simulation with its model *)
Theorem history_independence_with_failed_operations : forall n m0 ops k s qu,
  nth_error (w_sims (frun true fixed (init_world n false m0) ops)) k = Some s ->
  ask fixed (frun true fixed (init_world n false m0) ops) k qu
  = ask fixed (init_world n false (s_model s)) 0 qu.
Proof. exact history_independence_faults_proof. Qed.
Print Assumptions history_independence_with_failed_operations.

(* --- a jtvec during which anything raises leaves the gradient cache as it was, the
       model as it was, and data.residual (if present) the residual -- never w/weights *)
Theorem failed_jtvec_restores : forall w k wi fl s, Inv w -> nth_error (w_sims w) k = Some s ->
  exists s', nth_error (w_sims (fst (fstep true fixed w (k, OJtvec wi, Some fl)))) k = Some s' /\
             s_gradient s' = s_gradient s /\ s_model s' = s_model s /\
             (forall t, s_residual s' = Some t -> t = Residual (s_model s)) /\
             Inv_sim (w_n w) s'.
Proof. exact failed_jtvec_restores_proof. Qed.
Print Assumptions failed_jtvec_restores.

(* --- a failed (or completed) computation never changes the model of its simulation *)
Theorem failed_operation_keeps_model : forall w k o fl s, Inv w -> nth_error (w_sims w) k = Some s ->
  (forall m a r, o <> OSetModel m a r) -> (forall x d, o <> OExport x d) -> (forall c, o <> OClean c) ->
  exists s', nth_error (w_sims (fst (fstep true fixed w (k, o, Some fl)))) k = Some s' /\
             s_model s' = s_model s.
Proof. exact fstep_keeps_model_proof. Qed.
Print Assumptions failed_operation_keeps_model.

(* --- ... and leaves every other simulation of the world alone (any variant) *)
Theorem failed_operation_leaves_others : forall fin q w k o f j, j <> k -> j < length (w_sims w) ->
  nth_error (w_sims (fst (fstep fin q w (k, o, f)))) j = nth_error (w_sims w) j.
Proof. exact fstep_others_proof. Qed.
Print Assumptions failed_operation_leaves_others.

(* --- non-vacuity: an 11-step history in which EVERY armed fault fires (forward, back-propagation
       and jvec batches, the gradient warning inside jtvec, io), on two simulations with different
       models; afterwards every query is the fresh one *)
Example failed_operations_nonvacuous :
  frets (init_world 2 false 0) ex_fault_ops =
  [RErr EInj; RErr EInj; RErr EInj; RNone; RErr EInj; RErr EInj; RErr EFile; RNew 1; RNone;
   RErr EInj; RErr EInj]
  /\ (let w := frun true fixed (init_world 2 false 0) ex_fault_ops in
      ask fixed w 0 QGradient = (RVal (Grad 0), []) /\ ask fixed w 0 QMisfit = (RVal (Misfit 0), []) /\
      ask fixed w 1 QGradient = (RVal (Grad 1), []) /\
      ask fixed w 1 QSynthetic = (RNone, [Syn 1 0; Syn 1 1])).
Proof. exact ex_faults_fire. Qed.
Print Assumptions failed_operations_nonvacuous.

(* --- without `finally` (state restored only when the body of jtvec finishes) the property
       fails: [misfit; jtvec 0 whose back-propagation raises], then gradient returns J^T w *)
Theorem jtvec_restore_on_success_only_refuted : exists ops k qu,
  ask fixed (frun false fixed (init_world 2 false 0) ops) k qu <> ask fixed (init_world 2 false 0) 0 qu.
Proof. exact refuted_nofinally_neq. Qed.
Print Assumptions jtvec_restore_on_success_only_refuted.

Theorem jtvec_restore_on_success_only_witness :
  fired (snd (fstep false fixed (frun false fixed (init_world 2 false 0) [(0, OMisfit, None)])
                    (0, OJtvec 0, Some (FBatch KB)))) = true /\
  ask fixed (frun false fixed (init_world 2 false 0) [(0, OMisfit, None); (0, OJtvec 0, Some (FBatch KB))])
      0 QGradient = (RVal (Jt 0 0), []) /\
  ask fixed (init_world 2 false 0) 0 QGradient = (RVal (Grad 0), []).
Proof. exact refuted_nofinally. Qed.
Print Assumptions jtvec_restore_on_success_only_witness.
