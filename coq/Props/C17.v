(* Props/C17.v -- property C17: save and load round-trip every emg3d object
   in every file format; converting between formats preserves the content.

   ONLY statements, each closed by [exact] of a lemma of Proofs/Codec.v (or by
   vm_compute for the closed examples and the stated finite tables), each
   followed by Print Assumptions.

   The model (Model/Codec.v) is a hand model of emg3d/io.py; it is tied to the
   current source by the correspondence of py/props/c17.py on every run.
   Values are arbitrary trees (any nesting depth, any sizes); all theorems are
   by structural induction.

   Guards.  [wfd Pk Pl d]: every dict in d has distinct keys, every item
   satisfies Pk, every non-dict value satisfies Pl.
     wf_flat  : no key contains '>', no sub-dict is empty      (npz codec)
     wfj      : keys survive the __complex/__array-<dtype> tags (see
                key_plain_ok / key_arr_ok / key_carr_ok), arrays have
                length = prod shape, no zero-length axis except the last,
                elements representable in the dtype            (json codec)
     clean / no_marker : no numpy-bool values / no str equal to "NoneType"
     wf_npz, wf_h5, wf_json : the guards of the complete save;load pipelines
     wf_all   : the conjunction (used for convert)
     wf_conv  : wf_all + every complex value has a finite imaginary part or
                a NaN real part (a + 1j*b reproduces it)
   What is lost outside the guards is stated by the *_lost / *_rejected /
   marker_* theorems and replayed on the implementation by the malformed
   stream of the correspondence.

   NOT modelled: the CONTENT of to_dict/from_dict of the registered classes
   (serialize_deserialize_C of DESIGN.md): covered end to end by the searcher
   only; the three meta entries save() adds; class de-serialisation.

   Fault paths (last section): Model/SimToFile.v models the serialisation ENTRY
   POINTS of a Simulation (to_dict / copy / to_file / emg3d.save with the
   simulation as a member), the transient attribute through which to_file hands
   its `what` to to_dict, and every stage at which io.save can RAISE.  Theorems:
   after any history of successful and failed calls the attribute is absent and
   every call stores what its OWN `what` says (default 'computed').  The code
   before commit e6d5394 (no try/finally in to_file) is kept as the variant
   [fixed = false] with *_refuted theorems. *)
From Coq Require Import ZArith List Bool Ascii String.
From V Require Import Model.Codec Proofs.Codec Proofs.CodecTables Gen.C17Keys.
From V Require Import Model.SimToFile Proofs.SimToFile.
Import ListNotations.
Local Open Scope string_scope.

(* ---------------------------------------------------------------- npz codec *)
Theorem unflatten_flatten kvs :
  wf_flat (VDict kvs) -> unflatten (flatten (VDict kvs)) = Some kvs.
Proof. exact (unflatten_flatten_l kvs). Qed.
Print Assumptions unflatten_flatten.

(* without the leaf condition: identity up to str(numpy-str-array) *)
Theorem unflatten_flatten_any_leaves Pl kvs :
  wfd npz_item_ok Pl (VDict kvs) ->
  unflatten (flatten (VDict kvs)) = Some (map (on_snd (map_leaves unconv)) kvs).
Proof. exact (unflatten_flatten_gen Pl kvs). Qed.
Print Assumptions unflatten_flatten_any_leaves.

Definition ex_tree : val :=
  VDict [("grid", VDict [("hx", VArr DF64 [2]%nat [NF (FFin 1 1); NF (FFin 5 2)]);
                         ("__class__", VStr "TensorMesh")]);
         ("survey", VDict [("sources", VDict [("TxED-1", VDict [("strength", VCplx (FFin 2 1) (FFin 1 1))])]);
                           ("name", VNone)]);
         ("n", VInt 3)].
Example unflatten_flatten_nonvacuous :
  wf_flat ex_tree /\ unflatten (flatten ex_tree) = Some (dict_items ex_tree) /\
  List.length (flatten ex_tree) = 5%nat.
Proof.
  split; [|split; reflexivity].
  simpl; repeat split; repeat constructor; simpl; intuition discriminate.
Qed.
Print Assumptions unflatten_flatten_nonvacuous.

(* the precise exception: an empty sub-dict leaves no trace in the flat dict *)
Theorem empty_dict_lost l1 k l2 :
  flatten (VDict (l1 ++ (k, VDict []) :: l2)) = flatten (VDict (l1 ++ l2)).
Proof. exact (empty_dict_lost_l l1 k l2). Qed.
Print Assumptions empty_dict_lost.

Example sep_in_key_splits :
  unflatten (flatten (VDict [("a>b", VInt 1)])) = Some [("a", VDict [("b", VInt 1)])] /\
  unflatten (flatten (VDict [("a", VInt 1); ("a>b", VInt 2)])) = None /\
  unflatten (flatten (VDict [("a", VDict [("b", VInt 2)]); ("a>b", VInt 1)]))
    = Some [("a", VDict [("b", VInt 1)])].
Proof. repeat split; reflexivity. Qed.
Print Assumptions sep_in_key_splits.

(* --------------------------------------------------------------- json codec *)
Theorem json_dec_enc d :
  wfj d -> is_dict d = true ->
  jsonable (jenc d) = true /\ jdec (jenc d) = Some (map_leaves normj d).
Proof. exact (json_main d). Qed.
Print Assumptions json_dec_enc.

(* strict form: on trees whose leaves the codec maps to themselves *)
Theorem json_dec_enc_strict d :
  wfj d -> is_dict d = true -> wfd (fun _ _ => True) (fun x => normj x = x) d ->
  jdec (jenc d) = Some d.
Proof.
  intros Hw Hd Hf. destruct (json_main d Hw Hd) as [_ ->].
  f_equal. exact (map_leaves_fixed normj d normj_not_dict Hf).
Qed.
Print Assumptions json_dec_enc_strict.

Definition ex_json : val :=
  VDict [("data", VArr DC128 [2]%nat [NC FNaN FNaN; NC (FFin 1 2) (FFin (-3) 1)]);
         ("f-1", VNps DF64 (NF (FFin 2 1)));
         ("sub", VDict [("hx", VArr DF32 [2; 1]%nat [NF (FFin 1 1); NF FPInf]);
                        ("i", VArr DI8 []%nat [NI (-128)])])].
Example json_dec_enc_nonvacuous :
  jdec (jenc ex_json) = Some (map_leaves normj ex_json) /\
  key_all_okb "data" = true /\ key_all_okb "property_x" = true /\ key_all_okb "__class__" = true.
Proof. repeat split; vm_compute; reflexivity. Qed.
Print Assumptions json_dec_enc_nonvacuous.

(* the decidable key guard implies the propositional one *)
Theorem key_guard_decidable k : key_all_okb k = true -> key_all_ok k.
Proof. exact (key_all_okb_sound k). Qed.
Print Assumptions key_guard_decidable.

(* FINITE TABLE (bound stated): for every key over {'_','a','-','>'} of length
   <= 4, and every concatenation of <= 3 tokens from
   {"_","a","__array","__complex","-float64","/","."}, the key guard of all
   three formats holds exactly for the keys that are non-empty, not ".",
   without '>' and '/', without "__array"/"__complex", and that end in an EVEN
   number of underscores.  (Keys ending in an odd number of '_' holding an
   array cannot be loaded from JSON: see json_underscore_key_rejected.) *)
(* key_alpha = ['_';'a';'-';'>'], key_tokens and twords (the token words) are defined next to the
   compiled decision in Proofs/CodecTables.v (evaluated once per build, not on every run). *)
Theorem key_guard_syntactic_bounded :
  forallb (fun k => Bool.eqb (key_all_okb k) (simple_keyb k)) (words key_alpha 4 ++ twords 3) = true.
Proof. exact key_guard_table. Qed.
Print Assumptions key_guard_syntactic_bounded.

(* Gen/C17Keys.v is rewritten on every run from the to_dict methods of the
   registered classes: every key they emit (attribute names, auto-generated
   source/receiver/frequency names, data-set names) satisfies the key guard of
   all three formats. *)
Theorem emg3d_keys_carried :
  forallb key_all_okb emg3d_keys = true /\ (60 <=? List.length emg3d_keys)%nat = true.
Proof. split; vm_compute; reflexivity. Qed.
Print Assumptions emg3d_keys_carried.

Example json_underscore_key_rejected :
  jdec (jenc (VDict [("x_", VArr DF64 [1]%nat [NF (FFin 1 1)])])) = None /\
  jdec (jenc (VDict [("x__", VArr DF64 [1]%nat [NF (FFin 1 1)])]))
    = Some (VDict [("x__", VArr DF64 [1]%nat [NF (FFin 1 1)])]).
Proof. split; vm_compute; reflexivity. Qed.
Print Assumptions json_underscore_key_rejected.

Example json_shape_lost :
  jdec (jenc (VDict [("e", VArr DF64 [0; 3]%nat [])])) = Some (VDict [("e", VArr DF64 [0]%nat [])]).
Proof. vm_compute. reflexivity. Qed.
Print Assumptions json_shape_lost.

Example json_nonfinite_imag_lost :
  jdec (jenc (VDict [("z", VCplx (FFin 1 1) FPInf)])) = Some (VDict [("z", VNps DC128 (NC FNaN FPInf))]).
Proof. vm_compute. reflexivity. Qed.
Print Assumptions json_nonfinite_imag_lost.

(* ------------------------------------------------------------- None marker *)
Theorem none_marker_roundtrip d :
  clean d -> (nn (ser d) = Some d <-> no_marker d).
Proof. exact (none_marker_roundtrip_l d). Qed.
Print Assumptions none_marker_roundtrip.

Example none_marker_nonvacuous :
  clean ex_tree /\ no_marker ex_tree /\ nn (ser ex_tree) = Some ex_tree /\
  nn (ser (VDict [("k", VStr "NoneType")])) = Some (VDict [("k", VNone)]).
Proof.
  split; [|split; [|split; reflexivity]];
    simpl; repeat split; repeat constructor; simpl; try intuition discriminate.
Qed.
Print Assumptions none_marker_nonvacuous.

Theorem bool_array_load_rejected k sh a b t rest :
  nn (VDict ((k, VArr DBool sh (a :: b :: t)) :: rest)) = None.
Proof. exact (bool_array_rejected k sh a b t rest). Qed.
Print Assumptions bool_array_load_rejected.

(* --------------------------------------------- complete save;load pipelines *)
Section Stores.
  Variable npz_leaf : val -> option val.
  Variable h5_leaf : val -> option val.
  Variable json_text : val -> option val.
  (* store contracts: on the values that reach them (after _dict_serialize:
     bool, int within 64 bits, float, complex, str, numpy scalars, arrays)
     np.savez/np.load and h5py return what the concrete instances of
     Model/Codec.v say; json.load(json.dump(v)) = v on jsonable v *)
  Hypothesis npz_contract : forall v, storable v -> npz_leaf v = npz_leaf_c v.
  Hypothesis h5_contract : forall v, storable v -> h5_leaf v = h5_leaf_c v.
  Hypothesis json_contract : forall v, jsonable v = true -> json_text v = Some v.

  Theorem npz_roundtrip kvs : wf_npz (VDict kvs) ->
    save_load_npz npz_leaf (VDict kvs) = Some (map_leaves norm_npz (VDict kvs)).
  Proof. exact (npz_roundtrip_l npz_leaf npz_contract kvs). Qed.

  (* the root group is not order-tracked: keys come back sorted *)
  Theorem h5_roundtrip kvs : wf_h5 (VDict kvs) ->
    save_load_h5 h5_leaf (VDict kvs) = Some (map_leaves norm_h5 (VDict (sort_keys kvs))).
  Proof. exact (h5_roundtrip_l h5_leaf h5_contract kvs). Qed.

  Theorem json_roundtrip kvs : wf_json (VDict kvs) ->
    save_load_json json_text (VDict kvs) = Some (map_leaves norm_json (VDict kvs)).
  Proof. exact (json_roundtrip_l json_text json_contract kvs). Qed.
End Stores.
Print Assumptions npz_roundtrip.
Print Assumptions h5_roundtrip.
Print Assumptions json_roundtrip.

(* the sorted root is the same Python dict *)
Theorem sorted_root_same_dict (l : dict) k :
  NoDup (map fst l) -> lookup k (sort_keys l) = lookup k l.
Proof. exact (sort_keys_lookup l k). Qed.
Print Assumptions sorted_root_same_dict.

(* ---------------------------------------------------------------- convert *)
(* all nine ordered pairs (f1, f2), with the concrete stores *)
Theorem save_load_all f kvs :
  wf_all (VDict kvs) -> save_load f (VDict kvs) = Some (loaded f kvs).
Proof. exact (save_load_ok f kvs). Qed.
Print Assumptions save_load_all.

Theorem convert_preserves f1 f2 kvs :
  wf_conv (VDict kvs) ->
  exists r,
    convert_load f1 f2 (VDict kvs) = Some r /\
    (* exactly what loading the second file gives *)
    r = loaded f2 (dict_items (loaded f1 kvs)) /\
    (* and its content (values; dtype+shape of arrays; dict structure and
       order, the root re-sorted by every h5 hop) is the content of the input *)
    map_leaves absv r = map_leaves absv (VDict (root_of f2 (root_of f1 kvs))).
Proof.
  intros Hw. eexists. split; [|split; [reflexivity|]].
  - exact (convert_ok f1 f2 kvs (wf_conv_all _ Hw)).
  - exact (convert_content f1 f2 kvs Hw).
Qed.
Print Assumptions convert_preserves.

Theorem load_preserves_content f kvs :
  wf_conv (VDict kvs) ->
  save_load f (VDict kvs) = Some (loaded f kvs) /\
  map_leaves absv (loaded f kvs) = map_leaves absv (VDict (root_of f kvs)).
Proof.
  intros Hw. split.
  - exact (save_load_ok f kvs (wf_conv_all _ Hw)).
  - exact (proj1 (content_preserved f kvs Hw)).
Qed.
Print Assumptions load_preserves_content.

Definition ex_all : val :=
  VDict [("model", VDict [("property_x", VArr DF64 [2; 1]%nat [NF (FFin 1 1); NF (FFin 3 2)]);
                          ("property_y", VNone); ("mapping", VStr "Conductivity")]);
         ("data", VArr DC128 [2]%nat [NC FNaN FNaN; NC (FFin 1 2) (FFin (-3) 1)]);
         ("strength", VCplx (FFin 2 1) (FFin 1 1)); ("f-1", VNps DF64 (NF (FFin 2 1)));
         ("n", VInt 3); ("ok", VBool true)].
Ltac wf_example :=
  simpl;
  repeat match goal with
  | |- _ /\ _ => split
  | |- item_all_ok _ _ => unfold item_all_ok; simpl
  | H : S _ = 0%nat |- _ => discriminate H
  | H : not_dict (VDict _) |- _ => discriminate H
  | |- key_all_ok _ => apply key_all_okb_sound; vm_compute; reflexivity
  | |- NoDup _ => repeat constructor; simpl; intuition discriminate
  | |- _ <> _ => discriminate
  | |- True => exact I
  | |- _ -> _ => intro
  | |- Forall _ _ => repeat constructor
  | |- cfix _ => reflexivity
  | |- typed _ _ => reflexivity
  | |- nps_ok _ _ => reflexivity
  | |- int_ok _ => reflexivity
  | |- _ = _ => reflexivity
  end.
Example convert_hypothesis_satisfiable : wf_conv ex_all /\ wf_all ex_json.
Proof. split; [unfold wf_conv, ex_all|unfold wf_all, ex_json]; wf_example. Qed.
Print Assumptions convert_hypothesis_satisfiable.

Example convert_nonvacuous :
  forallb (fun k => key_all_okb k)
          ["model"; "property_x"; "property_y"; "mapping"; "data"; "strength"; "f-1"; "n"; "ok"] = true /\
  forallb (fun p => match convert_load (fst p) (snd p) ex_all with
                    | Some r => match map_leaves absv r, map_leaves absv ex_all with
                                | VDict a, VDict b =>
                                    forallb (fun kv => match lookup (fst kv) a with
                                                       | Some _ => true | None => false end) b
                                | _, _ => false
                                end
                    | None => false
                    end)
          [(H5, NPZ); (H5, JSON); (NPZ, H5); (NPZ, JSON); (JSON, H5); (JSON, NPZ)] = true.
Proof. split; vm_compute; reflexivity. Qed.
Print Assumptions convert_nonvacuous.

(* ------------------------------------------------- fault paths (Simulation) *)
(* Model/SimToFile.v.  [run fixed ext_first None ops]: (outcome, transient attribute afterwards)
   of every operation of the history [ops] on a fresh simulation; operations: to_dict/copy with
   any `what` (valid or not), emg3d.save with any members (the simulation any number of times,
   members whose serialisation raises) failing at any stage (call binding, serialisation,
   extension, writer), Simulation.to_file with any `what`, members, name and failing stage.
   [fixed = true]: Simulation.to_file of /repo (try/finally, commit e6d5394);
   [ext_first]: io.save checks the extension after (false: /repo) or before serialising --
   the theorems hold for BOTH, i.e. they do not depend on where io.save raises. *)

(* after ANY history of successful and failed operations the transient attribute is absent *)
Theorem flag_absent_after_any_history ext_first ops :
  exec true ext_first None ops = None /\
  Forall (fun r => snd r = None) (run true ext_first None ops).
Proof. exact (conj (exec_fixed_clean ext_first ops) (run_fixed_flags ext_first ops)). Qed.
Print Assumptions flag_absent_after_any_history.

(* ... and every operation of the history does what the same call does on a fresh simulation:
   its outcome depends on its own arguments only *)
Theorem outcomes_history_independent ext_first ops :
  map fst (run true ext_first None ops) = map (spec ext_first) ops.
Proof. exact (run_fixed_outcomes ext_first ops). Qed.
Print Assumptions outcomes_history_independent.

(* what that is, per kind of call, after any history [pre]:
   to_dict(w) / copy(w) use w (an unknown `what` raises) ... *)
Theorem to_dict_uses_own_what ext_first pre w :
  step true ext_first (exec true ext_first None pre) (OToDict w)
  = (None, match w with W x => Done [x] | WBad => Raised end).
Proof. exact (after_history_to_dict ext_first pre w). Qed.
Print Assumptions to_dict_uses_own_what.

(* ... emg3d.save stores every occurrence of the simulation with the default 'computed'
   (or raises, at the stage given by the call itself) ... *)
Theorem save_uses_default_what ext_first pre c :
  step true ext_first (exec true ext_first None pre) (OSave c) = (None, save_spec ext_first c) /\
  (kw_ok c = true -> ext_ok c = true -> write_ok c = true -> existsb is_bad (members c) = false ->
   save_spec ext_first c = Done (map (fun _ => Computed) (filter is_self (members c)))).
Proof.
  split; [exact (after_history_save ext_first pre c)|].
  intros Hk He Hw Hb. unfold save_spec, clean_levels. rewrite Hk, He, Hw, Hb.
  destruct ext_first; reflexivity.
Qed.
Print Assumptions save_uses_default_what.

(* ... and to_file(what=w) stores the simulation with w *)
Theorem to_file_uses_own_what ext_first pre t :
  existsb is_self (tf_user t) = false -> existsb is_bad (tf_user t) = false ->
  tf_name t = NFresh -> tf_ext_ok t = true -> tf_write_ok t = true ->
  step true ext_first (exec true ext_first None pre) (OToFile t)
  = (None, match tf_what t with W x => Done [x] | WBad => Raised end).
Proof. exact (after_history_to_file ext_first pre t). Qed.
Print Assumptions to_file_uses_own_what.

(* the try/finally itself: whatever io.save is and does (any implementation [sv], any state
   before, any outcome), to_file leaves no transient attribute behind *)
Theorem failed_to_file_leaves_nothing sv s t : fst (to_file_gen sv true s t) = None.
Proof. exact (to_file_gen_fixed_flag sv s t). Qed.
Print Assumptions failed_to_file_leaves_nothing.

(* non-vacuity: a history with successes and failures of every stage *)
Definition ex_history : list op :=
  [ OToFile (mk_tofile (W Plain) [MGood] NFresh false true);           (* unknown extension *)
    OSave (mk_save true [MSelf] true true);                            (* emg3d.save(f, sim=sim) *)
    OToFile (mk_tofile (W Results) [MBad] NFresh true true);           (* a member cannot be serialised *)
    OToDict (W Computed);
    OToFile (mk_tofile (W Plain) [] NNonStr true true);                (* name is not a str *)
    OToFile (mk_tofile WBad [] NFresh true true);                      (* unknown `what` *)
    OToFile (mk_tofile (W Plain) [MGood] NFresh true false);           (* writer fails *)
    OSave (mk_save true [MGood; MSelf; MSelf] true true);
    OToFile (mk_tofile (W Results) [MGood] NFresh true true);
    OToDict WBad; OToDict (W All) ].
Example fault_history_nonvacuous :
  render_run (run true false None ex_history)
  = "X-;D[F]-;X-;D[F]-;X-;X-;X-;D[F,F]-;D[R]-;X-;D[F]-"%string /\
  run true true None ex_history = run true false None ex_history.
Proof. split; vm_compute; reflexivity. Qed.
Print Assumptions fault_history_nonvacuous.

(* THE CODE BEFORE e6d5394 ([fixed = false]; io.save as in /repo): a to_file that raises before
   io.save reaches Simulation.to_dict (another member cannot be serialised; `name` is not a str)
   leaves the attribute behind, and the NEXT to_dict / copy / save of that simulation silently
   uses the stale `what`: a fully computed simulation is stored without fields and data. *)
Theorem unfixed_to_file_stale_what_refuted :
  exists ops,
    map fst (run false false None ops) <> map (spec false) ops /\
    (exists r, In r (run false false None ops) /\ snd r <> None) /\
    (* concretely: to_file(what='plain', extra=<unserialisable>) raises; copy() is then 'plain' *)
    run false false None ops = [(Raised, Some (W Plain)); (Done [Plain], None)].
Proof.
  exists [OToFile (mk_tofile (W Plain) [MBad] NFresh true true); OToDict (W Computed)].
  split; [vm_compute; discriminate|].
  split; [exists (Raised, Some (W Plain)); split; [left; reflexivity|discriminate]|].
  vm_compute. reflexivity.
Qed.
Print Assumptions unfixed_to_file_stale_what_refuted.

(* the same code with an io.save that validates the extension first (seeded change C17-6): every
   mistyped extension leaks; with the try/finally the change is harmless (theorems above hold for
   both values of ext_first) *)
Theorem unfixed_ext_first_stale_what_refuted :
  run false true None
    [OToFile (mk_tofile (W Plain) [] NFresh false true); OSave (mk_save true [MSelf] true true)]
  = [(Raised, Some (W Plain)); (Done [Plain], None)] /\
  run false false None
    [OToFile (mk_tofile (W Plain) [] NFresh false true); OSave (mk_save true [MSelf] true true)]
  = [(Raised, None); (Done [Computed], None)].
Proof. split; vm_compute; reflexivity. Qed.
Print Assumptions unfixed_ext_first_stale_what_refuted.

(* why it went unnoticed: without a failing member, with a proper name and the extension checked
   after serialising, the unfixed to_file always reached Simulation.to_dict *)
Theorem unfixed_clean_when_to_dict_reached s t :
  tf_name t = NFresh -> existsb is_bad (tf_user t) = false ->
  fst (to_file false false s t) = None.
Proof. exact (to_file_unfixed_clean_when_reached s t). Qed.
Print Assumptions unfixed_clean_when_to_dict_reached.
