(* Props/C17.v -- property C17: save and load round-trip every emg3d object
   in every file format; converting between formats preserves the content.

   ONLY statements, each closed by [exact] of a lemma of Proofs/Codec.v (or by
   vm_compute for the closed examples and the stated finite tables), each
   followed by Print Assumptions.

   The model (Model/Codec.v) is a hand model of emg3d/io.py; it is tied to the
   current source by the correspondence of py/props/c17.py on every run.
   Values are arbitrary trees (any nesting depth, any sizes); all theorems are
   by structural induction.

   Guards.  [wfd Pk Pl d]: every dict in d has distinct keys, every item
   satisfies Pk, every non-dict value satisfies Pl.
     wf_flat  : no key contains '>', no sub-dict is empty      (npz codec)
     wfj      : keys survive the __complex/__array-<dtype> tags (see
                key_plain_ok / key_arr_ok / key_carr_ok), arrays have
                length = prod shape, no zero-length axis except the last,
                elements representable in the dtype            (json codec)
     clean / no_marker : no numpy-bool values / no str equal to "NoneType"
     wf_npz, wf_h5, wf_json : the guards of the complete save;load pipelines
     wf_all   : the conjunction (used for convert)
     wf_conv  : wf_all + every complex value has a finite imaginary part or
                a NaN real part (a + 1j*b reproduces it)
   What is lost outside the guards is stated by the *_lost / *_rejected /
   marker_* theorems and replayed on the implementation by the malformed
   stream of the correspondence.

   NOT modelled: the to_dict/from_dict of the registered classes
   (serialize_deserialize_C of DESIGN.md): covered end to end by the searcher
   only; the three meta entries save() adds; class de-serialisation. *)
From Coq Require Import ZArith List Bool Ascii String.
From V Require Import Model.Codec Proofs.Codec Gen.C17Keys.
Import ListNotations.
Local Open Scope string_scope.

(* ---------------------------------------------------------------- npz codec *)
Theorem unflatten_flatten kvs :
  wf_flat (VDict kvs) -> unflatten (flatten (VDict kvs)) = Some kvs.
Proof. exact (unflatten_flatten_l kvs). Qed.
Print Assumptions unflatten_flatten.

(* without the leaf condition: identity up to str(numpy-str-array) *)
Theorem unflatten_flatten_any_leaves Pl kvs :
  wfd npz_item_ok Pl (VDict kvs) ->
  unflatten (flatten (VDict kvs)) = Some (map (on_snd (map_leaves unconv)) kvs).
Proof. exact (unflatten_flatten_gen Pl kvs). Qed.
Print Assumptions unflatten_flatten_any_leaves.

Definition ex_tree : val :=
  VDict [("grid", VDict [("hx", VArr DF64 [2]%nat [NF (FFin 1 1); NF (FFin 5 2)]);
                         ("__class__", VStr "TensorMesh")]);
         ("survey", VDict [("sources", VDict [("TxED-1", VDict [("strength", VCplx (FFin 2 1) (FFin 1 1))])]);
                           ("name", VNone)]);
         ("n", VInt 3)].
Example unflatten_flatten_nonvacuous :
  wf_flat ex_tree /\ unflatten (flatten ex_tree) = Some (dict_items ex_tree) /\
  List.length (flatten ex_tree) = 5%nat.
Proof.
  split; [|split; reflexivity].
  simpl; repeat split; repeat constructor; simpl; intuition discriminate.
Qed.
Print Assumptions unflatten_flatten_nonvacuous.

(* the precise exception: an empty sub-dict leaves no trace in the flat dict *)
Theorem empty_dict_lost l1 k l2 :
  flatten (VDict (l1 ++ (k, VDict []) :: l2)) = flatten (VDict (l1 ++ l2)).
Proof. exact (empty_dict_lost_l l1 k l2). Qed.
Print Assumptions empty_dict_lost.

Example sep_in_key_splits :
  unflatten (flatten (VDict [("a>b", VInt 1)])) = Some [("a", VDict [("b", VInt 1)])] /\
  unflatten (flatten (VDict [("a", VInt 1); ("a>b", VInt 2)])) = None /\
  unflatten (flatten (VDict [("a", VDict [("b", VInt 2)]); ("a>b", VInt 1)]))
    = Some [("a", VDict [("b", VInt 1)])].
Proof. repeat split; reflexivity. Qed.
Print Assumptions sep_in_key_splits.

(* --------------------------------------------------------------- json codec *)
Theorem json_dec_enc d :
  wfj d -> is_dict d = true ->
  jsonable (jenc d) = true /\ jdec (jenc d) = Some (map_leaves normj d).
Proof. exact (json_main d). Qed.
Print Assumptions json_dec_enc.

(* strict form: on trees whose leaves the codec maps to themselves *)
Theorem json_dec_enc_strict d :
  wfj d -> is_dict d = true -> wfd (fun _ _ => True) (fun x => normj x = x) d ->
  jdec (jenc d) = Some d.
Proof.
  intros Hw Hd Hf. destruct (json_main d Hw Hd) as [_ ->].
  f_equal. exact (map_leaves_fixed normj d normj_not_dict Hf).
Qed.
Print Assumptions json_dec_enc_strict.

Definition ex_json : val :=
  VDict [("data", VArr DC128 [2]%nat [NC FNaN FNaN; NC (FFin 1 2) (FFin (-3) 1)]);
         ("f-1", VNps DF64 (NF (FFin 2 1)));
         ("sub", VDict [("hx", VArr DF32 [2; 1]%nat [NF (FFin 1 1); NF FPInf]);
                        ("i", VArr DI8 []%nat [NI (-128)])])].
Example json_dec_enc_nonvacuous :
  jdec (jenc ex_json) = Some (map_leaves normj ex_json) /\
  key_all_okb "data" = true /\ key_all_okb "property_x" = true /\ key_all_okb "__class__" = true.
Proof. repeat split; vm_compute; reflexivity. Qed.
Print Assumptions json_dec_enc_nonvacuous.

(* the decidable key guard implies the propositional one *)
Theorem key_guard_decidable k : key_all_okb k = true -> key_all_ok k.
Proof. exact (key_all_okb_sound k). Qed.
Print Assumptions key_guard_decidable.

(* FINITE TABLE (bound stated): for every key over {'_','a','-','>'} of length
   <= 4, and every concatenation of <= 3 tokens from
   {"_","a","__array","__complex","-float64","/","."}, the key guard of all
   three formats holds exactly for the keys that are non-empty, not ".",
   without '>' and '/', without "__array"/"__complex", and that end in an EVEN
   number of underscores.  (Keys ending in an odd number of '_' holding an
   array cannot be loaded from JSON: see json_underscore_key_rejected.) *)
Definition key_alpha : list ascii := ["_"; "a"; "-"; ">"]%char.
Definition key_tokens : list string := ["_"; "a"; "__array"; "__complex"; "-float64"; "/"; "."].
Fixpoint twords (n : nat) : list string :=
  match n with
  | O => [EmptyString]
  | S n' => EmptyString :: flat_map (fun w => map (fun t => t ++ w) key_tokens) (twords n')
  end.
Theorem key_guard_syntactic_bounded :
  forallb (fun k => Bool.eqb (key_all_okb k) (simple_keyb k)) (words key_alpha 4 ++ twords 3) = true.
Proof. vm_compute. reflexivity. Qed.
Print Assumptions key_guard_syntactic_bounded.

(* Gen/C17Keys.v is rewritten on every run from the to_dict methods of the
   registered classes: every key they emit (attribute names, auto-generated
   source/receiver/frequency names, data-set names) satisfies the key guard of
   all three formats. *)
Theorem emg3d_keys_carried :
  forallb key_all_okb emg3d_keys = true /\ (60 <=? List.length emg3d_keys)%nat = true.
Proof. split; vm_compute; reflexivity. Qed.
Print Assumptions emg3d_keys_carried.

Example json_underscore_key_rejected :
  jdec (jenc (VDict [("x_", VArr DF64 [1]%nat [NF (FFin 1 1)])])) = None /\
  jdec (jenc (VDict [("x__", VArr DF64 [1]%nat [NF (FFin 1 1)])]))
    = Some (VDict [("x__", VArr DF64 [1]%nat [NF (FFin 1 1)])]).
Proof. split; vm_compute; reflexivity. Qed.
Print Assumptions json_underscore_key_rejected.

Example json_shape_lost :
  jdec (jenc (VDict [("e", VArr DF64 [0; 3]%nat [])])) = Some (VDict [("e", VArr DF64 [0]%nat [])]).
Proof. vm_compute. reflexivity. Qed.
Print Assumptions json_shape_lost.

Example json_nonfinite_imag_lost :
  jdec (jenc (VDict [("z", VCplx (FFin 1 1) FPInf)])) = Some (VDict [("z", VNps DC128 (NC FNaN FPInf))]).
Proof. vm_compute. reflexivity. Qed.
Print Assumptions json_nonfinite_imag_lost.

(* ------------------------------------------------------------- None marker *)
Theorem none_marker_roundtrip d :
  clean d -> (nn (ser d) = Some d <-> no_marker d).
Proof. exact (none_marker_roundtrip_l d). Qed.
Print Assumptions none_marker_roundtrip.

Example none_marker_nonvacuous :
  clean ex_tree /\ no_marker ex_tree /\ nn (ser ex_tree) = Some ex_tree /\
  nn (ser (VDict [("k", VStr "NoneType")])) = Some (VDict [("k", VNone)]).
Proof.
  split; [|split; [|split; reflexivity]];
    simpl; repeat split; repeat constructor; simpl; try intuition discriminate.
Qed.
Print Assumptions none_marker_nonvacuous.

Theorem bool_array_load_rejected k sh a b t rest :
  nn (VDict ((k, VArr DBool sh (a :: b :: t)) :: rest)) = None.
Proof. exact (bool_array_rejected k sh a b t rest). Qed.
Print Assumptions bool_array_load_rejected.

(* --------------------------------------------- complete save;load pipelines *)
Section Stores.
  Variable npz_leaf : val -> option val.
  Variable h5_leaf : val -> option val.
  Variable json_text : val -> option val.
  (* store contracts: on the values that reach them (after _dict_serialize:
     bool, int within 64 bits, float, complex, str, numpy scalars, arrays)
     np.savez/np.load and h5py return what the concrete instances of
     Model/Codec.v say; json.load(json.dump(v)) = v on jsonable v *)
  Hypothesis npz_contract : forall v, storable v -> npz_leaf v = npz_leaf_c v.
  Hypothesis h5_contract : forall v, storable v -> h5_leaf v = h5_leaf_c v.
  Hypothesis json_contract : forall v, jsonable v = true -> json_text v = Some v.

  Theorem npz_roundtrip kvs : wf_npz (VDict kvs) ->
    save_load_npz npz_leaf (VDict kvs) = Some (map_leaves norm_npz (VDict kvs)).
  Proof. exact (npz_roundtrip_l npz_leaf npz_contract kvs). Qed.

  (* the root group is not order-tracked: keys come back sorted *)
  Theorem h5_roundtrip kvs : wf_h5 (VDict kvs) ->
    save_load_h5 h5_leaf (VDict kvs) = Some (map_leaves norm_h5 (VDict (sort_keys kvs))).
  Proof. exact (h5_roundtrip_l h5_leaf h5_contract kvs). Qed.

  Theorem json_roundtrip kvs : wf_json (VDict kvs) ->
    save_load_json json_text (VDict kvs) = Some (map_leaves norm_json (VDict kvs)).
  Proof. exact (json_roundtrip_l json_text json_contract kvs). Qed.
End Stores.
Print Assumptions npz_roundtrip.
Print Assumptions h5_roundtrip.
Print Assumptions json_roundtrip.

(* the sorted root is the same Python dict *)
Theorem sorted_root_same_dict (l : dict) k :
  NoDup (map fst l) -> lookup k (sort_keys l) = lookup k l.
Proof. exact (sort_keys_lookup l k). Qed.
Print Assumptions sorted_root_same_dict.

(* ---------------------------------------------------------------- convert *)
(* all nine ordered pairs (f1, f2), with the concrete stores *)
Theorem save_load_all f kvs :
  wf_all (VDict kvs) -> save_load f (VDict kvs) = Some (loaded f kvs).
Proof. exact (save_load_ok f kvs). Qed.
Print Assumptions save_load_all.

Theorem convert_preserves f1 f2 kvs :
  wf_conv (VDict kvs) ->
  exists r,
    convert_load f1 f2 (VDict kvs) = Some r /\
    (* exactly what loading the second file gives *)
    r = loaded f2 (dict_items (loaded f1 kvs)) /\
    (* and its content (values; dtype+shape of arrays; dict structure and
       order, the root re-sorted by every h5 hop) is the content of the input *)
    map_leaves absv r = map_leaves absv (VDict (root_of f2 (root_of f1 kvs))).
Proof.
  intros Hw. eexists. split; [|split; [reflexivity|]].
  - exact (convert_ok f1 f2 kvs (wf_conv_all _ Hw)).
  - exact (convert_content f1 f2 kvs Hw).
Qed.
Print Assumptions convert_preserves.

Theorem load_preserves_content f kvs :
  wf_conv (VDict kvs) ->
  save_load f (VDict kvs) = Some (loaded f kvs) /\
  map_leaves absv (loaded f kvs) = map_leaves absv (VDict (root_of f kvs)).
Proof.
  intros Hw. split.
  - exact (save_load_ok f kvs (wf_conv_all _ Hw)).
  - exact (proj1 (content_preserved f kvs Hw)).
Qed.
Print Assumptions load_preserves_content.

Definition ex_all : val :=
  VDict [("model", VDict [("property_x", VArr DF64 [2; 1]%nat [NF (FFin 1 1); NF (FFin 3 2)]);
                          ("property_y", VNone); ("mapping", VStr "Conductivity")]);
         ("data", VArr DC128 [2]%nat [NC FNaN FNaN; NC (FFin 1 2) (FFin (-3) 1)]);
         ("strength", VCplx (FFin 2 1) (FFin 1 1)); ("f-1", VNps DF64 (NF (FFin 2 1)));
         ("n", VInt 3); ("ok", VBool true)].
Ltac wf_example :=
  simpl;
  repeat match goal with
  | |- _ /\ _ => split
  | |- item_all_ok _ _ => unfold item_all_ok; simpl
  | H : S _ = 0%nat |- _ => discriminate H
  | H : not_dict (VDict _) |- _ => discriminate H
  | |- key_all_ok _ => apply key_all_okb_sound; vm_compute; reflexivity
  | |- NoDup _ => repeat constructor; simpl; intuition discriminate
  | |- _ <> _ => discriminate
  | |- True => exact I
  | |- _ -> _ => intro
  | |- Forall _ _ => repeat constructor
  | |- cfix _ => reflexivity
  | |- typed _ _ => reflexivity
  | |- nps_ok _ _ => reflexivity
  | |- int_ok _ => reflexivity
  | |- _ = _ => reflexivity
  end.
Example convert_hypothesis_satisfiable : wf_conv ex_all /\ wf_all ex_json.
Proof. split; [unfold wf_conv, ex_all|unfold wf_all, ex_json]; wf_example. Qed.
Print Assumptions convert_hypothesis_satisfiable.

Example convert_nonvacuous :
  forallb (fun k => key_all_okb k)
          ["model"; "property_x"; "property_y"; "mapping"; "data"; "strength"; "f-1"; "n"; "ok"] = true /\
  forallb (fun p => match convert_load (fst p) (snd p) ex_all with
                    | Some r => match map_leaves absv r, map_leaves absv ex_all with
                                | VDict a, VDict b =>
                                    forallb (fun kv => match lookup (fst kv) a with
                                                       | Some _ => true | None => false end) b
                                | _, _ => false
                                end
                    | None => false
                    end)
          [(H5, NPZ); (H5, JSON); (NPZ, H5); (NPZ, JSON); (JSON, H5); (JSON, NPZ)] = true.
Proof. split; vm_compute; reflexivity. Qed.
Print Assumptions convert_nonvacuous.
