(* Props/C01.v -- property C01: reported solver success certifies the returned field.
   ONLY statements, each closed by [exact].

   Gen/SolveCtl.v (terminate_chain, terminate_raises, good_enough, zero_source,
   exit_status_of, krylov_exit_message, abort_code/suffix, and the flags
   zero_branch_inplace, zero_branch_sets_l2, krylov_recomputes_l2,
   supplied_field_pec_zeroed) is regenerated from emg3d/solver.py on every run.
   Model/SolveCtl.v is the hand model of solve()/multigrid() outer loop/krylov() built
   on top; [src_variant] is the behaviour read off the current source.  The model is
   compared with real emg3d.solve runs by py/props/c01.py.

   Oracles (universally quantified): the number type with the code's comparisons
   (ltb = `<`, leb = `<=`), isfinite, mul, resnorm (norm of the residual of a field),
   zero, pec, mg_init, mg_cycle, and the Krylov event trace [tr] (any finite list of
   Callback x / Precond n0 norms / Return x code). *)
From Coq Require Import ZArith String Bool List Lia.
From V Require Import Gen.SolveCtl Model.SolveCtl Proofs.SolveCtl Proofs.SolveCtlSrc
                      Proofs.SolveCtlWitness.
Import ListNotations.
Local Open Scope Z_scope.
Local Open Scope string_scope.

Section C01.
  Variable num : Type.
  Variables (ltb leb : num -> num -> bool) (isfinite : num -> bool)
            (mul : num -> num -> num) (nofZ : Z -> num) (tiny100 nan : num).
  Variable fld : Type.
  Variables (resnorm : fld -> num) (zero : fld) (pec mg_init : fld -> fld)
            (mg_cycle : nat -> fld -> fld).

  Notation SOLVE V := (solve_ctl num ltb leb isfinite mul nofZ tiny100 nan fld resnorm zero pec
                                 mg_init mg_cycle V).
  Notation certified := (certified num ltb leb mul tiny100 fld resnorm zero).
  Notation error_describes := (error_describes num nofZ fld resnorm).
  Notation pec_laws := (pec_laws fld zero pec mg_init mg_cycle).
  Notation krylov_contract := (krylov_contract num leb mul fld resnorm).
  Notation krylov_pec := (krylov_pec num fld pec).

  (* 1. Success certifies the field: for the behaviour of the CURRENT source, every
     field [e] the caller ends up holding (the supplied object after the in-place
     update and/or the returned field) satisfies
       (i)   certified:  multigrid / already-good branch: resnorm e < tol*|s| (strict, as
             _terminate compares); zero-source branch: |s| below the threshold and e = zero;
             Krylov branch: resnorm e <= tol*|s|, under the contract on scipy only;
       (ii)  info['abs_error'] = resnorm e   (0 for the zero-source branch);
       (iii) e is PEC (given the PEC laws of the oracles; Krylov: returned iterates PEC). *)
  Theorem success_certifies c s sup tr r :
    pec_laws ->
    SOLVE src_variant c s sup tr = Done _ _ r ->
    (r_branch _ _ r = BKrylov -> krylov_contract c s tr /\ krylov_pec tr) ->
    r_exit _ _ r = 0 ->
    forall e, In e (held _ _ r) -> certified c s r e /\ error_describes r e /\ pec e = e.
  Proof.
    exact (success_certifies_for num ltb leb isfinite mul nofZ tiny100 nan fld resnorm zero pec
             mg_init mg_cycle src_variant src_inplace src_zl2 src_recompute
             (proj1 src_kmap) (proj2 src_kmap) c s sup tr r).
  Qed.

  (* the Krylov contract is not needed when no sslsolver is configured *)
  Theorem success_certifies_without_krylov c s sup tr r :
    pec_laws -> c_ssl _ c = false ->
    SOLVE src_variant c s sup tr = Done _ _ r -> r_exit _ _ r = 0 ->
    forall e, In e (held _ _ r) -> certified c s r e /\ error_describes r e /\ pec e = e.
  Proof.
    exact (success_without_krylov_for num ltb leb isfinite mul nofZ tiny100 nan fld resnorm zero pec
             mg_init mg_cycle src_variant src_inplace src_zl2 src_recompute
             (proj1 src_kmap) (proj2 src_kmap) c s sup tr r).
  Qed.

  (* 2. Failure is reported: the status is 0 or 1; status 1 comes with a non-empty
     message other than CONVERGED (for multigrid one of DIVERGED / STAGNATED /
     MAX. ITERATION REACHED); consequently (with 1.) a field that misses the tolerance
     is never reported as success. *)
  Theorem failure_is_reported c s sup tr r :
    SOLVE src_variant c s sup tr = Done _ _ r ->
    (r_exit _ _ r = 0 \/ r_exit _ _ r = 1) /\
    (r_exit _ _ r = 1 -> r_msg _ _ r <> MSG_CONV /\ r_msg _ _ r <> "") /\
    (r_branch _ _ r = BMG -> r_exit _ _ r = 1 -> In (r_msg _ _ r) failure_messages).
  Proof.
    exact (failure_is_reported_for num ltb leb isfinite mul nofZ tiny100 nan fld resnorm zero pec
             mg_init mg_cycle src_variant src_recompute (proj1 src_kmap) (proj2 src_kmap) c s sup tr r).
  Qed.

  Theorem tolerance_missed_is_failure c s sup tr r e :
    pec_laws ->
    SOLVE src_variant c s sup tr = Done _ _ r ->
    (r_branch _ _ r = BKrylov -> krylov_contract c s tr /\ krylov_pec tr) ->
    In e (held _ _ r) -> ~ certified c s r e ->
    r_exit _ _ r = 1 /\ r_msg _ _ r <> MSG_CONV /\ r_msg _ _ r <> "".
  Proof.
    exact (tolerance_missed_for num ltb leb isfinite mul nofZ tiny100 nan fld resnorm zero pec
             mg_init mg_cycle src_variant src_inplace src_zl2 src_recompute
             (proj1 src_kmap) (proj2 src_kmap) c s sup tr r e).
  Qed.

  (* 3. The multigrid outer loop ends within maxit fine-grid cycles. *)
  Theorem mg_terminates c refe e0 msg errs :
    1 <= c_maxit _ c -> c_ssl _ c = false ->
    exists e' s', mg_solve num ltb leb isfinite mul nofZ fld resnorm mg_init mg_cycle
                           c refe e0 msg errs = (e', s', true)
                  /\ 1 <= m_it _ s' <= c_maxit _ c.
  Proof.
    exact (mg_terminates_for num ltb leb isfinite mul nofZ fld resnorm mg_init mg_cycle c refe e0 msg errs).
  Qed.

  (* 4. dtype: the result field carries the source's dtype tag; a supplied field with
     another tag is rejected (ValueError). *)
  Theorem dtype_follows_source c s sup tr r :
    SOLVE src_variant c s sup tr = Done _ _ r -> r_complex _ _ r = s_complex _ s.
  Proof.
    exact (dtype_follows_source_for num ltb leb isfinite mul nofZ tiny100 nan fld resnorm zero pec
             mg_init mg_cycle src_variant c s sup tr r).
  Qed.

  Theorem wrong_dtype_is_rejected V c s u tr :
    (negb (c_ssl _ c) && negb (c_cycle _ c))%bool = false -> s_has_freq _ s = true ->
    u_complex _ u <> s_complex _ s ->
    SOLVE V c s (Some u) tr = Err _ _ ErrDtype.
  Proof.
    exact (wrong_dtype_rejected num ltb leb isfinite mul nofZ tiny100 nan fld resnorm zero pec
             mg_init mg_cycle V c s u tr).
  Qed.

  (* 5. The decision of _terminate as regenerated from the source: strict `<` against
     tol*l2_refe decides CONVERGED; reaching maxit always finishes; an abort of the
     Krylov solver is raised only with a DIVERGED / STAGNATED message. *)
  Theorem terminate_converged_iff_below_tol ssl tol refe maxit l2 stag it msg :
    ltb l2 (mul tol refe) = true ->
    tchain num ltb leb isfinite mul nofZ ssl tol refe maxit l2 stag it msg = (MSG_CONV, true, false).
  Proof. exact (tchain_conv num ltb leb isfinite mul nofZ ssl tol refe maxit l2 stag it msg). Qed.

  Theorem terminate_not_below_tol_is_failure tol refe maxit l2 stag it msg :
    ltb l2 (mul tol refe) = false ->
    snd (fst (tchain num ltb leb isfinite mul nofZ false tol refe maxit l2 stag it msg)) = true ->
    In (fst (fst (tchain num ltb leb isfinite mul nofZ false tol refe maxit l2 stag it msg))) failure_messages.
  Proof. exact (tchain_nconv_fin num ltb leb isfinite mul nofZ tol refe maxit l2 stag it msg). Qed.
End C01.
Print Assumptions success_certifies.
Print Assumptions success_certifies_without_krylov.
Print Assumptions failure_is_reported.
Print Assumptions tolerance_missed_is_failure.
Print Assumptions mg_terminates.
Print Assumptions dtype_follows_source.
Print Assumptions wrong_dtype_is_rejected.
Print Assumptions terminate_converged_iff_below_tol.
Print Assumptions terminate_not_below_tol_is_failure.

(* 6. The same theorem for the hand-written repaired variant (independent of the source). *)
Theorem success_certifies_fixed_model :
  forall num ltb leb isfinite mul nofZ tiny100 nan fld resnorm zero pec mg_init mg_cycle c s sup tr r,
    pec_laws fld zero pec mg_init mg_cycle ->
    solve_ctl num ltb leb isfinite mul nofZ tiny100 nan fld resnorm zero pec mg_init mg_cycle
              fixed_variant c s sup tr = Done _ _ r ->
    (r_branch _ _ r = BKrylov -> krylov_contract num leb mul fld resnorm c s tr /\ krylov_pec num fld pec tr) ->
    r_exit _ _ r = 0 ->
    forall e, In e (held _ _ r) ->
      certified num ltb leb mul tiny100 fld resnorm zero c s r e /\
      error_describes num nofZ fld resnorm r e /\ pec e = e.
Proof.
  exact (fun num ltb leb isfinite mul nofZ tiny100 nan fld resnorm zero pec mg_init mg_cycle =>
           success_certifies_for num ltb leb isfinite mul nofZ tiny100 nan fld resnorm zero pec
             mg_init mg_cycle fixed_variant eq_refl eq_refl eq_refl (proj1 fixed_kmap) (proj2 fixed_kmap)).
Qed.
Print Assumptions success_certifies_fixed_model.

(* 7. The UNFIXED variants (behaviour of the pinned commit 6b21621) violate the statement:
   witnesses over numbers = Z, fields = Z, resnorm = |.|, pec = cycles = identity. *)
Theorem success_certifies_refuted_zero_source_supplied_field :
  refuted (w1_run unfixed_zero) w1_c (Wsrc 0) [].
Proof. exact refuted_zero. Qed.
Print Assumptions success_certifies_refuted_zero_source_supplied_field.

Theorem success_certifies_refuted_krylov_stale_error :
  refuted (w2_run unfixed_krylov) w2_c (Wsrc 10) w2_tr.
Proof. exact refuted_krylov. Qed.
Print Assumptions success_certifies_refuted_krylov_stale_error.

Theorem success_certifies_refuted_krylov_negative_code :
  refuted (w3_run unfixed_negcode) w3_c (Wsrc 5) w3_tr.
Proof. exact refuted_negcode. Qed.
Print Assumptions success_certifies_refuted_krylov_negative_code.

Theorem success_certifies_refuted_pinned_commit :
  refuted (w1_run pinned_variant) w1_c (Wsrc 0) [] /\
  refuted (w2_run pinned_variant) w2_c (Wsrc 10) w2_tr /\
  refuted (w3_run pinned_variant) w3_c (Wsrc 5) w3_tr.
Proof. exact refuted_pinned. Qed.
Print Assumptions success_certifies_refuted_pinned_commit.

(* 8. Non-vacuity. *)
Example repaired_model_on_the_three_witnesses :
  (exists r, w1_run fixed_variant = Done _ _ r /\ r_exit _ _ r = 0 /\ held _ _ r = [0] /\ r_l2 _ _ r = 0) /\
  (exists r, w2_run fixed_variant = Done _ _ r /\ r_exit _ _ r = 0 /\ held _ _ r = [3] /\ r_l2 _ _ r = 3) /\
  (exists r, w3_run fixed_variant = Done _ _ r /\ r_exit _ _ r = 1 /\ r_msg _ _ r = "Error in bicgstab (-10)").
Proof. exact fixed_on_witnesses. Qed.
Print Assumptions repaired_model_on_the_three_witnesses.

Example multigrid_branch_converging_and_failing :
  (exists r, W_solve Whalf fixed_variant (Wcfg false true 1 50) (Wsrc 5) (Wsup 64) [] = Done _ _ r /\
             r_branch _ _ r = BMG /\ r_exit _ _ r = 0 /\ r_it _ _ r = 4 /\ held _ _ r = [4] /\ r_l2 _ _ r = 4) /\
  (exists r, W_solve Whalf fixed_variant (Wcfg false true 1 2) (Wsrc 5) (Wsup 64) [] = Done _ _ r /\
             r_exit _ _ r = 1 /\ r_msg _ _ r = MSG_MAXIT /\ r_it _ _ r = 2).
Proof. exact mg_example. Qed.
Print Assumptions multigrid_branch_converging_and_failing.

Example already_good_enough_branch :
  exists r, W_solve Wcyc fixed_variant (Wcfg true true 1 50) (Wsrc 5) (Wsup 3) [] = Done _ _ r /\
            r_branch _ _ r = BGood /\ r_exit _ _ r = 0 /\ held _ _ r = [3] /\ r_l2 _ _ r = 3 /\ r_it _ _ r = 0.
Proof. exact good_example. Qed.
Print Assumptions already_good_enough_branch.
