(* Props/C16.v -- property C16: automatic gridding meets its stated
   postconditions or fails loudly.  ONLY statements, each closed by [exact] of a
   lemma from Proofs/Gridding.v, with Print Assumptions beneath.

   Model/Gridding.v is a hand model of emg3d/meshes.py (good_mg_cell_nr,
   cell_width, _stretch, _seasurface, origin_and_widths, construct_mesh), tied
   to the code by correspondence on every run (py/props/c16.py).  Integers are
   exact; numbers are the reals with exact arithmetic ([gleb] = <=).  Oracles
   ([floorZ], [brentq], [argsort13], [twopi], [skin]) are universally
   quantified: every theorem holds for every behaviour of scipy's root finder,
   numpy's argsort and the square root.

   Status.
   * good_mg_cell_nr: full (exact characterisation, sortedness, ValueError).
   * _stretch: full (stretch_post, stretch_extent).
   * origin_and_widths: FULL over exact arithmetic.  [oaw_post] gives, for every
     input satisfying [input_ok] (positive skin depth of properties[0], positive
     points-per-skin-depth, positive upper width limit, strictly increasing
     node vector, positive stretching factors) and every brentq obeying its
     bracket contract (answer in [0.5, 10], the interval the code hands to
     scipy): permitted cell count, positive widths, coverage of the survey
     domain (widened to the sea surface) and of the computational domain, the
     exact growth factors outside the centre part, and "every node of the centre
     part is a mesh node".  The remaining clauses of C16 are the theorems
     oaw_sea_surface_node_or_warning, oaw_vector_nodes_are_mesh_nodes +
     vector_cut_keeps_domain_nodes, oaw_centre_on_node,
     oaw_centre_on_cell_centre, sea_surface_cells_* (the 1.25 / 1.1 allowance),
     comp_domain_* (what the buffer is), oaw_none_means_error.
     NOT in the model, hence not proved: IEEE rounding (cumsum, **, np.sum are
     exact sums and powers here), np.isclose (modelled by its formula),
     TensorMesh construction.  brentq is an oracle: only its bracket is assumed
     (sea_surface_node_accuracy additionally assumes the root tolerance and then
     bounds the distance of the node from the sea surface).  In the no-vector
     sea-surface branch the squeezed centre width fact*dmin is only shown to be
     positive (not that fact lies in [0.7, 1.3] and the limits).
   * error behaviour: full (oaw_none_means_error, oaw_error_means_none,
     construct_mesh_fails_loudly).
   * routing: full for the documented forms (route_ lemmas). *)
From Coq Require Import Reals ZArith Bool List Arith QArith Sorted.
From V Require Import Base.FieldSig Base.ExecQ Model.Gridding Model.GriddingExec Model.GriddingSession Proofs.Gridding
  Proofs.GriddingSea Proofs.GriddingSession.
Import ListNotations.
Local Open Scope R_scope.

(* ------------------------------------------------------- good_mg_cell_nr *)
(* members are exactly p*2^n <= max_nr, p in {2,3,5,..,19}, p <= max_lowest,
   min_div <= n (< 30: the cap of the code) *)
Theorem good_mg_cell_nr_spec max_nr pl nd l x :
  good_mg_cell_nr max_nr pl nd = Some l ->
  (In x l <-> exists p n, In p lowest_all /\ (p <= pl)%Z /\ (nd <= n < 30)%Z
                          /\ x = (p * 2 ^ n)%Z /\ (x <= max_nr)%Z).
Proof. exact (good_spec max_nr pl nd l x). Qed.
Print Assumptions good_mg_cell_nr_spec.

(* ... and the cap is invisible for max_nr < 2^31 (the unbounded reading) *)
Theorem good_mg_cell_nr_spec_unbounded max_nr pl nd l x :
  (max_nr < 2 ^ 31)%Z ->
  good_mg_cell_nr max_nr pl nd = Some l ->
  (In x l <-> exists p n, In p lowest_all /\ (p <= pl)%Z /\ (nd <= n)%Z
                          /\ x = (p * 2 ^ n)%Z /\ (x <= max_nr)%Z).
Proof. exact (good_spec_unbounded max_nr pl nd l x). Qed.
Print Assumptions good_mg_cell_nr_spec_unbounded.

Theorem good_mg_cell_nr_sorted max_nr pl nd l :
  good_mg_cell_nr max_nr pl nd = Some l -> StronglySorted Z.lt l.
Proof. exact (good_sorted max_nr pl nd l). Qed.
Print Assumptions good_mg_cell_nr_sorted.

(* ValueError exactly for max_lowest > 19 or a negative min_div *)
Theorem good_mg_cell_nr_error max_nr pl nd :
  good_mg_cell_nr max_nr pl nd = None <-> (19 < pl)%Z \/ (nd < 0)%Z.
Proof. exact (good_none max_nr pl nd). Qed.
Print Assumptions good_mg_cell_nr_error.

Example good_default :
  good_mg_cell_nr 1024 5 3
  = Some [16;24;32;40;48;64;80;96;128;160;192;256;320;384;512;640;768;1024]%Z.
Proof. vm_compute. reflexivity. Qed.
Print Assumptions good_default.

(* ----------------------------------------------------------------- _stretch *)
(* if _stretch returns a grid: new widths rev l / r are geometric with exactly
   the factor, all widths positive, count + remain = nx (remain = 0 with
   use_up), the extent covers the requested domain, and the input widths are an
   unchanged infix *)
Theorem stretch_post edges widths alpha nx dom use_up e' w' rem :
  Forall posR widths -> widths <> [] -> 0 < alpha ->
  stretch gleb edges widths alpha nx dom use_up = Some (e', w', rem) ->
  exists l r,
    w' = rev l ++ widths ++ r /\
    geo_chain alpha (hd0 widths) l /\ geo_chain alpha (last0 widths) r /\
    Forall posR w' /\
    (Z.of_nat (length w') + rem = nx)%Z /\ (0 <= rem)%Z /\ (use_up = true -> rem = 0%Z) /\
    fst e' = fst edges - lsum l /\ snd e' = snd edges + lsum r /\
    fst e' <= fst dom /\ snd dom <= snd e'.
Proof. exact (Proofs.Gridding.stretch_post edges widths alpha nx dom use_up e' w' rem). Qed.
Print Assumptions stretch_post.

(* edges_ext[1] - edges_ext[0] = sum of the widths *)
Theorem stretch_extent edges widths alpha nx dom use_up e' w' rem :
  Forall posR widths -> widths <> [] -> 0 < alpha ->
  stretch gleb edges widths alpha nx dom use_up = Some (e', w', rem) ->
  snd edges - fst edges = lsum widths -> snd e' - fst e' = lsum w'.
Proof. exact (Proofs.Gridding.stretch_extent edges widths alpha nx dom use_up e' w' rem). Qed.
Print Assumptions stretch_extent.

(* non-vacuity (model executed on Q): one centre cell [0,1], factor 2, 8 cells
   allowed, domain [-5,5]: two cells on each side, 3 cells remain *)
Example stretch_returns :
  stretch qleb (0%Q, 1%Q) [1%Q] (2 # 1)%Q 8 ((-5 # 1)%Q, (5 # 1)%Q) false
  = Some ((-6 # 1, 7 # 1), [4 # 1; 2 # 1; 1; 2 # 1; 4 # 1], 3%Z)%Q.
Proof. vm_compute. reflexivity. Qed.
Print Assumptions stretch_returns.

(* -------------------------------------------------------- origin_and_widths *)
Section C16.
  Variable floorZ : R -> Z.                      (* floor / int() *)
  Variable brentq : R -> R -> Z -> R.            (* scipy.optimize.brentq *)
  Variable argsort13 : list R -> list nat.       (* np.argsort on tied keys *)
  Variable twopi : R.
  Variable skin : R -> R.
  (* contract of the oracle: scipy returns a point of the bracket it was given *)
  Hypothesis brentq_bracket : forall t d n, 1 / 2 <= brentq t d n <= 10.
  Notation oaw := (origin_and_widths gleb floorZ brentq argsort13 twopi).
  Notation cpart := (center_part gleb floorZ brentq argsort13).

  (* THE postcondition of origin_and_widths.  Whenever it returns (x0, hx):
       - len(hx) is one of cell_numbers;  all widths are positive;
       - [x0, x0 + sum hx] contains the survey domain (widened to the sea
         surface: sea_dom) and the computational domain (comp_domain_* below:
         domain +- min(lambda_factor*lambda, max_buffer), resp. the
         lambda_from_center formula);
       - hx = rev l2 ++ rev l1 ++ centre ++ r1 ++ r2, where l1 / r1 grow away from
         the centre part by exactly sa per cell and l2 / r2 by exactly ca, the
         first new cell being the adjacent one times the factor, with
         sa between 1 and stretching[0], ca between sa and stretching[1];
       - the centre part is well formed and each of its nodes is a mesh node
         (x0 + sum of a prefix of hx). *)
  Theorem oaw_post i ws x0 hx nx sa ca n :
    input_ok i ->
    oaw i = mkOawOut ws (ROk x0 hx nx sa ca n) ->
    exists dom0,
      domain_of gleb i = Some dom0 /\
      let dom := sea_dom i dom0 in
      let cdom := comp_domain gleb twopi i dom in
      let ce := fst (snd (cpart i dom0)) in
      let cw := snd (snd (cpart i dom0)) in
      center_ok ce cw /\
      In (Z.of_nat (length hx)) (i_cell_numbers i) /\ Z.of_nat (length hx) = nx /\
      Forall posR hx /\
      x0 <= fst dom /\ snd dom <= x0 + lsum hx /\
      x0 <= fst cdom /\ snd cdom <= x0 + lsum hx /\
      Rmin 1 (fst (i_stretching i)) <= sa <= Rmax 1 (fst (i_stretching i)) /\
      Rmin sa (snd (i_stretching i)) <= ca <= Rmax sa (snd (i_stretching i)) /\
      exists l1 r1 l2 r2,
        hx = rev l2 ++ (rev l1 ++ cw ++ r1) ++ r2 /\
        geo_chain sa (hd0 cw) l1 /\ geo_chain sa (last0 cw) r1 /\
        geo_chain ca (hd0 (rev l1 ++ cw ++ r1)) l2 /\
        geo_chain ca (last0 (rev l1 ++ cw ++ r1)) r2 /\
        n = length (rev l1 ++ cw ++ r1) /\
        x0 + lsum (rev l2 ++ rev l1) = fst ce /\
        (forall v, In v (nodes_of (fst ce) cw) -> mesh_node x0 hx v).
  Proof. exact (oaw_post_full floorZ brentq argsort13 twopi brentq_bracket i ws x0 hx nx sa ca n). Qed.

  (* the sea surface is (np.isclose) a node of the returned mesh, or the
     'not at an actual boundary' warning was raised *)
  Theorem oaw_sea_surface_node_or_warning i ws x0 hx nx sa ca n sea :
    input_ok i ->
    oaw i = mkOawOut ws (ROk x0 hx nx sa ca n) ->
    i_sea i = Some sea -> ~ In WSea ws ->
    exists v, mesh_node x0 hx v /\ isclose0 gleb (Rabs (v - sea)) = true.
  Proof. exact (oaw_sea_node_or_warning floorZ brentq argsort13 twopi brentq_bracket i ws x0 hx nx sa ca n sea). Qed.

  (* every node of the vector the centre part is built from -- the cut user
     vector, or [c-dmin, c, c+dmin] -- is a node of the mesh (with and without
     sea surface) *)
  Theorem oaw_vector_nodes_are_mesh_nodes i ws x0 hx nx sa ca n dom0 v k :
    input_ok i ->
    oaw i = mkOawOut ws (ROk x0 hx nx sa ca n) ->
    domain_of gleb i = Some dom0 ->
    pre_vec i dom0 = Some v -> StronglySorted Rlt v -> (2 <= length v)%nat ->
    (k < length v)%nat -> mesh_node x0 hx (nth k v 0).
  Proof. exact (oaw_vector_nodes floorZ brentq argsort13 twopi brentq_bracket i ws x0 hx nx sa ca n dom0 v k). Qed.

  (* ... and the cut loses no node of the user vector that lies in the survey domain *)
  Theorem vector_cut_keeps_domain_nodes v dom v' x :
    StronglySorted Rlt v -> vector_cut gleb v dom = Some v' ->
    In x v -> fst dom <= x <= snd dom -> In x v'.
  Proof. exact (vector_cut_keeps v dom v' x). Qed.

  (* centre on a node (center_on_edge True / unset, no usable user vector) -- also
     with a sea surface *)
  Theorem oaw_centre_on_node i ws x0 hx nx sa ca n dom0 :
    input_ok i ->
    oaw i = mkOawOut ws (ROk x0 hx nx sa ca n) ->
    domain_of gleb i = Some dom0 ->
    match i_vector i with Some v => vector_cut gleb v dom0 | None => None end = None ->
    i_center_on_edge i <> Some false ->
    mesh_node x0 hx (i_center i).
  Proof. exact (oaw_centre_is_node floorZ brentq argsort13 twopi brentq_bracket i ws x0 hx nx sa ca n dom0). Qed.

  (* centre at a cell centre (center_on_edge False, no usable user vector), unless
     the sea surface overrides it: then the sea surface is within half a centre
     cell of the centre cell's upper edge and is exactly a mesh node *)
  Theorem oaw_centre_on_cell_centre i ws x0 hx nx sa ca n dom0 :
    input_ok i ->
    oaw i = mkOawOut ws (ROk x0 hx nx sa ca n) ->
    domain_of gleb i = Some dom0 ->
    match i_vector i with Some v => vector_cut gleb v dom0 | None => None end = None ->
    i_center_on_edge i = Some false ->
    (exists p w q, hx = p ++ w :: q /\ x0 + lsum p + w / 2 = i_center i) \/
    (exists sea, i_sea i = Some sea /\ mesh_node x0 hx sea /\
       Rabs (sea - (i_center i + cell_width gleb (sd_at i 0) (i_pps i) (i_limits i) / 2))
       <= cell_width gleb (sd_at i 0) (i_pps i) (i_limits i) / 2).
  Proof. exact (oaw_centre_is_cell_centre floorZ brentq argsort13 twopi brentq_bracket i ws x0 hx nx sa ca n dom0). Qed.

  (* the centre part handed to the search is always well formed (this is what
     the first version of oaw_post assumed) *)
  Theorem centre_part_well_formed i dom :
    input_ok i -> center_ok (fst (snd (cpart i dom))) (snd (snd (cpart i dom))).
  Proof. exact (center_part_ok floorZ brentq argsort13 brentq_bracket i dom). Qed.

  (* the sea-surface allowance, centre part from a vector: the vector's widths are
     untouched and the sea-surface cells grow by alph < min(1.25*stretching[0],
     stretching[1]) (sea_allow true) *)
  Theorem sea_surface_cells_after_vector i dom v :
    pre_vec i dom = Some v -> v <> [] -> (2 <= length v)%nat -> StronglySorted Rlt v ->
    exists hx,
      snd (snd (cpart i dom)) = diffs v ++ hx /\ fst (fst (snd (cpart i dom))) = hd0 v /\
      (hx = [] \/ exists alph, geo_chain alph (last0 (diffs v)) hx /\ 1 / 2 <= alph
                               /\ alph < sea_allow true (fst (i_stretching i)) (snd (i_stretching i))).
  Proof. exact (cpart_vector_shape floorZ brentq argsort13 brentq_bracket i dom v). Qed.

  (* ... no vector: the centre cell is moved to the sea surface, or it is followed
     by sea-surface cells growing by alph < min(1.1*stretching[0], stretching[1]) *)
  Theorem sea_surface_cells_after_centre_cell i dom :
    pre_vec i dom = None -> input_ok i ->
    let ce := fst (snd (cpart i dom)) in
    let cw := snd (snd (cpart i dom)) in
    let d := cell_width gleb (sd_at i 0) (i_pps i) (i_limits i) in
    (exists sea, i_sea i = Some sea /\ cw = [d] /\ snd ce = sea /\
                 Rabs (sea - (i_center i + d / 2)) <= d / 2) \/
    (exists w hx, cw = w :: hx /\ fst ce = i_center i - w / 2 /\ 0 < w /\
       (hx = [] \/ exists alph, geo_chain alph w hx /\ 1 / 2 <= alph
                                /\ alph < sea_allow false (fst (i_stretching i)) (snd (i_stretching i)))).
  Proof. exact (cpart_cell_shape floorZ brentq argsort13 brentq_bracket i dom). Qed.

  (* with the root contract of brentq (|f(alph)| <= tol): the last node of the
     adjusted centre part is within tol of the sea surface *)
  Theorem sea_surface_node_accuracy tol edges widths center sea s0 s1 hv fact e' w' :
    (forall t d n,
       Rabs (lsum (map (fun s => t * s)%F (pows (brentq t d n) (Z.to_nat n))) - d) <= tol) ->
    center_ok edges widths -> 0 < fact ->
    sea_try gleb floorZ brentq edges widths center sea s0 s1 hv fact = Some (e', w') ->
    In (snd e') (nodes_of (fst e') w') /\ Rabs (snd e' - sea) <= tol.
  Proof.
    exact (fun Hr => sea_try_node floorZ brentq tol brentq_bracket Hr edges widths center sea s0 s1 hv fact e' w').
  Qed.

  (* the computational domain is the survey domain +- min(lambda_factor*lambda, max_buffer) *)
  Theorem comp_domain_is_domain_plus_buffer i dom :
    i_lambda_from_center i = false ->
    comp_domain gleb twopi i dom
    = (fst dom - fmin gleb (i_lambda_factor i * (twopi * sd_at i 1)) (i_max_buffer i),
       snd dom + fmin gleb (i_lambda_factor i * (twopi * sd_at i 2)) (i_max_buffer i)).
  Proof. exact (comp_domain_buffer twopi i dom). Qed.

  (* ... resp. the lambda_from_center formula, capped at max_buffer from the centre *)
  Theorem comp_domain_lambda_from_center i dom :
    i_lambda_from_center i = true ->
    let c := i_center i in
    let wl0 := i_lambda_factor i * (twopi * sd_at i 1) in
    let wl1 := i_lambda_factor i * (twopi * sd_at i 2) in
    comp_domain gleb twopi i dom
    = (Rmax (fst dom - Rmax 0 ((2 * wl0 - Rabs (fst dom - c)) / 2)) (c - i_max_buffer i),
       Rmin (snd dom + Rmax 0 ((2 * wl1 - Rabs (snd dom - c)) / 2)) (c + i_max_buffer i)).
  Proof. exact (comp_domain_from_center twopi i dom). Qed.

  (* the survey domain handed to the search contains the sea surface *)
  Theorem domain_contains_seasurface i dom0 s :
    i_sea i = Some s -> s <= snd (sea_dom i dom0) /\ fst (sea_dom i dom0) = fst dom0
                        /\ snd dom0 <= snd (sea_dom i dom0).
  Proof. exact (sea_dom_contains i dom0 s). Qed.

  (* discharging [center_ok]: the three configurations without sea surface *)
  Theorem center_at_cell_centre i dom :
    i_vector i = None -> i_sea i = None -> i_center_on_edge i = Some false ->
    let d := cell_width gleb (sd_at i 0) (i_pps i) (i_limits i) in
    cpart i dom = ([], ((i_center i - d / 2, i_center i + d / 2), [d])) /\
    (0 < d -> center_ok (i_center i - d / 2, i_center i + d / 2) [d]).
  Proof.
    exact (fun Hv Hs Hc =>
      conj (cpart_cell_centre floorZ brentq argsort13 i dom Hv Hs Hc)
           (center_ok_cell_centre (i_center i) _)).
  Qed.

  Theorem center_at_node i dom :
    i_vector i = None -> i_sea i = None -> i_center_on_edge i <> Some false ->
    let d := cell_width gleb (sd_at i 0) (i_pps i) (i_limits i) in
    let c := i_center i in
    cpart i dom = ([], ((c - d, c + d), [c - (c - d); c + d - c])) /\
    (0 < d -> center_ok (c - d, c + d) [c - (c - d); c + d - c]).
  Proof.
    exact (fun Hv Hs Hc =>
      conj (cpart_node floorZ brentq argsort13 i dom Hv Hs Hc)
           (center_ok_node (i_center i) _)).
  Qed.

  Theorem min_width_positive sd pps lim :
    0 < sd -> 0 < pps -> limits_pos lim -> 0 < cell_width gleb sd pps lim.
  Proof. exact (cell_width_pos sd pps lim). Qed.

  (* a user vector: the cut keeps a contiguous piece with >= 3 nodes, its widths
     form a well-formed centre part, and node k of the cut vector is the mesh
     node after the first k centre widths (with oaw_post: x0 + sum of
     the prefix rev l2 ++ rev l1 ++ firstn k (diffs v') of hx) *)
  Theorem center_from_vector i dom v v' :
    StronglySorted Rlt v ->
    i_vector i = Some v -> vector_cut gleb v dom = Some v' -> i_sea i = None ->
    cpart i dom = ([], ((hd0 v', last0 v'), diffs v')) /\
    center_ok (hd0 v', last0 v') (diffs v') /\
    ((exists a b, v' = firstn b (skipn a v)) /\ (3 <= length v')%nat) /\
    (forall k, (k < length v')%nat -> hd0 v' + lsum (firstn k (diffs v')) = nth k v' 0).
  Proof.
    exact (fun Hs Hv Hc Hsea =>
      conj (cpart_vector floorZ brentq argsort13 i dom v v' Hv Hc Hsea)
        (conj (proj1 (vector_cut_ok v dom v' Hs Hc))
          (conj (vector_cut_sublist v dom v' Hc)
                (fun k Hk => diffs_telescope v' k Hk)))).
  Qed.

  (* sea surface: no warning => some node of the adjusted centre part is
     np.isclose to the sea surface *)
  Theorem seasurface_is_node_or_warning edges widths center sea s0 s1 hv lim e' w' :
    seasurface_adjust gleb floorZ brentq argsort13 edges widths center sea s0 s1 hv lim
      = (e', w', false) ->
    exists v, In v (nodes_of (fst e') w') /\ isclose0 gleb (Rabs (v - sea)) = true.
  Proof.
    exact (seasurface_node_or_warning floorZ brentq argsort13 edges widths center sea s0 s1 hv lim e' w').
  Qed.

  (* fails loudly: no admissible (nx, sa, ca) in the searched lists => RuntimeError
     (or None's with raise_error=False, which construct_mesh turns into RuntimeError) *)
  Theorem oaw_none_means_error i dom0 :
    domain_of gleb i = Some dom0 ->
    match i_sea i with Some s => gleb s (i_center i) | None => false end = false ->
    search gleb floorZ (fst (snd (cpart i dom0))) (snd (snd (cpart i dom0)))
           (fst (i_stretching i)) (snd (i_stretching i)) (i_cell_numbers i)
           (sea_dom i dom0) (comp_domain gleb twopi i (sea_dom i dom0)) = None ->
    o_res (oaw i) = if i_raise_error i then RErrRuntime else RNone.
  Proof. exact (Proofs.Gridding.oaw_none_means_error floorZ brentq argsort13 twopi i dom0). Qed.

  (* ... and the error is raised only then *)
  Theorem oaw_error_means_none i :
    o_res (oaw i) = RErrRuntime \/ o_res (oaw i) = RNone ->
    exists dom0, domain_of gleb i = Some dom0 /\
      search gleb floorZ (fst (snd (cpart i dom0))) (snd (snd (cpart i dom0)))
             (fst (i_stretching i)) (snd (i_stretching i)) (i_cell_numbers i)
             (sea_dom i dom0) (comp_domain gleb twopi i (sea_dom i dom0)) = None.
  Proof. exact (Proofs.Gridding.oaw_error_means_none floorZ brentq argsort13 twopi i). Qed.

  (* "no result" means: no candidate of the searched lists is admissible *)
  Theorem search_none_iff cedges cw s0 s1 cells dom cdom :
    search gleb floorZ cedges cw s0 s1 cells dom cdom = None <->
    forall nx sa sd ca,
      In nx cells -> In sa (linspace 1 s0 (nsteps floorZ 1 s0)) ->
      stretch gleb cedges cw sa nx dom false = Some sd ->
      In ca (linspace sa s1 (nsteps floorZ sa s1)) ->
      stretch gleb (fst (fst sd)) (snd (fst sd)) ca nx cdom true = None.
  Proof. exact (search_none floorZ cedges cw s0 s1 cells dom cdom). Qed.

  (* ------------------------------------------------------------ construct_mesh *)
  Notation cmesh := (construct_mesh gleb floorZ brentq argsort13 twopi skin).

  Theorem construct_mesh_returns_three_grids c ws org hx hy hz :
    cmesh c = mkCmOut ws (COk org hx hy hz) ->
    exists ix iy iz,
      cm_inputs skin c = (Some ix, Some iy, Some iz) /\
      (exists nx sa ca n, o_res (oaw ix) = ROk (fst (fst org)) hx nx sa ca n) /\
      (exists nx sa ca n, o_res (oaw iy) = ROk (snd (fst org)) hy nx sa ca n) /\
      (exists nx sa ca n, o_res (oaw iz) = ROk (snd org) hz nx sa ca n).
  Proof. exact (construct_mesh_ok floorZ brentq argsort13 twopi skin c ws org hx hy hz). Qed.

  Theorem construct_mesh_fails_loudly c ix iy iz :
    cm_inputs skin c = (Some ix, Some iy, Some iz) ->
    (forall x0 hx nx sa ca n, o_res (oaw ix) <> ROk x0 hx nx sa ca n) \/
    (forall x0 hx nx sa ca n, o_res (oaw iy) <> ROk x0 hx nx sa ca n) \/
    (forall x0 hx nx sa ca n, o_res (oaw iz) <> ROk x0 hx nx sa ca n) ->
    exists d, cm_res (cmesh c) = CErrRuntime \/ cm_res (cmesh c) = CErrValue d.
  Proof. exact (Proofs.Gridding.construct_mesh_fails_loudly floorZ brentq argsort13 twopi skin c ix iy iz). Qed.
End C16.
Print Assumptions oaw_post.
Print Assumptions oaw_sea_surface_node_or_warning.
Print Assumptions oaw_vector_nodes_are_mesh_nodes.
Print Assumptions vector_cut_keeps_domain_nodes.
Print Assumptions oaw_centre_on_node.
Print Assumptions oaw_centre_on_cell_centre.
Print Assumptions centre_part_well_formed.
Print Assumptions sea_surface_cells_after_vector.
Print Assumptions sea_surface_cells_after_centre_cell.
Print Assumptions sea_surface_node_accuracy.
Print Assumptions comp_domain_is_domain_plus_buffer.
Print Assumptions comp_domain_lambda_from_center.
Print Assumptions domain_contains_seasurface.
Print Assumptions center_at_cell_centre.
Print Assumptions center_at_node.
Print Assumptions min_width_positive.
Print Assumptions center_from_vector.
Print Assumptions seasurface_is_node_or_warning.
Print Assumptions oaw_none_means_error.
Print Assumptions oaw_error_means_none.
Print Assumptions search_none_iff.
Print Assumptions construct_mesh_returns_three_grids.
Print Assumptions construct_mesh_fails_loudly.

(* routing of the properties list: [p1,p2,p3] / [p1..p4] / [p1..p7]; every other
   length goes unchanged to all three directions (then entries 0, min(n-1,1),
   min(n-1,2) are used: sd_at) *)
Theorem construct_mesh_routing (a b c d e f g : R) :
  route_props [a; b; c] = ([a; c; c], [a; c; c], [a; b; c]) /\
  route_props [a; b; c; d] = ([a; b; b], [a; b; b], [a; c; d]) /\
  route_props [a; b; c; d; e; f; g] = ([a; b; c], [a; d; e], [a; f; g]) /\
  route_props [a] = ([a], [a], [a]) /\ route_props [a; b] = ([a; b], [a; b], [a; b]).
Proof.
  exact (conj (route_props_3 a b c) (conj (route_props_4 a b c d)
        (conj (route_props_7 a b c d e f g) (conj eq_refl eq_refl)))).
Qed.
Print Assumptions construct_mesh_routing.

Theorem properties_used_per_direction (i : @OawIn R) a b c :
  (i_sds i = [a] -> sd_at i 0 = a /\ sd_at i 1 = a /\ sd_at i 2 = a) /\
  (i_sds i = [a; b] -> sd_at i 0 = a /\ sd_at i 1 = b /\ sd_at i 2 = b) /\
  (i_sds i = [a; b; c] -> sd_at i 0 = a /\ sd_at i 1 = b /\ sd_at i 2 = c).
Proof. exact (conj (sd_at_1 i a) (conj (sd_at_2 i a b) (sd_at_3 i a b c))). Qed.
Print Assumptions properties_used_per_direction.

(* direction-specific arguments: dict / 3-sequence per direction, scalar ->
   np.array([v]) for all, bool and 2-sequences for all, ndarray domain/vector for all *)
Theorem argument_routing (x y z a b : @Val R) (v : R) (l : list R) (bo : bool) :
  route_dv (VDict x y z) = (x, y, z) /\ route_dv (VSeq [x; y; z]) = (x, y, z) /\
  route_dv (VArr l) = (VArr l, VArr l, VArr l) /\
  route_dv (VSeq [a; b]) = (VSeq [a; b], VSeq [a; b], VSeq [a; b]) /\
  route_kw (VDict x y z) = (x, y, z) /\ route_kw (VSeq [x; y; z]) = (x, y, z) /\
  route_kw (VNum v) = (VArr [v], VArr [v], VArr [v]) /\
  route_kw (@VBool R bo) = (VBool bo, VBool bo, VBool bo) /\
  route_kw (VSeq [a; b]) = (VSeq [a; b], VSeq [a; b], VSeq [a; b]).
Proof.
  exact (conj (route_dv_dict x y z) (conj (route_dv_seq3 x y z) (conj (route_dv_arr l)
        (conj (route_dv_pair a b) (conj (route_kw_dict x y z) (conj (route_kw_seq3 x y z)
        (conj (route_kw_num v) (conj (route_kw_bool bo) (route_kw_pair a b))))))))).
Qed.
Print Assumptions argument_routing.

(* ===================================================================== *)
(* Round 7: ONE SESSION.  Model/GriddingSession.v: a history of gridding calls
   (good_mg_cell_nr, origin_and_widths, construct_mesh) interleaved with in-place
   edits of the arrays the caller holds.  The state of the model is the caller's
   heap and nothing else -- the table of permitted cell numbers is the function
   good_mg_cell_nr, not a stored table.  The theorems hold for ALL histories and
   ALL heaps (no reachability side condition needed).  That emg3d.meshes really
   has no state is what the history stream of py/props/c16.py checks on every
   run (every outcome and the whole heap, in one process) together with the
   source anchor (no decorator / global / module-level mutable table in the
   gridding functions). *)
Section SessionAny.
  Context {F : Type} {O : FOps F}.
  Variable leb : F -> F -> bool.
  Variable floorZ : F -> Z.
  Variable brentq : F -> F -> Z -> F.
  Variable argsort13 : list F -> list nat.
  Variable twopi : F.
  Variable skin : F -> F.
  Notation step := (step leb floorZ brentq argsort13 twopi skin).
  Notation run := (run leb floorZ brentq argsort13 twopi skin).

  (* a mesh request is a function of its arguments: after any two histories
     (whatever was called, whatever returned array was edited in place) the same
     request -- one that names no heap array -- has the same outcome *)
  Theorem request_is_function_of_arguments (h1 h2 : list (@Op F)) (s1 s2 : @Heap F) op :
    closed_op op = true ->
    snd (step (fst (run h1 s1)) op) = snd (step (fst (run h2 s2)) op).
  Proof. exact (closed_outcome_any_history leb floorZ brentq argsort13 twopi skin h1 h2 s1 s2 op). Qed.

  (* with heap arrays as arguments: only their CURRENT content matters *)
  Theorem request_depends_on_argument_arrays_only (s : @Heap F) i cells vec l v :
    resolve_cells s cells = Some l -> resolve_vec s i vec = Some v ->
    snd (step s (OOaw i cells vec))
    = ROaw (origin_and_widths leb floorZ brentq argsort13 twopi (oaw_with i l v)).
  Proof. exact (oaw_outcome_resolved leb floorZ brentq argsort13 twopi skin s i cells vec l v). Qed.

  Theorem construct_mesh_depends_on_argument_arrays_only (s : @Heap F) c cells l :
    resolve_cells s cells = Some l ->
    snd (step s (OCm c cells))
    = RCm (construct_mesh leb floorZ brentq argsort13 twopi skin (cm_with c l)).
  Proof. exact (cm_outcome_resolved leb floorZ brentq argsort13 twopi skin s c cells l). Qed.

  (* good_mg_cell_nr answers the table of its arguments after every history *)
  Theorem good_table_after_any_history (h : list (@Op F)) (s : @Heap F) m p d :
    snd (step (fst (run h s)) (OGood m p d))
    = match good_mg_cell_nr m p d with Some l => RInts l | None => ValueErr end.
  Proof. exact (good_outcome_any_history leb floorZ brentq argsort13 twopi skin h s m p d). Qed.

  (* a call never modifies an array the caller holds (cell_numbers, vector,
     earlier results): the heap only grows by the newly returned arrays *)
  Theorem calls_never_modify_caller_arrays (s : @Heap F) op :
    is_edit op = false -> exists new, fst (step s op) = (s ++ new)%list.
  Proof. exact (call_keeps_heap leb floorZ brentq argsort13 twopi skin s op). Qed.

  (* an in-place edit changes the one array it names (to the edited content) and
     no other; so over a whole history an array nobody edits keeps its content *)
  Theorem edit_changes_one_array (s : @Heap F) h e k :
    (k <> h -> nth_error (fst (step s (OEdit h e))) k = nth_error s k) /\
    length (fst (step s (OEdit h e))) = length s /\
    nth_error (fst (step s (OEdit h e))) h
    = match nth_error s h with
      | Some (OInt l) => Some (OInt (edit_int e l))
      | Some (ONum l) => Some (ONum (edit_num leb e l))
      | None => None
      end.
  Proof.
    exact (conj (edit_touches_one leb floorZ brentq argsort13 twopi skin s h e k)
          (conj (edit_keeps_length leb floorZ brentq argsort13 twopi skin s h e)
                (edit_result leb floorZ brentq argsort13 twopi skin s h e))).
  Qed.

  Theorem unedited_array_survives_history (ops : list (@Op F)) (s : @Heap F) k o :
    (forall h e, In (OEdit h e) ops -> h <> k) ->
    nth_error s k = Some o -> nth_error (fst (run ops s)) k = Some o.
  Proof. exact (history_keeps_unedited leb floorZ brentq argsort13 twopi skin ops s k o). Qed.
End SessionAny.
Print Assumptions request_is_function_of_arguments.
Print Assumptions request_depends_on_argument_arrays_only.
Print Assumptions construct_mesh_depends_on_argument_arrays_only.
Print Assumptions good_table_after_any_history.
Print Assumptions calls_never_modify_caller_arrays.
Print Assumptions edit_changes_one_array.
Print Assumptions unedited_array_survives_history.

(* the default table is p * 2^n <= 1024, p in {2,3,5}, n >= 3 -- a closed fact *)
Theorem default_cell_numbers_rule x :
  In x default_cells <->
  exists p n, (p = 2 \/ p = 3 \/ p = 5)%Z /\ (3 <= n)%Z /\ x = (p * 2 ^ n)%Z /\ (x <= 1024)%Z.
Proof. exact (default_cells_spec x). Qed.
Print Assumptions default_cell_numbers_rule.

Section SessionReal.
  Variable floorZ : R -> Z.
  Variable brentq : R -> R -> Z -> R.
  Variable argsort13 : list R -> list nat.
  Variable twopi : R.
  Variable skin : R -> R.
  Hypothesis brentq_bracket : forall t d n, 1 / 2 <= brentq t d n <= 10.
  Notation step := (step gleb floorZ brentq argsort13 twopi skin).
  Notation run := (run gleb floorZ brentq argsort13 twopi skin).

  (* after EVERY history, a request without cell_numbers that returns a grid has
     a permitted number of cells: p * 2^n <= 1024 with p in {2,3,5}, n >= 3 *)
  Theorem default_request_permitted_after_any_history
          (h : list (@Op R)) (s : @Heap R) i ws x0 hx nx sa ca n :
    input_ok i ->
    snd (step (fst (run h s)) (OOaw i CDefault VGiven)) = ROaw (mkOawOut ws (ROk x0 hx nx sa ca n)) ->
    exists p k, (p = 2 \/ p = 3 \/ p = 5)%Z /\ (3 <= k)%Z
                /\ Z.of_nat (length hx) = (p * 2 ^ k)%Z /\ (Z.of_nat (length hx) <= 1024)%Z.
  Proof.
    exact (default_request_permitted floorZ brentq argsort13 twopi skin brentq_bracket h s i ws x0 hx nx sa ca n).
  Qed.

  (* ... and with its own list / heap array: one of the numbers that array holds NOW *)
  Theorem request_cell_count_from_argument (s : @Heap R) i cells l ws x0 hx nx sa ca n :
    input_ok i -> resolve_cells s cells = Some l ->
    snd (step s (OOaw i cells VGiven)) = ROaw (mkOawOut ws (ROk x0 hx nx sa ca n)) ->
    In (Z.of_nat (length hx)) l.
  Proof.
    exact (request_cells_from_argument floorZ brentq argsort13 twopi skin brentq_bracket s i cells l ws x0 hx nx sa ca n).
  Qed.
End SessionReal.
Print Assumptions default_request_permitted_after_any_history.
Print Assumptions request_cell_count_from_argument.

(* non-vacuity, executed on Q: the caller asks for the table, turns HIS array
   into node numbers in place (arr += 1), asks again: the second answer is the
   table, the edited array is the caller's; then a default request returns a grid
   with 16 cells (domain of 16 unit cells, no buffer) *)
Example session_example :
  let ex_in := @mkOawIn Q [3%Q] 0%Q (Some (- (8#1), 8#1)%Q) None None None (1%Q, 3#2)%Q (LimOne 1%Q) 3%Q
                        1%Q 0%Q false [] (Some true) true in
  let r := GriddingSession.run qleb qfloor (fun _ _ _ => 1%Q) (fun _ => []) (6#1)%Q (fun x => x)
             [OGood 1024 5 3; OEdit 0 (EAdd 1); OGood 1024 5 3; OOaw ex_in CDefault VGiven] [] in
  nth_error (fst r) 0 = Some (OInt (map (fun x => (x + 1)%Z) default_cells)) /\
  nth_error (fst r) 1 = Some (OInt default_cells) /\
  nth_error (snd r) 2 = Some (RInts default_cells) /\
  match nth_error (snd r) 3 with
  | Some (ROaw (mkOawOut _ (ROk _ hx nx _ _ _))) => length hx = 16%nat /\ nx = 16%Z
  | _ => False
  end.
Proof. vm_compute. repeat split; reflexivity. Qed.
Print Assumptions session_example.
