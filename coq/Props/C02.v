(* Props/C02.v -- property C02: the matrix-free operator equals the
   finite-integration discretisation.  ONLY statements, each closed by [exact]
   of a lemma from Proofs/, with Print Assumptions beneath.

   [amat_x] is Gen/CoreAmat.v: regenerated from emg3d/core.py on every run.
   The specification (A_x, A_y, A_z; curl, face mass, transposed curl, edge
   mass) is Model/FIT.v.  F is ANY field with 1+1 <> 0 (R, C, Q, ...). *)
From Coq Require Import ZArith Bool Field.
From V Require Import Base.Loops Base.Loops3 Base.Arr Base.FieldSig.
From V Require Import Gen.CoreAmat Model.FIT Proofs.AmatFIT Proofs.AmatSym.
From V Require Import Model.VolumeModel Model.ModelHist Proofs.ModelHist.
From Coq Require Import List QArith.
From V Require Import Base.ExecQ.
Import ListNotations.
Local Open Scope Z_scope.

Section C02.
  Context {F : Type} {O : FOps F}.
  Hypothesis Fth : field_theory F0 F1 Fadd Fmul Fsub Fopp Fdiv Finv (@eq F).
  Hypothesis two_nz : (1 + 1)%F <> 0%F.
  Variables (ex ey ez eta_x eta_y eta_z zeta : Z -> Z -> Z -> F).
  Variables (hx hy hz : Z -> F).
  Hypothesis hx_nz : forall i, hx i <> 0%F.
  Hypothesis hy_nz : forall i, hy i <> 0%F.
  Hypothesis hz_nz : forall i, hz i <> 0%F.

  (* The kernel, for every shape (nx,ny,nz), every residual/source arrays and
     every field: on each visited edge it subtracts exactly (A e); everything
     else is untouched. *)
  Theorem amat_eq_fit nx ny nz rx ry rz :
    0 <= nx -> 0 <= ny -> 0 <= nz -> forall i j k,
    get3 (amat_x nx ny nz rx ry rz ex ey ez eta_x eta_y eta_z zeta hx hy hz) i j k
    = if in_box nx ny nz i j k
      then ((rx i j k - A_x ex ey ez eta_x zeta hx hy hz i j k)%F,
            (ry i j k - A_y ex ey ez eta_y zeta hx hy hz i j k)%F,
            (rz i j k - A_z ex ey ez eta_z zeta hx hy hz i j k)%F)
      else (rx i j k, ry i j k, rz i j k).
  Proof. exact (amat_x_eq Fth two_nz ex ey ez eta_x eta_y eta_z zeta hx hy hz
                          hx_nz hy_nz hz_nz nx ny nz rx ry rz). Qed.

  (* Interior edges: plain curl^T M_f curl e - M_e e, with the two-cell face
     average of zeta and the four-cell edge average of eta_{x,y,z}. *)
  Theorem fit_interior_x i j k : 1 <= j -> 1 <= k ->
    A_x ex ey ez eta_x zeta hx hy hz i j k =
    (curlT_x (u_y ex ez zeta hx hz) (u_z ex ey zeta hx hy) hy hz i j k
     - ((eta_x i (j-1) (k-1) + eta_x i (j-1) k + eta_x i j (k-1) + eta_x i j k)
        / ((1+1)*(1+1))) * ex i j k)%F.
  Proof. exact (A_x_interior ex ey ez eta_x zeta hx hy hz i j k). Qed.
  Theorem fit_interior_y i j k : 1 <= i -> 1 <= k ->
    A_y ex ey ez eta_y zeta hx hy hz i j k =
    (curlT_y (u_x ey ez zeta hy hz) (u_z ex ey zeta hx hy) hx hz i j k
     - ((eta_y (i-1) j (k-1) + eta_y i j (k-1) + eta_y (i-1) j k + eta_y i j k)
        / ((1+1)*(1+1))) * ey i j k)%F.
  Proof. exact (A_y_interior ex ey ez eta_y zeta hx hy hz i j k). Qed.
  Theorem fit_interior_z i j k : 1 <= i -> 1 <= j ->
    A_z ex ey ez eta_z zeta hx hy hz i j k =
    (curlT_z (u_x ey ez zeta hy hz) (u_y ex ez zeta hx hz) hx hy i j k
     - ((eta_z (i-1) (j-1) k + eta_z i (j-1) k + eta_z (i-1) j k + eta_z i j k)
        / ((1+1)*(1+1))) * ez i j k)%F.
  Proof. exact (A_z_interior ex ey ez eta_z zeta hx hy hz i j k). Qed.

  (* PEC: nothing is subtracted on lower tangential boundary edges. *)
  Theorem fit_boundary_x i j k : (j = 0 \/ k = 0) -> ex i j k = 0%F ->
    A_x ex ey ez eta_x zeta hx hy hz i j k = 0%F.
  Proof. exact (A_x_boundary Fth ex ey ez eta_x zeta hx hy hz i j k). Qed.
  Theorem fit_boundary_y i j k : (i = 0 \/ k = 0) -> ey i j k = 0%F ->
    A_y ex ey ez eta_y zeta hx hy hz i j k = 0%F.
  Proof. exact (A_y_boundary Fth ex ey ez eta_y zeta hx hy hz i j k). Qed.
  Theorem fit_boundary_z i j k : (i = 0 \/ j = 0) -> ez i j k = 0%F ->
    A_z ex ey ez eta_z zeta hx hy hz i j k = 0%F.
  Proof. exact (A_z_boundary Fth ex ey ez eta_z zeta hx hy hz i j k). Qed.

  (* The curl-curl part annihilates every discrete gradient. *)
  Theorem curlcurl_annihilates_gradients (phi : Z -> Z -> Z -> F) i j k :
    A_x (grad_x phi hx) (grad_y phi hy) (grad_z phi hz) zero3 zeta hx hy hz i j k = 0%F /\
    A_y (grad_x phi hx) (grad_y phi hy) (grad_z phi hz) zero3 zeta hx hy hz i j k = 0%F /\
    A_z (grad_x phi hx) (grad_y phi hy) (grad_z phi hz) zero3 zeta hx hy hz i j k = 0%F.
  Proof. exact (curlcurl_kills_gradients Fth two_nz phi hx hy hz hx_nz hy_nz hz_nz zeta i j k). Qed.
End C02.

(* The operator is (complex-)symmetric: for fields e, g with vanishing tangential
   boundary values, <A e, g> = <e, A g> over all edges (bilinear, no
   conjugation), for every shape, all widths and coefficients.  [edge_dot] sums
   over all x-, y- and z-edges; [pec] says the tangential boundary values vanish.
   Together with [amat_eq_fit] (the kernel subtracts exactly A e) this is the
   symmetry of the matrix-free operator. *)
Theorem operator_is_symmetric {F : Type} {O : FOps F}
        (Fth : field_theory F0 F1 Fadd Fmul Fsub Fopp Fdiv Finv (@eq F))
        (eta_x eta_y eta_z zeta : Z -> Z -> Z -> F) (hx hy hz : Z -> F) (nx ny nz : Z)
        (ex ey ez gx gy gz : Z -> Z -> Z -> F) :
  0 <= nx -> 0 <= ny -> 0 <= nz -> pec nx ny nz ex ey ez -> pec nx ny nz gx gy gz ->
  edge_dot nx ny nz (A_x ex ey ez eta_x zeta hx hy hz) (A_y ex ey ez eta_y zeta hx hy hz)
           (A_z ex ey ez eta_z zeta hx hy hz) gx gy gz
  = edge_dot nx ny nz (A_x gx gy gz eta_x zeta hx hy hz) (A_y gx gy gz eta_y zeta hx hy hz)
             (A_z gx gy gz eta_z zeta hx hy hz) ex ey ez.
Proof. intros Hx Hy Hz. exact (amat_symmetric Fth eta_x eta_y eta_z zeta hx hy hz nx ny nz Hx Hy Hz ex ey ez gx gy gz). Qed.

Print Assumptions amat_eq_fit.
Print Assumptions fit_interior_x.
Print Assumptions fit_interior_y.
Print Assumptions fit_interior_z.
Print Assumptions fit_boundary_x.
Print Assumptions fit_boundary_y.
Print Assumptions fit_boundary_z.
Print Assumptions curlcurl_annihilates_gradients.
Print Assumptions operator_is_symmetric.

(* ------------------------------------------------------------------------ *)
(* Round 6: the coefficients (eta, zeta) handed to the kernel are a function of
   the Model's CURRENT arrays.  Model/ModelHist.v is ONE Model object driven
   through any history of public operations (setter, in-place write through the
   getter, augmented assignment, VolumeModel construction); an operation can fail.
   [pos] is the setters' acceptance test; all statements hold for every [pos],
   every state and every history (induction over the history). *)
Section C02_history.
  Context {F : Type} {O : FOps F}.
  Variable pos : F -> bool.

  (* The VolumeModel built after ANY history h returns the coefficient formula
     evaluated on the arrays left by the write operations of h alone: earlier
     VolumeModels, and what the arrays were when they were built, do not matter. *)
  Theorem volume_model_sees_current_arrays (st : mstate) h a b :
    snd (run pos st (h ++ [OBuild a b]))
    = snd (run pos st h) ++ [Coeffs (coeffs (fst (run pos st (erase_builds h))) a b)].
  Proof. exact (build_sees_current pos st h a b). Qed.

  (* Building VolumeModels leaves no trace: the Model after h is the Model after h
     with every build erased, and so are the outcomes of all other operations. *)
  Theorem builds_leave_no_trace (st : mstate) h :
    fst (run pos st h) = fst (run pos st (erase_builds h)).
  Proof. exact (run_erase pos st h). Qed.
  Theorem builds_do_not_alter_other_outcomes (st : mstate) h :
    filter (fun r => match r with Coeffs _ => false | _ => true end) (snd (run pos st h))
    = snd (run pos st (erase_builds h)).
  Proof. exact (run_erase_outcomes pos st h). Qed.

  (* No hidden state: two Models (whatever their histories) with equal current
     arrays give equal coefficients. *)
  Theorem coefficients_function_of_current_arrays (st1 st2 : mstate) h1 h2 a b :
    fst (run pos st1 h1) = fst (run pos st2 h2) ->
    snd (step pos (fst (run pos st1 h1)) (OBuild a b))
    = snd (step pos (fst (run pos st2 h2)) (OBuild a b)).
  Proof. exact (coeffs_of_equal_arrays pos st1 st2 h1 h2 a b). Qed.

  (* Mapping, eps0, volumes, anisotropy case and the presence of mu_r / epsilon_r
     are fixed at construction: no history changes them. *)
  Theorem history_preserves_frame (st : mstate) h :
    frame (fst (run pos st h)) = frame st.
  Proof. exact (run_frame pos st h). Qed.

  (* Fault paths: a rejected assignment, and any write to a parameter the model was
     initiated without, leave the Model unchanged; the next VolumeModel is the one
     of the unchanged arrays. *)
  Theorem rejected_assignment_leaves_model_unchanged (st : mstate) p vals :
    snd (step pos st (OSet p vals)) <> Done -> fst (step pos st (OSet p vals)) = st.
  Proof. exact (set_failed_unchanged pos st p vals). Qed.
  Theorem write_to_missing_parameter_leaves_model_unchanged (st : mstate) o :
    snd (step pos st o) = NoneErr -> fst (step pos st o) = st.
  Proof. exact (none_unchanged pos st o). Qed.
  Theorem rejected_assignment_then_volume_model (st : mstate) p vals a b :
    snd (step pos st (OSet p vals)) <> Done ->
    snd (run pos st [OSet p vals; OBuild a b])
    = [snd (step pos st (OSet p vals)); Coeffs (coeffs st a b)].
  Proof. exact (failed_then_build pos st p vals a b). Qed.

  (* Input forms: an accepted assignment through the setter is the same as writing
     every cell in place through the getter. *)
  Theorem setter_equals_full_inplace_write (st : mstate) p old vals :
    getp st p = Some old -> length old = length vals -> forallb pos vals = true ->
    fst (step pos st (OSet p vals)) = fst (step pos st (OSlice p (map Some vals))).
  Proof. exact (setter_is_full_slice pos st p old vals). Qed.

  (* Locality: the coefficients of cell i are the documented formulas of the values
     of cell i; no global property of an array (e.g. "all ones") enters. *)
  Theorem coefficients_are_cell_local (st : mstate) a b i d :
    (i < length (m_vol st))%nat ->
    nth i (coeffs st a b) d
    = cell_coeff (m_resist st) (case_of st) (is_some (m_eps st)) (is_some (m_mu st))
                 (m_eps0 st) a b (nth i (m_vol st) 0%F) (nth i (m_x st) 0%F)
                 (oget (m_y st) i) (oget (m_z st) i) (oget (m_mu st) i) (oget (m_eps st) i).
  Proof. exact (coeffs_local st a b i d). Qed.

  (* In-place writes through the getter reach the next VolumeModel. *)
  Theorem inplace_mu_r_reaches_next_zeta (st : mstate) old w a b i d :
    m_mu st = Some old -> (i < length old)%nat -> (i < length (m_vol st))%nat ->
    snd (nth i (coeffs (fst (step pos st (OSlice PMu w))) a b) d)
    = zeta_of true (nth i (m_vol st) 0%F)
              (match nth i w None with Some v => v | None => nth i old 0%F end).
  Proof. exact (slice_mu_then_build pos st old w a b i d). Qed.
  Theorem inplace_property_x_reaches_next_eta (st : mstate) w a b i d :
    (i < length (m_x st))%nat -> (i < length (m_vol st))%nat ->
    fst (fst (fst (nth i (coeffs (fst (step pos st (OSlice PX w))) a b) d)))
    = eta_of a b (m_eps0 st) (is_some (m_eps st)) (nth i (m_vol st) 0%F)
             (cond_of (m_resist st)
                (match nth i w None with Some v => v | None => nth i (m_x st) 0%F end))
             (oget (m_eps st) i).
  Proof. exact (slice_x_then_build pos st w a b i d). Qed.
End C02_history.

(* zeta = V / mu_r is V exactly when mu_r = 1 in that cell (any field). *)
Theorem zeta_is_volume_iff_unit_mu_r {F : Type} {O : FOps F}
        (Fth : field_theory F0 F1 Fadd Fmul Fsub Fopp Fdiv Finv (@eq F)) (vol mur : F) :
  vol <> 0%F -> mur <> 0%F -> (zeta_of true vol mur = vol <-> mur = 1%F).
Proof. exact (zeta_unit_iff Fth vol mur). Qed.

(* Non-vacuity (on Q): mu_r initiated with ones, a VolumeModel, a REJECTED
   assignment (model and next VolumeModel unchanged), an in-place write of one
   cell, a VolumeModel (its zeta is V/2 in that cell, V elsewhere), a write to the
   absent epsilon_r (refused). *)
Definition qpos_ex (x : Q) : bool := match Qnum x with Zpos _ => true | _ => false end.
Example history_nonvacuous :
  snd (run qpos_ex
         (mkM false (1#8)%Q [2%Q; 3%Q] [1%Q; 1%Q] None None (Some [1%Q; 1%Q]) None)
         [OBuild 1%Q 1%Q; OSet PMu [1%Q; (-1)%Q]; OBuild 1%Q 1%Q;
          OSlice PMu [None; Some 2%Q]; OBuild 1%Q 1%Q; OSet PEps [1%Q; 1%Q]])
  = [Coeffs [((-2)%Q, (-2)%Q, (-2)%Q, 2%Q); ((-3)%Q, (-3)%Q, (-3)%Q, 3%Q)]; Rejected;
     Coeffs [((-2)%Q, (-2)%Q, (-2)%Q, 2%Q); ((-3)%Q, (-3)%Q, (-3)%Q, 3%Q)]; Done;
     Coeffs [((-2)%Q, (-2)%Q, (-2)%Q, 2%Q); ((-3)%Q, (-3)%Q, (-3)%Q, (3#2)%Q)]; NoneErr].
Proof. vm_compute. reflexivity. Qed.

Print Assumptions volume_model_sees_current_arrays.
Print Assumptions builds_leave_no_trace.
Print Assumptions builds_do_not_alter_other_outcomes.
Print Assumptions coefficients_function_of_current_arrays.
Print Assumptions history_preserves_frame.
Print Assumptions rejected_assignment_leaves_model_unchanged.
Print Assumptions write_to_missing_parameter_leaves_model_unchanged.
Print Assumptions rejected_assignment_then_volume_model.
Print Assumptions setter_equals_full_inplace_write.
Print Assumptions coefficients_are_cell_local.
Print Assumptions inplace_mu_r_reaches_next_zeta.
Print Assumptions inplace_property_x_reaches_next_eta.
Print Assumptions zeta_is_volume_iff_unit_mu_r.
Print Assumptions history_nonvacuous.
