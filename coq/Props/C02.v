(* Props/C02.v -- property C02: the matrix-free operator equals the
   finite-integration discretisation.  ONLY statements, each closed by [exact]
   of a lemma from Proofs/, with Print Assumptions beneath.

   [amat_x] is Gen/CoreAmat.v: regenerated from emg3d/core.py on every run.
   The specification (A_x, A_y, A_z; curl, face mass, transposed curl, edge
   mass) is Model/FIT.v.  F is ANY field with 1+1 <> 0 (R, C, Q, ...). *)
From Coq Require Import ZArith Bool Field.
From V Require Import Base.Loops Base.Loops3 Base.Arr Base.FieldSig.
From V Require Import Gen.CoreAmat Model.FIT Proofs.AmatFIT Proofs.AmatSym.
Local Open Scope Z_scope.

Section C02.
  Context {F : Type} {O : FOps F}.
  Hypothesis Fth : field_theory F0 F1 Fadd Fmul Fsub Fopp Fdiv Finv (@eq F).
  Hypothesis two_nz : (1 + 1)%F <> 0%F.
  Variables (ex ey ez eta_x eta_y eta_z zeta : Z -> Z -> Z -> F).
  Variables (hx hy hz : Z -> F).
  Hypothesis hx_nz : forall i, hx i <> 0%F.
  Hypothesis hy_nz : forall i, hy i <> 0%F.
  Hypothesis hz_nz : forall i, hz i <> 0%F.

  (* The kernel, for every shape (nx,ny,nz), every residual/source arrays and
     every field: on each visited edge it subtracts exactly (A e); everything
     else is untouched. *)
  Theorem amat_eq_fit nx ny nz rx ry rz :
    0 <= nx -> 0 <= ny -> 0 <= nz -> forall i j k,
    get3 (amat_x nx ny nz rx ry rz ex ey ez eta_x eta_y eta_z zeta hx hy hz) i j k
    = if in_box nx ny nz i j k
      then ((rx i j k - A_x ex ey ez eta_x zeta hx hy hz i j k)%F,
            (ry i j k - A_y ex ey ez eta_y zeta hx hy hz i j k)%F,
            (rz i j k - A_z ex ey ez eta_z zeta hx hy hz i j k)%F)
      else (rx i j k, ry i j k, rz i j k).
  Proof. exact (amat_x_eq Fth two_nz ex ey ez eta_x eta_y eta_z zeta hx hy hz
                          hx_nz hy_nz hz_nz nx ny nz rx ry rz). Qed.

  (* Interior edges: plain curl^T M_f curl e - M_e e, with the two-cell face
     average of zeta and the four-cell edge average of eta_{x,y,z}. *)
  Theorem fit_interior_x i j k : 1 <= j -> 1 <= k ->
    A_x ex ey ez eta_x zeta hx hy hz i j k =
    (curlT_x (u_y ex ez zeta hx hz) (u_z ex ey zeta hx hy) hy hz i j k
     - ((eta_x i (j-1) (k-1) + eta_x i (j-1) k + eta_x i j (k-1) + eta_x i j k)
        / ((1+1)*(1+1))) * ex i j k)%F.
  Proof. exact (A_x_interior ex ey ez eta_x zeta hx hy hz i j k). Qed.
  Theorem fit_interior_y i j k : 1 <= i -> 1 <= k ->
    A_y ex ey ez eta_y zeta hx hy hz i j k =
    (curlT_y (u_x ey ez zeta hy hz) (u_z ex ey zeta hx hy) hx hz i j k
     - ((eta_y (i-1) j (k-1) + eta_y i j (k-1) + eta_y (i-1) j k + eta_y i j k)
        / ((1+1)*(1+1))) * ey i j k)%F.
  Proof. exact (A_y_interior ex ey ez eta_y zeta hx hy hz i j k). Qed.
  Theorem fit_interior_z i j k : 1 <= i -> 1 <= j ->
    A_z ex ey ez eta_z zeta hx hy hz i j k =
    (curlT_z (u_x ey ez zeta hy hz) (u_y ex ez zeta hx hz) hx hy i j k
     - ((eta_z (i-1) (j-1) k + eta_z i (j-1) k + eta_z (i-1) j k + eta_z i j k)
        / ((1+1)*(1+1))) * ez i j k)%F.
  Proof. exact (A_z_interior ex ey ez eta_z zeta hx hy hz i j k). Qed.

  (* PEC: nothing is subtracted on lower tangential boundary edges. *)
  Theorem fit_boundary_x i j k : (j = 0 \/ k = 0) -> ex i j k = 0%F ->
    A_x ex ey ez eta_x zeta hx hy hz i j k = 0%F.
  Proof. exact (A_x_boundary Fth ex ey ez eta_x zeta hx hy hz i j k). Qed.
  Theorem fit_boundary_y i j k : (i = 0 \/ k = 0) -> ey i j k = 0%F ->
    A_y ex ey ez eta_y zeta hx hy hz i j k = 0%F.
  Proof. exact (A_y_boundary Fth ex ey ez eta_y zeta hx hy hz i j k). Qed.
  Theorem fit_boundary_z i j k : (i = 0 \/ j = 0) -> ez i j k = 0%F ->
    A_z ex ey ez eta_z zeta hx hy hz i j k = 0%F.
  Proof. exact (A_z_boundary Fth ex ey ez eta_z zeta hx hy hz i j k). Qed.

  (* The curl-curl part annihilates every discrete gradient. *)
  Theorem curlcurl_annihilates_gradients (phi : Z -> Z -> Z -> F) i j k :
    A_x (grad_x phi hx) (grad_y phi hy) (grad_z phi hz) zero3 zeta hx hy hz i j k = 0%F /\
    A_y (grad_x phi hx) (grad_y phi hy) (grad_z phi hz) zero3 zeta hx hy hz i j k = 0%F /\
    A_z (grad_x phi hx) (grad_y phi hy) (grad_z phi hz) zero3 zeta hx hy hz i j k = 0%F.
  Proof. exact (curlcurl_kills_gradients Fth two_nz phi hx hy hz hx_nz hy_nz hz_nz zeta i j k). Qed.
End C02.

(* The operator is (complex-)symmetric: for fields e, g with vanishing tangential
   boundary values, <A e, g> = <e, A g> over all edges (bilinear, no
   conjugation), for every shape, all widths and coefficients.  [edge_dot] sums
   over all x-, y- and z-edges; [pec] says the tangential boundary values vanish.
   Together with [amat_eq_fit] (the kernel subtracts exactly A e) this is the
   symmetry of the matrix-free operator. *)
Theorem operator_is_symmetric {F : Type} {O : FOps F}
        (Fth : field_theory F0 F1 Fadd Fmul Fsub Fopp Fdiv Finv (@eq F))
        (eta_x eta_y eta_z zeta : Z -> Z -> Z -> F) (hx hy hz : Z -> F) (nx ny nz : Z)
        (ex ey ez gx gy gz : Z -> Z -> Z -> F) :
  0 <= nx -> 0 <= ny -> 0 <= nz -> pec nx ny nz ex ey ez -> pec nx ny nz gx gy gz ->
  edge_dot nx ny nz (A_x ex ey ez eta_x zeta hx hy hz) (A_y ex ey ez eta_y zeta hx hy hz)
           (A_z ex ey ez eta_z zeta hx hy hz) gx gy gz
  = edge_dot nx ny nz (A_x gx gy gz eta_x zeta hx hy hz) (A_y gx gy gz eta_y zeta hx hy hz)
             (A_z gx gy gz eta_z zeta hx hy hz) ex ey ez.
Proof. intros Hx Hy Hz. exact (amat_symmetric Fth eta_x eta_y eta_z zeta hx hy hz nx ny nz Hx Hy Hz ex ey ez gx gy gz). Qed.

Print Assumptions amat_eq_fit.
Print Assumptions fit_interior_x.
Print Assumptions fit_interior_y.
Print Assumptions fit_interior_z.
Print Assumptions fit_boundary_x.
Print Assumptions fit_boundary_y.
Print Assumptions fit_boundary_z.
Print Assumptions curlcurl_annihilates_gradients.
Print Assumptions operator_is_symmetric.
