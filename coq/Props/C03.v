(* Props/C03.v -- property C03: every smoother is a consistent relaxation of the
   same linear system; the banded solver is exact.  ONLY statements.

   [solve]: Gen/CoreBand.v; [gauss_seidel_L4], [gauss_seidel_L4_call1] (the 6x6
   block system handed to the solver at one node): Gen/CoreGS.v -- both
   regenerated from emg3d/core.py on every run.  A_x, A_y, A_z: the operator of
   C02 (Model/FIT.v).  F: any field with 1+1 <> 0. *)
From Coq Require Import ZArith Bool Field.
From V Require Import Base.Loops Base.Arr Base.FieldSig.
From V Require Import Gen.CoreBand Gen.CoreGS Model.FIT Proofs.BandSums Proofs.BandLDL Proofs.GSBlock Proofs.GSSweep Proofs.GSLineX.
Local Open Scope Z_scope.

Section C03.
  Context {F : Type} {O : FOps F}.
  Hypothesis Fth : field_theory F0 F1 Fadd Fmul Fsub Fopp Fdiv Finv (@eq F).
  Hypothesis two_nz : (1 + 1)%F <> 0%F.

  (* --- the banded symmetric solver -------------------------------------- *)
  (* For every n >= 1, every 11-diagonal symmetric system given by its lower
     band (amat[i+5j], j <= i <= j+5) and every right-hand side: if no pivot of
     the pivot-free L D L^T factorisation vanishes (the code's own assumption),
     the returned vector solves the system exactly ... *)
  Theorem solve_correct_banded n (amat bvec : Z -> F) :
    1 <= n -> (forall j, 0 <= j < n -> pivot n amat j <> 0%F) ->
    forall i, 0 <= i < n -> bandmul n amat (snd (solve n amat bvec)) i = bvec i.
  Proof. exact (solve_correct Fth n amat bvec). Qed.
  (* ... it is the only solution, and it depends linearly on the right-hand side *)
  Theorem solve_unique_banded n (amat bvec : Z -> F) :
    1 <= n -> (forall j, 0 <= j < n -> pivot n amat j <> 0%F) -> forall x' : Z -> F,
    (forall i, 0 <= i < n -> bandmul n amat x' i = bvec i) ->
    forall i, 0 <= i < n -> snd (solve n amat bvec) i = x' i.
  Proof. exact (solve_unique Fth n amat bvec). Qed.
  Theorem solve_is_linear_in_rhs n amat (al be : F) (b1 b2 : Z -> F) :
    1 <= n -> (forall j, 0 <= j < n -> pivot n amat j <> 0%F) ->
    forall i, 0 <= i < n ->
    snd (solve n amat (fun k => (al * b1 k + be * b2 k)%F)) i
    = (al * snd (solve n amat b1) i + be * snd (solve n amat b2) i)%F.
  Proof. exact (solve_linear_rhs Fth n amat al be b1 b2). Qed.

  (* --- the point-wise smoother ------------------------------------------ *)
  Variables (ex ey ez sx sy sz eta_x eta_y eta_z zeta : Z -> Z -> Z -> F).
  Variables (hx hy hz : Z -> F).
  Hypothesis hx_nz : forall i, hx i <> 0%F.
  Hypothesis hy_nz : forall i, hy i <> 0%F.
  Hypothesis hz_nz : forall i, hz i <> 0%F.
  Variables (nu lhx nx lhy ny lhz nz : Z).
  Notation SYS := (gs_sys ex ey ez sx sy sz eta_x eta_y eta_z zeta hx hy hz nu lhx nx lhy ny lhz nz).
  Notation RES := (edge_res ex ey ez sx sy sz eta_x eta_y eta_z zeta hx hy hz).

  (* one block step of the generated kernel = assemble the 6x6 system, solve it
     with the banded solver, write the six values back *)
  Theorem gs_step_is_assemble_solve_write amat0 ix iy iz :
    gs_args_L4 sx sy sz eta_x eta_y eta_z zeta hx hy hz nu lhx nx lhy ny lhz nz
      0 0 iz iz (iz-1) (iz+1) iy iy (iy-1) (iy+1) ix (amat0, ex, ey, ez)
    = let sys := SYS amat0 ix iy iz in
      let r := solve 6 (fst sys) (snd sys) in
      (fst r, new_ex ex (snd r) ix iy iz, new_ey ey (snd r) ix iy iz, new_ez ez (snd r) ix iy iz).
  Proof. exact (L4_step ex ey ez sx sy sz eta_x eta_y eta_z zeta hx hy hz nu lhx nx lhy ny lhz nz
                        amat0 ix iy iz). Qed.

  (* consistency: for ANY values x of the node's six edges, block-matrix * x -
     block-rhs equals (A e[x] - s) on those edges, A being the operator of C02;
     the old values of the six edges do not enter the right-hand side *)
  Theorem gs_block_is_the_residual_system amat0 (x : Z -> F) ix iy iz k :
    1 <= ix -> 1 <= iy -> 1 <= iz -> 0 <= k < 6 ->
    Fsub (bandmul 6 (fst (SYS amat0 ix iy iz)) x k) (snd (SYS amat0 ix iy iz) k)
    = RES x ix iy iz k.
  Proof. exact (gs_block_consistent Fth two_nz ex ey ez sx sy sz eta_x eta_y eta_z zeta hx hy hz
                  hx_nz hy_nz hz_nz nu lhx nx lhy ny lhz nz amat0 x ix iy iz k). Qed.

  (* the six equations of the relaxed block hold exactly afterwards *)
  Theorem gs_block_equations_hold_afterwards amat0 ix iy iz :
    1 <= ix -> 1 <= iy -> 1 <= iz ->
    (forall j, 0 <= j < 6 -> pivot 6 (fst (SYS amat0 ix iy iz)) j <> 0%F) ->
    forall k, 0 <= k < 6 ->
    RES (snd (solve 6 (fst (SYS amat0 ix iy iz)) (snd (SYS amat0 ix iy iz)))) ix iy iz k = 0%F.
  Proof. exact (gs_block_exact Fth two_nz ex ey ez sx sy sz eta_x eta_y eta_z zeta hx hy hz
                  hx_nz hy_nz hz_nz nu lhx nx lhy ny lhz nz amat0 ix iy iz). Qed.

  (* a field that already satisfies the six equations is left unchanged *)
  Theorem gs_exact_solution_is_fixed_point amat0 ix iy iz :
    1 <= ix -> 1 <= iy -> 1 <= iz ->
    (forall j, 0 <= j < 6 -> pivot 6 (fst (SYS amat0 ix iy iz)) j <> 0%F) ->
    (forall k, 0 <= k < 6 -> RES (cur ex ey ez ix iy iz) ix iy iz k = 0%F) ->
    forall k, 0 <= k < 6 ->
    snd (solve 6 (fst (SYS amat0 ix iy iz)) (snd (SYS amat0 ix iy iz))) k = cur ex ey ez ix iy iz k.
  Proof. exact (gs_block_fixed_point Fth two_nz ex ey ez sx sy sz eta_x eta_y eta_z zeta hx hy hz
                  hx_nz hy_nz hz_nz nu lhx nx lhy ny lhz nz amat0 ix iy iz). Qed.

  (* only the six edges attached to the node are written (never a tangential
     boundary edge: the nodes visited have 1 <= ix < nx etc.) *)
  Theorem gs_block_writes_only_its_six_edges (r : Z -> F) ix iy iz i j k :
    (new_ex ex r ix iy iz i j k = ex i j k \/ (j = iy /\ k = iz /\ (i = ix - 1 \/ i = ix))) /\
    (new_ey ey r ix iy iz i j k = ey i j k \/ (i = ix /\ k = iz /\ (j = iy - 1 \/ j = iy))) /\
    (new_ez ez r ix iy iz i j k = ez i j k \/ (i = ix /\ j = iy /\ (k = iz - 1 \/ k = iz))).
  Proof. exact (gs_block_frame ex ey ez r ix iy iz i j k). Qed.
End C03.

(* --- the whole point-wise smoother: every nu, every shape ------------------ *)
Section C03sweep.
  Context {F : Type} {O : FOps F}.
  Hypothesis Fth : field_theory F0 F1 Fadd Fmul Fsub Fopp Fdiv Finv (@eq F).
  Hypothesis two_nz : (1 + 1)%F <> 0%F.
  Variables (ex ey ez sx sy sz eta_x eta_y eta_z zeta : Z -> Z -> Z -> F).
  Variables (hx hy hz : Z -> F).
  Hypothesis hx_nz : forall i, hx i <> 0%F.
  Hypothesis hy_nz : forall i, hy i <> 0%F.
  Hypothesis hz_nz : forall i, hz i <> 0%F.
  Variables (nu nx ny nz : Z).
  Hypothesis Hnx : 0 <= nx.
  Hypothesis Hny : 0 <= ny.
  Hypothesis Hnz : 0 <= nz.

  (* A field whose six block equations hold at every interior node (i.e. which
     solves A e = s on all interior edges) is returned unchanged by
     [gauss_seidel], forward and backward sweeps alike, for every nu -- provided
     no block pivot vanishes. *)
  Theorem point_smoother_leaves_exact_solution_unchanged :
    (forall ix iy iz, interior nx ny nz ix iy iz -> forall k, 0 <= k < 6 ->
       edge_res ex ey ez sx sy sz eta_x eta_y eta_z zeta hx hy hz (cur ex ey ez ix iy iz) ix iy iz k = 0%F) ->
    (forall ix iy iz, interior nx ny nz ix iy iz -> forall j, 0 <= j < 6 ->
       pivot 6 (fst (gs_sys ex ey ez sx sy sz eta_x eta_y eta_z zeta hx hy hz nu nx nx ny ny nz nz
                            (fun _ => 0%F) ix iy iz)) j <> 0%F) ->
    let r := gauss_seidel nx ny nz ex ey ez sx sy sz eta_x eta_y eta_z zeta hx hy hz nu in
    forall i j l, fst (fst r) i j l = ex i j l /\ snd (fst r) i j l = ey i j l /\ snd r i j l = ez i j l.
  Proof.
    intros Hex Hpiv.
    exact (gauss_seidel_fixed_point Fth two_nz ex ey ez sx sy sz eta_x eta_y eta_z zeta hx hy hz
             hx_nz hy_nz hz_nz nu nx ny nz Hex Hpiv).
  Qed.

  (* Tangential boundary values (everything outside the interior edges) are
     never written, for any field, any source and any number of sweeps. *)
  Theorem point_smoother_never_writes_boundary :
    let r := gauss_seidel nx ny nz ex ey ez sx sy sz eta_x eta_y eta_z zeta hx hy hz nu in
    (forall i j l, (j <= 0 \/ ny <= j \/ l <= 0 \/ nz <= l) -> fst (fst r) i j l = ex i j l) /\
    (forall i j l, (i <= 0 \/ nx <= i \/ l <= 0 \/ nz <= l) -> snd (fst r) i j l = ey i j l) /\
    (forall i j l, (i <= 0 \/ nx <= i \/ j <= 0 \/ ny <= j) -> snd r i j l = ez i j l).
  Proof. exact (gauss_seidel_frame ex ey ez sx sy sz eta_x eta_y eta_z zeta hx hy hz nu nx ny nz). Qed.
End C03sweep.

(* --- the line smoother along x (linerelaxation 4 and part of 5, 6, 7) -------- *)
(* [gauss_seidel_x] of Gen/CoreGS.v (regenerated from emg3d/core.py).  For the
   line (iy, iz) the kernel assembles a banded system of 5 nx - 4 unknowns
   (unknown 5a+r: r=0 ex[a,iy,iz]; r=1,2 ey[a+1,iy-1|iy,iz]; r=3,4
   ez[a+1,iy,iz-1|iz]), [gsx_sys] = the (amat, bvec) after the generated ixh
   loop, [gsx_out] = the field after solve + write-back.  [fld_res fx fy fz a r]
   = (A f - s) on the edge of unknown 5a+r, A the operator of C02.
   PECx: the eight tangential values at the two x-ends of the line are zero
   (the kernel drops their couplings; docstring: "assumed to be zero (PEC)"). *)
Section C03linex.
  Context {F : Type} {O : FOps F}.
  Hypothesis Fth : field_theory F0 F1 Fadd Fmul Fsub Fopp Fdiv Finv (@eq F).
  Hypothesis two_nz : (1 + 1)%F <> 0%F.
  Variables (ex ey ez sx sy sz eta_x eta_y eta_z zeta : Z -> Z -> Z -> F).
  Variables (hx hy hz : Z -> F).
  Hypothesis hx_nz : forall i, hx i <> 0%F.
  Hypothesis hy_nz : forall i, hy i <> 0%F.
  Hypothesis hz_nz : forall i, hz i <> 0%F.
  Variables (nu lhx nx lhy ny lhz nz iy iz : Z).
  Notation LSYS := (gsx_sys ex ey ez sx sy sz eta_x eta_y eta_z zeta hx hy hz nu lhx nx lhy ny lhz nz iy iz).
  Notation LOUT := (gsx_out ex ey ez sx sy sz eta_x eta_y eta_z zeta hx hy hz nu lhx nx lhy ny lhz nz iy iz).

  (* consistency: for ANY values x of the line's unknowns, line-matrix * x -
     line-rhs is (A e[x] - s) on the line's edges (every nx >= 2, both ends,
     first / middle / next-to-last / last block) *)
  Theorem line_x_system_is_the_residual_system :
    2 <= nx -> 1 <= iy -> 1 <= iz -> PECx ey ez nx iy iz ->
    forall (x : Z -> F) i, 0 <= i < 5*nx-4 ->
      Fsub (bandmul (5*nx-4) (fst LSYS) x i) (snd LSYS i)
      = line_res ex ey ez sx sy sz eta_x eta_y eta_z zeta hx hy hz nx iy iz x (i / 5) (i mod 5).
  Proof. exact (gsx_line_consistent Fth two_nz ex ey ez sx sy sz eta_x eta_y eta_z zeta hx hy hz
                  hx_nz hy_nz hz_nz nu lhx nx lhy ny lhz nz iy iz). Qed.

  (* after the step (assemble, banded solve, write back) every equation of the
     line holds exactly on the returned field *)
  Theorem line_x_equations_hold_afterwards :
    2 <= nx -> 1 <= iy -> 1 <= iz -> PECx ey ez nx iy iz ->
    PivX ex ey ez sx sy sz eta_x eta_y eta_z zeta hx hy hz nu lhx nx lhy ny lhz nz iy iz ->
    forall i, 0 <= i < 5*nx-4 ->
      fld_res sx sy sz eta_x eta_y eta_z zeta hx hy hz iy iz
        (fst (fst LOUT)) (snd (fst LOUT)) (snd LOUT) (i / 5) (i mod 5) = 0%F.
  Proof. exact (gsx_line_exact_out Fth two_nz ex ey ez sx sy sz eta_x eta_y eta_z zeta hx hy hz
                  hx_nz hy_nz hz_nz nu lhx nx lhy ny lhz nz iy iz). Qed.
End C03linex.

Section C03linexsweep.
  Context {F : Type} {O : FOps F}.
  Hypothesis Fth : field_theory F0 F1 Fadd Fmul Fsub Fopp Fdiv Finv (@eq F).
  Hypothesis two_nz : (1 + 1)%F <> 0%F.
  Variables (ex ey ez sx sy sz eta_x eta_y eta_z zeta : Z -> Z -> Z -> F).
  Variables (hx hy hz : Z -> F).
  Hypothesis hx_nz : forall i, hx i <> 0%F.
  Hypothesis hy_nz : forall i, hy i <> 0%F.
  Hypothesis hz_nz : forall i, hz i <> 0%F.
  Variables (nu nx ny nz : Z).

  (* the whole kernel, every nu, forward and backward ordering: a field solving
     every equation of every interior line is returned unchanged ... *)
  Theorem line_x_smoother_leaves_exact_solution_unchanged :
    2 <= nx ->
    (forall iy iz, 1 <= iy < ny -> 1 <= iz < nz -> forall i, 0 <= i < 5*nx-4 ->
       fld_res sx sy sz eta_x eta_y eta_z zeta hx hy hz iy iz ex ey ez (i / 5) (i mod 5) = 0%F) ->
    (forall iy iz, 1 <= iy < ny -> 1 <= iz < nz -> PECx ey ez nx iy iz) ->
    (forall iy iz, 1 <= iy < ny -> 1 <= iz < nz ->
       PivX ex ey ez sx sy sz eta_x eta_y eta_z zeta hx hy hz nu nx nx ny ny nz nz iy iz) ->
    let r := gauss_seidel_x nx ny nz ex ey ez sx sy sz eta_x eta_y eta_z zeta hx hy hz nu in
    forall i j l, fst (fst r) i j l = ex i j l /\ snd (fst r) i j l = ey i j l /\ snd r i j l = ez i j l.
  Proof. exact (gauss_seidel_x_fixed_point Fth two_nz ex ey ez sx sy sz eta_x eta_y eta_z zeta hx hy hz
                  hx_nz hy_nz hz_nz nu nx ny nz). Qed.

  (* ... and no tangential boundary edge is ever written (any field, source, nu, shape) *)
  Theorem line_x_smoother_never_writes_boundary :
    let r := gauss_seidel_x nx ny nz ex ey ez sx sy sz eta_x eta_y eta_z zeta hx hy hz nu in
    (forall i j l, (i < 0 \/ nx <= i \/ j <= 0 \/ ny <= j \/ l <= 0 \/ nz <= l) ->
       fst (fst r) i j l = ex i j l) /\
    (forall i j l, (i <= 0 \/ nx <= i \/ j < 0 \/ ny <= j \/ l <= 0 \/ nz <= l) ->
       snd (fst r) i j l = ey i j l) /\
    (forall i j l, (i <= 0 \/ nx <= i \/ j <= 0 \/ ny <= j \/ l < 0 \/ nz <= l) ->
       snd r i j l = ez i j l).
  Proof. exact (gauss_seidel_x_frame ex ey ez sx sy sz eta_x eta_y eta_z zeta hx hy hz nu nx ny nz). Qed.
End C03linexsweep.

From V Require Import Proofs.GSLineY.

Section C03liney.
  Context {F : Type} {O : FOps F}.
  Hypothesis Fth : field_theory F0 F1 Fadd Fmul Fsub Fopp Fdiv Finv (@eq F).
  Hypothesis two_nz : (1 + 1)%F <> 0%F.
  Variables (ex ey ez sx sy sz eta_x eta_y eta_z zeta : Z -> Z -> Z -> F).
  Variables (hx hy hz : Z -> F).
  Hypothesis hx_nz : forall i, hx i <> 0%F.
  Hypothesis hy_nz : forall i, hy i <> 0%F.
  Hypothesis hz_nz : forall i, hz i <> 0%F.
  Variables (nu lhx nx lhy ny lhz nz ix iz : Z).
  Notation LSYS := (gsy_sys ex ey ez sx sy sz eta_x eta_y eta_z zeta hx hy hz nu lhx nx lhy ny lhz nz ix iz).
  Notation LOUT := (gsy_out ex ey ez sx sy sz eta_x eta_y eta_z zeta hx hy hz nu lhx nx lhy ny lhz nz ix iz).

  (* consistency: for ANY values x of the line's unknowns, line-matrix * x -
     line-rhs is (A e[x] - s) on the line's edges (every ny >= 2, both ends,
     first / middle / next-to-last / last block) *)
  Theorem line_y_system_is_the_residual_system :
    2 <= ny -> 1 <= ix -> 1 <= iz -> PECy ex ez ny ix iz ->
    forall (x : Z -> F) i, 0 <= i < 5*ny-4 ->
      Fsub (bandmul (5*ny-4) (fst LSYS) x i) (snd LSYS i)
      = line_resY ex ey ez sx sy sz eta_x eta_y eta_z zeta hx hy hz ny ix iz x (i / 5) (i mod 5).
  Proof. exact (gsy_line_consistent Fth two_nz ex ey ez sx sy sz eta_x eta_y eta_z zeta hx hy hz
                  hx_nz hy_nz hz_nz nu lhx nx lhy ny lhz nz ix iz). Qed.

  (* after the step (assemble, banded solve, write back) every equation of the
     line holds exactly on the returned field (LOUT in the order ex, ey, ez) *)
  Theorem line_y_equations_hold_afterwards :
    2 <= ny -> 1 <= ix -> 1 <= iz -> PECy ex ez ny ix iz ->
    PivY ex ey ez sx sy sz eta_x eta_y eta_z zeta hx hy hz nu lhx nx lhy ny lhz nz ix iz ->
    forall i, 0 <= i < 5*ny-4 ->
      fld_resY sx sy sz eta_x eta_y eta_z zeta hx hy hz ix iz
        (fst (fst LOUT)) (snd (fst LOUT)) (snd LOUT) (i / 5) (i mod 5) = 0%F.
  Proof. exact (gsy_line_exact_out Fth two_nz ex ey ez sx sy sz eta_x eta_y eta_z zeta hx hy hz
                  hx_nz hy_nz hz_nz nu lhx nx lhy ny lhz nz ix iz). Qed.
End C03liney.

Section C03lineysweep.
  Context {F : Type} {O : FOps F}.
  Hypothesis Fth : field_theory F0 F1 Fadd Fmul Fsub Fopp Fdiv Finv (@eq F).
  Hypothesis two_nz : (1 + 1)%F <> 0%F.
  Variables (ex ey ez sx sy sz eta_x eta_y eta_z zeta : Z -> Z -> Z -> F).
  Variables (hx hy hz : Z -> F).
  Hypothesis hx_nz : forall i, hx i <> 0%F.
  Hypothesis hy_nz : forall i, hy i <> 0%F.
  Hypothesis hz_nz : forall i, hz i <> 0%F.
  Variables (nu nx ny nz : Z).

  (* the whole kernel, every nu, forward and backward ordering: a field solving
     every equation of every interior line is returned unchanged ... *)
  Theorem line_y_smoother_leaves_exact_solution_unchanged :
    2 <= ny ->
    (forall ix iz, 1 <= ix < nx -> 1 <= iz < nz -> forall i, 0 <= i < 5*ny-4 ->
       fld_resY sx sy sz eta_x eta_y eta_z zeta hx hy hz ix iz ex ey ez (i / 5) (i mod 5) = 0%F) ->
    (forall ix iz, 1 <= ix < nx -> 1 <= iz < nz -> PECy ex ez ny ix iz) ->
    (forall ix iz, 1 <= ix < nx -> 1 <= iz < nz ->
       PivY ex ey ez sx sy sz eta_x eta_y eta_z zeta hx hy hz nu nx nx ny ny nz nz ix iz) ->
    let r := gauss_seidel_y nx ny nz ex ey ez sx sy sz eta_x eta_y eta_z zeta hx hy hz nu in
    forall i j l, fst (fst r) i j l = ex i j l /\ snd (fst r) i j l = ey i j l /\ snd r i j l = ez i j l.
  Proof. exact (gauss_seidel_y_fixed_point Fth two_nz ex ey ez sx sy sz eta_x eta_y eta_z zeta hx hy hz
                  hx_nz hy_nz hz_nz nu nx ny nz). Qed.

  (* ... and no tangential boundary edge is ever written (any field, source, nu, shape) *)
  Theorem line_y_smoother_never_writes_boundary :
    let r := gauss_seidel_y nx ny nz ex ey ez sx sy sz eta_x eta_y eta_z zeta hx hy hz nu in
    (forall i j l, (i < 0 \/ nx <= i \/ j <= 0 \/ ny <= j \/ l <= 0 \/ nz <= l) ->
       fst (fst r) i j l = ex i j l) /\
    (forall i j l, (i <= 0 \/ nx <= i \/ j < 0 \/ ny <= j \/ l <= 0 \/ nz <= l) ->
       snd (fst r) i j l = ey i j l) /\
    (forall i j l, (i <= 0 \/ nx <= i \/ j <= 0 \/ ny <= j \/ l < 0 \/ nz <= l) ->
       snd r i j l = ez i j l).
  Proof. exact (gauss_seidel_y_frame ex ey ez sx sy sz eta_x eta_y eta_z zeta hx hy hz nu nx ny nz). Qed.
End C03lineysweep.

From V Require Import Proofs.GSLineZ.

Section C03linez.
  Context {F : Type} {O : FOps F}.
  Hypothesis Fth : field_theory F0 F1 Fadd Fmul Fsub Fopp Fdiv Finv (@eq F).
  Hypothesis two_nz : (1 + 1)%F <> 0%F.
  Variables (ex ey ez sx sy sz eta_x eta_y eta_z zeta : Z -> Z -> Z -> F).
  Variables (hx hy hz : Z -> F).
  Hypothesis hx_nz : forall i, hx i <> 0%F.
  Hypothesis hy_nz : forall i, hy i <> 0%F.
  Hypothesis hz_nz : forall i, hz i <> 0%F.
  Variables (nu lhx nx lhy ny lhz nz ix iy : Z).
  Notation LSYS := (gsz_sys ex ey ez sx sy sz eta_x eta_y eta_z zeta hx hy hz nu lhx nx lhy ny lhz nz ix iy).
  Notation LOUT := (gsz_out ex ey ez sx sy sz eta_x eta_y eta_z zeta hx hy hz nu lhx nx lhy ny lhz nz ix iy).

  (* consistency: for ANY values x of the line's unknowns, line-matrix * x -
     line-rhs is (A e[x] - s) on the line's edges (every nz >= 2, both ends,
     first / middle / next-to-last / last block) *)
  Theorem line_z_system_is_the_residual_system :
    2 <= nz -> 1 <= ix -> 1 <= iy -> PECz ex ey nz ix iy ->
    forall (x : Z -> F) i, 0 <= i < 5*nz-4 ->
      Fsub (bandmul (5*nz-4) (fst LSYS) x i) (snd LSYS i)
      = line_resZ ex ey ez sx sy sz eta_x eta_y eta_z zeta hx hy hz nz ix iy x (i / 5) (i mod 5).
  Proof. exact (gsz_line_consistent Fth two_nz ex ey ez sx sy sz eta_x eta_y eta_z zeta hx hy hz
                  hx_nz hy_nz hz_nz nu lhx nx lhy ny lhz nz ix iy). Qed.

  (* after the step (assemble, banded solve, write back) every equation of the
     line holds exactly on the returned field (LOUT in the order ex, ey, ez) *)
  Theorem line_z_equations_hold_afterwards :
    2 <= nz -> 1 <= ix -> 1 <= iy -> PECz ex ey nz ix iy ->
    PivZ ex ey ez sx sy sz eta_x eta_y eta_z zeta hx hy hz nu lhx nx lhy ny lhz nz ix iy ->
    forall i, 0 <= i < 5*nz-4 ->
      fld_resZ sx sy sz eta_x eta_y eta_z zeta hx hy hz ix iy
        (fst (fst LOUT)) (snd (fst LOUT)) (snd LOUT) (i / 5) (i mod 5) = 0%F.
  Proof. exact (gsz_line_exact_out Fth two_nz ex ey ez sx sy sz eta_x eta_y eta_z zeta hx hy hz
                  hx_nz hy_nz hz_nz nu lhx nx lhy ny lhz nz ix iy). Qed.
End C03linez.

Section C03linezsweep.
  Context {F : Type} {O : FOps F}.
  Hypothesis Fth : field_theory F0 F1 Fadd Fmul Fsub Fopp Fdiv Finv (@eq F).
  Hypothesis two_nz : (1 + 1)%F <> 0%F.
  Variables (ex ey ez sx sy sz eta_x eta_y eta_z zeta : Z -> Z -> Z -> F).
  Variables (hx hy hz : Z -> F).
  Hypothesis hx_nz : forall i, hx i <> 0%F.
  Hypothesis hy_nz : forall i, hy i <> 0%F.
  Hypothesis hz_nz : forall i, hz i <> 0%F.
  Variables (nu nx ny nz : Z).

  (* the whole kernel, every nu, forward and backward ordering: a field solving
     every equation of every interior line is returned unchanged ... *)
  Theorem line_z_smoother_leaves_exact_solution_unchanged :
    2 <= nz ->
    (forall ix iy, 1 <= ix < nx -> 1 <= iy < ny -> forall i, 0 <= i < 5*nz-4 ->
       fld_resZ sx sy sz eta_x eta_y eta_z zeta hx hy hz ix iy ex ey ez (i / 5) (i mod 5) = 0%F) ->
    (forall ix iy, 1 <= ix < nx -> 1 <= iy < ny -> PECz ex ey nz ix iy) ->
    (forall ix iy, 1 <= ix < nx -> 1 <= iy < ny ->
       PivZ ex ey ez sx sy sz eta_x eta_y eta_z zeta hx hy hz nu nx nx ny ny nz nz ix iy) ->
    let r := gauss_seidel_z nx ny nz ex ey ez sx sy sz eta_x eta_y eta_z zeta hx hy hz nu in
    forall i j l, fst (fst r) i j l = ex i j l /\ snd (fst r) i j l = ey i j l /\ snd r i j l = ez i j l.
  Proof. exact (gauss_seidel_z_fixed_point Fth two_nz ex ey ez sx sy sz eta_x eta_y eta_z zeta hx hy hz
                  hx_nz hy_nz hz_nz nu nx ny nz). Qed.

  (* ... and no tangential boundary edge is ever written (any field, source, nu, shape) *)
  Theorem line_z_smoother_never_writes_boundary :
    let r := gauss_seidel_z nx ny nz ex ey ez sx sy sz eta_x eta_y eta_z zeta hx hy hz nu in
    (forall i j l, (i < 0 \/ nx <= i \/ j <= 0 \/ ny <= j \/ l <= 0 \/ nz <= l) ->
       fst (fst r) i j l = ex i j l) /\
    (forall i j l, (i <= 0 \/ nx <= i \/ j < 0 \/ ny <= j \/ l <= 0 \/ nz <= l) ->
       snd (fst r) i j l = ey i j l) /\
    (forall i j l, (i <= 0 \/ nx <= i \/ j <= 0 \/ ny <= j \/ l < 0 \/ nz <= l) ->
       snd r i j l = ez i j l).
  Proof. exact (gauss_seidel_z_frame ex ey ez sx sy sz eta_x eta_y eta_z zeta hx hy hz nu nx ny nz). Qed.
End C03linezsweep.

(* --- the whole point smoother is LINEAR in (field, source); last block exact -- *)
(* (Proofs/GSAffine.v; relational three-run fold induction, peeling of the last
   iteration of the four loops.)  Affinity -- al + be = 1 -- is the special case;
   the proof never needs it.  [last_node nu n] = 1 if nu is odd, n-1 otherwise:
   core.gauss_seidel flips iback BEFORE each sweep, so sweep 1, 3, .. run from the
   high indices down to node (1,1,1) (the docstring says the opposite). *)
From V Require Import Proofs.GSAffine.
Section C03affine.
  Context {F : Type} {O : FOps F}.
  Hypothesis Fth : field_theory F0 F1 Fadd Fmul Fsub Fopp Fdiv Finv (@eq F).
  Hypothesis two_nz : (1 + 1)%F <> 0%F.
  Variables (eta_x eta_y eta_z zeta : Z -> Z -> Z -> F).
  Variables (hx hy hz : Z -> F).
  Hypothesis hx_nz : forall i, hx i <> 0%F.
  Hypothesis hy_nz : forall i, hy i <> 0%F.
  Hypothesis hz_nz : forall i, hz i <> 0%F.
  Variables (nu nx ny nz : Z).

  Theorem point_smoother_is_linear_in_field_and_source
      (al be : F) (emx emy emz e1x e1y e1z e2x e2y e2z smx smy smz s1x s1y s1z s2x s2y s2z : Z -> Z -> Z -> F) :
    (forall i j l, emx i j l = (al * e1x i j l + be * e2x i j l)%F) ->
    (forall i j l, emy i j l = (al * e1y i j l + be * e2y i j l)%F) ->
    (forall i j l, emz i j l = (al * e1z i j l + be * e2z i j l)%F) ->
    (forall i j l, smx i j l = (al * s1x i j l + be * s2x i j l)%F) ->
    (forall i j l, smy i j l = (al * s1y i j l + be * s2y i j l)%F) ->
    (forall i j l, smz i j l = (al * s1z i j l + be * s2z i j l)%F) ->
    (forall ix iy iz, interior nx ny nz ix iy iz -> forall j, 0 <= j < 6 ->
       pivot 6 (fst (gs_sys e1x e1y e1z s1x s1y s1z eta_x eta_y eta_z zeta hx hy hz nu nx nx ny ny nz nz
                            (fun _ => 0%F) ix iy iz)) j <> 0%F) ->
    let rm := gauss_seidel nx ny nz emx emy emz smx smy smz eta_x eta_y eta_z zeta hx hy hz nu in
    let r1 := gauss_seidel nx ny nz e1x e1y e1z s1x s1y s1z eta_x eta_y eta_z zeta hx hy hz nu in
    let r2 := gauss_seidel nx ny nz e2x e2y e2z s2x s2y s2z eta_x eta_y eta_z zeta hx hy hz nu in
    forall i j l,
      fst (fst rm) i j l = (al * fst (fst r1) i j l + be * fst (fst r2) i j l)%F /\
      snd (fst rm) i j l = (al * snd (fst r1) i j l + be * snd (fst r2) i j l)%F /\
      snd rm i j l = (al * snd r1 i j l + be * snd r2 i j l)%F.
  Proof.
    intros Hex Hey Hez Hsx Hsy Hsz Hpiv.
    exact (gauss_seidel_linear Fth two_nz al be emx emy emz e1x e1y e1z e2x e2y e2z
             smx smy smz s1x s1y s1z s2x s2y s2z eta_x eta_y eta_z zeta hx hy hz
             hx_nz hy_nz hz_nz nu nx ny nz Hex Hey Hez Hsx Hsy Hsz Hpiv).
  Qed.

  Theorem block_matrix_independent_of_field_and_source
      (fx fy fz gx gy gz sx sy sz tx ty tz : Z -> Z -> Z -> F) (a1 a2 : Z -> F) lhx lhy lhz ix iy iz :
    fst (gs_sys fx fy fz sx sy sz eta_x eta_y eta_z zeta hx hy hz nu lhx nx lhy ny lhz nz a1 ix iy iz)
    = fst (gs_sys gx gy gz tx ty tz eta_x eta_y eta_z zeta hx hy hz nu lhx nx lhy ny lhz nz a2 ix iy iz).
  Proof. exact (sys_matrix_indep_src fx fy fz gx gy gz sx sy sz tx ty tz eta_x eta_y eta_z zeta
                  hx hy hz nu lhx nx lhy ny lhz nz a1 a2 ix iy iz). Qed.

  Variables (ex ey ez sx sy sz : Z -> Z -> Z -> F).
  Theorem point_smoother_last_block_is_exact :
    1 <= nu -> 2 <= nx -> 2 <= ny -> 2 <= nz ->
    (forall ix iy iz, interior nx ny nz ix iy iz -> forall j, 0 <= j < 6 ->
       pivot 6 (fst (gs_sys ex ey ez sx sy sz eta_x eta_y eta_z zeta hx hy hz nu nx nx ny ny nz nz
                            (fun _ => 0%F) ix iy iz)) j <> 0%F) ->
    let ix := last_node nu nx in let iy := last_node nu ny in let iz := last_node nu nz in
    let r := gauss_seidel nx ny nz ex ey ez sx sy sz eta_x eta_y eta_z zeta hx hy hz nu in
    forall k, 0 <= k < 6 ->
      edge_res (fst (fst r)) (snd (fst r)) (snd r) sx sy sz eta_x eta_y eta_z zeta hx hy hz
        (cur (fst (fst r)) (snd (fst r)) (snd r) ix iy iz) ix iy iz k = 0%F.
  Proof. exact (gauss_seidel_last_block_exact Fth two_nz ex ey ez sx sy sz eta_x eta_y eta_z zeta
                  hx hy hz hx_nz hy_nz hz_nz nu nx ny nz). Qed.
End C03affine.

From V Require Import Proofs.GSLineSweep Proofs.GSLineAffineX.

Section C03lineaffinex.
  Context {F : Type} {O : FOps F}.
  Hypothesis Fth : field_theory F0 F1 Fadd Fmul Fsub Fopp Fdiv Finv (@eq F).
  Hypothesis two_nz : (1 + 1)%F <> 0%F.
  Variables (eta_x eta_y eta_z zeta : Z -> Z -> Z -> F).
  Variables (hx hy hz : Z -> F).
  Hypothesis hx_nz : forall i, hx i <> 0%F.
  Hypothesis hy_nz : forall i, hy i <> 0%F.
  Hypothesis hz_nz : forall i, hz i <> 0%F.
  Variables (nu nx ny nz : Z).

  (* the line smoother along x is a linear (hence affine) map of (field, source):
     every nu, nx >= 2; pivots stated once (run 1); no PEC hypothesis *)
  Theorem line_x_smoother_is_linear_in_field_and_source
      (al be : F) (emx emy emz e1x e1y e1z e2x e2y e2z smx smy smz s1x s1y s1z s2x s2y s2z : Z -> Z -> Z -> F) :
    2 <= nx ->
    (forall i j l, emx i j l = (al * e1x i j l + be * e2x i j l)%F) ->
    (forall i j l, emy i j l = (al * e1y i j l + be * e2y i j l)%F) ->
    (forall i j l, emz i j l = (al * e1z i j l + be * e2z i j l)%F) ->
    (forall i j l, smx i j l = (al * s1x i j l + be * s2x i j l)%F) ->
    (forall i j l, smy i j l = (al * s1y i j l + be * s2y i j l)%F) ->
    (forall i j l, smz i j l = (al * s1z i j l + be * s2z i j l)%F) ->
    (forall iy iz, 1 <= iy < ny -> 1 <= iz < nz ->
       PivX e1x e1y e1z s1x s1y s1z eta_x eta_y eta_z zeta hx hy hz nu nx nx ny ny nz nz iy iz) ->
    let rm := gauss_seidel_x nx ny nz emx emy emz smx smy smz eta_x eta_y eta_z zeta hx hy hz nu in
    let r1 := gauss_seidel_x nx ny nz e1x e1y e1z s1x s1y s1z eta_x eta_y eta_z zeta hx hy hz nu in
    let r2 := gauss_seidel_x nx ny nz e2x e2y e2z s2x s2y s2z eta_x eta_y eta_z zeta hx hy hz nu in
    forall i j l,
      fst (fst rm) i j l = (al * fst (fst r1) i j l + be * fst (fst r2) i j l)%F /\
      snd (fst rm) i j l = (al * snd (fst r1) i j l + be * snd (fst r2) i j l)%F /\
      snd rm i j l = (al * snd r1 i j l + be * snd r2 i j l)%F.
  Proof.
    intros Hn Hex Hey Hez Hsx Hsy Hsz Hpiv.
    exact (gauss_seidel_x_linear Fth two_nz al be emx emy emz e1x e1y e1z e2x e2y e2z
             smx smy smz s1x s1y s1z s2x s2y s2z eta_x eta_y eta_z zeta hx hy hz
             hx_nz hy_nz hz_nz nu nx ny nz Hn Hex Hey Hez Hsx Hsy Hsz Hpiv).
  Qed.

  (* the matrix of a line system depends neither on the field nor on the source *)
  Theorem line_x_matrix_independent_of_field_and_source
      (fx fy fz gx gy gz sx sy sz tx ty tz : Z -> Z -> Z -> F) lhx lhy lhz iy iz :
    2 <= nx ->
    fst (gsx_sys fx fy fz sx sy sz eta_x eta_y eta_z zeta hx hy hz nu lhx nx lhy ny lhz nz iy iz)
    = fst (gsx_sys gx gy gz tx ty tz eta_x eta_y eta_z zeta hx hy hz nu lhx nx lhy ny lhz nz iy iz).
  Proof. exact (gsx_matrix_indep2 fx fy fz gx gy gz sx sy sz tx ty tz eta_x eta_y eta_z zeta
                  hx hy hz nu lhx nx lhy ny lhz nz iy iz). Qed.

  (* after nu >= 1 sweeps all 5 nx - 4 equations of the line relaxed LAST hold on the
     returned field: line (iy,iz) = (last_line nu ny, last_line nu nz);
     last_line nu n = 1 for odd nu (descending sweep), n - 1 for even nu.
     PEC and pivots only for that line, on the input field *)
  Variables (ex ey ez sx sy sz : Z -> Z -> Z -> F).
  Theorem line_x_smoother_last_line_is_exact :
    1 <= nu -> 2 <= nx -> 2 <= ny -> 2 <= nz ->
    let iy := last_line nu ny in let iz := last_line nu nz in
    PECx ey ez nx iy iz ->
    PivX ex ey ez sx sy sz eta_x eta_y eta_z zeta hx hy hz nu nx nx ny ny nz nz iy iz ->
    let r := gauss_seidel_x nx ny nz ex ey ez sx sy sz eta_x eta_y eta_z zeta hx hy hz nu in
    forall i, 0 <= i < 5*nx-4 ->
      fld_res sx sy sz eta_x eta_y eta_z zeta hx hy hz iy iz
        (fst (fst r)) (snd (fst r)) (snd r) (i / 5) (i mod 5) = 0%F.
  Proof. exact (gauss_seidel_x_last_line_exact Fth two_nz ex ey ez sx sy sz eta_x eta_y eta_z zeta
                  hx hy hz hx_nz hy_nz hz_nz nu nx ny nz). Qed.
End C03lineaffinex.

From V Require Import Proofs.GSLineSweep Proofs.GSLineAffineY.

Section C03lineaffiney.
  Context {F : Type} {O : FOps F}.
  Hypothesis Fth : field_theory F0 F1 Fadd Fmul Fsub Fopp Fdiv Finv (@eq F).
  Hypothesis two_nz : (1 + 1)%F <> 0%F.
  Variables (eta_x eta_y eta_z zeta : Z -> Z -> Z -> F).
  Variables (hx hy hz : Z -> F).
  Hypothesis hx_nz : forall i, hx i <> 0%F.
  Hypothesis hy_nz : forall i, hy i <> 0%F.
  Hypothesis hz_nz : forall i, hz i <> 0%F.
  Variables (nu nx ny nz : Z).

  (* the line smoother along y is a linear (hence affine) map of (field, source):
     every nu, ny >= 2; pivots stated once (run 1); no PEC hypothesis *)
  Theorem line_y_smoother_is_linear_in_field_and_source
      (al be : F) (emx emy emz e1x e1y e1z e2x e2y e2z smx smy smz s1x s1y s1z s2x s2y s2z : Z -> Z -> Z -> F) :
    2 <= ny ->
    (forall i j l, emx i j l = (al * e1x i j l + be * e2x i j l)%F) ->
    (forall i j l, emy i j l = (al * e1y i j l + be * e2y i j l)%F) ->
    (forall i j l, emz i j l = (al * e1z i j l + be * e2z i j l)%F) ->
    (forall i j l, smx i j l = (al * s1x i j l + be * s2x i j l)%F) ->
    (forall i j l, smy i j l = (al * s1y i j l + be * s2y i j l)%F) ->
    (forall i j l, smz i j l = (al * s1z i j l + be * s2z i j l)%F) ->
    (forall ix iz, 1 <= ix < nx -> 1 <= iz < nz ->
       PivY e1x e1y e1z s1x s1y s1z eta_x eta_y eta_z zeta hx hy hz nu nx nx ny ny nz nz ix iz) ->
    let rm := gauss_seidel_y nx ny nz emx emy emz smx smy smz eta_x eta_y eta_z zeta hx hy hz nu in
    let r1 := gauss_seidel_y nx ny nz e1x e1y e1z s1x s1y s1z eta_x eta_y eta_z zeta hx hy hz nu in
    let r2 := gauss_seidel_y nx ny nz e2x e2y e2z s2x s2y s2z eta_x eta_y eta_z zeta hx hy hz nu in
    forall i j l,
      fst (fst rm) i j l = (al * fst (fst r1) i j l + be * fst (fst r2) i j l)%F /\
      snd (fst rm) i j l = (al * snd (fst r1) i j l + be * snd (fst r2) i j l)%F /\
      snd rm i j l = (al * snd r1 i j l + be * snd r2 i j l)%F.
  Proof.
    intros Hn Hex Hey Hez Hsx Hsy Hsz Hpiv.
    exact (gauss_seidel_y_linear Fth two_nz al be emx emy emz e1x e1y e1z e2x e2y e2z
             smx smy smz s1x s1y s1z s2x s2y s2z eta_x eta_y eta_z zeta hx hy hz
             hx_nz hy_nz hz_nz nu nx ny nz Hn Hex Hey Hez Hsx Hsy Hsz Hpiv).
  Qed.

  (* the matrix of a line system depends neither on the field nor on the source *)
  Theorem line_y_matrix_independent_of_field_and_source
      (fx fy fz gx gy gz sx sy sz tx ty tz : Z -> Z -> Z -> F) lhx lhy lhz ix iz :
    2 <= ny ->
    fst (gsy_sys fx fy fz sx sy sz eta_x eta_y eta_z zeta hx hy hz nu lhx nx lhy ny lhz nz ix iz)
    = fst (gsy_sys gx gy gz tx ty tz eta_x eta_y eta_z zeta hx hy hz nu lhx nx lhy ny lhz nz ix iz).
  Proof. exact (gsy_matrix_indep2 fx fy fz gx gy gz sx sy sz tx ty tz eta_x eta_y eta_z zeta
                  hx hy hz nu lhx nx lhy ny lhz nz ix iz). Qed.

  (* after nu >= 1 sweeps all 5 ny - 4 equations of the line relaxed LAST hold on the
     returned field: line (ix,iz) = (last_line nu nx, last_line nu nz);
     last_line nu n = 1 for odd nu (descending sweep), n - 1 for even nu.
     PEC and pivots only for that line, on the input field *)
  Variables (ex ey ez sx sy sz : Z -> Z -> Z -> F).
  Theorem line_y_smoother_last_line_is_exact :
    1 <= nu -> 2 <= nx -> 2 <= ny -> 2 <= nz ->
    let ix := last_line nu nx in let iz := last_line nu nz in
    PECy ex ez ny ix iz ->
    PivY ex ey ez sx sy sz eta_x eta_y eta_z zeta hx hy hz nu nx nx ny ny nz nz ix iz ->
    let r := gauss_seidel_y nx ny nz ex ey ez sx sy sz eta_x eta_y eta_z zeta hx hy hz nu in
    forall i, 0 <= i < 5*ny-4 ->
      fld_resY sx sy sz eta_x eta_y eta_z zeta hx hy hz ix iz
        (fst (fst r)) (snd (fst r)) (snd r) (i / 5) (i mod 5) = 0%F.
  Proof. exact (gauss_seidel_y_last_line_exact Fth two_nz ex ey ez sx sy sz eta_x eta_y eta_z zeta
                  hx hy hz hx_nz hy_nz hz_nz nu nx ny nz). Qed.
End C03lineaffiney.

From V Require Import Proofs.GSLineSweep Proofs.GSLineAffineZ.

Section C03lineaffinez.
  Context {F : Type} {O : FOps F}.
  Hypothesis Fth : field_theory F0 F1 Fadd Fmul Fsub Fopp Fdiv Finv (@eq F).
  Hypothesis two_nz : (1 + 1)%F <> 0%F.
  Variables (eta_x eta_y eta_z zeta : Z -> Z -> Z -> F).
  Variables (hx hy hz : Z -> F).
  Hypothesis hx_nz : forall i, hx i <> 0%F.
  Hypothesis hy_nz : forall i, hy i <> 0%F.
  Hypothesis hz_nz : forall i, hz i <> 0%F.
  Variables (nu nx ny nz : Z).

  (* the line smoother along z is a linear (hence affine) map of (field, source):
     every nu, nz >= 2; pivots stated once (run 1); no PEC hypothesis *)
  Theorem line_z_smoother_is_linear_in_field_and_source
      (al be : F) (emx emy emz e1x e1y e1z e2x e2y e2z smx smy smz s1x s1y s1z s2x s2y s2z : Z -> Z -> Z -> F) :
    2 <= nz ->
    (forall i j l, emx i j l = (al * e1x i j l + be * e2x i j l)%F) ->
    (forall i j l, emy i j l = (al * e1y i j l + be * e2y i j l)%F) ->
    (forall i j l, emz i j l = (al * e1z i j l + be * e2z i j l)%F) ->
    (forall i j l, smx i j l = (al * s1x i j l + be * s2x i j l)%F) ->
    (forall i j l, smy i j l = (al * s1y i j l + be * s2y i j l)%F) ->
    (forall i j l, smz i j l = (al * s1z i j l + be * s2z i j l)%F) ->
    (forall ix iy, 1 <= ix < nx -> 1 <= iy < ny ->
       PivZ e1x e1y e1z s1x s1y s1z eta_x eta_y eta_z zeta hx hy hz nu nx nx ny ny nz nz ix iy) ->
    let rm := gauss_seidel_z nx ny nz emx emy emz smx smy smz eta_x eta_y eta_z zeta hx hy hz nu in
    let r1 := gauss_seidel_z nx ny nz e1x e1y e1z s1x s1y s1z eta_x eta_y eta_z zeta hx hy hz nu in
    let r2 := gauss_seidel_z nx ny nz e2x e2y e2z s2x s2y s2z eta_x eta_y eta_z zeta hx hy hz nu in
    forall i j l,
      fst (fst rm) i j l = (al * fst (fst r1) i j l + be * fst (fst r2) i j l)%F /\
      snd (fst rm) i j l = (al * snd (fst r1) i j l + be * snd (fst r2) i j l)%F /\
      snd rm i j l = (al * snd r1 i j l + be * snd r2 i j l)%F.
  Proof.
    intros Hn Hex Hey Hez Hsx Hsy Hsz Hpiv.
    exact (gauss_seidel_z_linear Fth two_nz al be emx emy emz e1x e1y e1z e2x e2y e2z
             smx smy smz s1x s1y s1z s2x s2y s2z eta_x eta_y eta_z zeta hx hy hz
             hx_nz hy_nz hz_nz nu nx ny nz Hn Hex Hey Hez Hsx Hsy Hsz Hpiv).
  Qed.

  (* the matrix of a line system depends neither on the field nor on the source *)
  Theorem line_z_matrix_independent_of_field_and_source
      (fx fy fz gx gy gz sx sy sz tx ty tz : Z -> Z -> Z -> F) lhx lhy lhz ix iy :
    2 <= nz ->
    fst (gsz_sys fx fy fz sx sy sz eta_x eta_y eta_z zeta hx hy hz nu lhx nx lhy ny lhz nz ix iy)
    = fst (gsz_sys gx gy gz tx ty tz eta_x eta_y eta_z zeta hx hy hz nu lhx nx lhy ny lhz nz ix iy).
  Proof. exact (gsz_matrix_indep2 fx fy fz gx gy gz sx sy sz tx ty tz eta_x eta_y eta_z zeta
                  hx hy hz nu lhx nx lhy ny lhz nz ix iy). Qed.

  (* after nu >= 1 sweeps all 5 nz - 4 equations of the line relaxed LAST hold on the
     returned field: line (ix,iy) = (last_line nu nx, last_line nu ny);
     last_line nu n = 1 for odd nu (descending sweep), n - 1 for even nu.
     PEC and pivots only for that line, on the input field *)
  Variables (ex ey ez sx sy sz : Z -> Z -> Z -> F).
  Theorem line_z_smoother_last_line_is_exact :
    1 <= nu -> 2 <= nx -> 2 <= ny -> 2 <= nz ->
    let ix := last_line nu nx in let iy := last_line nu ny in
    PECz ex ey nz ix iy ->
    PivZ ex ey ez sx sy sz eta_x eta_y eta_z zeta hx hy hz nu nx nx ny ny nz nz ix iy ->
    let r := gauss_seidel_z nx ny nz ex ey ez sx sy sz eta_x eta_y eta_z zeta hx hy hz nu in
    forall i, 0 <= i < 5*nz-4 ->
      fld_resZ sx sy sz eta_x eta_y eta_z zeta hx hy hz ix iy
        (fst (fst r)) (snd (fst r)) (snd r) (i / 5) (i mod 5) = 0%F.
  Proof. exact (gauss_seidel_z_last_line_exact Fth two_nz ex ey ez sx sy sz eta_x eta_y eta_z zeta
                  hx hy hz hx_nz hy_nz hz_nz nu nx ny nz). Qed.
End C03lineaffinez.

Print Assumptions solve_correct_banded.
Print Assumptions solve_unique_banded.
Print Assumptions solve_is_linear_in_rhs.
Print Assumptions gs_step_is_assemble_solve_write.
Print Assumptions gs_block_is_the_residual_system.
Print Assumptions gs_block_equations_hold_afterwards.
Print Assumptions gs_exact_solution_is_fixed_point.
Print Assumptions gs_block_writes_only_its_six_edges.
Print Assumptions point_smoother_leaves_exact_solution_unchanged.
Print Assumptions point_smoother_never_writes_boundary.
Print Assumptions line_x_system_is_the_residual_system.
Print Assumptions line_x_equations_hold_afterwards.
Print Assumptions line_x_smoother_leaves_exact_solution_unchanged.
Print Assumptions line_x_smoother_never_writes_boundary.
Print Assumptions line_y_system_is_the_residual_system.
Print Assumptions line_y_equations_hold_afterwards.
Print Assumptions line_y_smoother_leaves_exact_solution_unchanged.
Print Assumptions line_y_smoother_never_writes_boundary.
Print Assumptions line_z_system_is_the_residual_system.
Print Assumptions line_z_equations_hold_afterwards.
Print Assumptions line_z_smoother_leaves_exact_solution_unchanged.
Print Assumptions line_z_smoother_never_writes_boundary.
Print Assumptions point_smoother_is_linear_in_field_and_source.
Print Assumptions block_matrix_independent_of_field_and_source.
Print Assumptions point_smoother_last_block_is_exact.
Print Assumptions line_x_smoother_is_linear_in_field_and_source.
Print Assumptions line_x_matrix_independent_of_field_and_source.
Print Assumptions line_x_smoother_last_line_is_exact.
Print Assumptions line_y_smoother_is_linear_in_field_and_source.
Print Assumptions line_y_matrix_independent_of_field_and_source.
Print Assumptions line_y_smoother_last_line_is_exact.
Print Assumptions line_z_smoother_is_linear_in_field_and_source.
Print Assumptions line_z_matrix_independent_of_field_and_source.
Print Assumptions line_z_smoother_last_line_is_exact.
