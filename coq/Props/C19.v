(* Props/C19.v -- property C19: the layered (1D) mode agrees with the 1D
   reference modeller on layered media.  ONLY statements, each closed by
   [exact] of a lemma from Proofs/Layered.v, with Print Assumptions beneath.

   Model: Model/Layered.v (hand model of Model.extract_1d, _get_points,
   layered(), _fd_gradient), tied to /repo by correspondence (py/props/c19.py).
   Oracles (section variables, NOT axioms): the ellipse mask [use]/[ellipse]
   (maps.ellipse_indices), the property map's [backward], and [bipole]
   (_empymod_fwd = empymod.bipole).  Theorems over R use log10R / pow10R for
   np.log10 / 10**; every finite float is a real, rounding is not modelled.

   NOT proved here (see docs/C19.md): empymod itself (what [bipole] returns);
   that the finite-difference quotient approximates the derivative.
   The model describes emg3d WITH the three repairs of docs/fix_C19_*.diff; the
   as-found behaviour is kept as *_unfixed definitions and refuted below. *)
From Coq Require Import ZArith Bool List String Reals QArith.
From V Require Import Base.FieldSig Base.ExecQ Model.Layered Proofs.Layered Proofs.LayeredMerge.
From V Require Import Model.LayeredAsm Proofs.LayeredAsm.
Import ListNotations.
Local Open Scope Z_scope.

(* ---- clause: extraction weights are non-negative and sum to one ---------- *)
Section Weights.
  Local Open Scope R_scope.
  Variable leb : R -> R -> bool.            (* ANY comparison *)
  Variable g : @grid R.                     (* ANY grid size *)
  Hypothesis nx_pos : (1 <= g_nx g)%Z.
  Hypothesis ny_pos : (1 <= g_ny g)%Z.
  Hypothesis hx_pos : forall i, (0 <= i < g_nx g)%Z -> 0 < g_hx g i.
  Hypothesis hy_pos : forall j, (0 <= j < g_ny g)%Z -> 0 < g_hy g j.

  (* for every method (midpoint / prism / cylinder), every mask (empty or not),
     every pair of points: weights >= 0, sum to one, zero outside the grid *)
  Theorem imat_nonneg_sum_one (m : xmethod) (use : Z -> Z -> bool) (p0 p1 : R * R) :
    let im := imat_of g m use (sel leb g m use p0 p1) in
    (forall i j, 0 <= im i j) /\
    @zsum2 R LROps (g_nx g) (g_ny g) im = 1 /\
    (forall i j, ~ ((0 <= i < g_nx g)%Z /\ (0 <= j < g_ny g)%Z) -> im i j = 0).
  Proof. exact (imat_props leb g nx_pos ny_pos hx_pos hy_pos m use p0 p1). Qed.

  (* the same for whatever Model.extract_1d returns as imat *)
  Theorem extract_1d_weights lname props ellipse method has_radius p0 p1 merge e :
    extract_1d leb log10R pow10R g lname props ellipse method has_radius p0 p1 merge = inr e ->
    (forall i j, 0 <= e_imat e i j) /\
    @zsum2 R LROps (g_nx g) (g_ny g) (e_imat e) = 1 /\
    (forall i j, ~ ((0 <= i < g_nx g)%Z /\ (0 <= j < g_ny g)%Z) -> e_imat e i j = 0).
  Proof. exact (extract_1d_imat leb g nx_pos ny_pos hx_pos hy_pos lname props ellipse method
                                has_radius p0 p1 merge e). Qed.

  (* the selection is one grid cell (midpoint, or empty mask) or the bounding
     box of a non-empty mask: the fallback happens only for an empty mask *)
  Theorem selection_cases (m : xmethod) (use : Z -> Z -> bool) (p0 p1 : R * R) :
    (exists ix iy, sel leb g m use p0 p1 = (true, (ix, ix, iy, iy)) /\
                   (0 <= ix < g_nx g)%Z /\ (0 <= iy < g_ny g)%Z /\
                   (m = XMid \/ bbox (g_nx g) (g_ny g) use = None)) \/
    (exists b, sel leb g m use p0 p1 = (false, b) /\ m <> XMid /\
               bbox (g_nx g) (g_ny g) use = Some b).
  Proof. exact (sel_cases leb g nx_pos ny_pos m use p0 p1). Qed.

  (* ---- clause: independence from method / ellipse on laterally invariant
     models: the extracted layers are the model's ------------------------- *)
  (* one property, one layer *)
  Theorem layer_value_lateral_invariant lname m use p0 p1 p v k :
    lat_inv g lname p v k ->
    let s := sel leb g m use p0 p1 in
    layer_val log10R pow10R g lname s (imat_of g m use s) p k = v k.
  Proof. exact (layer_val_invariant leb g nx_pos ny_pos hx_pos hy_pos lname m use p0 p1 p v k). Qed.

  (* the whole result of extract_1d: layer values, thicknesses and vertical
     origin are functions of the depth profile [vs] (and of [merge]) alone --
     whatever method string, ellipse oracle, p0, p1 *)
  Theorem extract_lateral_invariant lname props vs ellipse method has_radius p0 p1 merge e :
    lat_inv_all g lname props vs ->
    extract_1d leb log10R pow10R g lname props ellipse method has_radius p0 p1 merge = inr e ->
    e_props e = layers_of leb g merge vs /\ e_hz e = hz_of leb g merge vs /\ e_oz e = g_z0 g.
  Proof. exact (extract_1d_invariant leb g nx_pos ny_pos hx_pos hy_pos lname props vs ellipse
                                     method has_radius p0 p1 merge e). Qed.
End Weights.

Print Assumptions imat_nonneg_sum_one.
Print Assumptions extract_1d_weights.
Print Assumptions selection_cases.
Print Assumptions layer_value_lateral_invariant.
Print Assumptions extract_lateral_invariant.

(* ---- clause: the response of a triple is the reference modeller applied to
   exactly those layers; skipped iff the observation is non-finite ----------- *)
Section Responses.
  Context {F : Type} {O : FOps F}.          (* any number type: pure parametricity *)
  Variable leb : F -> F -> bool.
  Variable lg pw : F -> F.
  Variable D : Type.
  Variable g : @grid F.
  Variable lname : bool.
  Variable backward : F -> F.
  Variable props : list (Z -> Z -> Z -> F).
  Variables (vti has_mu has_eps : bool).
  Variable ellipse : F * F -> F * F -> Z -> Z -> bool.
  Variable method : string.
  Variable has_radius merge : bool.
  Variable srcc : @pt3 F.                  (* src.center *)
  Variable freqs : list F.
  (* receiver index (type, orientation), its ABSOLUTE centre, depth, cond_h, ... *)
  Variable bipole : nat -> @pt3 F -> list F -> list F -> option (list F) ->
                    option (list F) -> option (list F) -> list F -> list D.
  (* contract of the oracle: frequencies are computed independently *)
  Variable bipole1 : nat -> @pt3 F -> list F -> list F -> option (list F) -> option (list F) ->
                     option (list F) -> F -> D.
  Hypothesis bipole_pointwise :
    forall i q d ch cv ep mp fs, bipole i q d ch cv ep mp fs = map (bipole1 i q d ch cv ep mp) fs.

  (* [observed] = None (no finite observation in the whole survey) or the
     finite flags per receiver and frequency.  For receiver i (centre rc) and
     frequency j: NaN (None) iff there is observed data and it is not finite
     there; otherwise bipole, at the receiver's absolute position
     [rec_abs srcc rc] (source centre + offset for a relative receiver), of the
     layers extracted for (source, that absolute position). *)
  Theorem layered_is_bipole_of_layers rcs observed rows :
    (forall o i, observed = Some o -> (i < List.length rcs)%nat ->
                 List.length (nth i o []) = List.length freqs) ->
    layered_fwd leb lg pw D g lname backward props vti has_mu has_eps ellipse method has_radius
                merge srcc freqs bipole rcs observed = inr rows ->
    List.length rows = List.length rcs /\
    forall i j rc dflt, nth_error rcs i = Some rc -> (j < List.length freqs)%nat ->
      let fin := match observed with None => true | Some o => nth j (nth i o []) false end in
      (fin = false -> nth j (nth i rows []) None = None) /\
      (fin = true ->
       exists e, extract_for leb lg pw g lname props ellipse method has_radius merge srcc rc = inr e /\
         nth j (nth i rows []) None =
         Some (bipole1 i (rec_abs srcc rc) (depth_of e) (cond_h_of backward e) (cond_v_of backward vti e)
                       (eperm_of vti has_mu has_eps e) (mperm_of vti has_mu e)
                       (nth j freqs dflt))).
  Proof. exact (layered_fwd_spec leb lg pw D g lname backward props vti has_mu has_eps ellipse
                                 method has_radius merge srcc freqs bipole rcs observed rows
                                 bipole1 bipole_pointwise). Qed.
End Responses.

Print Assumptions layered_is_bipole_of_layers.

(* ---- clause: WHICH slot holds WHICH response (result assembly) --------------
   Model/LayeredAsm.v: the imperative assembly of layered() (pre-allocated NaN array, enumerate
   index carried through `continue`, mask looked up by receiver LABEL, boolean-mask assignment
   into row i) and of _compute_1d (has_data, one layered() call per source).  [resp k fs] is
   the 1D reference response for the receiver with label k (oracle; pointwise in frequency).
   For EVERY list of receiver labels, EVERY mask (dataless receivers first / in the middle /
   last / several in a row / all but one / none), any number of receivers and frequencies. *)
Section Assembly.
  Variable D A : Type.
  Variable freqs : list A.
  Variable resp : string -> list A -> list D.
  Variable resp1 : string -> A -> D.
  Hypothesis resp_pointwise : forall k fs, resp k fs = map (resp1 k) fs.

  (* observed = flags (nrec x nfreq) carried under the receivers' own labels: row r of the
     output holds the reference response of receiver r at exactly the finite entries of
     row r of the flags, NaN elsewhere *)
  Theorem layered_rows_by_position (keys : list string) (masks : list (list bool)) :
    NoDup keys -> List.length masks = List.length keys ->
    (forall r, (r < List.length keys)%nat -> List.length (nth r masks []) = List.length freqs) ->
    let out := assemble D A freqs resp keys (Some (combine keys masks)) in
    List.length out = List.length keys /\
    forall r k j d, nth_error keys r = Some k -> (j < List.length freqs)%nat ->
      nth j (nth r out []) None =
      if nth j (nth r masks []) false then Some (resp1 k (nth j freqs d)) else None.
  Proof. exact (assemble_by_position D A freqs resp resp1 resp_pointwise keys masks). Qed.

  (* the same with the mask looked up by label in ANY observed table *)
  Theorem layered_rows_by_label (keys : list string) observed :
    (forall k, In k keys -> List.length (mask_for A freqs observed k) = List.length freqs) ->
    List.length (assemble D A freqs resp keys observed) = List.length keys /\
    forall r k j d, nth_error keys r = Some k -> (j < List.length freqs)%nat ->
      nth j (nth r (assemble D A freqs resp keys observed) []) None =
      if nth j (mask_for A freqs observed k) false then Some (resp1 k (nth j freqs d)) else None.
  Proof. exact (assemble_spec D A freqs resp resp1 resp_pointwise keys observed). Qed.

  (* no observed data: every slot is computed *)
  Theorem layered_rows_without_observed (keys : list string) :
    let out := assemble D A freqs resp keys None in
    List.length out = List.length keys /\
    forall r k j d, nth_error keys r = Some k -> (j < List.length freqs)%nat ->
      nth j (nth r out []) None = Some (resp1 k (nth j freqs d)).
  Proof. exact (assemble_no_observed D A freqs resp resp1 resp_pointwise keys). Qed.
End Assembly.
Print Assumptions layered_rows_by_position.
Print Assumptions layered_rows_by_label.
Print Assumptions layered_rows_without_observed.

(* _compute_1d over all sources: slot (source si, receiver r, frequency j) holds the reference
   response of exactly that source / receiver label / frequency iff its observed datum is
   finite -- or there is no finite observed datum in the whole survey -- and NaN otherwise *)
Section AllSources.
  Variable D A : Type.
  Variable freqs : list A.
  Variable resp : string -> string -> list A -> list D.
  Variable resp1 : string -> string -> A -> D.
  Hypothesis resp_pointwise : forall s k fs, resp s k fs = map (resp1 s k) fs.
  Theorem compute_1d_slots srcs keys (flags : list (list (list bool))) :
    NoDup srcs -> NoDup keys -> List.length flags = List.length srcs ->
    (forall si, (si < List.length srcs)%nat -> List.length (nth si flags []) = List.length keys) ->
    (forall si r, (si < List.length srcs)%nat -> (r < List.length keys)%nat ->
                  List.length (nth r (nth si flags []) []) = List.length freqs) ->
    let obs := combine srcs (map (combine keys) flags) in
    let out := compute_1d D A freqs resp srcs keys obs in
    List.length out = List.length srcs /\
    forall si s r k j d, nth_error srcs si = Some s -> nth_error keys r = Some k ->
      (j < List.length freqs)%nat ->
      List.length (nth si out []) = List.length keys /\
      nth j (nth r (nth si out []) []) None =
      if (negb (has_data obs) || nth j (nth r (nth si flags []) []) false)%bool
      then Some (resp1 s k (nth j freqs d)) else None.
  Proof. exact (compute_1d_spec D A freqs resp resp1 resp_pointwise srcs keys flags). Qed.
End AllSources.
Print Assumptions compute_1d_slots.

(* non-vacuity, and the variant the theorems exclude: receivers a, b, c with a dataless, b
   finite at the second frequency only, c at both.  The code's assembly leaves row 0 NaN; the
   variant that filters dataless receivers out first and uses the index of the FILTERED list
   as the row moves b and c one row up (and so contradicts layered_rows_by_position). *)
Theorem assemble_filtered_refuted :
  let keys := ["a"; "b"; "c"]%string in
  let obs := Some (combine keys [[false; false]; [false; true]; [true; true]]) in
  assemble _ _ [10; 20]%nat tok keys obs =
    [[None; None]; [None; Some ("b"%string, 20%nat)];
     [Some ("c"%string, 10%nat); Some ("c"%string, 20%nat)]] /\
  assemble_filtered _ _ [10; 20]%nat tok keys obs =
    [[None; Some ("b"%string, 20%nat)]; [Some ("c"%string, 10%nat); Some ("c"%string, 20%nat)];
     [None; None]].
Proof. exact assemble_filtered_witness. Qed.
Print Assumptions assemble_filtered_refuted.

(* ---- clause: the finite-difference gradient summed over a layer ----------- *)
Section GradientQuotient.
  Context {F : Type} {O : FOps F}.
  (* _fd_gradient: entry iz is (misfit(cond + delta e_iz) - misfit)/delta with
     delta = 1e-4 cond[iz]; [call] is _empymod_fwd with everything else fixed *)
  Theorem fd_gradient_is_quotient (cond_h : list F) cond_v data weight misfit call vertical iz :
    (iz < List.length cond_h)%nat ->
    nth iz (fd_grad cond_h cond_v data weight misfit call vertical) 0%F =
    (let base := if vertical then match cond_v with Some v => v | None => [] end else cond_h in
     let delta := nth iz base 0 * rel_diff in
     let response := if vertical then call cond_h (Some (bump base iz delta))
                     else call (bump base iz delta) cond_v in
     (wmisfit weight (csubL response data) - misfit) / delta)%F.
  Proof. exact (fd_grad_nth cond_h cond_v data weight misfit call vertical iz). Qed.
End GradientQuotient.

Print Assumptions fd_gradient_is_quotient.

Section GradientSum.
  Local Open Scope R_scope.
  Variable leb : R -> R -> bool.
  Variable g : @grid R.
  Hypothesis nx_pos : (1 <= g_nx g)%Z.
  Hypothesis ny_pos : (1 <= g_ny g)%Z.
  Hypothesis hx_pos : forall i, (0 <= i < g_nx g)%Z -> 0 < g_hx g i.
  Hypothesis hy_pos : forall j, (0 <= j < g_ny g)%Z -> 0 < g_hy g j.
  Variable lname : bool.
  Variable backward : R -> R.
  Variable props : list (Z -> Z -> Z -> R).
  Variables (vti has_mu has_eps : bool).
  Variable ellipse : R * R -> R * R -> Z -> Z -> bool.
  Variable method : string.
  Variable has_radius : bool.
  Variable srcc : @pt3 R.
  Variable freqs : list R.
  Variable bipole : nat -> @pt3 R -> list R -> list R -> option (list R) ->
                    option (list R) -> option (list R) -> list R -> list (R * R).

  (* layered(gradient=True) = (out[0], out[2]).  Summed over x and y, layer k of
     out[0] (out[2]) is the sum over the receivers that have finite data of
     their horizontal (vertical) finite-difference misfit quotient for layer
     k [term_h / term_v of what grad_rec returns; fd_gradient_is_quotient
     says what those are] -- because each receiver's weights sum to one. *)
  Theorem fd_gradient_layer_sum rds o0 o2 :
    layered_grad leb log10R pow10R g lname backward props vti has_mu has_eps ellipse method
                 has_radius srcc freqs bipole (Some rds) = inr (o0, o2) ->
    exists terms : list gterm,
      List.length terms = List.length rds /\
      (forall n rd, nth_error rds n = Some rd ->
         grad_rec leb log10R pow10R g lname backward props vti has_mu has_eps ellipse method
                  has_radius srcc freqs bipole false n rd = inr (nth n terms None)) /\
      forall k, (0 <= k)%Z ->
        @zsum2 R LROps (g_nx g) (g_ny g) (fun i j => o0 i j k) = sumL (map (term_h k) terms) /\
        @zsum2 R LROps (g_nx g) (g_ny g) (fun i j => o2 i j k) = sumL (map (term_v k) terms).
  Proof. exact (layered_grad_sum leb g nx_pos ny_pos hx_pos hy_pos lname backward props vti
                                 has_mu has_eps ellipse method has_radius srcc freqs
                                 bipole false rds o0 o2). Qed.

  (* whatever layered_opts['merge'] says, each receiver's gradient has one
     entry per layer of the MODEL (the gradient branch extracts without merge) *)
  Theorem gradient_one_entry_per_model_layer i rd im gh gv :
    props <> [] ->
    grad_rec leb log10R pow10R g lname backward props vti has_mu has_eps ellipse method
             has_radius srcc freqs bipole false i rd = inr (Some (im, gh, gv)) ->
    List.length gh = Z.to_nat (g_nz g) /\
    (forall v, gv = Some v -> List.length v = Z.to_nat (g_nz g)).
  Proof. exact (grad_rec_len leb log10R pow10R g lname backward props vti has_mu has_eps ellipse
                             method has_radius srcc freqs bipole i rd im gh gv). Qed.

  (* weights, residual or observed missing: the gradient is zero *)
  Theorem gradient_without_data_is_zero :
    layered_grad leb log10R pow10R g lname backward props vti has_mu has_eps ellipse method
                 has_radius srcc freqs bipole None = inr (zero3, zero3).
  Proof. exact (layered_grad_none leb g lname backward props vti has_mu has_eps ellipse method
                                  has_radius srcc freqs bipole). Qed.
End GradientSum.

Print Assumptions fd_gradient_layer_sum.
Print Assumptions gradient_one_entry_per_model_layer.
Print Assumptions gradient_without_data_is_zero.

(* ---- merge=True ------------------------------------------------------------
   extract_1d(merge=True) returns the same depth profile as merge=False:
   values (merge_preserves_profile) and interfaces (merged_interfaces). *)
(* the merged layer of rank #(kept layers among 0..k) - 1 holds the value of
   cell k -- for every value list, -1 on top included *)
Theorem merge_preserves_profile (vals : list (list R)) (nz : nat) (v : list R) (k : nat) :
  In v vals -> (k < nz)%nat ->
  let ind := merge_ind LRleb nz vals in
  let r := (List.length (merge_ind LRleb (Datatypes.S k) vals) - 1)%nat in
  nth r (take_ind ind v) 0%R = nth k v 0%R.
Proof. exact (merge_profile vals nz v k). Qed.
(* the first kept index is 0 and the nodes of the merged grid (origin +
   cumulated merged thicknesses) are exactly the model's nodes at the other
   kept indices followed by the bottom node *)
Theorem merged_interfaces (g : @grid R) (vals : list (list R)) : (0 < g_nz g)%Z ->
  exists rest, merge_ind LRleb (Z.to_nat (g_nz g)) vals = 0%nat :: rest /\
    @cumsum R LROps (g_z0 g) (merge_hz g (merge_ind LRleb (Z.to_nat (g_nz g)) vals))
    = map (fun k => node (g_z0 g) (g_hz g) (Z.of_nat k)) rest ++ [node (g_z0 g) (g_hz g) (g_nz g)].
Proof. exact (merged_nodes g vals). Qed.

(* ---- the code as found (UNFIXED variants; repaired in emg3d, see docs/C19.md) *)
(* np.r_[-1, v] sentinel: a column [-1, 1/2] (two different layers) keeps only
   index 1; the repaired test keeps [0; 1] and extract_core(merge=True)
   returns both layers *)
Theorem merge_unfixed_drops_first_layer_refuted :
  ~ ((-1 # 1) == (1 # 2))%Q /\
  merge_ind_unfixed Qle_bool 2 [[(-1 # 1)%Q; (1 # 2)%Q]] = [1%nat] /\
  merge_ind Qle_bool 2 [[(-1 # 1)%Q; (1 # 2)%Q]] = [0%nat; 1%nat] /\
  e_props (wit_ext true) = [[(-1 # 1)%Q; (1 # 2)%Q]] /\
  e_hz (wit_ext true) = [1%Q; 2%Q].
Proof. exact merge_witness. Qed.
(* rec.center instead of rec.center_abs(src) for a relative receiver *)
Theorem relative_receiver_unfixed_refuted :
  rec_abs ((1 # 1)%Q, (2 # 1)%Q, (3 # 1)%Q) (true, ((10 # 1)%Q, 0%Q, 0%Q))
    = ((11 # 1)%Q, (2 # 1)%Q, (3 # 1)%Q) /\
  rec_abs_unfixed ((1 # 1)%Q, (2 # 1)%Q, (3 # 1)%Q) (true, ((10 # 1)%Q, 0%Q, 0%Q))
    = ((10 # 1)%Q, 0%Q, 0%Q).
Proof. exact relative_witness. Qed.
(* gradient branch with merge passed on (grad_rec ... true): a homogeneous
   2-layer column yields a gradient of length 1; the repaired branch (false): 2 *)
Theorem merge_gradient_unfixed_refuted :
  g_nz ex_grid = 2%Z /\ ex_gh_len true = Some 1%nat /\ ex_gh_len false = Some 2%nat.
Proof. exact merge_gradient_witness. Qed.

Print Assumptions merge_preserves_profile.
Print Assumptions merged_interfaces.
Print Assumptions merge_unfixed_drops_first_layer_refuted.
Print Assumptions relative_receiver_unfixed_refuted.
Print Assumptions merge_gradient_unfixed_refuted.

(* ---- histories on one Model object ------------------------------------------
   In-place writes to the property arrays (through the arrays the getters
   return, or the setters) interleaved with extract_1d requests for a fixed
   selection [ex]: the answer of every request is the extraction of the arrays
   as they are at that moment -- whatever was extracted or written before.
   (The model keeps no store; the tie runs such histories on ONE emg3d Model /
   Simulation object and compares with the model on the current arrays.) *)
Section Histories.
  Context {F : Type} {O : FOps F}.
  Variable ex : list (Z -> Z -> Z -> F) -> xerr + @ext F.
  Theorem extract_after_history_is_fresh (ops1 : list (@hop F)) props ops2 :
    nth_error (run_hist ex props (ops1 ++ HExtract :: ops2))
              (List.length (filter is_extract ops1))
    = Some (ex (fold_left edit_props ops1 props)).
  Proof. exact (run_hist_fresh ex ops1 props ops2). Qed.
End Histories.
Print Assumptions extract_after_history_is_fresh.
(* extract, write 3 into layer 1 of the column in place, extract again *)
Example history_runs :
  ex_hist = [[[(-1 # 1)%Q; (1 # 2)%Q]]; [[(-1 # 1)%Q; (3 # 1)%Q]]].
Proof. exact ex_hist_value. Qed.
Print Assumptions history_runs.

(* ---- non-vacuity ----------------------------------------------------------- *)
(* the hypotheses of the sections Weights / GradientSum hold for a 2 x 3 x 2 grid *)
Example weights_hypotheses_satisfiable :
  (1 <= g_nx exR_grid)%Z /\ (1 <= g_ny exR_grid)%Z /\
  (forall i, (0 <= i < g_nx exR_grid)%Z -> (0 < g_hx exR_grid i)%R) /\
  (forall j, (0 <= j < g_ny exR_grid)%Z -> (0 < g_hy exR_grid j)%R).
Proof. exact exR_grid_ok. Qed.
(* ... and a laterally invariant positive model on it (log-averaged map) *)
Example lateral_invariance_satisfiable :
  lat_inv_all exR_grid false [fun _ _ k => (IZR k + 1)%R] [fun k => (IZR k + 1)%R].
Proof. exact exR_lat_inv. Qed.
(* layered_fwd runs (laterally varying 2 x 1 x 2 model, method 'receiver', two
   receivers -- the first RELATIVE to the source at (1,0,0) --, two frequencies,
   observed finite only at (0,0)): one slot holds the oracle applied at the
   absolute position (1/2,1/2,0) to the layers under it, all others are NaN *)
Example layered_fwd_runs :
  ex_fwd = inr [[Some (0%nat, ((1 # 2)%Q, (1 # 2)%Q, 0%Q), [1%Q; 2%Q], 1%Q); None]; [None; None]].
Proof. exact ex_fwd_value. Qed.
(* layered_grad runs with an active receiver: two non-zero layer sums *)
Example layered_grad_runs :
  List.length ex_grad_sums = 2%nat /\ Forall (fun q => ~ (q == 0)%Q) ex_grad_sums.
Proof. exact ex_grad_value. Qed.

Print Assumptions weights_hypotheses_satisfiable.
Print Assumptions lateral_invariance_satisfiable.
Print Assumptions layered_fwd_runs.
Print Assumptions layered_grad_runs.
