(* Props/C07.v -- property C07: the adjoint-state gradient is the derivative of
   the data misfit.  ONLY statements, each closed by [exact] of a lemma from
   Proofs/, with Print Assumptions beneath.

   Model/Adjoint.v is the hand model of Simulation.misfit / _get_rfield /
   gradient (tied to the code by correspondence on recorded solver oracles);
   Gen/MapsVol.v is interp_edges_to_vol_averages, Gen/MapsMap.v the six maps,
   both REGENERATED from emg3d/maps.py on every run.
   K is ANY field of characteristic <> 2 with an involutive automorphism conj
   (C, Q(i)); index sets are arbitrary finite lists (any grid, any number of
   receivers); inner products are finite sums without conjugation. *)
From Coq Require Import Reals ZArith List Bool Field.
From Coquelicot Require Import Coquelicot.
From V Require Import Base.FieldSig Base.Sums Base.Loops Base.Arr.
From V Require Import Model.FIT Gen.MapsVol Gen.MapsMap Model.Maps Model.Adjoint.
From V Require Import Model.Interp Proofs.Adjoint Proofs.AdjointConcrete Proofs.VolAvgT Proofs.Maps.
Import ListNotations.

Section C07.
  Context {K : Type} {O : FOps K}.
  Hypothesis Fth : field_theory F0 F1 Fadd Fmul Fsub Fopp Fdiv Finv (@eq K).
  Hypothesis two_nz : (1 + 1)%F <> 0%F.
  Variable conj : K -> K.
  Hypothesis conj_add : forall x y, conj (x + y)%F = (conj x + conj y)%F.
  Hypothesis conj_mul : forall x y, conj (x * y)%F = (conj x * conj y)%F.
  Hypothesis conj_invol : forall x, conj (conj x) = x.

  Context {IE IC ID : Type}.
  Variables (E : list IE) (C : list IC) (Dt : list ID).
  Variable K0 : (IE -> K) -> IE -> K.      (* curl^T M_f curl            (C02) *)
  Variable Av : (IC -> K) -> IE -> K.      (* M_e(vol * sigma)                  *)
  Variable AvT : (IE -> K) -> IC -> K.     (* interp_edges_to_vol_averages      *)
  Variable s : K.                          (* smu0 = i omega mu0                *)
  Variable p : ID -> IE -> K.              (* receiver rows                (C09) *)
  Variable fin : ID -> bool.               (* residual is finite (not NaN)      *)
  Variables (obs w : ID -> K).
  Hypothesis K0_sym : forall u v, dotE E (K0 u) v = dotE E u (K0 v).
  Hypothesis Av_add : forall a b i, Av (fun k => a k + b k)%F i = (Av a i + Av b i)%F.
  Hypothesis Av_T : forall a x, dotE E (Av a) x = dotC C a (AvT x).
  Hypothesis Av_real : forall a, (forall k, conj (a k) = a k) -> forall i, conj (Av a i) = Av a i.
  Hypothesis w_real : forall j, conj (w j) = w j.
  Hypothesis s_imag : conj s = (- s)%F.
  Hypothesis s_nz : s <> 0%F.

  (* 1. The exact expansion.  e, e' solve the forward problem for sigma and
     sigma+delta, b solves the SAME system with the residual source the code
     builds (conj(r w / -smu0) per finite datum, times -smu0, through PT).
     Then  misfit(e') - misfit(e) = <grad, delta> + remainder, and by
     definition every term of [remainder] contains (e'-e) together with delta,
     or P(e'-e) twice: second order in the step.  No limit, no norm. *)
  Theorem misfit_expansion_exact (sig delta : IC -> K) (f e e' b : IE -> K) :
    (forall k, conj (delta k) = delta k) ->
    (forall i, In i E -> Aop K0 Av s sig e i = f i) ->
    (forall i, In i E -> Aop K0 Av s (fun k => sig k + delta k)%F e' i = f i) ->
    (forall i, In i E ->
        Aop K0 Av s sig b i = rsource conj Dt s p fin w (residual E p obs e) i) ->
    (misfit conj E Dt p fin obs w e' - misfit conj E Dt p fin obs w e
     = dotC C (grad conj AvT s e b) delta
       + remainder conj E Dt Av s p fin w e e' b delta)%F.
  Proof.
    exact (misfit_expansion Fth two_nz conj conj_add conj_mul conj_invol E C Dt K0 Av AvT s p
             fin obs w K0_sym Av_add Av_T Av_real w_real s_imag s_nz sig delta f e e' b).
  Qed.

  (* what [remainder] is, spelled out *)
  Theorem remainder_is_second_order e e' b delta :
    remainder conj E Dt Av s p fin w e e' b delta
    = (re conj (dotE E b (fun i => s * Av delta i * (e' i - e i)))
       + sum (filter fin Dt) (fun j => w j * abs2 conj (P E p (fun i => e' i - e i) j))
         / (1 + 1))%F.
  Proof. reflexivity. Qed.

  (* 2. several source-frequency pairs: the expansions add up, the gradients
     add up (gradient += grad) *)
  Theorem misfit_expansion_sum {X} (Xs : list X) (phi phi' Q : X -> K)
          (g : X -> IC -> K) (delta : IC -> K) :
    (forall x, In x Xs -> (phi' x - phi x = dotC C (g x) delta + Q x)%F) ->
    (sum Xs phi' - sum Xs phi
     = dotC C (fun k => sum Xs (fun x => g x k)) delta + sum Xs Q)%F.
  Proof. exact (expansion_sum Fth C Xs phi phi' Q g delta). Qed.

  (* 3. the residual source is  - PT (conj(r) w)  on finite data *)
  Theorem residual_source_formula r i :
    rsource conj Dt s p fin w r i
    = (- PT Dt p (fun j => if fin j then conj (r j) * w j else 0) i)%F.
  Proof.
    exact (rsource_eq Fth conj conj_add conj_mul conj_invol Dt s p fin w w_real s_imag s_nz r i).
  Qed.

  (* 4. NaN data: whatever is stored for a datum with non-finite residual, it
     contributes neither to the misfit nor to the adjoint source *)
  Theorem nan_data_ignored r r' :
    (forall j, fin j = true -> r j = r' j) ->
    misfit_of conj Dt fin w r = misfit_of conj Dt fin w r' /\
    forall i, rsource conj Dt s p fin w r i = rsource conj Dt s p fin w r' i.
  Proof.
    intros H. split.
    - exact (misfit_ignores_nan conj Dt fin w r r' H).
    - exact (rsource_ignores_nan conj Dt s p fin w r r' H).
  Qed.
End C07.

Print Assumptions misfit_expansion_exact.
Print Assumptions remainder_is_second_order.
Print Assumptions misfit_expansion_sum.
Print Assumptions residual_source_formula.
Print Assumptions nan_data_ignored.

Section C07concrete.
  Context {K : Type} {O : FOps K}.
  Hypothesis Fth : field_theory F0 F1 Fadd Fmul Fsub Fopp Fdiv Finv (@eq K).
  Hypothesis two_nz : (1 + 1)%F <> 0%F.
  Notation A3 := (Z -> Z -> Z -> K).
  Local Open Scope Z_scope.

  (* 5. shape of the gradient follows the anisotropy case: 1 / 2 / 2 / 3 *)
  Theorem gradient_shape case (g : A3 * A3 * A3) (cx cy cz : A3) :
    length (collect case g cx cy cz) = ncomp case /\
    ncomp 0 = 1%nat /\ ncomp 1 = 2%nat /\ ncomp 2 = 2%nat /\ ncomp 3 = 3%nat.
  Proof. split; [exact (gradient_shape case g cx cy cz) | exact ncomp_values]. Qed.

  (* 6. anisotropy collection (+= of aliased components, then chain factor) is
     the transpose of chain-multiplication followed by the aliasing
     isotropic (x,x,x) / HTI (x,y,x) / VTI (x,x,z) / triaxial (x,y,z) *)
  Theorem aniso_collection case (g : A3 * A3 * A3) (v : list A3) (cx cy cz : A3) i j k :
    valid_case case ->
    sum (seq 0 (ncomp case))
        (fun m => nth m (collect case g cx cy cz) zero3 i j k * nth m v zero3 i j k)%F
    = (let cv := expand case (chain_mul case v cx cy cz) in
       fst (fst g) i j k * fst (fst cv) i j k + snd (fst g) i j k * snd (fst cv) i j k
       + snd g i j k * snd cv i j k)%F.
  Proof. exact (aniso_collection Fth case g v cx cy cz i j k). Qed.

  (* 7. the GENERATED volume averaging, one loop iteration: edge (ix,iy,iz)
     adds volume/4 * value to each of its (clamped) neighbour cells *)
  Theorem vol_avg_iteration nx ny nz (vol ex ey ez ox oy oz : A3) iz iy ix i j k :
    let r := interp_edges_to_vol_averages_L3 ex ey ez vol nx nx ny ny nz nz
               iz (ixm iz) (ixp nz iz) iy (ixm iy) (ixp ny iy) ix (ox, oy, oz) in
    fst (fst r) i j k = (ox i j k + contrib_x nx ny nz vol ex ix iy iz i j k)%F /\
    snd (fst r) i j k = (oy i j k + contrib_y nx ny nz vol ey ix iy iz i j k)%F /\
    snd r i j k = (oz i j k + contrib_z nx ny nz vol ez ix iy iz i j k)%F.
  Proof. exact (vol_avg_body Fth two_nz nx ny nz vol ex ey ez ox oy oz iz iy ix i j k). Qed.

  (* 8. ... and the whole loop nest, for every shape: every cell receives the
     sum over all edges of these contributions. *)
  Theorem vol_avg_cell_sums nx ny nz (vol ex ey ez ox oy oz : A3) i j k :
    0 <= nx -> 0 <= ny -> 0 <= nz ->
    let r := interp_edges_to_vol_averages nx ny nz ex ey ez vol ox oy oz in
    fst (fst r) i j k
    = (ox i j k + zsum 0 (nz+1) (fun iz => zsum 0 (ny+1) (fun iy =>
         zsum 0 (nx+1) (fun ix => contrib_x nx ny nz vol ex ix iy iz i j k))))%F /\
    snd (fst r) i j k
    = (oy i j k + zsum 0 (nz+1) (fun iz => zsum 0 (ny+1) (fun iy =>
         zsum 0 (nx+1) (fun ix => contrib_y nx ny nz vol ey ix iy iz i j k))))%F /\
    snd r i j k
    = (oz i j k + zsum 0 (nz+1) (fun iz => zsum 0 (ny+1) (fun iy =>
         zsum 0 (nx+1) (fun ix => contrib_z nx ny nz vol ez ix iy iz i j k))))%F.
  Proof. exact (vol_avg_sum Fth two_nz nx ny nz vol ex ey ez ox oy oz i j k). Qed.

  (* 8b. THE GLOBAL TRANSPOSE IDENTITY of the generated kernel, for every shape
     nx, ny, nz >= 1, every volume array, every edge field (ex,ey,ez) and every
     cell-field triple (cx,cy,cz):
        sum over cells of  AvT(e)_x cx + AvT(e)_y cy + AvT(e)_z cz
      = sum over x-edges of ex * edge_avg_x (vol cx)  +  same for y and z,
     where AvT(e) is the output of interp_edges_to_vol_averages started from
     zero, the x-edges are the box nx x (ny+1) x (nz+1) (all edges the loop
     visits, boundary edges included), and edge_avg_x is "the four neighbour
     cells, clamped exactly as the code clamps them, times 1/4"
     (Model/Adjoint.v; sum3 is the box sum of Model/Interp.v). *)
  Theorem vol_avg_is_edge_avg_transpose nx ny nz (vol ex ey ez cx cy cz : A3) :
    1 <= nx -> 1 <= ny -> 1 <= nz ->
    let r := interp_edges_to_vol_averages nx ny nz ex ey ez vol zero3 zero3 zero3 in
    sum3 nx ny nz (fun i j k => (fst (fst r) i j k * cx i j k + snd (fst r) i j k * cy i j k
                                 + snd r i j k * cz i j k)%F)
    = (sum3 nx (ny+1) (nz+1) (fun i j k => (ex i j k * edge_avg_x ny nz (mul3 vol cx) i j k)%F)
       + sum3 (nx+1) ny (nz+1) (fun i j k => (ey i j k * edge_avg_y nx nz (mul3 vol cy) i j k)%F)
       + sum3 (nx+1) (ny+1) nz (fun i j k => (ez i j k * edge_avg_z nx ny (mul3 vol cz) i j k)%F))%F.
  Proof.
    intros Hx Hy Hz.
    exact (vol_avg_transpose Fth two_nz nx ny nz vol Hx Hy Hz ex ey ez cx cy cz).
  Qed.

  (* 8c. the edge-side operator IS the edge mass averaging of core.amat_x
     (Model/FIT.v, C02) applied to eta := vol * c on every edge the kernel
     visits (transverse indices 0 <= . < n, lower boundary included: both clamp
     with max 0 (.-1)) ... *)
  Theorem edge_avg_is_FIT_edge_mass nx ny nz (eta : A3) i j k :
    1 <= nx -> 1 <= ny -> 1 <= nz ->
    (0 <= j < ny -> 0 <= k < nz -> edge_avg_x ny nz eta i j k = Me_x eta i j k) /\
    (0 <= i < nx -> 0 <= k < nz -> edge_avg_y nx nz eta i j k = Me_y eta i j k) /\
    (0 <= i < nx -> 0 <= j < ny -> edge_avg_z nx ny eta i j k = Me_z eta i j k).
  Proof.
    intros Hx Hy Hz. repeat split; intros.
    - now apply (edge_avg_x_is_Me_x Fth two_nz ny nz).
    - now apply (edge_avg_y_is_Me_y Fth two_nz nx nz).
    - now apply (edge_avg_z_is_Me_z Fth two_nz nx ny).
  Qed.

  (* 8d. ... and on the upper boundary edges (transverse index = n, which
     amat_x never visits and where PEC fields vanish) the last cell row is
     taken twice; shown for x-edges with j = ny (the other five are alike) *)
  Theorem edge_avg_upper_boundary ny nz (eta : A3) i k :
    1 <= ny ->
    edge_avg_x ny nz eta i ny k
    = ((eta i (ny-1)%Z (ixm k) + eta i (ny-1)%Z (ixp nz k)) / (1 + 1))%F.
  Proof. intros Hy. exact (edge_avg_x_upper_y Fth two_nz ny nz Hy eta i k). Qed.
End C07concrete.

Print Assumptions gradient_shape.
Print Assumptions aniso_collection.
Print Assumptions vol_avg_iteration.
Print Assumptions vol_avg_cell_sums.
Print Assumptions vol_avg_is_edge_avg_transpose.
Print Assumptions edge_avg_is_FIT_edge_mass.
Print Assumptions edge_avg_upper_boundary.

(* 9. chain rule: the factor derivative_chain multiplies with is d sigma/dm
   (generated chain_M, derivative proved in C14), hence for every function phi
   of the conductivity the derivative w.r.t. the mapped parameter is
   phi' * chain:  gradient_mapped = gradient_sigma * d sigma/dm. *)
Theorem chain_rule_factor (m : mapid) (phi : R -> R) (x g : R) :
  (m = MResistivity -> x <> 0%R) ->
  is_derive phi (backward m x) g ->
  is_derive (fun y => phi (backward m y)) x (g * chain m x)%R.
Proof. exact (chain_rule_gradient m phi x g). Qed.
Print Assumptions chain_rule_factor.

(* 10. Non-vacuity of the hypotheses of [misfit_expansion_exact] (and of C08's
   theorems): Coquelicot's C with complex conjugation and s = i is an instance
   of (K, conj, s); a one-edge/one-cell system provides K0, Av, AvT with the
   symmetry / additivity / transpose / realness properties, the forward
   problems have (zero-source) solutions and the adjoint problem is solvable
   for every residual source. *)
From V Require Import Proofs.AdjointC.
Example adjoint_hypotheses_nonvacuous :
  field_theory F0 F1 Fadd Fmul Fsub Fopp Fdiv Finv (@eq C) /\
  (1 + 1)%F <> (0 : C)%F /\
  (forall x y : C, Cconj (x + y)%F = (Cconj x + Cconj y)%F) /\
  (forall x y : C, Cconj (x * y)%F = (Cconj x * Cconj y)%F) /\
  (forall x : C, Cconj (Cconj x) = x) /\
  Cconj Ci = (- Ci)%F /\ Ci <> (0 : C)%F /\
  (forall u v, dotE E1 (K01 u) v = dotE E1 u (K01 v)) /\
  (forall a b i, Av1 (fun k => a k + b k)%F i = (Av1 a i + Av1 b i)%F) /\
  (forall a x, dotE E1 (Av1 a) x = dotC E1 a (AvT1 x)) /\
  (forall a, (forall k, Cconj (a k) = a k) -> forall i, Cconj (Av1 a i) = Av1 a i) /\
  (forall sig, (forall i, In i E1 -> Aop K01 Av1 Ci sig (fun _ => 0%F) i = 0%F) /\
               (sig tt = RtoC 1 -> forall rhs : C,
                  exists b, forall i, In i E1 -> Aop K01 Av1 Ci sig b i = rhs)).
Proof.
  exact (conj C_is_field (conj C_two_nz (conj Cconj_add (conj Cconj_mul (conj Cconj_invol
        (conj Ci_imag (conj Ci_nz (conj instance_K0_sym (conj instance_Av_add
        (conj instance_Av_T (conj instance_Av_real instance_solutions))))))))))).
Qed.
Print Assumptions adjoint_hypotheses_nonvacuous.
