(* Props/C05.v -- property C05: grid hierarchy and V/W/F cycling are well-formed
   for every shape and setting.  ONLY statements, each closed by [exact].

   Gen/SolverHelpers.v (current_sc_dir, current_lr_dir, restrict_factors,
   smoothing_kernels, mg_cycmax, cycmax_of_cycle, halvable, cap_level,
   clevel_table) is regenerated from emg3d/solver.py on every run.
   Model/Hierarchy.v is the hand model of the recursion built on top of them;
   it is compared with the real solver's call trace by py/props/c05.py. *)
From Coq Require Import ZArith List Bool Lia.
From V Require Import Gen.SolverHelpers Model.Hierarchy Proofs.Hierarchy.
Import ListNotations.
Local Open Scope Z_scope.

(* 1. The per-direction level count: n = m * 2^count with m >= 2 and m odd or 2
   (so exactly the number of times n can be halved while even and > 2). *)
Theorem max_level_spec n : 2 <= n ->
  exists m, n = m * 2 ^ count1 n /\ 2 <= m /\ halvable m = false.
Proof. exact (count1_closed_form n). Qed.

Theorem halvable_means_even_and_gt2 n : halvable n = true <-> (n mod 2 = 0 /\ 2 < n).
Proof. exact (halvable_spec n). Qed.

(* 2. The bottom level is the maximum over the directions the pattern coarsens
   of min(user limit, count)  (no limit if the user gave a negative clevel). *)
Theorem bottom_level_spec c : wf_cfg c ->
  (* capped c n = if user c <? 0 then count1 n else Z.min (user c) (count1 n) *)
  bottom c = Z.max (if in_pat (sc c) 0 then capped c (sx (shape0 c)) else 0)
              (Z.max (if in_pat (sc c) 1 then capped c (sy (shape0 c)) else 0)
                     (if in_pat (sc c) 2 then capped c (sz (shape0 c)) else 0)).
Proof. exact (bottom_spec_capped c). Qed.

(* 3. The recursion terminates (never runs out of the allotted fuel) and visits
   the levels in the documented V, W or F order, for every shape/configuration. *)
Theorem multigrid_terminates_in_documented_order c :
  0 <= bottom c -> (cyc c = 70 \/ cyc c = 86 \/ cyc c = 87) ->
  fine_cycle (fuel_for c) c = Some (fine_tb c).
Proof. exact (fine_cycle_order c). Qed.

(* 3b. With cycling semicoarsening / line relaxation every fine-grid cycle is the
   textbook cycle of its own configuration (the level-0 cycle counter is
   re-computed in every cycle: flag [level0_cycmax_recomputed] read off
   solver.py), for any number of cycles. *)
Theorem every_cycle_in_documented_order c psc plr n :
  (forall k, 0 <= bottom (cfg_at c psc plr k)) ->
  (cyc c = 70 \/ cyc c = 86 \/ cyc c = 87) ->
  outer_cycles c psc plr n =
  map (fun k => Some (fine_tb (cfg_at c psc plr k))) (zrange n).
Proof. exact (outer_cycles_order c psc plr n). Qed.

(* ... and with a level-0 counter taken once from the first cycle (the code as
   found at the pinned commit) the statement is false: F degenerates to V. *)
Theorem stale_level0_cycmax_refuted :
  exists c1 c, 0 <= bottom c /\ cyc c = 70 /\
    fine_cycle_stale c1 (fuel_for c) c <> Some (fine_tb c).
Proof. exact stale_cycmax_refuted. Qed.

(* 4. Every event of a cycle is well-formed: levels lie in [0, bottom], the
   coarsest-grid solve happens exactly at the bottom level, the shape at level l
   is shape_at l, the smoother/restriction use the adapted directions. *)
Theorem cycle_events_wellformed c : wf_cfg c -> Forall (ev_ok c) (fine_tb c).
Proof. exact (fine_tb_ok c). Qed.

(* 5. Shapes: closed form, never fewer than two cells, only even > 2 halved. *)
Theorem shape_at_level c (l : nat) : wf_cfg c ->
  (* level_cells c l d n = if in_pat (sc c) d then n / 2 ^ min l (count1 n) else n *)
  shape_at c l = (level_cells c l 0 (sx (shape0 c)), level_cells c l 1 (sy (shape0 c)),
                  level_cells c l 2 (sz (shape0 c))).
Proof. exact (shape_at_closed c l). Qed.

Theorem never_below_two c l : wf_cfg c ->
  2 <= sx (shape_at c l) /\ 2 <= sy (shape_at c l) /\ 2 <= sz (shape_at c l).
Proof. exact (shape_at_ge2 c l). Qed.

Theorem level_step c (l : nat) : wf_cfg c -> Z.of_nat l < bottom c ->
  halve (shape_at c l) (c_sc_of c (shape_at c l)) = shape_at c (S l).
Proof. exact (halve_shape_at c l). Qed.

Theorem only_even_gt2_halved scd d n : step1 scd d n <> n ->
  n mod 2 = 0 /\ 2 < n /\ step1 scd d n = n / 2.
Proof. exact (step1_changes scd d n). Qed.

Theorem bottom_is_header_coarsest_grid c : wf_cfg c -> sc c = 0 ->
  shape_at c (Z.to_nat (bottom c)) = repr_coarsest (user c) (shape0 c).
Proof. exact (bottom_shape_is_header_shape c). Qed.

(* 6. Line relaxation never runs along a two-cell direction, and runs along
   exactly the requested directions that have more than two cells. *)
Theorem lr_never_on_two_cells lr0 n0 n1 n2 : 0 <= lr0 <= 7 ->
  let k := lines_along (current_lr_dir lr0 n0 n1 n2) in
  (n0 = 2 -> fst (fst k) = false) /\ (n1 = 2 -> snd (fst k) = false) /\
  (n2 = 2 -> snd k = false).
Proof. exact (lr_never_two_cells lr0 n0 n1 n2). Qed.

Theorem lr_exactly_requested_long_directions lr0 n0 n1 n2 : 0 <= lr0 <= 7 ->
  let k := lines_along (current_lr_dir lr0 n0 n1 n2) in
  let k0 := lines_along lr0 in
  (fst (fst k) = (fst (fst k0) && negb (n0 =? 2))%bool) /\
  (snd (fst k) = (snd (fst k0) && negb (n1 =? 2))%bool) /\
  (snd k = (snd k0 && negb (n2 =? 2))%bool).
Proof. exact (lr_subset lr0 n0 n1 n2). Qed.

(* 7. Directions advance cyclically, once per fine-grid cycle. *)
Theorem dirs_advance_cyclically pat (k : nat) : pat <> [] ->
  fst (cycle_next pat (cycle_iter pat k 0)) = dir_at pat (Z.of_nat k).
Proof. exact (dirs_cyclic pat k). Qed.

(* 7b. ... also when the cycles are run as CALLS of m cycles each (multigrid as
   preconditioner of a Krylov solver: every call ends through the cycle limit):
   the events of n cycles in calls are those of n consecutive cycles.  Rests on
   the flag [dirs_advance_before_terminate] read off solver.py (the hand-over
   precedes the termination test); the second statement shows what goes wrong
   otherwise. *)
Theorem directions_advance_across_preconditioner_calls c psc plr m n :
  outer_cycles_calls c psc plr m n = outer_cycles c psc plr n.
Proof. exact (calls_advance_once_per_cycle c psc plr m n). Qed.
Theorem stale_handover_at_call_end_refuted :
  exists m k, dir_at [1; 2; 3] (dir_index_of false m k) <> dir_at [1; 2; 3] k.
Proof. exact stale_handover_refuted. Qed.

(* non-vacuity: concrete configurations meet the hypotheses *)
Example wf_example :
  wf_cfg {| cyc := 70; sc := 1; lr := 5; user := -1; pre_on := true; post_on := true;
            shape0 := (6, 10, 24) |}
  /\ bottom {| cyc := 70; sc := 1; lr := 5; user := -1; pre_on := true; post_on := true;
               shape0 := (6, 10, 24) |} = 3
  /\ fine_cycle 4 {| cyc := 87; sc := 0; lr := 7; user := -1; pre_on := true; post_on := false;
                     shape0 := (40, 3, 16) |} <> None.
Proof.
  split; [unfold wf_cfg; cbn; lia|]. split; [vm_compute; reflexivity|].
  vm_compute. discriminate.
Qed.

Print Assumptions max_level_spec.
Print Assumptions halvable_means_even_and_gt2.
Print Assumptions bottom_level_spec.
Print Assumptions multigrid_terminates_in_documented_order.
Print Assumptions every_cycle_in_documented_order.
Print Assumptions stale_level0_cycmax_refuted.
Print Assumptions cycle_events_wellformed.
Print Assumptions shape_at_level.
Print Assumptions never_below_two.
Print Assumptions level_step.
Print Assumptions only_even_gt2_halved.
Print Assumptions bottom_is_header_coarsest_grid.
Print Assumptions lr_never_on_two_cells.
Print Assumptions lr_exactly_requested_long_directions.
Print Assumptions dirs_advance_cyclically.
Print Assumptions directions_advance_across_preconditioner_calls.
Print Assumptions stale_handover_at_call_end_refuted.
Print Assumptions wf_example.
