(* Props/C05.v -- property C05: grid hierarchy and V/W/F cycling are well-formed
   for every shape and setting.  ONLY statements, each closed by [exact].

   Gen/SolverHelpers.v (current_sc_dir, current_lr_dir, restrict_factors,
   smoothing_kernels, mg_cycmax, cycmax_of_cycle, halvable, cap_level,
   clevel_table) is regenerated from emg3d/solver.py on every run.
   Model/Hierarchy.v is the hand model of the recursion built on top of them;
   it is compared with the real solver's call trace by py/props/c05.py. *)
From Coq Require Import ZArith List Bool Lia Field.
From V Require Import Gen.SolverHelpers Model.Hierarchy Proofs.Hierarchy Model.MGSem Proofs.MGSem.
From V Require Import Base.FieldSig Gen.CoreAmat Gen.CoreRestrict Model.Prolong Proofs.MGContracts.
Import ListNotations.
Local Open Scope Z_scope.

(* 1. The per-direction level count: n = m * 2^count with m >= 2 and m odd or 2
   (so exactly the number of times n can be halved while even and > 2). *)
Theorem max_level_spec n : 2 <= n ->
  exists m, n = m * 2 ^ count1 n /\ 2 <= m /\ halvable m = false.
Proof. exact (count1_closed_form n). Qed.

Theorem halvable_means_even_and_gt2 n : halvable n = true <-> (n mod 2 = 0 /\ 2 < n).
Proof. exact (halvable_spec n). Qed.

(* 2. The bottom level is the maximum over the directions the pattern coarsens
   of min(user limit, count)  (no limit if the user gave a negative clevel). *)
Theorem bottom_level_spec c : wf_cfg c ->
  (* capped c n = if user c <? 0 then count1 n else Z.min (user c) (count1 n) *)
  bottom c = Z.max (if in_pat (sc c) 0 then capped c (sx (shape0 c)) else 0)
              (Z.max (if in_pat (sc c) 1 then capped c (sy (shape0 c)) else 0)
                     (if in_pat (sc c) 2 then capped c (sz (shape0 c)) else 0)).
Proof. exact (bottom_spec_capped c). Qed.

(* 3. The recursion terminates (never runs out of the allotted fuel) and visits
   the levels in the documented V, W or F order, for every shape/configuration. *)
Theorem multigrid_terminates_in_documented_order c :
  0 <= bottom c -> (cyc c = 70 \/ cyc c = 86 \/ cyc c = 87) ->
  fine_cycle (fuel_for c) c = Some (fine_tb c).
Proof. exact (fine_cycle_order c). Qed.

(* 3b. With cycling semicoarsening / line relaxation every fine-grid cycle is the
   textbook cycle of its own configuration (the level-0 cycle counter is
   re-computed in every cycle: flag [level0_cycmax_recomputed] read off
   solver.py), for any number of cycles. *)
Theorem every_cycle_in_documented_order c psc plr n :
  (forall k, 0 <= bottom (cfg_at c psc plr k)) ->
  (cyc c = 70 \/ cyc c = 86 \/ cyc c = 87) ->
  outer_cycles c psc plr n =
  map (fun k => Some (fine_tb (cfg_at c psc plr k))) (zrange n).
Proof. exact (outer_cycles_order c psc plr n). Qed.

(* ... and with a level-0 counter taken once from the first cycle (the code as
   found at the pinned commit) the statement is false: F degenerates to V. *)
Theorem stale_level0_cycmax_refuted :
  exists c1 c, 0 <= bottom c /\ cyc c = 70 /\
    fine_cycle_stale c1 (fuel_for c) c <> Some (fine_tb c).
Proof. exact stale_cycmax_refuted. Qed.

(* 4. Every event of a cycle is well-formed: levels lie in [0, bottom], the
   coarsest-grid solve happens exactly at the bottom level, the shape at level l
   is shape_at l, the smoother/restriction use the adapted directions. *)
Theorem cycle_events_wellformed c : wf_cfg c -> Forall (ev_ok c) (fine_tb c).
Proof. exact (fine_tb_ok c). Qed.

(* 5. Shapes: closed form, never fewer than two cells, only even > 2 halved. *)
Theorem shape_at_level c (l : nat) : wf_cfg c ->
  (* level_cells c l d n = if in_pat (sc c) d then n / 2 ^ min l (count1 n) else n *)
  shape_at c l = (level_cells c l 0 (sx (shape0 c)), level_cells c l 1 (sy (shape0 c)),
                  level_cells c l 2 (sz (shape0 c))).
Proof. exact (shape_at_closed c l). Qed.

Theorem never_below_two c l : wf_cfg c ->
  2 <= sx (shape_at c l) /\ 2 <= sy (shape_at c l) /\ 2 <= sz (shape_at c l).
Proof. exact (shape_at_ge2 c l). Qed.

Theorem level_step c (l : nat) : wf_cfg c -> Z.of_nat l < bottom c ->
  halve (shape_at c l) (c_sc_of c (shape_at c l)) = shape_at c (S l).
Proof. exact (halve_shape_at c l). Qed.

Theorem only_even_gt2_halved scd d n : step1 scd d n <> n ->
  n mod 2 = 0 /\ 2 < n /\ step1 scd d n = n / 2.
Proof. exact (step1_changes scd d n). Qed.

Theorem bottom_is_header_coarsest_grid c : wf_cfg c -> sc c = 0 ->
  shape_at c (Z.to_nat (bottom c)) = repr_coarsest (user c) (shape0 c).
Proof. exact (bottom_shape_is_header_shape c). Qed.

(* 6. Line relaxation never runs along a two-cell direction, and runs along
   exactly the requested directions that have more than two cells. *)
Theorem lr_never_on_two_cells lr0 n0 n1 n2 : 0 <= lr0 <= 7 ->
  let k := lines_along (current_lr_dir lr0 n0 n1 n2) in
  (n0 = 2 -> fst (fst k) = false) /\ (n1 = 2 -> snd (fst k) = false) /\
  (n2 = 2 -> snd k = false).
Proof. exact (lr_never_two_cells lr0 n0 n1 n2). Qed.

Theorem lr_exactly_requested_long_directions lr0 n0 n1 n2 : 0 <= lr0 <= 7 ->
  let k := lines_along (current_lr_dir lr0 n0 n1 n2) in
  let k0 := lines_along lr0 in
  (fst (fst k) = (fst (fst k0) && negb (n0 =? 2))%bool) /\
  (snd (fst k) = (snd (fst k0) && negb (n1 =? 2))%bool) /\
  (snd k = (snd k0 && negb (n2 =? 2))%bool).
Proof. exact (lr_subset lr0 n0 n1 n2). Qed.

(* 7. Directions advance cyclically, once per fine-grid cycle. *)
Theorem dirs_advance_cyclically pat (k : nat) : pat <> [] ->
  fst (cycle_next pat (cycle_iter pat k 0)) = dir_at pat (Z.of_nat k).
Proof. exact (dirs_cyclic pat k). Qed.

(* 7b. ... also when the cycles are run as CALLS of m cycles each (multigrid as
   preconditioner of a Krylov solver: every call ends through the cycle limit):
   the events of n cycles in calls are those of n consecutive cycles.  Rests on
   the flag [dirs_advance_before_terminate] read off solver.py (the hand-over
   precedes the termination test); the second statement shows what goes wrong
   otherwise. *)
Theorem directions_advance_across_preconditioner_calls c psc plr m n :
  outer_cycles_calls c psc plr m n = outer_cycles c psc plr n.
Proof. exact (calls_advance_once_per_cycle c psc plr m n). Qed.
Theorem stale_handover_at_call_end_refuted :
  exists m k, dir_at [1; 2; 3] (dir_index_of false m k) <> dir_at [1; 2; 3] k.
Proof. exact stale_handover_refuted. Qed.

(* non-vacuity: concrete configurations meet the hypotheses *)
Example wf_example :
  wf_cfg {| cyc := 70; sc := 1; lr := 5; user := -1; pre_on := true; post_on := true;
            shape0 := (6, 10, 24) |}
  /\ bottom {| cyc := 70; sc := 1; lr := 5; user := -1; pre_on := true; post_on := true;
               shape0 := (6, 10, 24) |} = 3
  /\ fine_cycle 4 {| cyc := 87; sc := 0; lr := 7; user := -1; pre_on := true; post_on := false;
                     shape0 := (40, 3, 16) |} <> None.
Proof.
  split; [unfold wf_cfg; cbn; lia|]. split; [vm_compute; reflexivity|].
  vm_compute. discriminate.
Qed.

(* 8. What the visited levels DO (Model/MGSem.v: the event list interpreted as a
   stack machine over (efield, sfield) frames; data flow compared with the real
   multigrid() by py/props/c05_flow.py).  For every cycle type, shape, pattern
   and limit: one cycle is a total function of the field (never stuck, stack
   balanced, source untouched), and -- given the contracts of the four numerical
   operations, which are the statements proved for the regenerated kernels in
   C03 (a smoother leaves an exact solution unchanged) and C04/C02 (restriction,
   prolongation and residual are linear: zero in, zero out) -- it returns an
   exact solution of the fine-grid system unchanged; so do any number of cycles
   with directions changing from cycle to cycle. *)
Section C05sem.
  Variable fld : Type.
  Variable feq : fld -> fld -> Prop.
  Hypothesis feq_refl : forall a, feq a a.
  Hypothesis feq_sym : forall a b, feq a b -> feq b a.
  Hypothesis feq_trans : forall a b c, feq a b -> feq b c -> feq a c.
  Variable zero : fld.
  Variable smooth : Z -> Z -> Z -> fld -> fld -> fld.
  Variable resid : Z -> fld -> fld -> fld.
  Variable restr : Z -> Z -> fld -> fld.
  Variable prol : Z -> fld -> fld -> fld.

  Theorem multigrid_cycle_is_a_total_function_of_the_field c1 fuel c tr e s :
    fine_cycle_from c1 fuel c = Some tr ->
    exists e', run fld zero smooth resid restr prol tr [(e, s)] = Some [(e', s)].
  Proof. exact (mg_cycle_total fld zero smooth resid restr prol c1 fuel c tr e s). Qed.

  (* e solves the level-l system: residual(model_l, s, e) = 0 *)
  Let exact_at (l : Z) (e s : fld) : Prop := feq (resid l s e) zero.
  Hypothesis smooth_fix : forall l clr k e s, exact_at l e s -> feq (smooth l clr k e s) e.
  Hypothesis exact_proper : forall l e e' s, feq e e' -> exact_at l e s -> exact_at l e' s.
  Hypothesis restr_zero : forall l csc r, feq r zero -> feq (restr l csc r) zero.
  Hypothesis coarse_zero_exact : forall l cs, feq cs zero -> exact_at l zero cs.
  Hypothesis prol_zero : forall l e ce, feq ce zero -> feq (prol l e ce) e.

  Theorem multigrid_cycle_leaves_exact_solution_unchanged c1 fuel c tr e s :
    fine_cycle_from c1 fuel c = Some tr -> exact_at 0 e s ->
    exists e', feq e' e /\ run fld zero smooth resid restr prol tr [(e, s)] = Some [(e', s)].
  Proof.
    exact (mg_cycle_fixed_point fld feq feq_refl feq_sym feq_trans zero smooth resid restr prol
             smooth_fix exact_proper restr_zero coarse_zero_exact prol_zero c1 fuel c tr e s).
  Qed.

  Theorem any_number_of_cycles_leaves_exact_solution_unchanged
      (cfgs : list (cfg * cfg * nat)) trs e s :
    map (fun x => fine_cycle_from (fst (fst x)) (snd x) (snd (fst x))) cfgs = map Some trs ->
    exact_at 0 e s ->
    exists e', feq e' e /\ run_cycles fld zero smooth resid restr prol trs e s = Some e'.
  Proof.
    exact (mg_cycles_fixed_point fld feq feq_refl feq_sym feq_trans zero smooth resid restr prol
             smooth_fix exact_proper restr_zero coarse_zero_exact prol_zero cfgs trs e s).
  Qed.
End C05sem.

(* 8b. Three of the four contracts, for the REGENERATED kernels (any field with
   1+1 <> 0, every shape, pattern, weights, coefficients): the residual of the
   zero field is the source (A 0 = 0), core.restrict maps an all-zero residual
   to zero, the prolongation of an all-zero coarse field adds nothing.  (The
   fourth -- a smoother returns an exact solution unchanged -- is C03's
   point_/line_*_smoother_leaves_exact_solution_unchanged.) *)
Section C05contracts.
  Context {F : Type} {O : FOps F}.
  Hypothesis Fth : field_theory F0 F1 Fadd Fmul Fsub Fopp Fdiv Finv (@eq F).
  Hypothesis two_nz : (1 + 1)%F <> 0%F.
  Let z3 : Z -> Z -> Z -> F := fun _ _ _ => 0%F.

  Theorem residual_of_the_zero_field_is_the_source
      (eta_x eta_y eta_z zeta : Z -> Z -> Z -> F) (hx hy hz : Z -> F) nx ny nz
      (sx sy sz : Z -> Z -> Z -> F) :
    (forall i, hx i <> 0%F) -> (forall i, hy i <> 0%F) -> (forall i, hz i <> 0%F) ->
    0 <= nx -> 0 <= ny -> 0 <= nz -> forall i j k,
    AmatFIT.get3 (amat_x nx ny nz sx sy sz z3 z3 z3 eta_x eta_y eta_z zeta hx hy hz) i j k
    = (sx i j k, sy i j k, sz i j k).
  Proof.
    intros Hx Hy Hz.
    exact (residual_of_zero_field_is_the_source Fth two_nz eta_x eta_y eta_z zeta hx hy hz
             Hx Hy Hz nx ny nz sx sy sz).
  Qed.

  Theorem restriction_of_a_zero_residual_is_zero
      (wx wy wz : (Z -> F) * (Z -> F) * (Z -> F)) (cnx cny cnz nx ny nz scd : Z) :
    0 <= scd <= 6 -> 0 <= cnx -> 0 <= cny -> 0 <= cnz -> forall i j k,
    RestrictTensor.get3 (restrict cnx cny cnz nx ny nz z3 z3 z3 z3 z3 z3 wx wy wz scd) i j k
    = (0%F, 0%F, 0%F).
  Proof. exact (restriction_of_zero_residual_is_zero Fth wx wy wz cnx cny cnz nx ny nz scd). Qed.

  Theorem prolongation_of_a_zero_coarse_field_adds_nothing
      scd (xn yn zn : Z -> F) nx ny nz (ex ey ez : Z -> Z -> Z -> F) i j k :
    prolong_x scd yn zn nx ny nz z3 ex i j k = ex i j k /\
    prolong_y scd xn zn nx ny nz z3 ey i j k = ey i j k /\
    prolong_z scd xn yn nx ny nz z3 ez i j k = ez i j k.
  Proof. exact (prolongation_of_zero_adds_nothing Fth scd xn yn zn nx ny nz ex ey ez i j k). Qed.
End C05contracts.

(* non-vacuity: an instance meeting all contracts, on which the F-cycle over three
   levels keeps the exact field and moves an inexact one *)
Example cycle_contracts_satisfiable :
  (forall l clr k e s, t_resid l s e = 0 -> t_smooth l clr k e s = e) /\
  (forall l csc r, r = 0 -> t_restr l csc r = 0) /\
  (forall l cs, cs = 0 -> t_resid l cs 0 = 0) /\
  (forall l e ce, ce = 0 -> t_prol l e ce = e) /\
  cycle_result Z 0 t_smooth t_resid t_restr t_prol t_cfg (fuel_for t_cfg) t_cfg 5 5 = Some [(5, 5)] /\
  cycle_result Z 0 t_smooth t_resid t_restr t_prol t_cfg (fuel_for t_cfg) t_cfg 3 5 = Some [(5, 5)].
Proof.
  destruct toy_contracts as [A [B [C D]]]. destruct toy_cycle_runs as [E [G _]].
  repeat split; assumption.
Qed.

Print Assumptions max_level_spec.
Print Assumptions halvable_means_even_and_gt2.
Print Assumptions bottom_level_spec.
Print Assumptions multigrid_terminates_in_documented_order.
Print Assumptions every_cycle_in_documented_order.
Print Assumptions stale_level0_cycmax_refuted.
Print Assumptions cycle_events_wellformed.
Print Assumptions shape_at_level.
Print Assumptions never_below_two.
Print Assumptions level_step.
Print Assumptions only_even_gt2_halved.
Print Assumptions bottom_is_header_coarsest_grid.
Print Assumptions lr_never_on_two_cells.
Print Assumptions lr_exactly_requested_long_directions.
Print Assumptions dirs_advance_cyclically.
Print Assumptions directions_advance_across_preconditioner_calls.
Print Assumptions stale_handover_at_call_end_refuted.
Print Assumptions wf_example.
Print Assumptions multigrid_cycle_is_a_total_function_of_the_field.
Print Assumptions multigrid_cycle_leaves_exact_solution_unchanged.
Print Assumptions any_number_of_cycles_leaves_exact_solution_unchanged.
Print Assumptions residual_of_the_zero_field_is_the_source.
Print Assumptions restriction_of_a_zero_residual_is_zero.
Print Assumptions prolongation_of_a_zero_coarse_field_adds_nothing.
Print Assumptions cycle_contracts_satisfiable.
