(* Props/C09.v -- property C09: receiver sampling and point sources are exact
   transposes; reciprocity; NaN policy.  ONLY statements, each closed by [exact]
   of a lemma from Proofs/, with Print Assumptions beneath.

   Model/Interp.v is the hand model of scipy's linear RegularGridInterpolator as
   maps.interpolate uses it, of fields.get_receiver(method='linear') and of
   fields._point_vector; it is tied to /repo by py/props/c09.py on every run.
   Grids: any node vectors ndx, ndy, ndz (nx+1, ny+1, nz+1 entries) that are
   strictly strictly_increasing, at least two cells per direction.  [inner_range n nd x]
   is  nd 1 <= x <= nd (n-1): the second to second-last cell.  Rotation factors
   f1,f2,f3 are arbitrary reals that are 0 or pass the code's guard
   abs(f) > eps (eps = 1e-10 in the code; any eps here).  el = true: electric
   field on edges (emg3d's _point_vector); el = false: a field on faces.
   None is NaN / ValueError. *)
From Coq Require Import ZArith Bool List Reals Lra Lia.
From V Require Import Base.FieldSig Base.Arr Base.Loops3 Gen.FieldsCurl Model.FIT Model.Interp Model.InterpMag.
From V Require Import Proofs.InterpSums Proofs.Interp Proofs.InterpMag.
Import ListNotations.
Delimit Scope F_scope with F.
Local Open Scope Z_scope.

Section C09.
  Variables (nx ny nz : Z) (ndx ndy ndz : Z -> R) (eps : R).
  Hypothesis Hnx : 2 <= nx.
  Hypothesis Hny : 2 <= ny.
  Hypothesis Hnz : 2 <= nz.
  Hypothesis Ix : strictly_increasing nx ndx.
  Hypothesis Iy : strictly_increasing ny ndy.
  Hypothesis Iz : strictly_increasing nz ndz.

  (* get_receiver u p = <point_vector p, u>, every field u (real). *)
  Theorem point_vector_is_sampling_transpose
          (el : bool) (fx fy fz : Z -> Z -> Z -> R) (x y z f1 f2 f3 : R) :
    inner_range nx ndx x -> inner_range ny ndy y -> inner_range nz ndz z ->
    (f1 = 0%R \/ used Rleb eps f1 = true) -> (f2 = 0%R \/ used Rleb eps f2 = true) ->
    (f3 = 0%R \/ used Rleb eps f3 = true) ->
    exists vx vy vz,
      point_vector_gen Rleb nx ny nz ndx ndy ndz el x y z f1 f2 f3 = Some (vx, vy, vz) /\
      get_receiver Rleb nx ny nz ndx ndy ndz eps el fx fy fz x y z f1 f2 f3
      = Some (inner3 nx ny nz el vx vy vz fx fy fz).
  Proof. exact (receiver_transpose nx ny nz ndx ndy ndz Hnx Hny Hnz Ix Iy Iz eps
                  el fx fy fz x y z f1 f2 f3). Qed.

  (* complex field = (real part, imaginary part); the source vector is real *)
  Theorem point_vector_is_sampling_transpose_complex
          (el : bool) (fxr fyr fzr fxi fyi fzi : Z -> Z -> Z -> R) (x y z f1 f2 f3 : R) :
    inner_range nx ndx x -> inner_range ny ndy y -> inner_range nz ndz z ->
    (f1 = 0%R \/ used Rleb eps f1 = true) -> (f2 = 0%R \/ used Rleb eps f2 = true) ->
    (f3 = 0%R \/ used Rleb eps f3 = true) ->
    exists vx vy vz,
      point_vector_gen Rleb nx ny nz ndx ndy ndz el x y z f1 f2 f3 = Some (vx, vy, vz) /\
      get_receiver_c Rleb nx ny nz ndx ndy ndz eps el fxr fyr fzr fxi fyi fzi x y z f1 f2 f3
      = Some (inner3 nx ny nz el vx vy vz fxr fyr fzr, inner3 nx ny nz el vx vy vz fxi fyi fzi).
  Proof. exact (receiver_c_transpose nx ny nz ndx ndy ndz Hnx Hny Hnz Ix Iy Iz eps
                  el fxr fyr fzr fxi fyi fzi x y z f1 f2 f3). Qed.

  (* several receivers in one call (the guard is np.any over the receivers) *)
  Theorem point_vector_is_sampling_transpose_batch
          (el : bool) (fx fy fz : Z -> Z -> Z -> R) (rs : list ((R * R * R) * (R * R * R))) :
    Forall (fun r => inner_range nx ndx (fst (fst (fst r))) /\
                     inner_range ny ndy (snd (fst (fst r))) /\
                     inner_range nz ndz (snd (fst r)) /\
                     (rx_f1 r = 0%R \/ used Rleb eps (rx_f1 r) = true) /\
                     (rx_f2 r = 0%R \/ used Rleb eps (rx_f2 r) = true) /\
                     (rx_f3 r = 0%R \/ used Rleb eps (rx_f3 r) = true)) rs ->
    Forall2 (fun r o => exists vx vy vz,
               point_vector_gen Rleb nx ny nz ndx ndy ndz el
                 (fst (fst (fst r))) (snd (fst (fst r))) (snd (fst r))
                 (rx_f1 r) (rx_f2 r) (rx_f3 r) = Some (vx, vy, vz) /\
               o = Some (inner3 nx ny nz el vx vy vz fx fy fz))
            rs (get_receiver_batch Rleb nx ny nz ndx ndy ndz eps el fx fy fz rs).
  Proof. exact (receiver_batch_transpose nx ny nz ndx ndy ndz Hnx Hny Hnz Ix Iy Iz eps
                  el fx fy fz rs). Qed.

  (* in that range the eight writes of point_source hit eight distinct
     entries, for each of the three components *)
  Theorem point_vector_no_overwrite (el : bool) (c : Z) (x y z : R) :
    inner_range nx ndx x -> inner_range ny ndy y -> inner_range nz ndz z ->
    NoDup (comp_targets Rleb nx ny nz ndx ndy ndz el c x y z).
  Proof. exact (targets_nodup nx ny nz ndx ndy ndz Hnx Hny Hnz Ix Iy Iz el c x y z). Qed.

  (* NaN policy: outside the grid or in an outermost cell => NaN, whatever the
     factors; (with the first theorem: a number exactly on the inner range) *)
  Theorem receiver_nan_policy (u1 u2 u3 el : bool) (fx fy fz : Z -> Z -> Z -> R)
          (x y z f1 f2 f3 : R) :
    ~ (inner_range nx ndx x /\ inner_range ny ndy y /\ inner_range nz ndz z) ->
    get_receiver_u Rleb nx ny nz ndx ndy ndz u1 u2 u3 el fx fy fz x y z f1 f2 f3 = None.
  Proof. exact (receiver_nan nx ny nz ndx ndy ndz u1 u2 u3 el fx fy fz x y z f1 f2 f3). Qed.

  (* Reciprocity, exact form: A symmetric for the bilinear edge inner product
     (C02), exact solutions for two point sources s = c * point_vector
     (c = -s mu0 <> 0): the response of source a at receiver b equals the
     response of source b at receiver a. *)
  Theorem reciprocity_exact (A : @T3 R -> @T3 R) (c : R)
          xa ya za a1 a2 a3 xb yb zb b1 b2 b3 (pa pb ea eb : @T3 R) :
    (forall a b, inner3t nx ny nz true (A a) b = inner3t nx ny nz true a (A b)) ->
    c <> 0%R ->
    inner_range nx ndx xa -> inner_range ny ndy ya -> inner_range nz ndz za ->
    inner_range nx ndx xb -> inner_range ny ndy yb -> inner_range nz ndz zb ->
    (a1 = 0%R \/ used Rleb eps a1 = true) -> (a2 = 0%R \/ used Rleb eps a2 = true) ->
    (a3 = 0%R \/ used Rleb eps a3 = true) ->
    (b1 = 0%R \/ used Rleb eps b1 = true) -> (b2 = 0%R \/ used Rleb eps b2 = true) ->
    (b3 = 0%R \/ used Rleb eps b3 = true) ->
    point_vector Rleb nx ny nz ndx ndy ndz xa ya za a1 a2 a3 = Some pa ->
    point_vector Rleb nx ny nz ndx ndy ndz xb yb zb b1 b2 b3 = Some pb ->
    A ea = scale3t c pa -> A eb = scale3t c pb ->
    get_receiver Rleb nx ny nz ndx ndy ndz eps true (fst (fst ea)) (snd (fst ea)) (snd ea)
                 xb yb zb b1 b2 b3
    = get_receiver Rleb nx ny nz ndx ndy ndz eps true (fst (fst eb)) (snd (fst eb)) (snd eb)
                   xa ya za a1 a2 a3.
  Proof. intros HA. exact (reciprocity_receivers nx ny nz ndx ndy ndz eps Hnx Hny Hnz Ix Iy Iz
                             A HA c xa ya za a1 a2 a3 xb yb zb b1 b2 b3 pa pb ea eb). Qed.
End C09.

Print Assumptions point_vector_is_sampling_transpose.
Print Assumptions point_vector_is_sampling_transpose_complex.
Print Assumptions point_vector_is_sampling_transpose_batch.
Print Assumptions point_vector_no_overwrite.
Print Assumptions receiver_nan_policy.
Print Assumptions reciprocity_exact.

(* Reciprocity in any field (R, C, ...): symmetric bilinear form, symmetric
   operator, two sources that are the same multiple of two sampling vectors. *)
Theorem reciprocity_any_field {F : Type} {O : FOps F}
        (Fth : field_theory F0 F1 Fadd Fmul Fsub Fopp Fdiv Finv (@eq F))
        (V : Type) (inner : V -> V -> F) (scale : F -> V -> V) (A : V -> V) :
  (forall a b, inner a b = inner b a) ->
  (forall c a b, inner (scale c a) b = (c * inner a b)%F) ->
  (forall a b, inner (A a) b = inner a (A b)) ->
  forall (c : F) (pa pb ea eb : V), c <> 0%F ->
    A ea = scale c pa -> A eb = scale c pb -> inner pb ea = inner pa eb.
Proof. exact (reciprocity_abstract Fth V inner scale A). Qed.
Print Assumptions reciprocity_any_field.

(* 1-D: scipy's linear interpolant is the sum against the 1-D point-source
   weights, on the whole closed hull (including the `ic == nc-1` branch at the
   last grid point); NaN outside. *)
Theorem lin_interp_is_weights (n : Z) (g u : Z -> R) (x : R) :
  2 <= n -> strictly_increasing (n - 1) g -> (g 0%Z <= x <= g (n - 1)%Z)%R ->
  lin_interp Rleb g n u x = Some (Zsum 0 n (fun i => (s1d Rleb g n x i * u i)%F)).
Proof. intros Hn Hi. exact (lin_interp_weights n g Hn Hi u x). Qed.
Print Assumptions lin_interp_is_weights.

Theorem lin_interp_outside_nan (n : Z) (g u : Z -> R) (x : R) :
  (x < g 0%Z \/ g (n - 1)%Z < x)%R -> lin_interp Rleb g n u x = None.
Proof. exact (lin_interp_nan n g u x). Qed.
Print Assumptions lin_interp_outside_nan.

(* ---- non-vacuity: the hypotheses are satisfiable by a non-trivial case ---- *)
Example transpose_nonvacuous :
  exists vx vy vz,
    point_vector_gen Rleb 3 3 3 IZR IZR IZR true (3/2)%R 1%R 2%R 1%R 0%R (1/2)%R = Some (vx, vy, vz) /\
    get_receiver Rleb 3 3 3 IZR IZR IZR (1/10000000000)%R true
      (fun i j k => IZR (i + 2 * j + 3 * k)) (fun i j k => IZR (i * j)) (fun i j k => IZR k)
      (3/2)%R 1%R 2%R 1%R 0%R (1/2)%R
    = Some (inner3 3 3 3 true vx vy vz
              (fun i j k => IZR (i + 2 * j + 3 * k)) (fun i j k => IZR (i * j)) (fun i j k => IZR k)).
Proof.
  apply point_vector_is_sampling_transpose;
    try lia; try apply strictly_increasing_IZR; unfold inner_range; cbn; try lra.
  all: try (left; reflexivity).
  all: right; apply used_iff; rewrite Rabs_pos_eq; lra.
Qed.
Print Assumptions transpose_nonvacuous.

Example nan_nonvacuous :
  get_receiver Rleb 3 3 3 IZR IZR IZR (1/10000000000)%R true
    (fun i j k => IZR i) (fun i j k => IZR j) (fun i j k => IZR k) (1/2)%R 1%R 2%R 1%R 0%R 0%R = None.
Proof.
  apply receiver_nan_policy. unfold inner_range; cbn. lra.
Qed.
Print Assumptions nan_nonvacuous.

(* ------------------------------------------------------------ magnetic *)
(* The kernel fields._edge_curl_factor (Gen/FieldsCurl.v, regenerated from
   emg3d/fields.py on every run): on every face of the box it visits it stores
   curl(E) * (zeta of the two adjacent cells) / (their summed width * the two
   other widths), leaves the lower boundary faces and everything else
   untouched.  Any field, every shape, all non-zero widths. *)
Theorem edge_curl_kernel_spec {F : Type} {O : FOps F}
        (Fth : field_theory F0 F1 Fadd Fmul Fsub Fopp Fdiv Finv (@eq F))
        (ex ey ez zeta : Z -> Z -> Z -> F) (hx hy hz : Z -> F) :
  (forall i, hx i <> 0%F) -> (forall i, hy i <> 0%F) -> (forall i, hz i <> 0%F) ->
  (forall i, (hx (i - 1)%Z + hx i)%F <> 0%F) -> (forall i, (hy (i - 1)%Z + hy i)%F <> 0%F) ->
  (forall i, (hz (i - 1)%Z + hz i)%F <> 0%F) ->
  forall nx ny nz mx my mz, 0 <= nx -> 0 <= ny -> 0 <= nz -> forall i j k,
    get3m (_edge_curl_factor nx ny nz mx my mz ex ey ez hx hy hz zeta) i j k
    = if in_box nx ny nz i j k
      then (if (i =? 0) then mx i j k else
              (curl_x ey ez hy hz i j k * (zeta (i - 1)%Z j k + zeta i j k)
               / ((hx (i - 1)%Z + hx i) * hy j * hz k))%F,
            if (j =? 0) then my i j k else
              (curl_y ex ez hx hz i j k * (zeta i (j - 1)%Z k + zeta i j k)
               / (hx i * (hy (j - 1)%Z + hy j) * hz k))%F,
            if (k =? 0) then mz i j k else
              (curl_z ex ey hx hy i j k * (zeta i j (k - 1)%Z + zeta i j k)
               / (hx i * hy j * (hz (k - 1)%Z + hz k)))%F)
      else (mx i j k, my i j k, mz i j k).
Proof. exact (edge_curl_spec Fth ex ey ez zeta hx hy hz). Qed.
Print Assumptions edge_curl_kernel_spec.

(* curl and curl^T (Model/FIT.v, shared with C02) are adjoint for the
   face / edge inner products, for face vectors vanishing just outside the
   face boxes in their tangential directions.  Any field, every shape. *)
Theorem curl_transpose_adjoint {F : Type} {O : FOps F}
        (Fth : field_theory F0 F1 Fadd Fmul Fsub Fopp Fdiv Finv (@eq F))
        (nx ny nz : Z) (hx hy hz : Z -> F) (ux uy uz ex ey ez : Z -> Z -> Z -> F) :
  0 <= nx -> 0 <= ny -> 0 <= nz ->
  (forall i k, ux i (-1) k = 0%F) -> (forall i k, ux i ny k = 0%F) ->
  (forall i j, ux i j (-1) = 0%F) -> (forall i j, ux i j nz = 0%F) ->
  (forall j k, uy (-1) j k = 0%F) -> (forall j k, uy nx j k = 0%F) ->
  (forall i j, uy i j (-1) = 0%F) -> (forall i j, uy i j nz = 0%F) ->
  (forall j k, uz (-1) j k = 0%F) -> (forall j k, uz nx j k = 0%F) ->
  (forall i k, uz i (-1) k = 0%F) -> (forall i k, uz i ny k = 0%F) ->
  (sum3 (nx + 1) ny nz (fun i j k => (ux i j k * curl_x ey ez hy hz i j k)%F)
   + sum3 nx (ny + 1) nz (fun i j k => (uy i j k * curl_y ex ez hx hz i j k)%F)
   + sum3 nx ny (nz + 1) (fun i j k => (uz i j k * curl_z ex ey hx hy i j k)%F))%F
  = (sum3 nx (ny + 1) (nz + 1) (fun i j k => (curlT_x uy uz hy hz i j k * ex i j k)%F)
     + sum3 (nx + 1) ny (nz + 1) (fun i j k => (curlT_y ux uz hx hz i j k * ey i j k)%F)
     + sum3 (nx + 1) (ny + 1) nz (fun i j k => (curlT_z ux uy hx hy i j k * ez i j k)%F))%F.
Proof. intros. now apply (curl_adjoint Fth). Qed.
Print Assumptions curl_transpose_adjoint.

(* Magnetic receiver: H = _edge_curl_factor(E; zeta = cell volume / (s mu0))
   (get_magnetic_field for mu_r = 1) sampled by get_receiver on the three face
   grids equals <curl^T(face sampling vector), E> / (s mu0) -- discrete
   Faraday.  All grids, widths > 0, positions in the inner range, fields. *)
Theorem magnetic_receiver_transpose
        (nx ny nz : Z) (ndx ndy ndz : Z -> R) (eps : R) (hx hy hz : Z -> R) (smu0 : R) :
  2 <= nx -> 2 <= ny -> 2 <= nz ->
  strictly_increasing nx ndx -> strictly_increasing ny ndy -> strictly_increasing nz ndz ->
  (forall i, (0 < hx i)%R) -> (forall i, (0 < hy i)%R) -> (forall i, (0 < hz i)%R) ->
  smu0 <> 0%R ->
  forall (ex ey ez : Z -> Z -> Z -> R) (x y z f1 f2 f3 : R),
  inner_range nx ndx x -> inner_range ny ndy y -> inner_range nz ndz z ->
  (f1 = 0%R \/ used Rleb eps f1 = true) -> (f2 = 0%R \/ used Rleb eps f2 = true) ->
  (f3 = 0%R \/ used Rleb eps f3 = true) ->
  exists wx wy wz,
    face_vector Rleb nx ny nz ndx ndy ndz x y z f1 f2 f3 = Some (wx, wy, wz) /\
    get_receiver Rleb nx ny nz ndx ndy ndz eps false
      (fst (fst (magnetic_field nx ny nz hx hy hz (zeta_vac hx hy hz smu0) ex ey ez)))
      (snd (fst (magnetic_field nx ny nz hx hy hz (zeta_vac hx hy hz smu0) ex ey ez)))
      (snd (magnetic_field nx ny nz hx hy hz (zeta_vac hx hy hz smu0) ex ey ez))
      x y z f1 f2 f3
    = Some (inner3 nx ny nz true (curlT_x wy wz hy hz) (curlT_y wx wz hx hz)
                   (curlT_z wx wy hx hy) ex ey ez / smu0)%R.
Proof. exact (magnetic_transpose nx ny nz ndx ndy ndz eps hx hy hz smu0). Qed.
Print Assumptions magnetic_receiver_transpose.

Example magnetic_nonvacuous :
  exists wx wy wz,
    face_vector Rleb 3 3 3 IZR IZR IZR (3/2)%R 1%R 2%R 0%R 1%R (1/2)%R = Some (wx, wy, wz) /\
    get_receiver Rleb 3 3 3 IZR IZR IZR (1/10000000000)%R false
      (fst (fst (magnetic_field 3 3 3 (fun _ => 1%R) (fun _ => 1%R) (fun _ => 1%R)
                   (zeta_vac (fun _ => 1%R) (fun _ => 1%R) (fun _ => 1%R) 2%R)
                   (fun i j k => IZR (i * j)) (fun i j k => IZR (k * k)) (fun i j k => IZR (i + j)))))
      (snd (fst (magnetic_field 3 3 3 (fun _ => 1%R) (fun _ => 1%R) (fun _ => 1%R)
                   (zeta_vac (fun _ => 1%R) (fun _ => 1%R) (fun _ => 1%R) 2%R)
                   (fun i j k => IZR (i * j)) (fun i j k => IZR (k * k)) (fun i j k => IZR (i + j)))))
      (snd (magnetic_field 3 3 3 (fun _ => 1%R) (fun _ => 1%R) (fun _ => 1%R)
                   (zeta_vac (fun _ => 1%R) (fun _ => 1%R) (fun _ => 1%R) 2%R)
                   (fun i j k => IZR (i * j)) (fun i j k => IZR (k * k)) (fun i j k => IZR (i + j))))
      (3/2)%R 1%R 2%R 0%R 1%R (1/2)%R
    = Some (inner3 3 3 3 true (curlT_x wy wz (fun _ => 1%R) (fun _ => 1%R))
                   (curlT_y wx wz (fun _ => 1%R) (fun _ => 1%R))
                   (curlT_z wx wy (fun _ => 1%R) (fun _ => 1%R))
                   (fun i j k => IZR (i * j)) (fun i j k => IZR (k * k)) (fun i j k => IZR (i + j)) / 2)%R.
Proof.
  apply magnetic_receiver_transpose;
    try lia; try apply strictly_increasing_IZR; try (intros; lra);
    unfold inner_range; cbn; try lra.
  all: try (left; reflexivity).
  all: right; apply used_iff; rewrite Rabs_pos_eq; lra.
Qed.
Print Assumptions magnetic_nonvacuous.

(* ------------------------------------------------------------------------
   Round 7: the glue between Survey and get_receiver.  Model/RecCoord.v is the
   hand model of Receiver.coordinates_abs, Survey._irec_types,
   Survey._rec_types_coord (per-source cache = state) and
   Simulation._get_responses.  [run sv [] ops] executes ANY history of requests
   (any sources, any order, repeated, unknown keys, the caller scribbling over
   returned arrays) on one Survey object starting with the empty cache.
   ------------------------------------------------------------------------ *)
From V Require Import Model.RecCoord Proofs.RecCoord.

(* Cache coherence: for every survey (any receivers: relative/absolute,
   electric/magnetic, any order; any sources) and EVERY history, the i-th
   answer is the specification of the i-th operation alone: the coordinates
   returned for source s are  coordinates_abs(centre of s)  of the electric and
   of the magnetic receivers in survey order -- a function of (receiver,
   source) only; an unknown key gives KeyError.  Any number type. *)
Theorem rec_coord_history_independent {F : Type} {O : FOps F}
        (sv : @survey F) (ops : list op) :
  snd (run sv [] ops) = map (spec sv) ops.
Proof. exact (history_independent sv ops). Qed.
Print Assumptions rec_coord_history_independent.

(* ... and so is any further request after any history. *)
Theorem rec_coord_request_after_history {F : Type} {O : FOps F}
        (sv : @survey F) (ops : list op) (s : Z) :
  snd (request sv (fst (run sv [] ops)) s) = spec sv (Req s).
Proof. exact (request_after_history sv ops s). Qed.
Print Assumptions rec_coord_request_after_history.

(* Fault path: a request that raises KeyError leaves the cache unchanged. *)
Theorem rec_coord_failed_request_keeps_cache {F : Type} {O : FOps F}
        (sv : @survey F) (st : @cache F) (s : Z) :
  snd (request sv st s) = KeyErr -> fst (request sv st s) = st.
Proof. exact (failed_request_keeps_cache sv st s). Qed.
Print Assumptions rec_coord_failed_request_keeps_cache.

(* Once stored, the coordinates of a source are never rewritten by whatever
   follows (later sources, repeated requests, failed requests, scribbling). *)
Theorem rec_coord_cache_entries_stable {F : Type} {O : FOps F}
        (sv : @survey F) (ops : list op) (st : @cache F) (s : Z) (rw : list coord5) :
  lookup s st = Some rw -> lookup s (fst (run sv st ops)) = Some rw.
Proof. exact (cache_entries_stable sv ops st s rw). Qed.
Print Assumptions rec_coord_cache_entries_stable.

(* End to end: after EVERY history on the Survey object, what
   Simulation._get_responses stores for source s and the electric (el = true,
   field on edges) or magnetic (el = false, H field on faces) receivers is, for
   each receiver r, the inner product of the field with the unit point-source
   vector at  coordinates_abs(centre of s, r)  with r's orientation -- provided
   those positions are in the inner range and the rotation factors (rotf =
   electrodes.rotation, an oracle) are 0 or pass the guard. *)
Theorem survey_responses_are_transposes
        (nx ny nz : Z) (ndx ndy ndz : Z -> R) (eps : R) :
  2 <= nx -> 2 <= ny -> 2 <= nz ->
  strictly_increasing nx ndx -> strictly_increasing ny ndy -> strictly_increasing nz ndz ->
  forall (rotf : R -> R -> R * R * R)
         (sv : @survey R) (ops : list op) (s : Z) (c : R * R * R) (el : bool)
         (fx fy fz : Z -> Z -> Z -> R),
  lookup s (sv_sources sv) = Some c ->
  Forall (fun r => sampled_ok nx ny nz ndx ndy ndz eps (to_batch rotf (coordinates_abs c r)))
         (filter (fun r => Bool.eqb (rc_el r) el) (sv_receivers sv)) ->
  exists out,
    snd (get_responses Rleb nx ny nz ndx ndy ndz eps rotf sv (fst (run sv [] ops)) s el fx fy fz)
    = Some out /\
    Forall2 (fun r o =>
               let b := to_batch rotf (coordinates_abs c r) in
               exists vx vy vz,
                 point_vector_gen Rleb nx ny nz ndx ndy ndz el
                   (fst (fst (fst b))) (snd (fst (fst b))) (snd (fst b))
                   (rx_f1 b) (rx_f2 b) (rx_f3 b) = Some (vx, vy, vz) /\
                 o = Some (inner3 nx ny nz el vx vy vz fx fy fz))
            (filter (fun r => Bool.eqb (rc_el r) el) (sv_receivers sv)) out.
Proof.
  intros Hnx Hny Hnz Ix Iy Iz rotf sv ops s c el fx fy fz.
  exact (responses_after_history nx ny nz ndx ndy ndz eps Hnx Hny Hnz Ix Iy Iz rotf
           sv ops s c el fx fy fz).
Qed.
Print Assumptions survey_responses_are_transposes.

(* Non-vacuity: two sources with different centres, a relative and an absolute
   receiver; the history  S0, S1, scribble, S0, unknown key, S1  answers S0 and
   S1 differently (relative receiver) and S0 the same both times. *)
Example rec_coord_nonvacuous :
  let sv := mkSurvey [(0, (1, 2, 3)); (1, (10, 20, 30))]
                     [mkRx true true (5, 5, 5) (0, 0); mkRx false false (7, 8, 9) (90, 0)]%Z in
  @run Z (Build_FOps Z 0 1 Z.add Z.mul Z.sub Z.opp Z.div (fun x => x)) sv []
       [Req 0; Req 1; Scribble; Req 0; Req 7; Req 1]
  = ([(1, [((15, 25, 35), (0, 0)); ((7, 8, 9), (90, 0))]);
      (0, [((6, 7, 8), (0, 0)); ((7, 8, 9), (90, 0))])],
     [Coords [((6, 7, 8), (0, 0))] [((7, 8, 9), (90, 0))];
      Coords [((15, 25, 35), (0, 0))] [((7, 8, 9), (90, 0))];
      Done;
      Coords [((6, 7, 8), (0, 0))] [((7, 8, 9), (90, 0))];
      KeyErr;
      Coords [((15, 25, 35), (0, 0))] [((7, 8, 9), (90, 0))]]).
Proof. vm_compute. reflexivity. Qed.
Print Assumptions rec_coord_nonvacuous.
