(* Props/C11.v -- property C11: survey results do not depend on worker count,
   scheduling or file-based mode.  ONLY statements, each closed by [exact] of a
   lemma from Proofs/, with Print Assumptions beneath.

   Model/Sched.v: a pool that completes tasks in an arbitrary order on an
   arbitrary number of workers (all interleavings of Start/Finish events), the
   collectors, the positional store loop, the file hand-over.
   Gen/MpShape.v: REGENERATED on every run from emg3d/_multiprocessing.py and
   emg3d/simulations.py (collection primitive of every branch of process_map,
   shape of the store loops, of _srcfreq and of the file-name pattern).

   Oracles / contracts (not proved, see docs/C11.md): the task function [f] is
   pure; Executor.map and tqdm's process_map hand results back by submission
   index ([collect_ordered]); io.save/io.load round-trip ([dec_enc]);
   restarting a solve from its own result returns it ([Hfix]).
   NOT covered by any theorem here (measured by the stress runs): bit identity
   of floating-point results across processes, pickling and HDF5 fidelity. *)
From Coq Require Import List Arith Bool String ZArith Permutation.
From V Require Import Model.Sched Proofs.Sched Gen.MpShape Proofs.SchedTie.
Import ListNotations.

Section C11_pool.
  Context {T R : Type}.
  Variable f : T -> R.

  (* For EVERY task list, number of workers and interleaving of start/finish
     events that drains the pool, collecting by submission index yields the
     sequential result  [f t_0; ...; f t_{n-1}]. *)
  Theorem ordered_collect_any_schedule nworkers (tr : list step) tasks p :
    run f nworkers (submit_all tasks) tr = Some p -> quiescent p = true ->
    collect_ordered (List.length tasks) (completed p) = sequential f tasks.
  Proof. exact (ordered_collect_trace f nworkers tr tasks p). Qed.

  (* The same, stated on completion orders: any permutation of the indexed
     results. *)
  Theorem ordered_collect_any_permutation tasks done :
    Permutation done (map (fun it => (fst it, f (snd it)))
                          (combine (seq 0 (List.length tasks)) tasks)) ->
    collect_ordered (List.length tasks) done = sequential f tasks.
  Proof. exact (ordered_collect_perm f tasks done). Qed.

  (* The quantification is not vacuous: a draining schedule exists for one
     worker, and EVERY completion order sigma is produced by some trace. *)
  Theorem schedule_exists tasks :
    exists p, run f 1 (submit_all tasks) (seq_trace (List.length tasks)) = Some p
              /\ quiescent p = true.
  Proof. exact (schedule_exists_seq f tasks). Qed.

  Theorem every_completion_order_reachable tasks sigma :
    Permutation sigma (seq 0 (List.length tasks)) ->
    exists p, run f (List.length tasks) (submit_all tasks)
                  (perm_trace (List.length tasks) sigma) = Some p
              /\ quiescent p = true /\ map fst (completed p) = sigma.
  Proof. exact (every_permutation_schedulable f tasks sigma). Qed.
End C11_pool.

Print Assumptions ordered_collect_any_schedule.
Print Assumptions ordered_collect_any_permutation.
Print Assumptions schedule_exists.
Print Assumptions every_completion_order_reachable.

Example ex_schedule_reversed :
  exists p, run (fun x => x * x) 3 (submit_all ex_tasks) ex_trace_reversed = Some p
            /\ quiescent p = true /\ map fst (completed p) = [2; 1; 0]
            /\ collect_ordered 3 (completed p) = [Some 100; Some 400; Some 900].
Proof. exact ex_reversed_runs. Qed.
Print Assumptions ex_schedule_reversed.

Example ex_schedule_two_workers :
  exists p, run (fun x => x * x) 2 (submit_all ex_tasks) ex_trace_two_workers = Some p
            /\ quiescent p = true /\ map fst (completed p) = [1; 2; 0]
            /\ collect (fun x => x * x) CTqdmProcessMap ex_tasks (completed p)
               = [Some 100; Some 400; Some 900].
Proof. exact ex_two_workers_runs. Qed.
Print Assumptions ex_schedule_two_workers.

(* The contrast collector (results in completion order) does NOT have the
   property: the theorem above is about the collector, not about luck. *)
Theorem as_completed_refuted :
  exists (tasks : list nat) (nworkers : nat) (tr : list step) (p : @pool nat nat),
    run (fun x => x) nworkers (submit_all tasks) tr = Some p /\ quiescent p = true /\
    collect (fun x => x) CAsCompleted tasks (completed p) <> sequential (fun x => x) tasks.
Proof. exact as_completed_counterexample. Qed.
Print Assumptions as_completed_refuted.

Section C11_store.
  Context {K V T : Type}.
  Variable keqb : K -> K -> bool.
  Hypothesis keqb_spec : forall a b, reflect (a = b) (keqb a b).
  Variable f : T -> V.
  Variable mk : K -> option V -> T.

  (* for i, k in enumerate(keys): slot[k] = out[i]  with distinct keys *)
  Theorem slots_correct keys (vals : list V) (d : @dict K V) j k v :
    NoDup keys -> nth_error keys j = Some k -> nth_error vals j = Some v ->
    store keqb keys (map Some vals) d k = Some v.
  Proof. exact (Proofs.Sched.slots_correct keqb keqb_spec keys vals d j k v). Qed.

  Theorem slots_frame keys out (d : @dict K V) k :
    ~ In k keys -> store keqb keys out d k = d k.
  Proof. exact (store_frame keqb keqb_spec keys out d k). Qed.

  (* Two computations from the same state, under ANY two schedules, worker
     counts and ordered collectors, fill every slot identically. *)
  Theorem compute_schedule_independent c1 c2 nw1 nw2 tr1 tr2 keys d d1 d2 :
    is_ordered c1 = true -> is_ordered c2 = true -> NoDup keys ->
    compute keqb f mk c1 nw1 tr1 keys d = Some d1 ->
    compute keqb f mk c2 nw2 tr2 keys d = Some d2 ->
    forall k, d1 k = d2 k.
  Proof. exact (Proofs.Sched.compute_schedule_independent keqb keqb_spec f mk
                  c1 c2 nw1 nw2 tr1 tr2 keys d d1 d2). Qed.

  (* Repeating the computation changes nothing (solver restart contract Hfix:
     a solve started from its own result returns that result). *)
  Theorem recompute_idempotent c1 c2 nw1 nw2 tr1 tr2 keys d d1 d2 :
    (forall k g, f (mk k (Some (f (mk k g)))) = f (mk k g)) ->
    is_ordered c1 = true -> is_ordered c2 = true -> NoDup keys ->
    compute keqb f mk c1 nw1 tr1 keys d = Some d1 ->
    compute keqb f mk c2 nw2 tr2 keys d1 = Some d2 ->
    forall k, d2 k = d1 k.
  Proof. exact (recompute_idem keqb keqb_spec f mk c1 c2 nw1 nw2 tr1 tr2 keys d d1 d2). Qed.
End C11_store.

Print Assumptions slots_correct.
Print Assumptions slots_frame.
Print Assumptions compute_schedule_independent.
Print Assumptions recompute_idempotent.

Section C11_survey.
  Context {S Fq V T : Type}.
  Variable keqb : (S * Fq) -> (S * Fq) -> bool.
  Hypothesis keqb_spec : forall a b, reflect (a = b) (keqb a b).
  Variable f : T -> V.
  Variable mk : (S * Fq) -> option V -> T.

  Theorem srcfreq_nodup (sources : list S) (freqs : list Fq) :
    NoDup sources -> NoDup freqs -> NoDup (srcfreq sources freqs).
  Proof. exact (srcfreq_nodup_lemma sources freqs). Qed.

  Theorem srcfreq_complete (sources : list S) (freqs : list Fq) s fr :
    In (s, fr) (srcfreq sources freqs) <-> In s sources /\ In fr freqs.
  Proof. exact (srcfreq_complete_lemma sources freqs s fr). Qed.

  (* Every source-frequency slot receives the result of ITS OWN task, for every
     schedule, worker count and ordered collector. *)
  Theorem survey_slots_any_schedule c nworkers tr sources freqs d d' :
    is_ordered c = true -> NoDup sources -> NoDup freqs ->
    compute keqb f mk c nworkers tr (srcfreq sources freqs) d = Some d' ->
    forall s fr, In s sources -> In fr freqs ->
      d' (s, fr) = Some (f (mk (s, fr) (d (s, fr)))).
  Proof. exact (survey_slots_lemma keqb keqb_spec f mk c nworkers tr sources freqs d d'). Qed.
End C11_survey.

Print Assumptions srcfreq_nodup.
Print Assumptions srcfreq_complete.
Print Assumptions survey_slots_any_schedule.

Example ex_survey_compute :
  exists d', compute nat2_eqb (fun t : nat => t + 1) (fun k _ => 10 * fst k + snd k)
               CExecutorMap 3
               [Start 0; Start 1; Start 2; Finish 2; Start 2; Finish 0; Finish 2; Finish 1]
               (srcfreq [1; 2] [5; 7]) (fun _ => None) = Some d'
             /\ map d' (srcfreq [1; 2] [5; 7]) = [Some 16; Some 18; Some 26; Some 28].
Proof. exact ex_compute_runs. Qed.
Print Assumptions ex_survey_compute.

Section C11_files.
  Context {K T B : Type}.
  Variable name : K -> string.
  Variable enc : T -> B.
  Variable dec : B -> T.
  Hypothesis dec_enc : forall t, dec (enc t) = t.

  (* file_dir mode: with distinct file names every worker reads back exactly
     the task that memory mode would have handed over. *)
  Theorem file_mode_same (mk : K -> T) keys s k :
    NoDup (map name keys) -> In k keys ->
    read_task name dec (write_all name enc mk keys s) k = Some (mk k).
  Proof. exact (file_mode_same_lemma name enc dec dec_enc mk keys s k). Qed.

  (* ... and the hypothesis is needed: two keys with one file name and the
     earlier task is replaced by the later one. *)
  Theorem file_collision_loses_task (mk : K -> T) pre k1 mid k2 s :
    name k1 = name k2 -> (forall k, In k mid -> name k <> name k1) ->
    read_task name dec (write_all name enc mk (pre ++ k1 :: mid ++ [k2]) s) k1 = Some (mk k2).
  Proof. exact (file_collision_lemma name enc dec dec_enc mk pre k1 mid k2 s). Qed.
End C11_files.

Print Assumptions file_mode_same.
Print Assumptions file_collision_loses_task.

(* The tolerance the tasks of a run carry is that of the KIND of the run
   (forward: tol; back-propagation and jvec: tol_gradient), whatever ran before.
   The wrapper of the stress harness records the tolerance every solve received,
   in memory and from the hand-over files, and compares it with [tol_of]. *)
Theorem task_tolerance_by_kind_only {A} (tf tg : A) (history : list run_kind) k :
  last_run_tol tf tg history k = tol_of tf tg k.
Proof. exact (last_run_tol_lemma tf tg history k). Qed.
Print Assumptions task_tolerance_by_kind_only.

(* Histories of operations on ONE simulation (compute, clean('keepresults'),
   clean('computed'), get_efield, jvec, jtvec, gradient, misfit), with the forward
   tasks that jvec / jtvec / gradient / misfit / get_efield compute ON DEMAND for
   fields dropped earlier, the tolerance being read from the SHARED solver options:
   if every collector writes the tolerance of its own kind right before it hands
   its task over, then for EVERY history, every initial state and register value,
   with or without a wrapper that sets the register around the adjoint stages,
   every forward task carries tol and every back-propagation / jvec task carries
   tol_gradient. *)
Theorem history_tasks_tolerance_own_writes {A} (tf tg : A) (tw : tol_writes) (wrap : bool) :
  (forall k, tw k = TWrite k) ->
  forall ops st reg, Forall (task_ok tf tg) (run_hist tf tg tw wrap st reg ops).
Proof. exact (run_hist_ok tf tg tw wrap). Qed.
Print Assumptions history_tasks_tolerance_own_writes.

Example ex_history_nested_forward :
  run_hist 7 3 (fun k => TWrite k) true (mkHS [false; false] false) 7
           [HCompute; HCleanKeep; HJvec]
  = [(KForward, 0, 7); (KForward, 1, 7);
     (KForward, 0, 7); (KJvec, 0, 3); (KForward, 1, 7); (KJvec, 1, 3)].
Proof. exact ex_run_hist_nested. Qed.
Print Assumptions ex_history_nested_forward.

(* Collectors that trust the register, the adjoint stages setting it on entry and
   restoring it on exit: compute -> clean('keepresults') -> jvec solves the dropped
   forward field of slot 0 with tol_gradient (witness replayed on the implementation
   by the operation-history stream of py/props/c11.py: must NOT reproduce). *)
Theorem trusting_collectors_wrapped_refuted :
  exists ops : list hop,
    In (KForward, 0, 3) (run_hist 7 3 trusting true (mkHS [false; false] false) 7 ops)
    /\ ~ task_ok 7 3 (KForward, 0, 3).
Proof. exact trusting_wrapped_refuted_lemma. Qed.
Print Assumptions trusting_collectors_wrapped_refuted.

(* ------------------------------------------------------------------ *)
(* Tie to the CURRENT emg3d source (Gen/MpShape.v)                      *)
(* ------------------------------------------------------------------ *)

(* Whatever max_workers is and whether or not tqdm can be imported, the
   branch of emg3d._multiprocessing.process_map that runs returns the
   sequential list for every schedule of the pool. *)
Theorem process_map_any_config {T R} (f : T -> R) (max_workers : Z) (tqdm_none : bool) :
  exists b, select_branch process_map_branches max_workers tqdm_none = Some b /\
    forall tasks nworkers tr p,
      run f nworkers (submit_all tasks) tr = Some p -> quiescent p = true ->
      collect f (br_collector b) tasks (completed p) = sequential f tasks.
Proof. exact (process_map_any_config_lemma f max_workers tqdm_none). Qed.
Print Assumptions process_map_any_config.

(* _compute, _bcompute and jvec build the task list by mapping over the very
   list they later enumerate, index `out` only by the enumerate index, key the
   slots by the loop's (src, freq), and name task files from (source, freq). *)
Theorem store_sites_positional :
  forallb store_by_position store_sites = true /\
  map ss_fn store_sites = ["_compute"; "_bcompute"; "jvec"]%string.
Proof. exact mpshape_sites_positional. Qed.
Print Assumptions store_sites_positional.

Theorem srcfreq_is_product : is_product srcfreq_shape = true.
Proof. exact mpshape_srcfreq. Qed.
Print Assumptions srcfreq_is_product.

(* File names of file_dir mode.  The pattern is extracted from the CURRENT
   Simulation._data_or_file; [mpshape_fname_fixed] (used by the lemmas below)
   requires it to be  f"{what}_{isrc}_{ifreq}.h5"  with isrc / ifreq the
   positions of the keys in the survey.  For ARBITRARY string keys the name is
   then injective in (what, source, frequency) ... *)
Theorem fname_injective w1 w2 sources freqs k1 k2 :
  has_us w1 = false -> has_us w2 = false ->     (* 'efield', 'bfield', 'gfield' *)
  In (fst k1) sources -> In (fst k2) sources -> In (snd k1) freqs -> In (snd k2) freqs ->
  fname w1 sources freqs k1 = fname w2 sources freqs k2 -> w1 = w2 /\ k1 = k2.
Proof. exact (fname_injective_lemma w1 w2 sources freqs k1 k2). Qed.
Print Assumptions fname_injective.

(* ... hence the hypothesis of [file_mode_same] holds for every survey. *)
Theorem file_names_distinct what sources freqs :
  has_us what = false -> NoDup sources -> NoDup freqs ->
  NoDup (map (fname what sources freqs) (srcfreq sources freqs)).
Proof. exact (fname_distinct_lemma what sources freqs). Qed.
Print Assumptions file_names_distinct.

Example ex_fname_adversarial_keys :
  (fname "efield" ["Tx"; "Tx_A"] ["A_f1"; "f1"] ("Tx", "A_f1") = "efield_0_0.h5" /\
   fname "efield" ["Tx"; "Tx_A"] ["A_f1"; "f1"] ("Tx_A", "f1") = "efield_1_1.h5")%string.
Proof. split; vm_compute; reflexivity. Qed.
Print Assumptions ex_fname_adversarial_keys.

(* On demand (get_efield / get_hfield / recomputation in gradient and jvec) ONE
   task is dispatched: its slot receives the result of its own task, every other
   slot keeps what it held ... *)
Theorem on_demand_compute_slot {K V T} (keqb : K -> K -> bool)
        (keqb_spec : forall a b, reflect (a = b) (keqb a b)) (f : T -> V)
        (mk : K -> option V -> T) c nworkers tr k d d' :
  is_ordered c = true ->
  compute keqb f mk c nworkers tr [k] d = Some d' ->
  d' k = Some (f (mk k (d k))) /\ (forall k', k' <> k -> d' k' = d k').
Proof. exact (on_demand_slot keqb keqb_spec f mk c nworkers tr k d d'). Qed.
Print Assumptions on_demand_compute_slot.

(* ... and in file_dir mode the hand-over files of all OTHER slots are untouched,
   because (fname_injective) they have other names: the name is a function of the
   slot, not of the list being dispatched. *)
Theorem on_demand_other_files_untouched {B} (s : @fs B) what sources freqs k k' b :
  has_us what = false ->
  In (fst k) sources -> In (fst k') sources -> In (snd k) freqs -> In (snd k') freqs ->
  k' <> k ->
  fwrite s (fname what sources freqs k) b (fname what sources freqs k')
  = s (fname what sources freqs k').
Proof.
  exact (fun Hw Hs Hs' Hf Hf' Hne =>
    fwrite_other s _ _ b (fun E => Hne (proj2 (fname_injective_lemma what what sources freqs
                                                   k' k Hw Hw Hs' Hs Hf' Hf E)))).
Qed.
Print Assumptions on_demand_other_files_untouched.

(* the collectors of the CURRENT source (extracted: the statement before
   `return self._data_or_file(...)`) write the tolerance of their own kind of run,
   hence, for every history of operations, every task carries the tolerance of its kind *)
Theorem history_tasks_tolerance {A} (tf tg : A) (wrap : bool) ops st reg :
  Forall (task_ok tf tg) (run_hist tf tg collector_tol_writes wrap st reg ops).
Proof. exact (history_tasks_tolerance_lemma tf tg wrap ops st reg). Qed.
Print Assumptions history_tasks_tolerance.

(* the on-demand call chain carries the (source, frequency) of the slot read back *)
Theorem ondemand_keys_positional : ondemand_keys_ok = true.
Proof. exact mpshape_ondemand. Qed.
Print Assumptions ondemand_keys_positional.

(* History: a name built from the running number of the task in the dispatched
   list is unique within a full compute but identical for all on-demand tasks. *)
Theorem fname_task_number_on_demand_refuted :
  exists k1 k2 : string * string,
    k1 <> k2 /\ fname_by_task_number "efield" [k1] k1 = fname_by_task_number "efield" [k2] k2.
Proof. exact fname_by_task_number_collision. Qed.
Print Assumptions fname_task_number_on_demand_refuted.

(* History: the UNFIXED variant  f"{what}_{source}_{frequency}.h5"  (emg3d before
   "fix: file_dir hand-over files of different source-frequency pairs could
   share one name") was injective only for source keys without '_' ... *)
Theorem fname_unfixed_injective_without_underscore what s1 f1 s2 f2 :
  has_us s1 = false -> has_us s2 = false ->
  fname_unfixed what s1 f1 = fname_unfixed what s2 f2 -> s1 = s2 /\ f1 = f2.
Proof. exact (fname_unfixed_injective_lemma what s1 f1 s2 f2). Qed.
Print Assumptions fname_unfixed_injective_without_underscore.

(* ... and not in general (the defect, replayed on the implementation by the
   searcher of py/props/c11.py: it must NOT reproduce any more). *)
Theorem fname_unfixed_collision_refuted :
  exists s1 f1 s2 f2 : string,
    (s1, f1) <> (s2, f2) /\ fname_unfixed "efield" s1 f1 = fname_unfixed "efield" s2 f2.
Proof. exact fname_unfixed_collision_lemma. Qed.
Print Assumptions fname_unfixed_collision_refuted.
