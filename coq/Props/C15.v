(* Props/C15.v -- property C15: volume averaging between tensor grids.
   ONLY statements, each closed by [exact] of a lemma from Proofs/VolAvg.v,
   with Print Assumptions beneath.

   Model/VolAvg.v (hand model, tied to emg3d.maps by exact correspondence of
   weights and indices): va_weights = _volume_average_weights, trip3 = the 3-D
   triple loop of interp_volume_average, apply_va = accumulate and divide by the
   new volumes, apply_va_T = the explicit transpose, apply_va_log = log mode.
   A weight list T is a list of (weight, input cell, output cell).

   Status.  Everything is proved at full strength, for strictly increasing node
   lists of ANY length over the reals: the stateful loop equals its stateless
   description, weights > 0, the index is the cell containing the interval
   centre (nearest cell outside the source grid), the merged intervals tile
   every output cell (and every input cell when both grids cover the same
   region), equal grids give the identity weights; in 3-D: range preservation
   (convexity), conservation (linear and log mode), linearity, matrix form,
   adjoint identity, rho/sigma reciprocity.  The *_given_tiling theorems are
   the same facts for an arbitrary weight list under explicit hypotheses; the
   bounded vm_compute theorem is kept as an independent cross-check. *)
From Coq Require Import Reals ZArith Bool String List Arith QArith Sorted.
From V Require Import Base.FieldSig Base.ExecQ Model.VolAvg Proofs.VolAvg Proofs.VolAvgInd.
From V Require Import Model.I2GOpts Proofs.I2GOpts.
Import ListNotations.
Local Open Scope R_scope.

Section C15.
  Context {I J : Type}.
  Variable ieqb : I -> I -> bool.
  Variable jeqb : J -> J -> bool.
  Hypothesis ieqb_spec : forall a b, ieqb a b = true <-> a = b.
  Hypothesis jeqb_spec : forall a b, jeqb a b = true <-> a = b.
  Variable T : list (R * I * J).           (* any weight list *)
  Variable vol : J -> R.                   (* volumes of the new cells *)
  Variables (Is : list I) (Os : list J).   (* the cells of the two grids *)
  Hypothesis Is_nodup : NoDup Is.
  Hypothesis Os_nodup : NoDup Os.
  Hypothesis T_in : forall t, In t T -> In (snd (fst t)) Is.
  Hypothesis T_out : forall t, In t T -> In (snd t) Os.

  (* the interpolation is a linear map ... *)
  Theorem va_is_linear a b v v' o :
    apply_va jeqb T vol (fun _ => 0) (fun i => a * v i + b * v' i) o
    = a * apply_va jeqb T vol (fun _ => 0) v o + b * apply_va jeqb T vol (fun _ => 0) v' o.
  Proof. exact (apply_va_linear jeqb T vol a b v v' o). Qed.

  (* ... namely multiplication with the matrix va_matrix ... *)
  Theorem va_is_linear_with_matrix v o :
    apply_va jeqb T vol (fun _ => 0) v o
    = sumL (fun i => va_matrix ieqb jeqb T vol o i * v i) Is.
  Proof. exact (apply_va_is_matrix ieqb jeqb ieqb_spec T vol Is Is_nodup T_in v o). Qed.

  (* ... whose transpose is apply_va_T (what the gradient applies):
     <u, A v> = <A^T u, v> for all u, v *)
  Theorem va_adjoint_identity u v :
    (forall o, In o Os -> vol o <> 0) ->
    sumL (fun o => u o * apply_va jeqb T vol (fun _ => 0) v o) Os
    = sumL (fun i => apply_va_T ieqb T vol u i * v i) Is.
  Proof. exact (adjoint_identity ieqb jeqb ieqb_spec jeqb_spec T vol Is Os
                                 Is_nodup Os_nodup T_in T_out u v). Qed.

  (* range, for every weight list with non-negative weights that tile output
     cell o (the grid version is va_convex below) *)
  Theorem va_convex_given_tiling v o m M :
    (forall t, In t T -> 0 <= fst (fst t)) ->
    wsum_out jeqb T o = vol o -> 0 < vol o ->
    (forall t, In t T -> m <= v (snd (fst t)) <= M) ->
    m <= apply_va jeqb T vol (fun _ => 0) v o <= M.
  Proof. exact (convex_given_tile jeqb T vol v o m M). Qed.

  (* conservation, for every weight list that tiles the input cells (the grid
     version is va_conserves below) *)
  Theorem va_conserves_given_tiling (voli : I -> R) v :
    (forall o, In o Os -> vol o <> 0) ->
    (forall i, In i Is -> wsum_in ieqb T i = voli i) ->
    sumL (fun o => vol o * apply_va jeqb T vol (fun _ => 0) v o) Os
    = sumL (fun i => voli i * v i) Is.
  Proof. exact (conserves_given_tile ieqb jeqb ieqb_spec jeqb_spec T vol Is Os
                                     Is_nodup Os_nodup T_in T_out voli v). Qed.

  (* log mode (interpolate(..., log=True)): the integral of log10 is conserved *)
  Theorem va_log_conserves_given_tiling (voli : I -> R) v :
    (forall o, In o Os -> vol o <> 0) ->
    (forall i, In i Is -> wsum_in ieqb T i = voli i) ->
    sumL (fun o => vol o * log10R (apply_va_log jeqb T vol v o)) Os
    = sumL (fun i => voli i * log10R (v i)) Is.
  Proof. exact (log_mode_conserves ieqb jeqb ieqb_spec jeqb_spec T vol Is Os voli v
                                   Is_nodup Os_nodup T_in T_out). Qed.

  (* log mode: resistivity and conductivity give reciprocal results *)
  Theorem log_mode_rho_sigma v o :
    (forall i, 0 < v i) ->
    apply_va_log jeqb T vol (fun i => 1 / v i) o = 1 / apply_va_log jeqb T vol v o.
  Proof. exact (log_mode_reciprocal jeqb T vol v o). Qed.
End C15.

Print Assumptions va_is_linear.
Print Assumptions va_is_linear_with_matrix.
Print Assumptions va_adjoint_identity.
Print Assumptions va_convex_given_tiling.
Print Assumptions va_conserves_given_tiling.
Print Assumptions va_log_conserves_given_tiling.
Print Assumptions log_mode_rho_sigma.

(* tensor structure: the total weight written to / read from a 3-D cell is the
   product of the 1-D totals, so 1-D tiling lifts to 3-D tiling (vol = product
   of widths), and 3-D weights are non-negative when the 1-D ones are *)
Theorem tile_lifts_to_3d_out (wx wy wz : list (R * nat * nat)) a b c :
  wsum_out idx3_eqb (trip3 wx wy wz) (a, b, c)
  = wsum_out Nat.eqb wx a * wsum_out Nat.eqb wy b * wsum_out Nat.eqb wz c.
Proof. exact (wsum_out_trip3 wx wy wz a b c). Qed.
Print Assumptions tile_lifts_to_3d_out.

Theorem tile_lifts_to_3d_in (wx wy wz : list (R * nat * nat)) a b c :
  wsum_in idx3_eqb (trip3 wx wy wz) (a, b, c)
  = wsum_in Nat.eqb wx a * wsum_in Nat.eqb wy b * wsum_in Nat.eqb wz c.
Proof. exact (wsum_in_trip3 wx wy wz a b c). Qed.
Print Assumptions tile_lifts_to_3d_in.

Theorem weights3d_nonneg (wx wy wz : list (R * nat * nat)) :
  (forall t, In t wx -> 0 <= fst (fst t)) -> (forall t, In t wy -> 0 <= fst (fst t)) ->
  (forall t, In t wz -> 0 <= fst (fst t)) ->
  forall t, In t (trip3 wx wy wz) -> 0 <= fst (fst t).
Proof. exact (trip3_nonneg wx wy wz). Qed.
Print Assumptions weights3d_nonneg.

(* unbounded 1-D facts about va_weights: for ALL real node lists of any length
   (not even assumed sorted) the merged node list is strictly increasing and
   every weight is strictly positive *)
Theorem merged_nodes_sorted (l : list R) : StronglySorted Rlt (usort Rleb l).
Proof. exact (usort_sorted l). Qed.
Print Assumptions merged_nodes_sorted.

Theorem va_weights_positive (x_i x_o : list R) t :
  In t (va_weights Rleb x_i x_o) -> 0 < fst (fst t).
Proof. exact (va_weights_pos x_i x_o t). Qed.
Print Assumptions va_weights_positive.

(* independent cross-check of the 1-D clauses (positivity, index bounds,
   stateful = stateless, tiling of output and input cells, nearest cell,
   identity) by vm_compute over all 120 x 120 pairs of node lists that are
   sub-sequences (>= 2 nodes) of 0,1,...,6 *)
Theorem va_1d_clauses_bounded_crosscheck :
  forallb (fun x_i => forallb (fun x_o => check_pair x_i x_o) grids7) grids7 = true.
Proof. exact check_pair_all. Qed.
Print Assumptions va_1d_clauses_bounded_crosscheck.

Example va_weights_run :
  va_weights Qle_bool [0; 1; 5#2; 4]%Q [-1#1; 1#2; 5#2; 3; 6]%Q
  = [((1)%Q, 0%nat, 0%nat); ((1#2)%Q, 0%nat, 0%nat); ((1#2)%Q, 0%nat, 1%nat); ((3#2)%Q, 1%nat, 1%nat); ((1#2)%Q, 2%nat, 2%nat); ((1)%Q, 2%nat, 3%nat); ((2)%Q, 2%nat, 3%nat)]
  /\ length grids7 = 120%nat.
Proof. exact va_weights_example. Qed.
Print Assumptions va_weights_run.

(* ======== unbounded statements about va_weights and interp_va (induction) ===== *)
Notation sorted := (StronglySorted Rlt).

(* the loop with its two carried while-scans computes, for each merged interval
   [a,b] inside the output range, (b - a, cell of the centre in x_i, in x_o) *)
Theorem va_weights_stateless_form (x_i x_o : list R) :
  sorted x_i -> sorted x_o -> (1 <= length x_i)%nat -> (1 <= length x_o)%nat ->
  va_weights Rleb x_i x_o
  = va_pairs Rleb x_i x_o (nth 0 x_o 0) (nth (length x_o - 1) x_o 0) (usort Rleb (x_i ++ x_o)).
Proof. exact (va_weights_stateless x_i x_o). Qed.
Print Assumptions va_weights_stateless_form.

(* the index of a centre: the cell that contains it ... *)
Theorem va_index_inside (x : list R) c k :
  sorted x -> (k + 1 < length x)%nat -> nth k x 0 <= c -> c < nth (k + 1) x 0 ->
  cell_of Rleb x c = k.
Proof. exact (cell_of_inside x c k). Qed.
Print Assumptions va_index_inside.

(* ... and outside the source grid the nearest (first / last) cell *)
Theorem va_nearest_outside (x : list R) c :
  sorted x -> (2 <= length x)%nat ->
  (c < nth 0 x 0 -> cell_of Rleb x c = 0%nat) /\
  (nth (length x - 1) x 0 <= c -> cell_of Rleb x c = (length x - 2)%nat).
Proof. exact (fun Hs Hn => conj (cell_of_left x c Hs Hn) (cell_of_right x c Hs Hn)). Qed.
Print Assumptions va_nearest_outside.

(* the weights written to output cell j sum to its width *)
Theorem va_weights_tile (x_i x_o : list R) j :
  sorted x_i -> sorted x_o -> (1 <= length x_i)%nat -> (j + 1 < length x_o)%nat ->
  wsum_out Nat.eqb (va_weights Rleb x_i x_o) j = nth (j + 1) x_o 0 - nth j x_o 0.
Proof. exact (va_weights_tile_out x_i x_o j). Qed.
Print Assumptions va_weights_tile.

(* same region: the weights read from input cell i sum to its width *)
Theorem va_weights_tile_input (x_i x_o : list R) i :
  sorted x_i -> sorted x_o -> (1 <= length x_o)%nat -> (i + 1 < length x_i)%nat ->
  nth 0 x_i 0 = nth 0 x_o 0 -> nth (length x_i - 1) x_i 0 = nth (length x_o - 1) x_o 0 ->
  wsum_in Nat.eqb (va_weights Rleb x_i x_o) i = nth (i + 1) x_i 0 - nth i x_i 0.
Proof. exact (va_weights_tile_in x_i x_o i). Qed.
Print Assumptions va_weights_tile_input.

(* equal grids: one weight per cell (its width), same index in and out *)
Theorem va_identity (x : list R) :
  sorted x -> (2 <= length x)%nat ->
  va_weights Rleb x x
  = map (fun k => (nth (k + 1) x 0 - nth k x 0, k, k)) (seq 0 (length x - 1)).
Proof. exact (va_weights_identity x). Qed.
Print Assumptions va_identity.

(* 3-D range: every new value lies between the bounds of the old values *)
Theorem va_convex nx ny nz mx my mz (v : idx3 -> R) a b c m M :
  sorted nx -> sorted ny -> sorted nz -> sorted mx -> sorted my -> sorted mz ->
  (1 <= length nx)%nat -> (1 <= length ny)%nat -> (1 <= length nz)%nat ->
  (a + 1 < length mx)%nat -> (b + 1 < length my)%nat -> (c + 1 < length mz)%nat ->
  (forall i, m <= v i <= M) ->
  m <= interp_va Rleb nx ny nz mx my mz (vol3 mx my mz) (fun _ => 0) v (a, b, c) <= M.
Proof. exact (interp_va_convex nx ny nz mx my mz v a b c m M). Qed.
Print Assumptions va_convex.

(* 3-D conservation when both grids cover the same region *)
Theorem va_conserves nx ny nz mx my mz (v : idx3 -> R) :
  sorted nx -> sorted ny -> sorted nz -> sorted mx -> sorted my -> sorted mz ->
  (2 <= length nx)%nat -> (2 <= length ny)%nat -> (2 <= length nz)%nat ->
  (2 <= length mx)%nat -> (2 <= length my)%nat -> (2 <= length mz)%nat ->
  nth 0 nx 0 = nth 0 mx 0 -> nth (length nx - 1) nx 0 = nth (length mx - 1) mx 0 ->
  nth 0 ny 0 = nth 0 my 0 -> nth (length ny - 1) ny 0 = nth (length my - 1) my 0 ->
  nth 0 nz 0 = nth 0 mz 0 -> nth (length nz - 1) nz 0 = nth (length mz - 1) mz 0 ->
  sumL (fun o => vol3 mx my mz o
                 * interp_va Rleb nx ny nz mx my mz (vol3 mx my mz) (fun _ => 0) v o)
       (cells3 mx my mz)
  = sumL (fun i => vol3 nx ny nz i * v i) (cells3 nx ny nz).
Proof. exact (interp_va_conserves nx ny nz mx my mz v). Qed.
Print Assumptions va_conserves.

(* the same in log mode: the integral of log10 is conserved *)
Theorem va_log_conserves nx ny nz mx my mz (v : idx3 -> R) :
  sorted nx -> sorted ny -> sorted nz -> sorted mx -> sorted my -> sorted mz ->
  (2 <= length nx)%nat -> (2 <= length ny)%nat -> (2 <= length nz)%nat ->
  (2 <= length mx)%nat -> (2 <= length my)%nat -> (2 <= length mz)%nat ->
  nth 0 nx 0 = nth 0 mx 0 -> nth (length nx - 1) nx 0 = nth (length mx - 1) mx 0 ->
  nth 0 ny 0 = nth 0 my 0 -> nth (length ny - 1) ny 0 = nth (length my - 1) my 0 ->
  nth 0 nz 0 = nth 0 mz 0 -> nth (length nz - 1) nz 0 = nth (length mz - 1) mz 0 ->
  sumL (fun o => vol3 mx my mz o
                 * log10R (apply_va_log idx3_eqb
                     (trip3 (va_weights Rleb nx mx) (va_weights Rleb ny my) (va_weights Rleb nz mz))
                     (vol3 mx my mz) v o))
       (cells3 mx my mz)
  = sumL (fun i => vol3 nx ny nz i * log10R (v i)) (cells3 nx ny nz).
Proof. exact (interp_va_log_conserves nx ny nz mx my mz v). Qed.
Print Assumptions va_log_conserves.

(* the hypotheses above are satisfiable *)
Example sorted_grids_exist : sorted [0; 1; 3] /\ sorted [0; 2; 3] /\ sorted [0; 1].
Proof. exact sorted_example. Qed.
Print Assumptions sorted_grids_exist.

(* ======== option resolution in front of the averaging: no memory (round 6) =====
   Model/I2GOpts.v: the tables of defaults of Model.interpolate_to_grid /
   Field.interpolate_to_grid are the state; a call (entry point, user options)
   is a step  state -> call -> state * route;  [run] is a history of calls
   (Model / Field / Simulation.get_model / maps.interpolate, arbitrary options,
   calls that raise included).  [tp] stands for the third-party routines that
   serve the other methods. *)

(* no call changes the tables of defaults *)
Theorem i2g_defaults_never_change (cs : list call) (st : defaults) : fst (run st cs) = st.
Proof. exact (run_state cs st). Qed.
Print Assumptions i2g_defaults_never_change.

(* whatever was called before, with whatever options: a call answers as if it
   were the first one of the process *)
Theorem i2g_call_history_independent (cs cs' : list call) (c : call) :
  snd (step (fst (run defaults0 cs)) c) = snd (step (fst (run defaults0 cs')) c).
Proof. exact (call_history_independent cs cs' c). Qed.
Print Assumptions i2g_call_history_independent.

(* a later call without options uses the volume averaging (log flag from its
   own mapping) and returns the volume-average map of its own model *)
Theorem i2g_default_after_history_is_volume_average
        tp (cs : list call) lg s t (T : list (R * idx3 * idx3)) vol v o :
  snd (step (fst (run defaults0 cs)) (default_call lg s t)) = RVolume lg /\
  interp_result tp (snd (step (fst (run defaults0 cs)) (default_call lg s t))) T vol v o
  = Some (if lg then apply_va_log idx3_eqb T vol v o
          else apply_va idx3_eqb T vol (fun _ => 0) v o).
Proof. exact (conj (default_after_history cs lg s t)
                   (default_result_after_history tp cs lg s t T vol v o)). Qed.
Print Assumptions i2g_default_after_history_is_volume_average.

(* hence the clauses of C15 hold for it after ANY history: log-integral
   conserved (Resistivity / Conductivity) ... *)
Theorem i2g_default_after_history_conserves_log
        tp (cs : list call) s t nx ny nz mx my mz (v : idx3 -> R) :
  sorted nx -> sorted ny -> sorted nz -> sorted mx -> sorted my -> sorted mz ->
  (2 <= length nx)%nat -> (2 <= length ny)%nat -> (2 <= length nz)%nat ->
  (2 <= length mx)%nat -> (2 <= length my)%nat -> (2 <= length mz)%nat ->
  nth 0 nx 0 = nth 0 mx 0 -> nth (length nx - 1) nx 0 = nth (length mx - 1) mx 0 ->
  nth 0 ny 0 = nth 0 my 0 -> nth (length ny - 1) ny 0 = nth (length my - 1) my 0 ->
  nth 0 nz 0 = nth 0 mz 0 -> nth (length nz - 1) nz 0 = nth (length mz - 1) mz 0 ->
  exists out : idx3 -> R,
    (forall o, interp_result tp (snd (step (fst (run defaults0 cs)) (default_call true s t)))
                 (trip3 (va_weights Rleb nx mx) (va_weights Rleb ny my) (va_weights Rleb nz mz))
                 (vol3 mx my mz) v o = Some (out o))
    /\ sumL (fun o => vol3 mx my mz o * log10R (out o)) (cells3 mx my mz)
       = sumL (fun i => vol3 nx ny nz i * log10R (v i)) (cells3 nx ny nz).
Proof. exact (default_conserves_log_after_history tp cs s t nx ny nz mx my mz v). Qed.
Print Assumptions i2g_default_after_history_conserves_log.

(* ... range and integral (the Lg / Ln mappings: linear mode) *)
Theorem i2g_default_after_history_in_range
        tp (cs : list call) s t nx ny nz mx my mz (v : idx3 -> R) a b c m M :
  sorted nx -> sorted ny -> sorted nz -> sorted mx -> sorted my -> sorted mz ->
  (1 <= length nx)%nat -> (1 <= length ny)%nat -> (1 <= length nz)%nat ->
  (a + 1 < length mx)%nat -> (b + 1 < length my)%nat -> (c + 1 < length mz)%nat ->
  (forall i, m <= v i <= M) ->
  exists r : R,
    interp_result tp (snd (step (fst (run defaults0 cs)) (default_call false s t)))
       (trip3 (va_weights Rleb nx mx) (va_weights Rleb ny my) (va_weights Rleb nz mz))
       (vol3 mx my mz) v (a, b, c) = Some r
    /\ m <= r <= M.
Proof. exact (default_in_range_after_history tp cs s t nx ny nz mx my mz v a b c m M). Qed.
Print Assumptions i2g_default_after_history_in_range.

Theorem i2g_default_after_history_conserves
        tp (cs : list call) s t nx ny nz mx my mz (v : idx3 -> R) :
  sorted nx -> sorted ny -> sorted nz -> sorted mx -> sorted my -> sorted mz ->
  (2 <= length nx)%nat -> (2 <= length ny)%nat -> (2 <= length nz)%nat ->
  (2 <= length mx)%nat -> (2 <= length my)%nat -> (2 <= length mz)%nat ->
  nth 0 nx 0 = nth 0 mx 0 -> nth (length nx - 1) nx 0 = nth (length mx - 1) mx 0 ->
  nth 0 ny 0 = nth 0 my 0 -> nth (length ny - 1) ny 0 = nth (length my - 1) my 0 ->
  nth 0 nz 0 = nth 0 mz 0 -> nth (length nz - 1) nz 0 = nth (length mz - 1) mz 0 ->
  exists out : idx3 -> R,
    (forall o, interp_result tp (snd (step (fst (run defaults0 cs)) (default_call false s t)))
                 (trip3 (va_weights Rleb nx mx) (va_weights Rleb ny my) (va_weights Rleb nz mz))
                 (vol3 mx my mz) v o = Some (out o))
    /\ sumL (fun o => vol3 mx my mz o * out o) (cells3 mx my mz)
       = sumL (fun i => vol3 nx ny nz i * v i) (cells3 nx ny nz).
Proof. exact (default_conserves_after_history tp cs s t nx ny nz mx my mz v). Qed.
Print Assumptions i2g_default_after_history_conserves.

(* non-vacuity: user options do change the route of THEIR call (linear with a
   fill value; the target grid cannot be overridden), a Field sent to the volume
   routine and a call with a 'values' option are rejected -- and the default
   calls that follow are volume averaging again *)
Example i2g_history_run :
  route_of (resolve defaults0
     {| c_entry := ModelI2G true; c_src := 0; c_tgt := 1;
        c_user := [("method", OStr "linear"); ("fill_value", ONum 3); ("xi", OGrid 7)]%string |})
  = ROther (OStr "linear") true true [("fill_value", ONum 3)]%string
  /\ dget "xi" (resolve defaults0
     {| c_entry := ModelI2G true; c_src := 0; c_tgt := 1;
        c_user := [("method", OStr "linear"); ("xi", OGrid 7)]%string |}) = Some (OGrid 1)
  /\ snd (run defaults0
       [ {| c_entry := ModelI2G true; c_src := 0; c_tgt := 1;
            c_user := [("method", OStr "linear")]%string |};
         {| c_entry := FieldI2G; c_src := 0; c_tgt := 1;
            c_user := [("method", OStr "volume")]%string |};
         {| c_entry := Direct; c_src := 0; c_tgt := 1; c_user := [("values", ONone)]%string |};
         default_call true 0 1; default_call false 0 1 ])
     = [ROther (OStr "linear") true true []; RVolume false; RTypeError; RVolume true; RVolume false]
  /\ entry_accepts FieldI2G (RVolume false) = false.
Proof. exact resolve_example. Qed.
Print Assumptions i2g_history_run.
