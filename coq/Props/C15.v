(* Props/C15.v -- property C15: volume averaging between tensor grids.
   ONLY statements, each closed by [exact] of a lemma from Proofs/VolAvg.v,
   with Print Assumptions beneath.

   Model/VolAvg.v (hand model, tied to emg3d.maps by exact correspondence of
   weights and indices): va_weights = _volume_average_weights, trip3 = the 3-D
   triple loop of interp_volume_average, apply_va = accumulate and divide by the
   new volumes, apply_va_T = the explicit transpose, apply_va_log = log mode.
   A weight list T is a list of (weight, input cell, output cell).

   Status.  Linearity, matrix form, adjoint identity, reciprocity in log mode
   and the tensor (3-D from 1-D) structure are proved for EVERY weight list.
   Range preservation and conservation are proved for every weight list that
   TILES the cells (hypotheses wsum_out = vol, wsum_in = vol_in); that
   va_weights tiles is proved only on a bounded family (all pairs of node
   lists within 0..6, va_1d_clauses_bounded_partial) and otherwise checked by
   correspondence -- these theorems carry the suffix _partial. *)
From Coq Require Import Reals ZArith Bool List Arith QArith Sorted.
From V Require Import Base.FieldSig Base.ExecQ Model.VolAvg Proofs.VolAvg.
Import ListNotations.
Local Open Scope R_scope.

Section C15.
  Context {I J : Type}.
  Variable ieqb : I -> I -> bool.
  Variable jeqb : J -> J -> bool.
  Hypothesis ieqb_spec : forall a b, ieqb a b = true <-> a = b.
  Hypothesis jeqb_spec : forall a b, jeqb a b = true <-> a = b.
  Variable T : list (R * I * J).           (* any weight list *)
  Variable vol : J -> R.                   (* volumes of the new cells *)
  Variables (Is : list I) (Os : list J).   (* the cells of the two grids *)
  Hypothesis Is_nodup : NoDup Is.
  Hypothesis Os_nodup : NoDup Os.
  Hypothesis T_in : forall t, In t T -> In (snd (fst t)) Is.
  Hypothesis T_out : forall t, In t T -> In (snd t) Os.

  (* the interpolation is a linear map ... *)
  Theorem va_is_linear a b v v' o :
    apply_va jeqb T vol (fun _ => 0) (fun i => a * v i + b * v' i) o
    = a * apply_va jeqb T vol (fun _ => 0) v o + b * apply_va jeqb T vol (fun _ => 0) v' o.
  Proof. exact (apply_va_linear jeqb T vol a b v v' o). Qed.

  (* ... namely multiplication with the matrix va_matrix ... *)
  Theorem va_is_linear_with_matrix v o :
    apply_va jeqb T vol (fun _ => 0) v o
    = sumL (fun i => va_matrix ieqb jeqb T vol o i * v i) Is.
  Proof. exact (apply_va_is_matrix ieqb jeqb ieqb_spec T vol Is Is_nodup T_in v o). Qed.

  (* ... whose transpose is apply_va_T (what the gradient applies):
     <u, A v> = <A^T u, v> for all u, v *)
  Theorem va_adjoint_identity u v :
    (forall o, In o Os -> vol o <> 0) ->
    sumL (fun o => u o * apply_va jeqb T vol (fun _ => 0) v o) Os
    = sumL (fun i => apply_va_T ieqb T vol u i * v i) Is.
  Proof. exact (adjoint_identity ieqb jeqb ieqb_spec jeqb_spec T vol Is Os
                                 Is_nodup Os_nodup T_in T_out u v). Qed.

  (* range: FULL STATEMENT  forall grids, min v <= interp_va ... v o <= max v.
     Proved here for every weight list with non-negative weights that tile
     output cell o; missing: va_weights/trip3 tile every output cell for ALL
     node lists (bounded version below, lifted to 3-D by tile_lifts_to_3d_out). *)
  Theorem va_convex_partial v o m M :
    (forall t, In t T -> 0 <= fst (fst t)) ->
    wsum_out jeqb T o = vol o -> 0 < vol o ->
    (forall t, In t T -> m <= v (snd (fst t)) <= M) ->
    m <= apply_va jeqb T vol (fun _ => 0) v o <= M.
  Proof. exact (convex_given_tile jeqb T vol v o m M). Qed.

  (* conservation: FULL STATEMENT  same region => sum vol' * out = sum vol * in.
     Proved for every weight list that tiles the input cells; missing as above. *)
  Theorem va_conserves_partial (voli : I -> R) v :
    (forall o, In o Os -> vol o <> 0) ->
    (forall i, In i Is -> wsum_in ieqb T i = voli i) ->
    sumL (fun o => vol o * apply_va jeqb T vol (fun _ => 0) v o) Os
    = sumL (fun i => voli i * v i) Is.
  Proof. exact (conserves_given_tile ieqb jeqb ieqb_spec jeqb_spec T vol Is Os
                                     Is_nodup Os_nodup T_in T_out voli v). Qed.

  (* log mode (interpolate(..., log=True)): the integral of log10 is conserved *)
  Theorem va_log_conserves_partial (voli : I -> R) v :
    (forall o, In o Os -> vol o <> 0) ->
    (forall i, In i Is -> wsum_in ieqb T i = voli i) ->
    sumL (fun o => vol o * log10R (apply_va_log jeqb T vol v o)) Os
    = sumL (fun i => voli i * log10R (v i)) Is.
  Proof. exact (log_mode_conserves ieqb jeqb ieqb_spec jeqb_spec T vol Is Os voli v
                                   Is_nodup Os_nodup T_in T_out). Qed.

  (* log mode: resistivity and conductivity give reciprocal results *)
  Theorem log_mode_rho_sigma v o :
    (forall i, 0 < v i) ->
    apply_va_log jeqb T vol (fun i => 1 / v i) o = 1 / apply_va_log jeqb T vol v o.
  Proof. exact (log_mode_reciprocal jeqb T vol v o). Qed.
End C15.

Print Assumptions va_is_linear.
Print Assumptions va_is_linear_with_matrix.
Print Assumptions va_adjoint_identity.
Print Assumptions va_convex_partial.
Print Assumptions va_conserves_partial.
Print Assumptions va_log_conserves_partial.
Print Assumptions log_mode_rho_sigma.

(* tensor structure: the total weight written to / read from a 3-D cell is the
   product of the 1-D totals, so 1-D tiling lifts to 3-D tiling (vol = product
   of widths), and 3-D weights are non-negative when the 1-D ones are *)
Theorem tile_lifts_to_3d_out (wx wy wz : list (R * nat * nat)) a b c :
  wsum_out idx3_eqb (trip3 wx wy wz) (a, b, c)
  = wsum_out Nat.eqb wx a * wsum_out Nat.eqb wy b * wsum_out Nat.eqb wz c.
Proof. exact (wsum_out_trip3 wx wy wz a b c). Qed.
Print Assumptions tile_lifts_to_3d_out.

Theorem tile_lifts_to_3d_in (wx wy wz : list (R * nat * nat)) a b c :
  wsum_in idx3_eqb (trip3 wx wy wz) (a, b, c)
  = wsum_in Nat.eqb wx a * wsum_in Nat.eqb wy b * wsum_in Nat.eqb wz c.
Proof. exact (wsum_in_trip3 wx wy wz a b c). Qed.
Print Assumptions tile_lifts_to_3d_in.

Theorem weights3d_nonneg (wx wy wz : list (R * nat * nat)) :
  (forall t, In t wx -> 0 <= fst (fst t)) -> (forall t, In t wy -> 0 <= fst (fst t)) ->
  (forall t, In t wz -> 0 <= fst (fst t)) ->
  forall t, In t (trip3 wx wy wz) -> 0 <= fst (fst t).
Proof. exact (trip3_nonneg wx wy wz). Qed.
Print Assumptions weights3d_nonneg.

(* unbounded 1-D facts about va_weights: for ALL real node lists of any length
   (not even assumed sorted) the merged node list is strictly increasing and
   every weight is strictly positive *)
Theorem merged_nodes_sorted (l : list R) : StronglySorted Rlt (usort Rleb l).
Proof. exact (usort_sorted l). Qed.
Print Assumptions merged_nodes_sorted.

Theorem va_weights_positive (x_i x_o : list R) t :
  In t (va_weights Rleb x_i x_o) -> 0 < fst (fst t).
Proof. exact (va_weights_pos x_i x_o t). Qed.
Print Assumptions va_weights_positive.

(* the 1-D clauses about va_weights itself.  FULL STATEMENT: for all strictly
   increasing node lists x_i, x_o (any length): weights > 0, indices in range,
   the stateful loop equals its stateless description, the weights of output
   cell j sum to its width (va_weights_tile), same region => the weights of
   input cell j sum to its width, cells outside the source grid read the
   nearest input cell (va_nearest_outside), equal grids => identity
   (va_identity).  PROVED (vm_compute) for the bounded family of all 120 x 120
   pairs of node lists that are sub-sequences (>= 2 nodes) of 0,1,...,6; this
   covers every interleaving pattern of up to 7 distinct merged nodes.  The
   unbounded induction is not done. *)
Theorem va_1d_clauses_bounded_partial :
  forallb (fun x_i => forallb (fun x_o => check_pair x_i x_o) grids7) grids7 = true.
Proof. exact check_pair_all. Qed.
Print Assumptions va_1d_clauses_bounded_partial.

Example va_weights_run :
  va_weights Qle_bool [0; 1; 5#2; 4]%Q [-1#1; 1#2; 5#2; 3; 6]%Q
  = [((1)%Q, 0%nat, 0%nat); ((1#2)%Q, 0%nat, 0%nat); ((1#2)%Q, 0%nat, 1%nat); ((3#2)%Q, 1%nat, 1%nat); ((1#2)%Q, 2%nat, 2%nat); ((1)%Q, 2%nat, 3%nat); ((2)%Q, 2%nat, 3%nat)]
  /\ length grids7 = 120%nat.
Proof. exact va_weights_example. Qed.
Print Assumptions va_weights_run.
