(* Props/C13.v -- property C13: misfit and data weights follow the documented
   noise model and stay untouched.  ONLY statements, each closed by [exact] of
   a lemma from Proofs/SurveyMachine.v, with Print Assumptions at the end (in
   the order of the statements).

   The model (Model/SurveyMachine.v) is hand-written and tied to
   emg3d/surveys.py by the per-run correspondence of py/props/c13.py.
   [run ltb off2 false] is the REPAIRED add_noise (docs/fix_C13.diff);
   [run .. true] the unrepaired in-place halving, refuted below.

   F: any number type with the field operations; [ltb] any comparison; [off2]
   any geometry; the noise added by add_noise is an argument of the operation
   (any realisation).  Theorems that need arithmetic assume [field_theory].
   The square root is avoided: statements are about std^2 and hold for every m
   with m*m = |d|^2. *)
From Coq Require Import ZArith List Bool Arith Lia Field Permutation QArith Qcanon.
From V Require Import Base.FieldSig Base.ExecQ.
From V Require Import Model.SurveyMachine Model.SurveyMachineExec Proofs.SurveyMachine Proofs.SurveyLabels.
From V Require Import Model.SurveyFinite Proofs.SurveyFinite.
Import ListNotations.
Close Scope Qc_scope.
Close Scope Q_scope.
Local Open Scope nat_scope.

Section C13.
  Context {F : Type} {FO : FOps F}.
  Variable ltb : F -> F -> bool.
  Variable off2 : Z -> Z -> F.

  (* ---- settings stay untouched: ALL histories, ALL surveys (the one an
     operation is applied to, the one it was derived from, any other), sharing
     and in-place updates included.  Setters applied to other surveys are
     allowed in the history. *)
  Theorem settings_frame (ops : list (@op F)) (w : @world F) (i : nat) :
    wf w -> i < length (svs w) ->
    (forall o, In o ops -> is_setter_on i o = false) ->
    settings_at (run ltb off2 false ops w) i = settings_at w i.
  Proof. exact (settings_frame_all ltb off2 ops w i). Qed.

  (* well-formedness is an invariant of the machine (so the frame theorem
     applies from every reachable state) *)
  Theorem wf_invariant (ops : list (@op F)) (w : @world F) :
    wf w -> wf (run ltb off2 false ops w).
  Proof. exact (run_wf ltb off2 ops w). Qed.

  (* copy(), to_dict/from_dict, save+load: the new survey has the settings of
     the original, by value *)
  Theorem copy_keeps_settings s k (w : @world F) sv :
    wf w -> nth_error (svs w) s = Some sv ->
    settings_at (fst (dict s k w)) (length (svs w)) = settings_at w s.
  Proof. exact (dict_copy_settings s k w sv). Qed.

  (* ---- a selection contains exactly the chosen sub-cube: keys are the chosen
     keys in the chosen order, and entry (i,j,k) of observed data, noise-floor
     array, relative-error array and explicit std is the entry of the original
     that carries the same keys *)
  Theorem select_exact_subcube (w : @world F) (sv : @survey F) a b c w1 sv1 i j k :
    refs_ok (length (hset w)) sv ->
    all_none a b c = false ->
    select_once w sv a b c = Some (w1, sv1) ->
    i < length (src sv1) -> j < length (rec sv1) -> k < length (frq sv1) ->
    exists i' j' k',
      (nth i' (src sv) 0%Z = nth i (src sv1) 0%Z /\ i' < length (src sv)) /\
      (nth j' (rec sv) 0%Z = nth j (rec sv1) 0%Z /\ j' < length (rec sv)) /\
      (nth k' (frq sv) 0%Z = nth k (frq sv1) 0%Z /\ k' < length (frq sv)) /\
      cget (deref (hdat w1) (obs sv1)) i j k = cget (deref (hdat w) (obs sv)) i' j' k' /\
      (forall r, nf_arr sv = Some r ->
         cget (deref_o (hset w1) (nf_arr sv1)) i j k = cget (deref (hset w) r) i' j' k') /\
      (forall r, re_arr sv = Some r ->
         cget (deref_o (hset w1) (re_arr sv1)) i j k = cget (deref (hset w) r) i' j' k') /\
      (forall r, std_arr sv = Some r ->
         cget (deref_o (hset w1) (std_arr sv1)) i j k = cget (deref (hset w) r) i' j' k').
  Proof. exact (select_once_pointwise w sv a b c w1 sv1 i j k). Qed.

  Theorem select_keys keys s ks Is :
    sel_axis keys s = Some (ks, Is) ->
    length Is = length ks /\
    ks = match s with None => keys | Some l => l end /\
    forall i, i < length ks ->
              nth (nth i Is 0) keys 0%Z = nth i ks 0%Z /\ nth i Is 0 < length keys.
  Proof. exact (sel_axis_spec keys s ks Is). Qed.

  (* ---- selection BY LABEL (labels = keys, data = function of label triples).
     [sub_by_label w1 sv1 w sv]: the keys of sv1 are keys of sv, and observed
     data, EVERY named data set, noise-floor / relative-error arrays and explicit
     std of sv1 agree with those of sv on every label triple of sv1; attributes
     equal.  Holds for every order of the requested names; a repeated or unknown
     name is rejected (that is the policy of the code: xarray refuses duplicate
     labels, the dict lookup refuses unknown ones). *)
  Theorem select_once_by_label (w : @world F) (sv : @survey F) a b c w1 sv1 :
    keys_ok sv -> refs_ok (length (hset w)) sv -> drefs_ok (length (hdat w)) sv ->
    select_once w sv a b c = Some (w1, sv1) ->
    sub_by_label w1 sv1 w sv /\
    src sv1 = chosen (src sv) a /\ rec sv1 = chosen (rec sv) b /\ frq sv1 = chosen (frq sv) c /\
    keys_ok sv1 /\ refs_ok (length (hset w1)) sv1 /\ drefs_ok (length (hdat w1)) sv1 /\
    (exists e, hdat w1 = hdat w ++ e) /\ (exists e, hset w1 = hset w ++ e) /\ svs w1 = svs w.
  Proof. exact (select_once_sub ltb off2 w sv a b c w1 sv1). Qed.

  (* the operation Survey.select, remove_empty included *)
  Theorem select_subcube_by_label s sS sR sF rm (w : @world F) sv w' :
    nth_error (svs w) s = Some sv ->
    keys_ok sv -> refs_ok (length (hset w)) sv -> drefs_ok (length (hdat w)) sv ->
    select s sS sR sF rm w = (w', OutOk) ->
    exists sv',
      svs w' = svs w ++ [sv'] /\ sub_by_label w' sv' w sv /\
      keys_ok sv' /\ refs_ok (length (hset w')) sv' /\ drefs_ok (length (hdat w')) sv' /\
      (exists e, hdat w' = hdat w ++ e) /\ (exists e, hset w' = hset w ++ e) /\
      let ks := chosen (src sv) sS in
      let kr := chosen (rec sv) sR in
      let kf := chosen (frq sv) sF in
      if rm && any_data (hdat w) sv ks kr kf
      then src sv' = filter (src_has_data (hdat w) sv kr kf) ks /\
           rec sv' = filter (rec_has_data (hdat w) sv ks kf) kr /\
           frq sv' = filter (frq_has_data (hdat w) sv ks kr) kf
      else src sv' = ks /\ rec sv' = kr /\ frq sv' = kf.
  Proof. exact (select_by_label ltb off2 s sS sR sF rm w sv w'). Qed.

  (* accepted requests: per axis, nothing, or any list of known keys without
     repetition -- in ANY order; otherwise select fails and changes nothing *)
  Theorem select_axis_accepts keys s :
    sel_axis keys s <> None <->
    match s with None => True | Some l => NoDup l /\ incl l keys end.
  Proof. exact (sel_axis_accepts ltb off2 keys s). Qed.
  Theorem select_accepts (w : @world F) (sv : @survey F) a b c :
    select_once w sv a b c <> None <->
    (sel_axis (src sv) a <> None /\ sel_axis (rec sv) b <> None /\ sel_axis (frq sv) c <> None).
  Proof. exact (select_once_accepts w sv a b c). Qed.
  Theorem select_error_changes_nothing s a b c rm (w w' : @world F) o :
    select s a b c rm w = (w', o) -> o = OutOk \/ w' = w.
  Proof. exact (select_unchanged_on_error s a b c rm w w' o). Qed.

  (* restrictions compose, and selecting from a selection is selecting directly *)
  Theorem restriction_transitive (w2 : @world F) sv2 (w1 : @world F) sv1 (w : @world F) sv :
    sub_by_label w2 sv2 w1 sv1 -> sub_by_label w1 sv1 w sv -> sub_by_label w2 sv2 w sv.
  Proof. exact (sub_by_label_trans w2 sv2 w1 sv1 w sv). Qed.
  Theorem select_compose (w : @world F) (sv : @survey F) a b c w1 sv1 a' b' c' w2 sv2 :
    keys_ok sv -> refs_ok (length (hset w)) sv -> drefs_ok (length (hdat w)) sv ->
    select_once w sv a b c = Some (w1, sv1) ->
    select_once w1 sv1 a' b' c' = Some (w2, sv2) ->
    sub_by_label w2 sv2 w sv /\
    src sv2 = chosen (src sv) (compose_sel a a') /\
    rec sv2 = chosen (rec sv) (compose_sel b b') /\
    frq sv2 = chosen (frq sv) (compose_sel c c') /\
    exists w3 sv3,
      select_once w sv (compose_sel a a') (compose_sel b b') (compose_sel c c') = Some (w3, sv3) /\
      src sv3 = src sv2 /\ rec sv3 = rec sv2 /\ frq sv3 = frq sv2 /\
      sub_by_label w3 sv3 w sv /\
      same_by_label (hdat w2) sv2 (obs sv2) (hdat w3) sv3 (obs sv3).
  Proof. exact (select_once_compose ltb off2 w sv a b c w1 sv1 a' b' c' w2 sv2). Qed.

  (* a selection never touches the settings of an existing survey (instance of
     settings_frame, stated for the single operation) *)
  Theorem select_keeps_existing_settings s a b c rm (w : @world F) i :
    wf w -> i < length (svs w) ->
    settings_at (fst (select s a b c rm w)) i = settings_at w i.
  Proof. exact (select_settings_frame ltb off2 s a b c rm w i). Qed.

  (* all invariants used above (setting refs, data refs, duplicate-free keys)
     hold in every reachable state *)
  Theorem reachable_invariants (ops : list (@op F)) (w : @world F) :
    wf_all w -> wf_all (run ltb off2 false ops w).
  Proof. exact (run_wf_all ltb off2 ops w). Qed.

  (* ---- standard deviation *)
  Theorem std_none_iff_unset (w : @world F) (sv : @survey F) :
    std2 w sv = None <->
    (std_arr sv = None /\ nf_view (hset w) sv = SNone /\ re_view (hset w) sv = SNone).
  Proof. exact (std2_none w sv). Qed.

  Theorem std_explicit_wins (w : @world F) (sv : @survey F) r i j k :
    std_arr sv = Some r ->
    i < length (src sv) -> j < length (rec sv) -> k < length (frq sv) ->
    exists c, std2 w sv = Some c /\
              cget c i j k = sq_real (cget (deref (hset w) r) i j k).
  Proof. exact (std2_explicit w sv r i j k). Qed.

  Theorem std_computed_pointwise (w : @world F) (sv : @survey F) i j k :
    std_arr sv = None ->
    (nf_view (hset w) sv <> SNone \/ re_view (hset w) sv <> SNone) ->
    i < length (src sv) -> j < length (rec sv) -> k < length (frq sv) ->
    exists c, std2 w sv = Some c /\
              cget c i j k = std2_cell (sval_at (nf_view (hset w) sv) i j k)
                                       (sval_at (re_view (hset w) sv) i j k)
                                       (cget (deref (hdat w) (obs sv)) i j k).
  Proof. exact (std2_computed w sv i j k). Qed.

  (* an array handed to the setter is broadcast: dimensions of length one repeat *)
  Theorem broadcast_spec (c : @cube F) n1 n2 n3 i j k :
    i < n1 -> j < n2 -> k < n3 ->
    cget (bcast c n1 n2 n3) i j k
    = cget c (if Nat.eqb (fst (fst (cdims c))) 1 then 0 else i)
             (if Nat.eqb (snd (fst (cdims c))) 1 then 0 else j)
             (if Nat.eqb (snd (cdims c)) 1 then 0 else k).
  Proof. exact (cget_bcast c n1 n2 n3 i j k). Qed.

  (* ---- add_noise cuts (repaired code; add_to = observed) *)
  Theorem half_nf_threshold hs (sv : @survey F) :
    snd (amp_threshold false hs sv MHalfNf)
    = match nf_view hs sv with
      | SNone => SNone
      | SScal q => SScal (q / (1 + 1))%F
      | SCube c => SCube (cmap halve c)
      end.
  Proof. exact (amp_threshold_repaired hs sv). Qed.

  (* COMPLETE specification of add_noise, every target (observed, an existing
     named data set, a new one): each entry of the array written to is
       NaN            if |d_obs| < min_amplitude or the offset is outside the range,
       unchanged      if no standard deviation is defined,
       NaN            if its standard deviation is NaN,
       old + noise    otherwise                         ([an_spec_cell]);
     cuts are decided on data.observed as it was, std^2 from the settings as
     they were.  "Exactly": it is an equation, and [cuts_frame] says no other
     data array changes (settings: settings_frame). *)
  Theorem cuts_spec s p noise (w : @world F) sv i j k :
    nth_error (svs w) s = Some sv -> drefs_ok (length (hdat w)) sv ->
    i < length (src sv) -> j < length (rec sv) -> k < length (frq sv) ->
    cget (deref (hdat (fst (add_noise ltb off2 false s p noise w))) (an_tgt w sv p)) i j k
    = an_spec_cell
        (cut_mask ltb off2 p (snd (amp_threshold false (hset w) sv (a_minamp p)))
                  (deref (hdat w) (obs sv)) sv i j k)
        (std2_at w sv i j k) (an_t0 w sv p i j k) (cget noise i j k).
  Proof. exact (add_noise_spec ltb off2 s p noise w sv i j k). Qed.

  Theorem cuts_frame s p noise (w : @world F) sv r :
    nth_error (svs w) s = Some sv ->
    r < length (hdat w) -> r <> an_tgt w sv p ->
    deref (hdat (fst (add_noise ltb off2 false s p noise w))) r = deref (hdat w) r.
  Proof. exact (add_noise_data_frame ltb off2 s p noise w sv r). Qed.

  (* ---- arithmetic: any field *)
  Hypothesis Fth : field_theory F0 F1 Fadd Fmul Fsub Fopp Fdiv Finv (@eq F).
  Local Open Scope F_scope.

  (* std^2 = nf^2 + (re |d|)^2, for every m with m^2 = |d|^2 = a^2 + b^2 *)
  Theorem std_formula (n x r y a b m : F) :
    m * m = a * a + b * b ->
    std2_cell (Some (V n x)) (Some (V r y)) (V a b) = V (n * n + (r * m) * (r * m)) 0.
  Proof. exact (std2_cell_formula Fth n x r y a b m). Qed.
  Theorem std_formula_nf_only (n x : F) (o : @cell F) :
    std2_cell (Some (V n x)) None o = V (n * n) 0.
  Proof. exact (std2_cell_nf_only Fth n x o). Qed.
  Theorem std_formula_re_only (r y a b m : F) :
    m * m = a * a + b * b ->
    std2_cell None (Some (V r y)) (V a b) = V ((r * m) * (r * m)) 0.
  Proof. exact (std2_cell_re_only Fth r y a b m). Qed.

  (* misfit = 1/2 * sum over the finite summands |syn - obs|^2 / std^2 *)
  Theorem misfit_formula (l : list (option F)) :
    misfit_of l = fsum (finite_terms l) / (1 + 1).
  Proof. unfold misfit_of. exact (f_equal (fun x => x / (1 + 1)) (osum_finite l)). Qed.
  Theorem misfit_summand (a b c d v x : F) :
    term (V a b) (V c d) (V v x) = Some (((c - a) * (c - a) + (d - b) * (d - b)) / v).
  Proof. exact (term_spec a b c d v x). Qed.
  Theorem misfit_skips_nan_observation (s sd : @cell F) : term NaN s sd = None.
  Proof. exact (term_nan_obs s sd). Qed.

  (* invariance under EVERY permutation of the data, in particular under every
     re-ordering of sources, receivers and frequencies *)
  Theorem misfit_perm_invariant (l l' : list (option F)) :
    Permutation l l' -> misfit_of l = misfit_of l'.
  Proof. exact (misfit_of_perm Fth l l'). Qed.
  Theorem misfit_axes_perm_invariant (ob sy sd : @cube F) Is Is' Js Js' Ks Ks' :
    Permutation Is Is' -> Permutation Js Js' -> Permutation Ks Ks' ->
    misfit_of (terms_idx ob sy sd Is Js Ks) = misfit_of (terms_idx ob sy sd Is' Js' Ks').
  Proof.
    intros HI HJ HK.
    exact (misfit_of_perm Fth _ _ (terms_idx_perm ob sy sd Is Is' Js Js' Ks Ks' HI HJ HK)).
  Qed.
  (* ==== round 6: the memoised finite mask (Survey.isfinite / finite_data),
     queries between data changes, further routes that change the NaN pattern
     of data.observed (Model/SurveyFinite.v).  [xworld] = survey machine + the
     memo survey._isfinite of every survey. *)

  (* a query (isfinite, finite_data, size, count, misfit) changes nothing in
     the survey machine: no datum, no setting, no survey *)
  Theorem query_is_read_only inplace s q (xw : @xworld F) :
    base (fst (xstep ltb off2 inplace (XQuery s q) xw)) = base xw.
  Proof. exact (query_changes_nothing ltb off2 inplace s q xw). Qed.

  (* every other operation neither reads nor writes the memo *)
  Theorem operations_ignore_memo inplace (o : @xop F) (xw xw' : @xworld F) :
    is_query o = false -> base xw = base xw' ->
    base (fst (xstep ltb off2 inplace o xw)) = base (fst (xstep ltb off2 inplace o xw')) /\
    snd (xstep ltb off2 inplace o xw) = snd (xstep ltb off2 inplace o xw') /\
    memo (fst (xstep ltb off2 inplace o xw)) = memo xw.
  Proof. exact (nonquery_ignores_memo ltb off2 inplace o xw xw'). Qed.

  (* ALL histories: the survey machine reached is the one reached by the
     history with its queries removed, from any memo *)
  Theorem history_queries_erased inplace (ops : list (@xop F)) (xw xw' : @xworld F) :
    base xw = base xw' ->
    base (xrun ltb off2 inplace ops xw) = base (xrun ltb off2 inplace (erase_queries ops) xw').
  Proof. exact (xrun_queries_erased ltb off2 inplace ops xw xw'). Qed.

  (* the misfit query does not consult the memo ... *)
  Theorem misfit_does_not_consult_memo inplace s (xw xw' : @xworld F) :
    base xw = base xw' ->
    snd (xstep ltb off2 inplace (XQuery s QMisfit) xw) =
    snd (xstep ltb off2 inplace (XQuery s QMisfit) xw').
  Proof. exact (misfit_query_ignores_memo ltb off2 inplace s xw xw'). Qed.

  (* ... so after ANY history the misfit is the one of the history without
     queries, started without memo *)
  Theorem misfit_unaffected_by_queries inplace (ops : list (@xop F)) (xw : @xworld F) s :
    xmisfit (xrun ltb off2 inplace ops xw) s =
    xmisfit (xrun ltb off2 inplace (erase_queries ops) (mkX (base xw) nil)) s.
  Proof. exact (misfit_unaffected_by_queries_all ltb off2 inplace ops xw s). Qed.

  (* the misfit is a function of the CURRENT observed / synthetic / std^2
     arrays only (any two worlds, surveys, histories) *)
  Theorem misfit_current_arrays (w w' : @world F) (sv sv' : @survey F) syn syn' r r' :
    shape sv = shape sv' ->
    deref (hdat w) (obs sv) = deref (hdat w') (obs sv') ->
    lookup syn (named sv) = Some r -> lookup syn' (named sv') = Some r' ->
    deref (hdat w) r = deref (hdat w') r' ->
    std2 w sv = std2 w' sv' ->
    misfit w sv syn = misfit w' sv' syn'.
  Proof. exact (misfit_current_arrays_all w w' sv sv' syn syn' r r'). Qed.

  (* ... namely half the sum over the finite mask RECOMPUTED from the current
     observed data *)
  Theorem misfit_sums_over_current_mask (w : @world F) (sv : @survey F) syn r sd n1 n2 n3 :
    shape sv = (n1, n2, n3) -> std2 w sv = Some sd -> lookup syn (named sv) = Some r ->
    misfit w sv syn =
    Some (misfit_of (terms_masked (cur_mask (deref (hdat w) (obs sv)) n1 n2 n3)
                                  (deref (hdat w) (obs sv)) (deref (hdat w) r) sd
                                  (seq 0 n1) (seq 0 n2) (seq 0 n3))).
  Proof. exact (misfit_over_current_mask w sv syn r sd n1 n2 n3). Qed.

  (* settings frame and invariants over the extended histories (queries,
     data.observed[...] = array, compute(observed=True) included) *)
  Theorem settings_frame_extended (ops : list (@xop F)) (xw : @xworld F) (i : nat) :
    wf (base xw) -> i < length (svs (base xw)) ->
    (forall o, In o ops -> x_is_setter_on i o = false) ->
    settings_at (base (xrun ltb off2 false ops xw)) i = settings_at (base xw) i.
  Proof. exact (xsettings_frame_all ltb off2 ops xw i). Qed.

  Theorem reachable_invariants_extended (ops : list (@xop F)) (xw : @xworld F) :
    wf_all (base xw) -> wf_all (base (xrun ltb off2 false ops xw)).
  Proof. exact (xrun_wf_all ltb off2 ops xw). Qed.
End C13.

(* ---- the unrepaired add_noise violates the frame property (witness on Q) *)
Theorem settings_frame_refuted :
  exists (ops : list (@op Q)) (w : qworld) (i : nat),
    wf w /\ (i < length (svs w))%nat /\
    (forall o, In o ops -> is_setter_on i o = false) /\
    settings_at (run qltb ex_off true ops w) i <> settings_at w i.
Proof. exact frame_refuted. Qed.

Theorem settings_frame_refuted_through_shared_selection :
  settings_at (run qltb ex_off true [OSelect 0 None None None false; ex_an 1] ex_w) 0
  <> settings_at ex_w 0.
Proof. exact frame_refuted_parent. Qed.

(* ---- non-vacuity *)
Example settings_frame_nonvacuous :
  wf ex_w /\ (forall o, In o ex_ops -> is_setter_on 0 o = false) /\
  settings_at (run qltb ex_off false ex_ops ex_w) 0 = Some (SCube ex_nf, SNone, None) /\
  length (svs (run qltb ex_off false ex_ops ex_w)) = 4%nat.
Proof. exact (conj ex_w_wf (conj ex_ops_no_setter ex_ops_frame)). Qed.

Example std_formula_nonvacuous :
  std2_cell (Some (V 1%Qc 0%Qc)) (Some (V c2 0%Qc)) (V c3 c4)
  = V (1 * 1 + (c2 * c5) * (c2 * c5))%Qc 0%Qc.
Proof. exact std_formula_instance. Qed.

Example misfit_perm_nonvacuous (x y z : Qc) :
  misfit_of [Some x; None; Some y; Some z] = misfit_of [Some z; Some y; None; Some x].
Proof. exact (misfit_perm_instance x y z). Qed.

Example select_by_label_nonvacuous :
  wf_all ex2_w /\
  snd (select 0 (Some [3%Z; 2%Z; 1%Z]) None None true ex2_w) = OutOk /\
  map (fun sv => (src sv, rec sv, frq sv)) (svs ex2_sel)
  = [([1%Z; 2%Z; 3%Z], [1%Z; 2%Z], [1%Z]); ([3%Z; 1%Z], [1%Z], [1%Z])].
Proof. exact (conj ex2_wf_all ex2_select_ok). Qed.

Example select_rejects_repeated_and_unknown_names :
  select 0 (Some [1%Z; 1%Z]) None None false ex2_w = (ex2_w, OutErr 2) /\
  select 0 None (Some [2%Z; 9%Z]) None false ex2_w = (ex2_w, OutErr 2).
Proof. exact ex2_select_rejects. Qed.

Example cuts_spec_nonvacuous :
  (d_cell (an_spec_cell
     (cut_mask qltb ex_off (mkP 0%Q None MHalfNf TObs)
               (snd (amp_threshold false (hset ex_w) ex_sv MHalfNf)) (deref (hdat ex_w) 0) ex_sv 0 0 0)
     (std2_at ex_w ex_sv 0 0 0) (cget ex_obs 0 0 0) (cget ex_noise 0 0 0)),
   d_cell (an_spec_cell
     (cut_mask qltb ex_off (mkP 0%Q None MHalfNf TObs)
               (snd (amp_threshold false (hset ex_w) ex_sv MHalfNf)) (deref (hdat ex_w) 0) ex_sv 0 1 0)
     (std2_at ex_w ex_sv 0 1 0) (cget ex_obs 0 1 0) (cget ex_noise 0 1 0)))
  = (Some ((7%Z, 2%Z), (9%Z, 2%Z)), None).
Proof. exact ex_cuts_spec_values. Qed.

Example cut_nonvacuous :
  d_cube (deref (hdat (run qltb ex_off false [ex_an 0] ex_w)) 0)
  = [[[Some ((7%Z, 2%Z), (9%Z, 2%Z))]; [None]]].
Proof. exact ex_cut. Qed.

(* ---- round 6: the memoised mask is NOT an invariant copy of the current
   mask, and a misfit summed through it differs from the misfit (witness on Q):
   the property holds because misfit does not consult the memo *)
Theorem misfit_through_memo_refuted :
  exists (ops : list (@xop Q)) (xw : qxworld) (s : nat) (sv : @survey Q),
    wf_all (base xw) /\ memo xw = [] /\
    nth_error (svs (base (xrun qltb fx_off false ops xw))) s = Some sv /\
    d_oq (misfit_through_memo (xrun qltb fx_off false ops xw) s sv)
    <> d_oq (misfit (base (xrun qltb fx_off false ops xw)) sv 0%Z).
Proof. exact through_memo_refuted. Qed.

Example memo_can_be_stale :
  memo_of fx_end 0 = Some [[[true; false]]] /\
  cur_mask (deref (hdat (base fx_end)) 0) 1 1 2 = [[[true; true]]].
Proof. exact fx_memo_stale. Qed.

Example misfit_current_nonvacuous :
  option_map d_oq (xmisfit fx_end 0) = Some (Some (5%Z, 2%Z)) /\
  snd (xstep qltb fx_off false (XQuery 0 QMisfit) fx_end) = XMis (Some (5 # 2)%Q).
Proof. exact fx_misfit_current. Qed.

Example queries_erased_nonvacuous :
  length (erase_queries fx_ops2) = 3%nat /\
  length (memo (xrun qltb fx_off false fx_ops2 fx_xw)) = 2%nat /\
  d_world (base (xrun qltb fx_off false fx_ops2 fx_xw))
  = d_world (base (xrun qltb fx_off false (erase_queries fx_ops2) fx_xw)) /\
  length (svs (base (xrun qltb fx_off false fx_ops2 fx_xw))) = 2%nat.
Proof. exact fx_erasure_instance. Qed.

Print Assumptions settings_frame.
Print Assumptions wf_invariant.
Print Assumptions copy_keeps_settings.
Print Assumptions select_exact_subcube.
Print Assumptions select_keys.
Print Assumptions select_once_by_label.
Print Assumptions select_subcube_by_label.
Print Assumptions select_axis_accepts.
Print Assumptions select_accepts.
Print Assumptions select_error_changes_nothing.
Print Assumptions restriction_transitive.
Print Assumptions select_compose.
Print Assumptions select_keeps_existing_settings.
Print Assumptions reachable_invariants.
Print Assumptions std_none_iff_unset.
Print Assumptions std_explicit_wins.
Print Assumptions std_computed_pointwise.
Print Assumptions broadcast_spec.
Print Assumptions half_nf_threshold.
Print Assumptions cuts_spec.
Print Assumptions cuts_frame.
Print Assumptions std_formula.
Print Assumptions std_formula_nf_only.
Print Assumptions std_formula_re_only.
Print Assumptions misfit_formula.
Print Assumptions misfit_summand.
Print Assumptions misfit_skips_nan_observation.
Print Assumptions misfit_perm_invariant.
Print Assumptions misfit_axes_perm_invariant.
Print Assumptions query_is_read_only.
Print Assumptions operations_ignore_memo.
Print Assumptions history_queries_erased.
Print Assumptions misfit_does_not_consult_memo.
Print Assumptions misfit_unaffected_by_queries.
Print Assumptions misfit_current_arrays.
Print Assumptions misfit_sums_over_current_mask.
Print Assumptions settings_frame_extended.
Print Assumptions reachable_invariants_extended.
Print Assumptions settings_frame_refuted.
Print Assumptions settings_frame_refuted_through_shared_selection.
Print Assumptions settings_frame_nonvacuous.
Print Assumptions std_formula_nonvacuous.
Print Assumptions misfit_perm_nonvacuous.
Print Assumptions select_by_label_nonvacuous.
Print Assumptions select_rejects_repeated_and_unknown_names.
Print Assumptions cuts_spec_nonvacuous.
Print Assumptions cut_nonvacuous.
Print Assumptions misfit_through_memo_refuted.
Print Assumptions memo_can_be_stale.
Print Assumptions misfit_current_nonvacuous.
Print Assumptions queries_erased_nonvacuous.
