(* Props/C13.v -- property C13: misfit and data weights follow the documented
   noise model and stay untouched.  ONLY statements, each closed by [exact] of
   a lemma from Proofs/SurveyMachine.v, with Print Assumptions at the end (in
   the order of the statements).

   The model (Model/SurveyMachine.v) is hand-written and tied to
   emg3d/surveys.py by the per-run correspondence of py/props/c13.py.
   [run ltb off2 false] is the REPAIRED add_noise (docs/fix_C13.diff);
   [run .. true] the unrepaired in-place halving, refuted below.

   F: any number type with the field operations; [ltb] any comparison; [off2]
   any geometry; the noise added by add_noise is an argument of the operation
   (any realisation).  Theorems that need arithmetic assume [field_theory].
   The square root is avoided: statements are about std^2 and hold for every m
   with m*m = |d|^2. *)
From Coq Require Import ZArith List Bool Arith Lia Field Permutation QArith Qcanon.
From V Require Import Base.FieldSig Base.ExecQ.
From V Require Import Model.SurveyMachine Model.SurveyMachineExec Proofs.SurveyMachine.
Import ListNotations.
Close Scope Qc_scope.
Close Scope Q_scope.
Local Open Scope nat_scope.

Section C13.
  Context {F : Type} {FO : FOps F}.
  Variable ltb : F -> F -> bool.
  Variable off2 : Z -> Z -> F.

  (* ---- settings stay untouched: ALL histories, ALL surveys (the one an
     operation is applied to, the one it was derived from, any other), sharing
     and in-place updates included.  Setters applied to other surveys are
     allowed in the history. *)
  Theorem settings_frame (ops : list (@op F)) (w : @world F) (i : nat) :
    wf w -> i < length (svs w) ->
    (forall o, In o ops -> is_setter_on i o = false) ->
    settings_at (run ltb off2 false ops w) i = settings_at w i.
  Proof. exact (settings_frame_all ltb off2 ops w i). Qed.

  (* well-formedness is an invariant of the machine (so the frame theorem
     applies from every reachable state) *)
  Theorem wf_invariant (ops : list (@op F)) (w : @world F) :
    wf w -> wf (run ltb off2 false ops w).
  Proof. exact (run_wf ltb off2 ops w). Qed.

  (* copy(), to_dict/from_dict, save+load: the new survey has the settings of
     the original, by value *)
  Theorem copy_keeps_settings s k (w : @world F) sv :
    wf w -> nth_error (svs w) s = Some sv ->
    settings_at (fst (dict s k w)) (length (svs w)) = settings_at w s.
  Proof. exact (dict_copy_settings s k w sv). Qed.

  (* ---- a selection contains exactly the chosen sub-cube: keys are the chosen
     keys in the chosen order, and entry (i,j,k) of observed data, noise-floor
     array, relative-error array and explicit std is the entry of the original
     that carries the same keys *)
  Theorem select_exact_subcube (w : @world F) (sv : @survey F) a b c w1 sv1 i j k :
    refs_ok (length (hset w)) sv ->
    all_none a b c = false ->
    select_once w sv a b c = Some (w1, sv1) ->
    i < length (src sv1) -> j < length (rec sv1) -> k < length (frq sv1) ->
    exists i' j' k',
      (nth i' (src sv) 0%Z = nth i (src sv1) 0%Z /\ i' < length (src sv)) /\
      (nth j' (rec sv) 0%Z = nth j (rec sv1) 0%Z /\ j' < length (rec sv)) /\
      (nth k' (frq sv) 0%Z = nth k (frq sv1) 0%Z /\ k' < length (frq sv)) /\
      cget (deref (hdat w1) (obs sv1)) i j k = cget (deref (hdat w) (obs sv)) i' j' k' /\
      (forall r, nf_arr sv = Some r ->
         cget (deref_o (hset w1) (nf_arr sv1)) i j k = cget (deref (hset w) r) i' j' k') /\
      (forall r, re_arr sv = Some r ->
         cget (deref_o (hset w1) (re_arr sv1)) i j k = cget (deref (hset w) r) i' j' k') /\
      (forall r, std_arr sv = Some r ->
         cget (deref_o (hset w1) (std_arr sv1)) i j k = cget (deref (hset w) r) i' j' k').
  Proof. exact (select_once_pointwise w sv a b c w1 sv1 i j k). Qed.

  Theorem select_keys keys s ks Is :
    sel_axis keys s = Some (ks, Is) ->
    length Is = length ks /\
    ks = match s with None => keys | Some l => l end /\
    forall i, i < length ks ->
              nth (nth i Is 0) keys 0%Z = nth i ks 0%Z /\ nth i Is 0 < length keys.
  Proof. exact (sel_axis_spec keys s ks Is). Qed.

  (* select_exact_subcube_partial: the named data sets (synthetic, ...) and the
     remove_empty recursion are covered by the correspondence only; the full
     statement would add `forall n r, lookup n (named sv) = Some r -> ...` and
     `src (result) = filter nonempty (chosen)` -- see docs/C13.md. *)

  (* ---- standard deviation *)
  Theorem std_none_iff_unset (w : @world F) (sv : @survey F) :
    std2 w sv = None <->
    (std_arr sv = None /\ nf_view (hset w) sv = SNone /\ re_view (hset w) sv = SNone).
  Proof. exact (std2_none w sv). Qed.

  Theorem std_explicit_wins (w : @world F) (sv : @survey F) r i j k :
    std_arr sv = Some r ->
    i < length (src sv) -> j < length (rec sv) -> k < length (frq sv) ->
    exists c, std2 w sv = Some c /\
              cget c i j k = sq_real (cget (deref (hset w) r) i j k).
  Proof. exact (std2_explicit w sv r i j k). Qed.

  Theorem std_computed_pointwise (w : @world F) (sv : @survey F) i j k :
    std_arr sv = None ->
    (nf_view (hset w) sv <> SNone \/ re_view (hset w) sv <> SNone) ->
    i < length (src sv) -> j < length (rec sv) -> k < length (frq sv) ->
    exists c, std2 w sv = Some c /\
              cget c i j k = std2_cell (sval_at (nf_view (hset w) sv) i j k)
                                       (sval_at (re_view (hset w) sv) i j k)
                                       (cget (deref (hdat w) (obs sv)) i j k).
  Proof. exact (std2_computed w sv i j k). Qed.

  (* an array handed to the setter is broadcast: dimensions of length one repeat *)
  Theorem broadcast_spec (c : @cube F) n1 n2 n3 i j k :
    i < n1 -> j < n2 -> k < n3 ->
    cget (bcast c n1 n2 n3) i j k
    = cget c (if Nat.eqb (fst (fst (cdims c))) 1 then 0 else i)
             (if Nat.eqb (snd (fst (cdims c))) 1 then 0 else j)
             (if Nat.eqb (snd (cdims c)) 1 then 0 else k).
  Proof. exact (cget_bcast c n1 n2 n3 i j k). Qed.

  (* ---- add_noise cuts (repaired code; add_to = observed) *)
  Theorem half_nf_threshold hs (sv : @survey F) :
    snd (amp_threshold false hs sv MHalfNf)
    = match nf_view hs sv with
      | SNone => SNone
      | SScal q => SScal (q / (1 + 1))%F
      | SCube c => SCube (cmap halve c)
      end.
  Proof. exact (amp_threshold_repaired hs sv). Qed.

  Theorem cuts_spec s p noise (w : @world F) sv i j k :
    nth_error (svs w) s = Some sv -> a_to p = TObs -> obs sv < length (hdat w) ->
    i < length (src sv) -> j < length (rec sv) -> k < length (frq sv) ->
    cut_mask ltb off2 p (snd (amp_threshold false (hset w) sv (a_minamp p)))
             (deref (hdat w) (obs sv)) sv i j k = true ->
    cget (deref (hdat (fst (add_noise ltb off2 false s p noise w))) (obs sv)) i j k = NaN.
  Proof. exact (add_noise_cut_is_nan ltb off2 s p noise w sv i j k). Qed.

  (* cuts_spec_partial: "exactly": the converse is proved only when no standard
     deviation is defined (no noise is added then); with a standard deviation
     the uncut entries receive data + noise, which is checked by correspondence. *)
  Theorem cuts_spec_uncut_partial s p noise (w : @world F) sv i j k :
    nth_error (svs w) s = Some sv -> a_to p = TObs -> obs sv < length (hdat w) ->
    i < length (src sv) -> j < length (rec sv) -> k < length (frq sv) ->
    std_arr sv = None -> nf_attr sv = ANone -> re_attr sv = ANone ->
    cut_mask ltb off2 p (snd (amp_threshold false (hset w) sv (a_minamp p)))
             (deref (hdat w) (obs sv)) sv i j k = false ->
    cget (deref (hdat (fst (add_noise ltb off2 false s p noise w))) (obs sv)) i j k
    = cget (deref (hdat w) (obs sv)) i j k.
  Proof. exact (add_noise_uncut_unchanged ltb off2 s p noise w sv i j k). Qed.

  (* ---- arithmetic: any field *)
  Hypothesis Fth : field_theory F0 F1 Fadd Fmul Fsub Fopp Fdiv Finv (@eq F).
  Local Open Scope F_scope.

  (* std^2 = nf^2 + (re |d|)^2, for every m with m^2 = |d|^2 = a^2 + b^2 *)
  Theorem std_formula (n x r y a b m : F) :
    m * m = a * a + b * b ->
    std2_cell (Some (V n x)) (Some (V r y)) (V a b) = V (n * n + (r * m) * (r * m)) 0.
  Proof. exact (std2_cell_formula Fth n x r y a b m). Qed.
  Theorem std_formula_nf_only (n x : F) (o : @cell F) :
    std2_cell (Some (V n x)) None o = V (n * n) 0.
  Proof. exact (std2_cell_nf_only Fth n x o). Qed.
  Theorem std_formula_re_only (r y a b m : F) :
    m * m = a * a + b * b ->
    std2_cell None (Some (V r y)) (V a b) = V ((r * m) * (r * m)) 0.
  Proof. exact (std2_cell_re_only Fth r y a b m). Qed.

  (* misfit = 1/2 * sum over the finite summands |syn - obs|^2 / std^2 *)
  Theorem misfit_formula (l : list (option F)) :
    misfit_of l = fsum (finite_terms l) / (1 + 1).
  Proof. unfold misfit_of. exact (f_equal (fun x => x / (1 + 1)) (osum_finite l)). Qed.
  Theorem misfit_summand (a b c d v x : F) :
    term (V a b) (V c d) (V v x) = Some (((c - a) * (c - a) + (d - b) * (d - b)) / v).
  Proof. exact (term_spec a b c d v x). Qed.
  Theorem misfit_skips_nan_observation (s sd : @cell F) : term NaN s sd = None.
  Proof. exact (term_nan_obs s sd). Qed.

  (* invariance under EVERY permutation of the data, in particular under every
     re-ordering of sources, receivers and frequencies *)
  Theorem misfit_perm_invariant (l l' : list (option F)) :
    Permutation l l' -> misfit_of l = misfit_of l'.
  Proof. exact (misfit_of_perm Fth l l'). Qed.
  Theorem misfit_axes_perm_invariant (ob sy sd : @cube F) Is Is' Js Js' Ks Ks' :
    Permutation Is Is' -> Permutation Js Js' -> Permutation Ks Ks' ->
    misfit_of (terms_idx ob sy sd Is Js Ks) = misfit_of (terms_idx ob sy sd Is' Js' Ks').
  Proof.
    intros HI HJ HK.
    exact (misfit_of_perm Fth _ _ (terms_idx_perm ob sy sd Is Is' Js Js' Ks Ks' HI HJ HK)).
  Qed.
End C13.

(* ---- the unrepaired add_noise violates the frame property (witness on Q) *)
Theorem settings_frame_refuted :
  exists (ops : list (@op Q)) (w : qworld) (i : nat),
    wf w /\ (i < length (svs w))%nat /\
    (forall o, In o ops -> is_setter_on i o = false) /\
    settings_at (run qltb ex_off true ops w) i <> settings_at w i.
Proof. exact frame_refuted. Qed.

Theorem settings_frame_refuted_through_shared_selection :
  settings_at (run qltb ex_off true [OSelect 0 None None None false; ex_an 1] ex_w) 0
  <> settings_at ex_w 0.
Proof. exact frame_refuted_parent. Qed.

(* ---- non-vacuity *)
Example settings_frame_nonvacuous :
  wf ex_w /\ (forall o, In o ex_ops -> is_setter_on 0 o = false) /\
  settings_at (run qltb ex_off false ex_ops ex_w) 0 = Some (SCube ex_nf, SNone, None) /\
  length (svs (run qltb ex_off false ex_ops ex_w)) = 4%nat.
Proof. exact (conj ex_w_wf (conj ex_ops_no_setter ex_ops_frame)). Qed.

Example std_formula_nonvacuous :
  std2_cell (Some (V 1%Qc 0%Qc)) (Some (V c2 0%Qc)) (V c3 c4)
  = V (1 * 1 + (c2 * c5) * (c2 * c5))%Qc 0%Qc.
Proof. exact std_formula_instance. Qed.

Example misfit_perm_nonvacuous (x y z : Qc) :
  misfit_of [Some x; None; Some y; Some z] = misfit_of [Some z; Some y; None; Some x].
Proof. exact (misfit_perm_instance x y z). Qed.

Example cut_nonvacuous :
  d_cube (deref (hdat (run qltb ex_off false [ex_an 0] ex_w)) 0)
  = [[[Some ((7%Z, 2%Z), (9%Z, 2%Z))]; [None]]].
Proof. exact ex_cut. Qed.

Print Assumptions settings_frame.
Print Assumptions wf_invariant.
Print Assumptions copy_keeps_settings.
Print Assumptions select_exact_subcube.
Print Assumptions select_keys.
Print Assumptions std_none_iff_unset.
Print Assumptions std_explicit_wins.
Print Assumptions std_computed_pointwise.
Print Assumptions broadcast_spec.
Print Assumptions half_nf_threshold.
Print Assumptions cuts_spec.
Print Assumptions cuts_spec_uncut_partial.
Print Assumptions std_formula.
Print Assumptions std_formula_nf_only.
Print Assumptions std_formula_re_only.
Print Assumptions misfit_formula.
Print Assumptions misfit_summand.
Print Assumptions misfit_skips_nan_observation.
Print Assumptions misfit_perm_invariant.
Print Assumptions misfit_axes_perm_invariant.
Print Assumptions settings_frame_refuted.
Print Assumptions settings_frame_refuted_through_shared_selection.
Print Assumptions settings_frame_nonvacuous.
Print Assumptions std_formula_nonvacuous.
Print Assumptions misfit_perm_nonvacuous.
Print Assumptions cut_nonvacuous.
