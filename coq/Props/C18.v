(* Props/C18.v -- property C18: the command-line interface is equivalent to the
   Python API for every option.  ONLY statements, each closed by [exact] of a
   lemma from Proofs/, with Print Assumptions beneath.

   Tables (Gen/CliTable.v) are REGENERATED on every run from the current
   emg3d/cli/{main,parser,run}.py, docs/manual/cli.rst and the API signatures:
     parser_table    which key of which section is read with which typed reader,
                     and where the value is stored in the parser's result
     doc_table       documented sections / keys / types (cli.rst)
     doc_flags       documented "Also via `--flag`" equivalences (cli.rst)
     term_args       argparse flags and destinations (main.py)
     term_consumed   terminal keys popped by the parser; term_overrides: which
                     terminal key overrides which option
     api_accepts     keyword sets accepted by the API function each result
                     dictionary is routed to (inspect.signature + explicit key lists)
     key_translation renamings run.py applies before the API call
     rejecting_sections, section_order, routes, files_keys, files_emitted
   The statements about tables are FINITE (bound: the tables), decided by
   vm_compute.  The statements about [parse] / [run] (Model/Cli.v, the model
   that interprets the tables and is compared with the implementation on every
   run) hold for ALL configurations, terminal dictionaries and path oracles. *)
From Coq Require Import String Ascii List ZArith Bool.
From V Require Import Model.CliTypes Gen.CliTable Model.Cli Proofs.Cli Proofs.CliTables Proofs.CliExtra.
Import ListNotations.
Local Open Scope string_scope.
Local Open Scope list_scope.
Local Open Scope Z_scope.

(* ------------------------------------------------------------------ tables *)

(* Every documented key is read by the parser, with the documented type. *)
Theorem doc_keys_parsed : forall s k t, In (s, k, t) doc_table ->
  (s = "files" /\ In k ("path" :: files_keys) /\ t = TStr) \/
  (exists e, In e parser_table /\ p_sec e = s /\ p_key e = k /\ p_ty e = t).
Proof. exact doc_keys_parsed_P. Qed.
Print Assumptions doc_keys_parsed.

(* Every key the parser can emit is accepted by the API function its
   dictionary is routed to (under the name run.py hands it on with), and every
   nested dictionary is accepted by its parent. *)
Theorem parsed_keys_accepted_downstream : forall e, In e parser_table ->
  accepted (p_path e) (translate_key (p_path e) (p_key e)) = true /\
  nesting_ok (p_path e) = true.
Proof. exact parsed_keys_accepted_P. Qed.
Print Assumptions parsed_keys_accepted_downstream.

(* [translate_key] is the key the model of run.py passes to the constructor. *)
Theorem api_receives_translated_key : forall o,
  translate_opt key_translation o =
  (fst (fst o), translate_key (fst (fst o)) (snd (fst o)), snd o).
Proof. exact translate_opt_key. Qed.
Print Assumptions api_receives_translated_key.

(* Every documented terminal flag exists in argparse, its destination is
   consumed by the parser and overrides the documented option. *)
Theorem doc_flags_exist : forall s k f, In (s, k, f) doc_flags ->
  exists dest, In (f, dest) term_args /\ In dest term_consumed /\
               exists o, In o term_overrides /\ o_dest o = dest /\ o_sec o = s /\ o_key o = k.
Proof. exact doc_flags_P. Qed.
Print Assumptions doc_flags_exist.

(* argparse destinations and the keys the front end pops agree. *)
Theorem term_args_consumed :
  (forall f dest, In (f, dest) term_args ->
                  In dest term_consumed \/ In dest term_popped_in_main) /\
  (forall dest, In dest term_consumed -> exists f, In (f, dest) term_args).
Proof. exact term_args_consumed_P. Qed.
Print Assumptions term_args_consumed.

(* Every documented / parsed section rejects unknown keys. *)
Theorem sections_reject_unknown :
  (forall s k t, In (s, k, t) doc_table -> In s rejecting_sections) /\
  (forall s, In s ("files" :: section_order) -> In s rejecting_sections) /\
  (forall e, In e parser_table -> In (p_sec e) section_order).
Proof. exact sections_reject_P. Qed.
Print Assumptions sections_reject_unknown.

(* The parsed dictionaries are routed to the API calls; every [files] key the
   parser emits is read by run.py. *)
Theorem routes_present :
  In ("simulation_options", "Simulation") routes /\ In ("noise_kwargs", "compute") routes.
Proof. exact routes_P. Qed.
Print Assumptions routes_present.

Theorem files_keys_read : forall k, In k files_emitted -> accepted "files" k = true.
Proof. exact files_read_P. Qed.
Print Assumptions files_keys_read.

(* ------------------------------------------- parse: all configurations *)

(* An unknown key in any section makes parsing fail. *)
Theorem unknown_key_rejected : forall ap c t sec k v,
  In sec section_order -> In (k, v) (cfg_section c sec) ->
  known_key parser_table sec k = false -> forall o, parse ap c t <> Ok o.
Proof. exact unknown_key_rejected_i. Qed.
Print Assumptions unknown_key_rejected.

Theorem unknown_file_key_rejected : forall ap c t k v,
  In (k, v) (cfg_section c "files") -> k <> "path" -> ~ In k files_keys ->
  forall o, parse ap c t <> Ok o.
Proof. exact unknown_file_key_rejected_i. Qed.
Print Assumptions unknown_file_key_rejected.

Example unknown_key_rejected_ex :
  parse (fun s => s) [("solver_opts", [("maxit", "3"); ("another", "True")])]
        (Term 0 None false false None false false false
              None None None None None None None false)
  = Err (ETypeError "solver_opts").
Proof. vm_compute. reflexivity. Qed.
Print Assumptions unknown_key_rejected_ex.

(* The value handed to the API is the typed reading of the text. *)
Theorem typed_value_roundtrip : forall ap c t o e s,
  parse ap c t = Ok o -> In e parser_table ->
  (forall dest, override_dest term_overrides e = Some dest -> term_value t dest = None) ->
  cfg_get c (p_sec e) (p_key e) = Some s ->
  exists ov, read_value (p_ty e) s = Ok ov /\
             forall v, ov = Some v -> In (p_path e, p_key e, v) (o_opts o).
Proof. exact typed_value_roundtrip_i. Qed.
Print Assumptions typed_value_roundtrip.

Example typed_value_roundtrip_ex :
  match parse (fun s => s)
              [("solver_opts", [("tol", "1e-4"); ("plain", "yes")]);
               ("gridding_opts", [("domain", "-2000, 2000; None; -4000, 1.5")])]
              (Term 0 None false false None false false false
                    None None None None None None None false) with
  | Ok o => opt_lookup (o_opts o) "simulation_options.solver_opts" "tol"
            = Some (VFloat (FNum false 1 (-4)))
            /\ opt_lookup (o_opts o) "simulation_options.solver_opts" "plain" = Some (VBool true)
            /\ opt_lookup (o_opts o) "simulation_options.gridding_opts" "domain"
               = Some (VLoL3 (IFloats [FNum true 2000 0; FNum false 2000 0]) INone
                             (IFloats [FNum true 4000 0; FNum false 15 (-1)]))
  | Err _ => False
  end.
Proof. vm_compute. repeat split. Qed.
Print Assumptions typed_value_roundtrip_ex.

(* [data] sources / receivers / frequencies (every TStrList option): whatever
   list of names is written -- comma separated, names without commas and
   without surrounding blanks -- the parser hands on exactly that list: ORDER
   AS WRITTEN, repeated names KEPT (no sorting, no de-duplication).  Together
   with [typed_value_roundtrip] this is what reaches Survey.select. *)
Theorem strlist_order_as_written : forall names,
  names <> [] ->
  Forall (fun n => lacks ","%char n = true /\ trim n = n) names ->
  String.concat "," names <> EmptyString ->
  read_value TStrList (String.concat "," names) = Ok (Some (VStrs names)).
Proof. exact strlist_as_written. Qed.
Print Assumptions strlist_order_as_written.

(* not sorted, blanks stripped, repeated name kept, trailing comma = empty name *)
Example strlist_order_as_written_ex :
  read_value TStrList "RxEP-3, RxEP-10 ,RxEP-3,RxEP-2,"
  = Ok (Some (VStrs ["RxEP-3"; "RxEP-10"; "RxEP-3"; "RxEP-2"; ""]))
  /\ forallb (fun e => match p_ty e with
                       | TStrList => String.eqb (p_path e) "data"
                       | _ => negb (String.eqb (p_path e) "data" && negb (String.eqb (p_key e) "remove_empty"))
                       end) parser_table = true.
Proof. vm_compute. split; reflexivity. Qed.
Print Assumptions strlist_order_as_written_ex.

(* A terminal argument overrides the configuration file. *)
Theorem terminal_overrides_file : forall ap c t o e dest v,
  parse ap c t = Ok o -> In e parser_table ->
  override_dest term_overrides e = Some dest -> term_value t dest = Some v ->
  In (p_path e, p_key e, v) (o_opts o).
Proof. exact terminal_overrides_file_i. Qed.
Print Assumptions terminal_overrides_file.

Theorem terminal_file_overrides : forall ap c t o key f,
  parse ap c t = Ok o ->
  In key files_keys -> key <> "cache" -> key <> "load" -> key <> "save" ->
  term_file t key = Some f -> f <> "" ->
  In (key, Some (fix_suffix (join (files_path ap c t) f))) (o_files o).
Proof. exact terminal_file_overrides_i. Qed.
Print Assumptions terminal_file_overrides.

Theorem terminal_path_overrides : forall ap c t p,
  t_path t = Some p -> files_path ap c t = ap p.
Proof. exact terminal_path_overrides_g. Qed.
Print Assumptions terminal_path_overrides.

Example terminal_overrides_file_ex :
  match parse (fun s => s)
              [("files", [("path", "/a"); ("survey", "mine.npz"); ("cache", "c.json")]);
               ("simulation", [("max_workers", "5"); ("layered", "False")])]
              (Term 0 (Some 3) false false (Some true) false false false
                    (Some "/b") (Some "other") None None None None None false) with
  | Ok o => opt_lookup (o_opts o) "simulation_options" "max_workers" = Some (VInt 3)
            /\ opt_lookup (o_opts o) "simulation_options" "layered" = Some (VBool true)
            /\ assoc "survey" (o_files o) = Some (Some "/b/other.h5")
            /\ assoc "load" (o_files o) = Some (Some "/b/c.json")
            /\ assoc "save" (o_files o) = Some (Some "/b/c.json")
  | Err _ => False
  end.
Proof. vm_compute. repeat split. Qed.
Print Assumptions terminal_overrides_file_ex.

(* --------------------------------------------------- run: all outputs *)

(* The computing calls the front end makes for each function are exactly the
   reference API script (forward: compute(observed=True, **noise), observed
   data; misfit: compute(), synthetic data, misfit; gradient: + gradient). *)
Theorem run_equiv : forall o sim_layered,
  o_dry_run o = false -> In (o_function o) ["forward"; "misfit"; "gradient"] ->
  filter is_compute (run o true sim_layered)
  = api_script (o_function o) (noise_opts o).
Proof. exact (run_equiv_g key_translation clean_mode). Qed.
Print Assumptions run_equiv.

Theorem dry_run_computes_nothing : forall o sim_layered,
  o_dry_run o = true -> filter is_compute (run o true sim_layered) = [].
Proof. exact (dry_run_computes_nothing_g key_translation clean_mode). Qed.
Print Assumptions dry_run_computes_nothing.

Theorem output_written_last : forall o sim_layered,
  exists pre, run o true sim_layered
              = pre ++ [CSaveOut (file_str o "output") (out_keys (o_function o))].
Proof. exact (output_written_last_g key_translation clean_mode). Qed.
Print Assumptions output_written_last.

(* Without `load` the Simulation is built from ALL parsed simulation options
   (none is dropped), under their translated names. *)
Theorem new_sim_gets_all_options : forall o sim_layered,
  file_of o "load" = None ->
  In (CNewSim (sim_opts key_translation o) (Z.ltb (o_verbosity o) 1)) (run o true sim_layered) /\
  forall op, In op (opt_dedup (o_opts o)) -> under "simulation_options" op = true ->
             In (translate_opt key_translation op) (sim_opts key_translation o).
Proof. exact (new_sim_gets_all_options_g key_translation clean_mode). Qed.
Print Assumptions new_sim_gets_all_options.

(* With `load` neither the survey nor the simulation options are used. *)
Theorem load_ignores_config : forall o sim_layered f,
  file_of o "load" = Some f ->
  filter is_build (run o true sim_layered) = [] /\ In (CLoadSim f) (run o true sim_layered).
Proof. exact (load_ignores_config_g key_translation clean_mode). Qed.
Print Assumptions load_ignores_config.

(* --load/--cache + --clean: the loaded simulation is cleaned with the mode
   run.py uses ([clean_mode], regenerated from run.py) and gets the new model
   before anything is computed or read from it ... *)
Theorem clean_branch_cleans_first : forall o sim_layered f,
  file_of o "load" = Some f -> o_clean o = true ->
  exists rest, run o true sim_layered
               = [CLoadSim f; CClean clean_mode; CLoadModel (file_str o "model"); CSetModel] ++ rest
               /\ filter is_compute rest = filter is_compute (compute_calls o).
Proof. exact (clean_branch_g key_translation clean_mode). Qed.
Print Assumptions clean_branch_cleans_first.

(* ... and that mode of Simulation.clean ([clean_resets], regenerated from
   emg3d/simulations.py) leaves NO result of the old model behind, whatever
   the loaded simulation held: fields, synthetic data, residual, weights,
   computed flag, misfit, gradient. *)
Theorem clean_leaves_no_old_result : forall st n,
  In n old_results -> ~ In n (apply_clean clean_resets clean_mode st).
Proof. exact clean_leaves_no_old_result_P. Qed.
Print Assumptions clean_leaves_no_old_result.

Example clean_leaves_no_old_result_ex :
  apply_clean clean_resets clean_mode
              ["_dict_efield"; "data.observed"; "data.synthetic"; "_misfit"; "_gradient"]
  = ["data.observed"].
Proof. vm_compute. reflexivity. Qed.
Print Assumptions clean_leaves_no_old_result_ex.

Example run_equiv_ex :
  match parse (fun s => s)
              [("noise_opts", [("add_noise", "False")]);
               ("gridding_opts", [("frequency", "2.0")])]
              (Term 0 (Some 1) false false None false false true
                    (Some "/d") None None None None None None false) with
  | Ok o => run o true false
            = [CLoadSurvey "/d/survey.h5"; CLoadModel "/d/model.h5";
               CNewSim [("simulation_options", "max_workers", VInt 1);
                        ("simulation_options", "name", VStr "emg3d CLI run");
                        ("simulation_options", "receiver_interpolation", VStr "linear");
                        ("simulation_options.gridding_opts", "frequency",
                         VFloat (FNum false 20 (-1)))] true;
               CCompute false []; CGetSynthetic; CGetMisfit; CGetCount; CGetGradient;
               CSaveOut "/d/emg3d_out.h5"
                        ["configuration"; "data"; "misfit"; "n_observations"; "gradient"]]
  | Err _ => False
  end.
Proof. vm_compute. reflexivity. Qed.
Print Assumptions run_equiv_ex.

(* ------------------------------------------------ round 7 additions *)

(* A section whose ONLY keys are unknown / mistyped options raises the
   TypeError naming that section -- whatever the terminal dictionary, the
   function and the rest of the file: the rejection does not depend on a
   documented option of the same section having been recognised
   ([only_unknown tbl sec kvs]: kvs is non-empty and no key of it is in the
   table of sec). *)
Theorem section_with_only_unknown_keys_rejected : forall c t fn sec,
  In sec section_order ->
  only_unknown parser_table sec (cfg_section c sec) ->
  parse_section parser_table parser_defaults term_overrides rejecting_sections c t fn sec
  = Err (ETypeError sec).
Proof. exact section_only_unknown_i. Qed.
Print Assumptions section_with_only_unknown_keys_rejected.

(* ... and this is the outcome of the whole parse when the other sections are
   empty (the [files] part being well-formed). *)
Theorem lone_unknown_section_rejected : forall ap c t sec fs,
  In sec section_order ->
  only_unknown parser_table sec (cfg_section c sec) ->
  (forall s, In s section_order -> s <> sec -> cfg_section c s = []) ->
  t_extra t = false ->
  parse_files rejecting_sections files_keys files_defaults ap c t = Ok fs ->
  parse ap c t = Err (ETypeError sec).
Proof. exact lone_unknown_section_rejected_i. Qed.
Print Assumptions lone_unknown_section_rejected.

(* Non-vacuity, and the same for [files]: for EVERY section of the regenerated
   tables a configuration holding nothing but one unknown option in that
   section is rejected with the TypeError of that section (finite: 7 sections
   on the pinned tree; decided by vm_compute on the regenerated tables). *)
Theorem lone_unknown_key_rejected_in_every_section : forall sec,
  In sec ("files" :: section_order) ->
  parse (fun s => s) [(sec, [("another_c18", "1")])] term_plain = Err (ETypeError sec).
Proof. exact lone_unknown_every_section_P. Qed.
Print Assumptions lone_unknown_key_rejected_in_every_section.

Example section_with_only_unknown_keys_rejected_ex :
  only_unknown parser_table "solver_opts" [("maxiter", "1"); ("tolerance", "1e-5")] /\
  parse (fun s => s) [("gridding_opts", [("min_width", "100")])] term_plain
  = Err (ETypeError "gridding_opts") /\
  parse (fun s => s) [("layered", [("methods", "prism")])] term_plain
  = Err (ETypeError "layered").
Proof.
  split; [split; [discriminate|]|split; vm_compute; reflexivity].
  intros k v [H|[H|[]]]; injection H as <- _; vm_compute; reflexivity.
Qed.
Print Assumptions section_with_only_unknown_keys_rejected_ex.

(* The API calls of a run do not depend on the NAMES -- hence on the formats
   .h5 / .npz / .json -- of the survey, model, simulation and output files: two
   parse results that agree on everything but file names (the same files being
   present) issue the same calls up to the file-name arguments.  What the API
   then does with the objects it loads from a file of each format is outside
   this model (opaque results of io.load); it is compared end to end for every
   format on every run (py/props/c18.py, `format` stream). *)
Theorem run_calls_independent_of_file_format : forall o1 o2 files_ok sim_layered,
  same_but_file_names o1 o2 ->
  map strip_file (run o1 files_ok sim_layered) = map strip_file (run o2 files_ok sim_layered).
Proof. exact run_format_independent_i. Qed.
Print Assumptions run_calls_independent_of_file_format.

Example run_calls_independent_of_file_format_ex :
  match parse (fun s => s) [("files", [("survey", "s.npz"); ("model", "m.json")]);
                            ("simulation", [("gridding", "frequency")])] term_plain,
        parse (fun s => s) [("files", [("survey", "s.h5"); ("model", "m.h5")]);
                            ("simulation", [("gridding", "frequency")])] term_plain with
  | Ok o1, Ok o2 => run o1 true false <> run o2 true false /\
                    map strip_file (run o1 true false) = map strip_file (run o2 true false) /\
                    In (CLoadSurvey "./s.npz") (run o1 true false)
  | _, _ => False
  end.
Proof. vm_compute. split; [discriminate|split; [reflexivity|tauto]]. Qed.
Print Assumptions run_calls_independent_of_file_format_ex.
